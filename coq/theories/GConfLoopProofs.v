(* GConfLoopProofs.v — facts about GConfLoop.loop used by the translator ties (coq/ties).

   The ties have to recognise what a regenerated loop computes whatever its body looks like
   (order of lets, nesting of ifs, helper functions inlined or not, exit values packed
   differently).  Every lemma here therefore takes the loop body F as an arbitrary function
   and asks only for a *pointwise* fact about F (no induction left), which the tie discharges
   by computation and case analysis.

   - loops without carried variables (state unit) are searches: unit_loop_spec relates them to
     [find] over a view of the items (the items themselves, `indexed l`, or the indices
     `seq 0 (length l)` of an index loop);
   - in-place loops over the entries of a map / the items of a list that replace each child
     c by f c and stop at the first failure: inplace_map_loop, inplace_list_loop (range form)
     and inplace_list_seq (index form);
   - the key-collecting loop of keySet (with or without the carried hasDefault flag);
   - the path walk of extract.                                                             *)
From Coq Require Import List String Bool Arith Lia.
Import ListNotations.
From GT Require Import GConfModel GConfProofs GConfLoop GConfGenPrims GConfGenProofs.

(* ------------------------------------------------------------------ generic *)
Lemma loop_ext_in : forall {S A X} (F G : S -> A -> step S X) l s,
  (forall a, In a l -> forall s', F s' a = G s' a) -> loop F l s = loop G l s.
Proof.
  intros S A X F G l. induction l as [|a l IH]; intros s H; [reflexivity|].
  cbn [loop]. rewrite (H a (or_introl eq_refl)). destruct (G s a); [|reflexivity].
  apply IH. intros b Hb. apply H. right. exact Hb.
Qed.

Lemma loop_next_fold : forall {S A X} (F : S -> A -> step S X) (G : S -> A -> S) l s,
  (forall s' a, F s' a = Next (G s' a)) -> loop F l s = Next (fold_left G l s).
Proof.
  intros S A X F G l. induction l as [|a l IH]; intros s H; [reflexivity|].
  cbn [loop fold_left]. rewrite H. apply IH. exact H.
Qed.

(* ------------------------------------------------------------------ views of the items *)
Lemma map_snd_indexed : forall {A} (l : list A), map snd (indexed l) = l.
Proof.
  intros A l. unfold indexed. generalize 0. induction l as [|a l IH]; intros n; [reflexivity|].
  cbn. f_equal. apply IH.
Qed.

Lemma map_nth_seq : forall {A} (l : list A) d, map (fun i => nth i l d) (seq 0 (List.length l - 0)) = l.
Proof.
  intros A l d. rewrite Nat.sub_0_r.
  assert (H : forall pre, map (fun i => nth i (pre ++ l) d) (seq (List.length pre) (List.length l)) = l).
  { induction l as [|a l IH]; intros pre; [reflexivity|]. cbn [List.length seq map]. f_equal.
    - rewrite app_nth2 by lia. rewrite Nat.sub_diag. reflexivity.
    - specialize (IH (pre ++ [a])). rewrite <- app_assoc in IH. cbn [app] in IH.
      rewrite app_length in IH. cbn [List.length] in IH. rewrite Nat.add_1_r in IH. exact IH. }
  exact (H []).
Qed.

(* ------------------------------------------------------------------ loops without state *)
Lemma unit_loop_spec : forall {I A X} (F : unit -> I -> step unit X) (view : I -> A) (Q : A -> bool) items u,
  (forall it, In it items -> is_exit (F tt it) = Q (view it)) ->
  match find Q (map view items) with
  | None => loop F items u = Next tt
  | Some a => exists it, In it items /\ view it = a /\ Q a = true /\ loop F items u = F tt it
  end.
Proof.
  intros I A X F view Q items. induction items as [|it items IH]; intros [] H.
  - reflexivity.
  - cbn [map find loop]. pose proof (H it (or_introl eq_refl)) as Hit.
    destruct (Q (view it)) eqn:EQ.
    + exists it. split; [left; reflexivity|]. split; [reflexivity|]. split; [exact EQ|].
      destruct (F tt it); [discriminate| reflexivity].
    + destruct (F tt it) as [[]|x]; [|discriminate].
      specialize (IH tt (fun it' Hin => H it' (or_intror Hin))).
      destruct (find Q (map view items)) as [a|]; [|exact IH].
      destruct IH as [it' [Hin [Hv [Hq Hl]]]]. exists it'. split; [right; exact Hin|]. repeat split; assumption.
Qed.

Lemma unit_loop_plain : forall {A X} (F : unit -> A -> step unit X) (Q : A -> bool) l u,
  (forall a, In a l -> is_exit (F tt a) = Q a) ->
  match find Q l with
  | None => loop F l u = Next tt
  | Some a => In a l /\ Q a = true /\ loop F l u = F tt a
  end.
Proof.
  intros A X F Q l u H. pose proof (unit_loop_spec F (fun a => a) Q l u H) as P.
  rewrite map_id in P. destruct (find Q l) as [a|]; [|exact P].
  destruct P as [it [Hin [-> [Hq Hl]]]]. repeat split; assumption.
Qed.

Lemma unit_loop_indexed : forall {A X} (F : unit -> nat * A -> step unit X) (Q : A -> bool) l u,
  (forall i a, In a l -> is_exit (F tt (i, a)) = Q a) ->
  match find Q l with
  | None => loop F (indexed l) u = Next tt
  | Some a => exists i, In a l /\ Q a = true /\ loop F (indexed l) u = F tt (i, a)
  end.
Proof.
  intros A X F Q l u H.
  assert (H' : forall it, In it (indexed l) -> is_exit (F tt it) = Q (snd it)).
  { intros [i a] Hin. apply H. unfold indexed in Hin. apply in_combine_r in Hin. exact Hin. }
  pose proof (unit_loop_spec F snd Q (indexed l) u H') as P.
  rewrite map_snd_indexed in P. destruct (find Q l) as [a|]; [|exact P].
  destruct P as [[i a'] [Hin [Hv [Hq Hl]]]]. cbn [snd] in Hv. subst a'. exists i.
  split; [unfold indexed in Hin; apply in_combine_r in Hin; exact Hin|]. split; assumption.
Qed.

Lemma unit_loop_seq : forall {A X} (F : unit -> nat -> step unit X) (Q : A -> bool) (l : list A) d u,
  (forall i, In (nth i l d) l -> is_exit (F tt i) = Q (nth i l d)) ->
  match find Q l with
  | None => loop F (seq 0 (List.length l - 0)) u = Next tt
  | Some a => exists i, nth i l d = a /\ Q a = true /\ loop F (seq 0 (List.length l - 0)) u = F tt i
  end.
Proof.
  intros A X F Q l d u H.
  assert (H' : forall it, In it (seq 0 (List.length l - 0)) -> is_exit (F tt it) = Q (nth it l d)).
  { intros it Hin. apply H. apply nth_In. apply in_seq in Hin. lia. }
  pose proof (unit_loop_spec F (fun i => nth i l d) Q (seq 0 (List.length l - 0)) u H') as P.
  rewrite map_nth_seq in P. destruct (find Q l) as [a|]; [|exact P].
  destruct P as [i [_ [Hv [Hq Hl]]]]. exists i. repeat split; assumption.
Qed.

Lemma find_none_forallb : forall {A} (p : A -> bool) l,
  find (fun a => negb (p a)) l = None -> forallb p l = true.
Proof.
  intros A p l. induction l as [|a l IH]; [reflexivity|]. cbn. destruct (p a); cbn; [exact IH| discriminate].
Qed.

Lemma find_some_forallb : forall {A} (p : A -> bool) l a,
  find (fun a => negb (p a)) l = Some a -> forallb p l = false.
Proof.
  intros A p l a. induction l as [|b l IH]; [discriminate|]. cbn. destruct (p b); cbn; [exact IH| reflexivity].
Qed.

(* the search for the first dimension under which every candidate key parses *)
Definition dim_parses_all (keys : list string) (dp : dimptr) : bool :=
  match dp with Some d => forallb (parses d) keys | None => false end.

Lemma find_dims : forall dims keys,
  find (dim_parses_all keys) (map Some dims) = option_map Some (switch_dimension dims keys).
Proof.
  intros dims keys. induction dims as [|d dims IH]; [reflexivity|].
  cbn [map find switch_dimension dim_parses_all]. destruct (forallb (parses d) keys); [reflexivity| exact IH].
Qed.

(* ------------------------------------------------------------------ keySet *)
Lemma keyset_loop_flag : forall {X} (F : list string * bool -> string * tree -> step (list string * bool) X),
  (forall r h k c, F (r, h) (k, c) = Next (if is_default k then (r, true) else (r ++ [k], h))) ->
  forall (kv : gomap) r h,
  loop F kv (r, h) = Next (r ++ nondefault_keys kv, h || existsb is_default (map fst kv)).
Proof.
  intros X F HF kv. induction kv as [|[k c] kv IH]; intros r h.
  - cbn. rewrite app_nil_r, orb_false_r. reflexivity.
  - cbn [loop]. rewrite HF. unfold nondefault_keys. cbn [map fst filter existsb].
    destruct (is_default k); cbn [negb].
    + rewrite IH. unfold nondefault_keys. rewrite orb_true_r. reflexivity.
    + rewrite IH. unfold nondefault_keys. rewrite <- app_assoc. reflexivity.
Qed.

Lemma keyset_loop_keys : forall {X} (F : list string -> string * tree -> step (list string) X),
  (forall r k c, F r (k, c) = Next (if is_default k then r else r ++ [k])) ->
  forall (kv : gomap) r, loop F kv r = Next (r ++ nondefault_keys kv).
Proof.
  intros X F HF kv. induction kv as [|[k c] kv IH]; intros r.
  - cbn. rewrite app_nil_r. reflexivity.
  - cbn [loop]. rewrite HF. unfold nondefault_keys. cbn [map fst filter].
    destruct (is_default k); cbn [negb].
    + rewrite IH. reflexivity.
    + rewrite IH. unfold nondefault_keys. rewrite <- app_assoc. reflexivity.
Qed.

(* ------------------------------------------------------------------ in-place loops
   The pointwise fact is asked only for the entries / items of the container itself, so that the
   function applied to the children (the recursive call) needs to be known on children only. *)
Lemma inplace_map_loop : forall {X} (f : tree -> res tree) (F : gomap -> string * tree -> step gomap X) (x : gomap -> X)
  (suf pre : gomap),
  (forall m k c, In (k, c) suf -> F m (k, c) = match f c with Ok r => Next (map_set m k r) | Err => Exit (x m) end) ->
  NoDup (map fst (pre ++ suf)) ->
  match seq_kv (rmap f suf) with
  | Ok r => loop F suf (pre ++ suf) = Next (pre ++ r)
  | Err => exists m', loop F suf (pre ++ suf) = Exit (x m')
  end.
Proof.
  intros X f F x. induction suf as [|[k c] suf IH]; intros pre HF Hnd.
  - cbn. rewrite app_nil_r. reflexivity.
  - cbn [rmap map seq_kv fst snd loop]. fold (rmap f suf). rewrite (HF _ k c (or_introl eq_refl)).
    destruct (f c) as [r|] eqn:Efc.
    + rewrite (map_set_middle pre k c suf r (nodup_mid pre k c suf Hnd)).
      replace (pre ++ (k, r) :: suf) with ((pre ++ [(k, r)]) ++ suf) by (rewrite <- app_assoc; reflexivity).
      assert (Hnd' : NoDup (map fst ((pre ++ [(k, r)]) ++ suf))) by (rewrite <- (keys_mid pre k c r suf); exact Hnd).
      specialize (IH (pre ++ [(k, r)]) (fun m k' c' Hin => HF m k' c' (or_intror Hin)) Hnd').
      destruct (seq_kv (rmap f suf)) as [r'|].
      * rewrite IH. rewrite <- app_assoc. reflexivity.
      * exact IH.
    + eexists. reflexivity.
Qed.

Lemma inplace_list_loop : forall {X} (f : tree -> res tree) (F : list tree -> nat * tree -> step (list tree) X) (x : list tree -> X)
  (suf pre : list tree),
  (forall m i c, In c suf -> F m (i, c) = match f c with Ok r => Next (slice_set m i r) | Err => Exit (x m) end) ->
  match seq_list (map f suf) with
  | Ok r => loop F (combine (seq (List.length pre) (List.length suf)) suf) (pre ++ suf) = Next (pre ++ r)
  | Err => exists m', loop F (combine (seq (List.length pre) (List.length suf)) suf) (pre ++ suf) = Exit (x m')
  end.
Proof.
  intros X f F x. induction suf as [|c suf IH]; intros pre HF.
  - cbn. rewrite app_nil_r. reflexivity.
  - cbn [List.length seq combine map seq_list loop]. rewrite (HF _ _ c (or_introl eq_refl)).
    destruct (f c) as [r|] eqn:Efc.
    + rewrite (slice_set_middle pre c suf r).
      replace (pre ++ r :: suf) with ((pre ++ [r]) ++ suf) by (rewrite <- app_assoc; reflexivity).
      replace (S (List.length pre)) with (List.length (pre ++ [r])) by (rewrite app_length; cbn; lia).
      specialize (IH (pre ++ [r]) (fun m i c' Hin => HF m i c' (or_intror Hin))).
      destruct (seq_list (map f suf)) as [r'|].
      * rewrite IH. rewrite <- app_assoc. reflexivity.
      * exact IH.
    + eexists. reflexivity.
Qed.

(* index form: for i := 0; i < len(s); i++ { s[i] = f(s[i]) } — the item is read from the
   current state, which still holds the original item at every position not yet visited *)
Lemma inplace_list_seq : forall {X} (f : tree -> res tree) (F : list tree -> nat -> step (list tree) X) (x : list tree -> X)
  (suf pre : list tree),
  (forall m i c, In c suf -> nth i m Null = c ->
                 F m i = match f c with Ok r => Next (slice_set m i r) | Err => Exit (x m) end) ->
  match seq_list (map f suf) with
  | Ok r => loop F (seq (List.length pre) (List.length suf)) (pre ++ suf) = Next (pre ++ r)
  | Err => exists m', loop F (seq (List.length pre) (List.length suf)) (pre ++ suf) = Exit (x m')
  end.
Proof.
  intros X f F x. induction suf as [|c suf IH]; intros pre HF.
  - cbn. rewrite app_nil_r. reflexivity.
  - cbn [List.length seq map seq_list loop].
    assert (Hn : nth (List.length pre) (pre ++ c :: suf) Null = c)
      by (rewrite app_nth2 by lia; rewrite Nat.sub_diag; reflexivity).
    rewrite (HF _ _ c (or_introl eq_refl) Hn).
    destruct (f c) as [r|] eqn:Efc.
    + rewrite (slice_set_middle pre c suf r).
      replace (pre ++ r :: suf) with ((pre ++ [r]) ++ suf) by (rewrite <- app_assoc; reflexivity).
      replace (S (List.length pre)) with (List.length (pre ++ [r])) by (rewrite app_length; cbn; lia).
      specialize (IH (pre ++ [r]) (fun m i c' Hin => HF m i c' (or_intror Hin))).
      destruct (seq_list (map f suf)) as [r'|].
      * rewrite IH. rewrite <- app_assoc. reflexivity.
      * exact IH.
    + eexists. reflexivity.
Qed.

(* map_get on the `default` key *)
Lemma map_get_default : forall (kv : gomap),
  map_get kv default_key =
  match find (fun p : string * tree => is_default (fst p)) kv with
  | Some p => (snd p, true)
  | None => (Null, false)
  end.
Proof.
  intros kv. unfold map_get. rewrite <- (find_default_assoc tree kv).
  destruct (find (fun p : string * tree => is_default (fst p)) kv); reflexivity.
Qed.

(* ------------------------------------------------------------------ the path walk of extract
   (range form: state = last value, current map, found flag) *)
Lemma extract_loop_range : forall {X} (F : tree * gomap * bool -> nat * string -> step (tree * gomap * bool) X) (ex : X) n,
  (forall last m ok i k,
     F (last, m, ok) (i, k) =
     match assoc k m with
     | None => Exit ex
     | Some v => if negb (snd (as_map v)) && Nat.ltb i (n - 1) then Exit ex else Next (v, fst (as_map v), true)
     end) ->
  forall (suf : list string) i0 last (m : gomap) ok,
  n = i0 + List.length suf -> suf <> [] ->
  match extract m suf with
  | Some t => exists m', loop F (combine (seq i0 (List.length suf)) suf) (last, m, ok) = Next (t, m', true)
  | None => loop F (combine (seq i0 (List.length suf)) suf) (last, m, ok) = Exit ex
  end.
Proof.
  intros X F ex n HF. induction suf as [|k suf IH]; intros i0 last m ok Hn Hne; [congruence|].
  cbn [List.length seq combine loop extract]. rewrite HF.
  destruct (assoc k m) as [v|]; [|reflexivity].
  destruct suf as [|k2 suf2].
  - cbn [List.length] in Hn. replace (Nat.ltb i0 (n - 1)) with false by (symmetry; apply Nat.ltb_ge; lia).
    rewrite andb_false_r. cbn [seq combine loop]. eexists. reflexivity.
  - cbn [List.length] in Hn. replace (Nat.ltb i0 (n - 1)) with true by (symmetry; apply Nat.ltb_lt; lia).
    rewrite andb_true_r.
    destruct v as [s|s| |l|m2]; cbn [as_map snd fst negb]; try reflexivity.
    apply (IH (S i0) (Mp m2) m2 true); [cbn [List.length]; lia| discriminate].
Qed.

(* ------------------------------------------------------------------ the dimension values of a Config *)
Lemma dimvals_loop : forall {X} (F : dimvals -> nat * dimptr -> step dimvals X),
  (forall v i dp, F v (i, dp) = Next (dimvals_set v dp (dim_get dp))) ->
  forall (l : list dimptr) n v,
  loop F (combine (seq n (List.length l)) l) v = Next (v ++ map (fun dp => (dp, dim_get dp)) l).
Proof.
  intros X F HF l. induction l as [|dp l IH]; intros n v.
  - cbn. rewrite app_nil_r. reflexivity.
  - cbn [List.length seq combine loop map]. rewrite HF. rewrite IH. unfold dimvals_set.
    rewrite <- app_assoc. reflexivity.
Qed.

(* ------------------------------------------------------------------ the path walk of extract,
   prefix form: an index loop descends through the maps named by all but the last element of
   the path, then the last element is looked up *)
Fixpoint descend (m : gomap) (ks : list string) : option gomap :=
  match ks with
  | [] => Some m
  | k :: r => match assoc k m with Some (Mp m') => descend m' r | _ => None end
  end.

Lemma extract_snoc : forall ks k (m : gomap),
  extract m (ks ++ [k]) = match descend m ks with Some m' => assoc k m' | None => None end.
Proof.
  induction ks as [|k0 ks IH]; intros k m.
  - cbn. destruct (assoc k m); reflexivity.
  - cbn [app extract descend]. destruct (assoc k0 m) as [v|]; [|reflexivity].
    destruct (ks ++ [k]) as [|x r] eqn:E; [destruct ks; discriminate|]. rewrite <- E.
    destruct v; try reflexivity. apply IH.
Qed.

Lemma prefix_loop : forall {X} (F : gomap -> nat -> step gomap X) (ex : X) (keys : list string),
  (forall m i, F m i = match assoc (nth i keys EmptyString) m with Some (Mp m') => Next m' | _ => Exit ex end) ->
  forall n i0 (m : gomap),
  loop F (seq i0 n) m = match descend m (firstn n (skipn i0 keys)) with Some m' => Next m' | None => Exit ex end
  \/ List.length keys < i0 + n.
Proof.
  intros X F ex keys HF. induction n as [|n IH]; intros i0 m.
  - left. reflexivity.
  - destruct (Nat.lt_ge_cases (List.length keys) (i0 + S n)) as [Hlt|Hge]; [right; exact Hlt|]. left.
    cbn [seq loop]. rewrite HF.
    assert (Hs : skipn i0 keys = nth i0 keys EmptyString :: skipn (S i0) keys).
    { clear -Hge. revert i0 Hge. induction keys as [|k keys IHk]; intros i0 Hge; [cbn in Hge; lia|].
      destruct i0 as [|i0]; [reflexivity|]. cbn [skipn nth]. apply IHk. cbn in Hge. lia. }
    rewrite Hs. cbn [firstn descend].
    destruct (assoc (nth i0 keys EmptyString) m) as [[s|s| |l|m']|]; try reflexivity.
    destruct (IH (S i0) m') as [H|H]; [exact H| lia].
Qed.

Lemma nth_last_elt : forall (l : list string) d, l <> [] -> nth (List.length l - 1) l d = last l d.
Proof.
  induction l as [|a l IH]; intros d Hne; [congruence|]. destruct l as [|b l]; [reflexivity|].
  cbn [List.length last]. replace (S (S (List.length l)) - 1) with (S (List.length (b :: l) - 1)) by (cbn; lia).
  cbn [nth]. apply IH. discriminate.
Qed.
