(* GConfGenPrims.v — the Go primitives the translator harness/cmd/xlate_gconf maps the source
   of gconfig onto (no proofs).  The regenerated file GTgen.GConfGen is written in terms of
   these; coq/ties/Tie_C03.v relates it to the hand-written model GConfModel.

   Go                                   Gallina
   ----------------------------------   --------------------------------------------
   any (decoded yaml value)             tree
   map[string]any                       gomap  = list (string * tree)  (entries in `range` order)
   []any                                list tree
   []string, set.Set[string]            list string
   *dimension                           dimptr = option dim  (nil = None)
   []*dimension                         list dimptr
   genum.Enum (value of a dimension)    nat    (index of the constant)
   error                                bool   (true = non-nil)
   v, ok := m[k]                        map_get m k
   m[k] = v  (k present)                map_set m k v
   s[i] = v                             slice_set s i v
   m, ok = x.(map[string]any)           as_map x
   for i, el := range s                 indexed s
   d.defaultVal.ParseGeneric(k)         parse_generic d k
   d.get()                              dim_get d
   set.Add                              keys_add
   os.LookupEnv(name)                   os_lookup_env env name  (env = the process environment,
                                        an extra parameter)
   strings.ToUpper / ToLower            to_upper / to_lower  (ASCII names)
   make(map[string]any)                 map_empty
   map[reflect.Type]genum.Enum          dimvals = list (dimptr * nat): the dimension stands for
                                        the type of its enum; dims[t] = v is dimvals_set
   *Config                              config = option (dimvals * gomap)  (nil = None; the memo
                                        starts empty and is C10's subject)
   loops                                GConfLoop.loop                                   *)
From Coq Require Import List String Bool Arith.
From GT Require Import GConfModel GConfLoop.
Import ListNotations.

Definition gomap := list (string * tree).
Definition dimptr := option dim.

Definition map_get (m : gomap) (k : string) : tree * bool :=
  match assoc k m with Some v => (v, true) | None => (Null, false) end.

Fixpoint map_set (m : gomap) (k : string) (v : tree) : gomap :=
  match m with
  | [] => [(k, v)]
  | (k', v') :: rest => if String.eqb k k' then (k', v) :: rest else (k', v') :: map_set rest k v
  end.

Fixpoint slice_set (s : list tree) (i : nat) (v : tree) : list tree :=
  match s, i with
  | [], _ => []
  | _ :: rest, 0 => v :: rest
  | x :: rest, S j => x :: slice_set rest j v
  end.

Definition as_map (x : tree) : gomap * bool :=
  match x with Mp kv => (kv, true) | _ => ([], false) end.

Definition indexed {A} (s : list A) : list (nat * A) := combine (seq 0 (List.length s)) s.

Definition parse_generic (d : dimptr) (k : string) : nat * bool :=
  match d with
  | Some d' => match d_parse d' k with Some v => (v, false) | None => (0, true) end
  | None => (0, true)
  end.

Definition dim_get (d : dimptr) : nat := match d with Some d' => d_sel d' | None => 0 end.

Definition keys_empty : list string := [].
Definition keys_add (s : list string) (k : string) : list string := s ++ [k].

Definition os_lookup_env (env : list (string * string)) (name : string) : string * bool :=
  match assoc name env with Some v => (v, true) | None => (EmptyString, false) end.

(* s[i] on a []string *)
Definition str_nth (l : list string) (i : nat) : string := nth i l EmptyString.

Definition to_upper (s : string) : string := map_string upper_ascii s.
Definition to_lower (s : string) : string := map_string lower_ascii s.

Definition map_empty : gomap := [].

Definition dimvals := list (dimptr * nat).
Definition dimvals_empty : dimvals := [].
Definition dimvals_set (m : dimvals) (d : dimptr) (v : nat) : dimvals := m ++ [(d, v)].

Definition config := option (dimvals * gomap).
Definition nil_config : config := None.
Definition mk_config (d : dimvals) (m : gomap) : config := Some (d, m).
