(* GErrTie.v — support of the translator tie (T) for the heart of package gerror.

   harness/cmd/xlate_gerr_wiring (-fns) regenerates, from the CURRENT Go source, Gallina
   definitions gen_clone_base, gen_appends_clipped, gen_factory_of, gen_unwrap, gen_extract,
   gen_fn_<helper>, gen_is.  props/gerr_tie_lib.py appends the tie lemmas

     gen_clone_base .. = clone_base ..         gen_factory_of g = factory_of g
     gen_unwrap (VG i) (c_g c) = unwrap_val st (VG i)      gen_extract st v = extract_fref st v
     gen_is fuel st i err = gerr_is_gen true fuel st i err   (or = gerr_is_ty ..: pre-fix code)

   and proves them with the tactics below.  The proofs are SEMANTIC: both sides are unfolded to
   decision trees over the same opaque atoms (is_nil x, is_empty s, trim_space s, iface_eq a b,
   comparable v, nth_error st j, ...) and compared leaf by leaf after case analysis, so any
   equivalent rewrite of the Go code (reordered independent blocks, switch instead of if,
   helper functions, guard clauses, slices.ContainsFunc instead of a loop, ...) still proves,
   and a change of behaviour leaves an unprovable leaf (the lemma fails).

   This file: the combinators the generated code uses, and the Ltac.                         *)
From Coq Require Import NArith List Bool.
From GT Require Import Base.GErrStr GErrModel.
Import ListNotations.

(* unfold hints of the generated helper functions (gen_fn_<name>) and entry points *)
Create HintDb gerr_gen.

(* ---------------------------------------------------------------- combinators *)

(* the record read through a pointer obtained from a successful `err.(Error)`; a dangling
   index (outside every well-formed store) reads as the zero GError *)
Definition zero_gerr : gerr := mkG [] [] [] [] None VNil VNil [] false.
Definition rec_of (st : store) (j : nat) : gerr :=
  match nth_error st j with Some c => c_g c | None => zero_gerr end.

(* reflect.ValueOf(x).IsNil() for x a pointer: no [val] is a typed nil pointer (VNil is the nil
   interface, VG/VX are valid pointers, typed-nil gerror pointers are foreign values) *)
Definition typed_nil_ptr (v : val) : bool := false.
(* reflect.ValueOf(x).Kind() == reflect.Pointer; only meaningful as the guard of IsNil (the kind
   of a foreign value is not modelled) *)
Definition kind_is_ptr (v : val) : bool := is_gerr_val v.

(* short-circuit connectives over results that can panic; the second operand is a thunk *)
Definition rb_and (a : res bool) (k : unit -> res bool) : res bool :=
  match a with Ok true => k tt | Ok false => Ok false | Panic => Panic | Fuel => Fuel end.
Definition rb_or (a : res bool) (k : unit -> res bool) : res bool := bind_true a k.
Definition rb_not (a : res bool) : res bool :=
  match a with Ok b => Ok (negb b) | Panic => Panic | Fuel => Fuel end.
Definition rb_if (c t e : res bool) : res bool :=
  match c with Ok true => t | Ok false => e | Panic => Panic | Fuel => Fuel end.

(* `for _, x := range l { if p(x) { return true } }` *)
Fixpoint rb_exists (p : val -> res bool) (l : list val) : res bool :=
  match l with
  | [] => Ok false
  | s :: r => bind_true (p s) (fun _ => rb_exists p r)
  end.

(* ---------------------------------------------------------------- the search loop *)

Lemma rb_exists_eq :
  forall (cf : val -> val -> res bool) (lm : list val -> val -> res bool),
    (forall e, lm [] e = Ok false) ->
    (forall s r e, lm (s :: r) e = bind_true (cf s e) (fun _ => lm r e)) ->
    forall p l e, (forall s, p s = cf s e) -> rb_exists p l = lm l e.
Proof.
  intros cf lm Hnil Hcons p l e Hp. induction l as [|s r IH]; cbn [rb_exists].
  - symmetry. apply Hnil.
  - rewrite Hcons, Hp, IH. reflexivity.
Qed.

Lemma rb_exists_later_value :
  forall p l e, (forall s, p s = converted_from true s e) -> rb_exists p l = later_match true l e.
Proof. apply rb_exists_eq; reflexivity. Qed.

Lemma rb_exists_later_type :
  forall p l e, (forall s, p s = converted_from_ty s e) -> rb_exists p l = later_match_ty l e.
Proof. apply rb_exists_eq; reflexivity. Qed.

Lemma mkG_eq : forall a b c d e f g h i a' b' c' d' e' f' g' h' i',
  a = a' -> b = b' -> c = c' -> d = d' -> e = e' -> f = f' -> g = g' -> h = h' -> i = i' ->
  mkG a b c d e f g h i = mkG a' b' c' d' e' f' g' h' i'.
Proof. intros; subst; reflexivity. Qed.

(* ---------------------------------------------------------------- tactics *)

(* everything that is unfolded on both sides; NOT unfolded (atoms): is_nil (except in the Is
   tie), is_empty, trim_space, iface_eq, comparable, type_comparable, nth_error, app, later_match *)
Ltac gerr_unfold :=
  autounfold with gerr_gen;
  cbv beta iota zeta delta
    [rb_and rb_or rb_not rb_if bind_true negb andb orb nonempty has_stack
     typed_nil_ptr kind_is_ptr is_gerr_val rec_of zero_gerr
     converted_from converted_from_ty factory_of clone_base stack_type_eqb
     g_name g_msg g_src g_dtag g_stack g_fref g_serr g_later g_isfac c_g c_x
     fst snd dash sp].

(* destruct the innermost discriminee (one that contains no further match) inside [x] *)
Ltac gerr_innermost x :=
  lazymatch x with
  | context [match ?y with _ => _ end] => gerr_innermost y
  | _ => first [ is_var x; destruct x | let E := fresh "E" in destruct x eqn:E ]
  end.

(* an atom that was analysed before can reappear after reduction (is_empty (if c then a else b)
   becomes is_empty b): it is replaced by its recorded value, so that no inconsistent case is
   ever explored *)
Ltac gerr_known :=
  repeat match goal with
         | H : ?a = _ |- context [?a] => rewrite H
         end.

Ltac gerr_head t :=
  lazymatch t with
  | match ?x with _ => _ end => gerr_innermost x
  end.

(* an atom recorded as true says what the value IS: an empty string is [], a nil interface VNil
   (two different expressions that are both known to be empty are equal) *)
Lemma is_empty_true : forall s : str, is_empty s = true -> s = [].
Proof. intros [|c r] H; [reflexivity|discriminate]. Qed.
Lemma is_nil_true : forall v : val, is_nil v = true -> v = VNil.
Proof. intros [| | |] H; try discriminate; reflexivity. Qed.

Ltac gerr_facts :=
  repeat match goal with
         | H : is_empty ?x = true |- _ => apply is_empty_true in H; rewrite ?H
         | H : is_nil ?x = true |- _ => apply is_nil_true in H; rewrite ?H
         end.

Ltac gerr_leaf :=
  first [ reflexivity
        | rewrite <- ?app_assoc, ?app_nil_r; cbn [app]; reflexivity
        | gerr_facts; rewrite <- ?app_assoc, ?app_nil_r; cbn [app]; reflexivity ].

(* one step: reduce, replace known atoms, then (in this order) close the goal, use the induction
   hypothesis ([IHtac]), analyse the head discriminee of either side, split constructor
   equations, analyse any remaining discriminee *)
Ltac gerr_step IHtac :=
  cbv beta iota; gerr_known; cbv beta iota;
  lazymatch goal with
  | |- ?L = ?R =>
      first [ reflexivity
            | IHtac
            | gerr_head L
            | gerr_head R
            | apply mkG_eq
            | match goal with
              | |- Ok _ = Ok _ => apply f_equal
              | |- Some _ = Some _ => apply f_equal
              | |- (_, _) = (_, _) => apply f_equal2
              end
            | match goal with
              | |- context [match ?x with _ => _ end] => gerr_innermost x
              end ]
  end.

Ltac gerr_crush_with IHtac := gerr_unfold; repeat (gerr_step IHtac); gerr_leaf.
Ltac gerr_crush := gerr_crush_with fail.
(* the same with is_nil, as_gerror, extract_fref, unwrap_val transparent (case analysis on the values) *)
Ltac gerr_unfold_val :=
  autounfold with gerr_gen;
  cbv beta iota zeta delta
    [rb_and rb_or rb_not rb_if bind_true negb andb orb nonempty has_stack
     typed_nil_ptr kind_is_ptr is_gerr_val rec_of zero_gerr
     converted_from converted_from_ty factory_of clone_base stack_type_eqb
     g_name g_msg g_src g_dtag g_stack g_fref g_serr g_later g_isfac c_g c_x
     fst snd dash sp
     is_nil as_gerror extract_fref unwrap_val].
Ltac gerr_crush_val_with IHtac :=
  gerr_unfold_val; repeat (gerr_step IHtac); gerr_leaf.
Ltac gerr_crush_val := gerr_crush_val_with fail.

(* gen_clone_base / gen_factory_of: records *)
Ltac gerr_tie_rec := intros; gerr_crush.

(* gen_unwrap: forall st i c, nth_error st i = Some c -> gen_unwrap (VG i) (c_g c) = unwrap_val st (VG i) *)
Ltac gerr_tie_unwrap :=
  let H := fresh "H" in
  intros ? ? ? H; cbv delta [unwrap_val] beta iota; rewrite H; gerr_crush_val.

(* gen_extract st v = extract_fref st v *)
Ltac gerr_tie_extract := intros; gerr_crush_val.

(* ---- gen_is: induction on the fuel; [lm] is rb_exists_later_value or rb_exists_later_type.

   Is is a chain of tests "if T_k { return true }" followed by a final part.  The chain structure
   is kept under the alias [bt] of bind_true (rb_if c (Ok true) r and rb_or are bind_true by
   conversion) while everything else is unfolded to decision trees over the basic atoms; nested
   chains are re-associated; then the two sides are compared test by test ([bt_cong]: the cost is
   the SUM of the case analyses of the tests, not their product).  Where the heads do not line
   up, the head discriminee is analysed (both sides share the atoms) and the comparison goes on
   in each case; when nothing else applies the remaining goal is decided by the plain case
   analysis (bounded by a timeout). *)
Definition bt : res bool -> (unit -> res bool) -> res bool := bind_true.

Lemma bt_assoc : forall a k1 k2, bt (bt a k1) k2 = bt a (fun _ => bt (k1 tt) k2).
Proof. intros [[|]| |] k1 k2; reflexivity. Qed.
Lemma bt_cong : forall a a' k k', a = a' -> k tt = k' tt -> bt a k = bt a' k'.
Proof. intros a a' k k' Ha Hk. subst a'. destruct a as [[|]| |]; cbn; auto. Qed.
Lemma bt_ok_false : forall k, bt (Ok false) k = k tt. Proof. reflexivity. Qed.
Lemma bt_ok_true : forall k, bt (Ok true) k = Ok true. Proof. reflexivity. Qed.
Lemma bt_panic : forall k, bt Panic k = Panic. Proof. reflexivity. Qed.
Lemma bt_fuel : forall k, bt Fuel k = Fuel. Proof. reflexivity. Qed.

Ltac gerr_loop lm err :=
  repeat match goal with
  | |- context [rb_exists ?p ?l] =>
      rewrite (lm p l err) by (intro; gerr_crush_val)
  end.

(* the delta list of gerr_unfold_val without bind_true (kept as bt) *)
Ltac gerr_unfold_bt :=
  repeat (progress change (rb_if ?c (Ok true) ?e) with (bt c (fun _ => e)));
  change rb_or with bt; change bind_true with bt;
  autounfold with gerr_gen;
  cbv beta iota zeta delta
    [rb_and rb_or rb_not rb_if negb andb orb nonempty has_stack
     typed_nil_ptr kind_is_ptr is_gerr_val rec_of zero_gerr
     converted_from converted_from_ty factory_of clone_base stack_type_eqb
     g_name g_msg g_src g_dtag g_stack g_fref g_serr g_later g_isfac c_g c_x
     fst snd dash sp
     is_nil as_gerror extract_fref unwrap_val].

Ltac gerr_bt_simpl :=
  cbv beta iota; gerr_known;
  repeat first [ rewrite bt_ok_false | rewrite bt_ok_true | rewrite bt_panic | rewrite bt_fuel
               | rewrite bt_assoc ];
  cbv beta iota.

Ltac gerr_chain IHtac final :=
  gerr_bt_simpl;
  first
    [ reflexivity
    | IHtac
    | lazymatch goal with
      | |- bt _ _ = bt _ _ =>
          tryif (apply bt_cong; [ solve [repeat (gerr_step fail); gerr_leaf] | idtac ])
          then gerr_chain IHtac final
          else final
      | |- ?L = ?R =>
          tryif first [ gerr_head L | gerr_head R ]
          then gerr_chain IHtac final
          else final
      end ].

Ltac gerr_is_final IHtac :=
  timeout 60 (cbv beta iota delta [bt bind_true]; repeat (gerr_step IHtac); gerr_leaf).

Ltac gerr_is_body lm err IH :=
  cbv beta zeta;
  (* both sides start with the lookup of the receiver's cell *)
  try match goal with
      | |- match ?x with _ => _ end = match ?x with _ => _ end => destruct x; [|reflexivity]
      end;
  cbv beta zeta;
  (* helper functions first: the search loop may live inside one (anyConvertedFrom(first, later, err)) *)
  autounfold with gerr_gen; cbv beta zeta;
  gerr_loop lm err;
  gerr_unfold_bt;
  gerr_chain ltac:(apply IH) ltac:(gerr_is_final ltac:(apply IH)).

(* to be used as
     induction fuel as [|fuel IH]; intros st i err; [reflexivity|].
     cbn [gen_is gerr_is_gen gerr_is_ty]. gerr_is_body lm err IH.                       *)
