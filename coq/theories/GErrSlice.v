(* GErrSlice.v — memory-level refinement of GError.laterSrcErrors: slice headers, backing
   arrays and Go's append (definitions only; proofs in GErrSliceProofs.v).

   GErrModel.clone_base treats laterSrcErrors as a value (a list).  In Go it is a slice: a header
   (array, len, cap) in the struct and a backing array on the heap that several errors can
   share.  CloneBase (gerror/factory.go) does

       clone.laterSrcErrors = base.laterSrcErrors            // header copied: array SHARED
       if clone.srcError == nil && srcError != nil { clone.srcError = srcError }
       else if srcError != nil {
           n := len(base.laterSrcErrors)
           clone.laterSrcErrors = append(base.laterSrcErrors[:n:n], srcError)
       }

   The full slice expression clips the capacity to the length, so append can never write into
   the array the clone shares with base: it always allocates.  With a plain
   append(base.laterSrcErrors, srcError) (the seeded change C06-11) an append that finds spare
   capacity writes slot len of the SHARED array: two errors derived from the same error
   overwrite each other's converted error, and concurrent derivations race.

   Go                                            here
   -------------------------------------------   ------------------------------------------
   the heap of backing arrays of []error         heap = list (list val); array id = index;
                                                 length of an array = its capacity
   a slice value (offset 0)                      slice = (s_arr, s_len, s_cap); nil = (0,0,0)
   s[i] for i < len(s)                           contents h s = firstn len (array)
   s[:n:n]                                       slice3 s n
   append(s, v): len < cap -> write slot len     append_mem: in place, logs WrSlot arr len
                 of the array in place;          otherwise allocates array [length h] of
                 else growslice: new array of    capacity [grow cap (len+1)], copies (logs
                 capacity >= len+1, copy, write  RdSlot of the old slots, WrSlot of the new)
   runtime.growslice's capacity rule             [grow], an arbitrary function with
                                                 needed <= grow cap needed; go_grow = Go 1.18+'s
                                                 doubling rule (before size-class rounding)
   the three cases of CloneBase                  clone_later_mem clip  (clip = true: [:n:n])
   a tree of derivations                         a history: list of hstep (parent cell + the
                                                 CloneBase arguments); fun_run = the functional
                                                 model (clone_base itself), mem_run = memory
*)
From Coq Require Import NArith List Bool PeanoNat.
From GT Require Import Base.GErrStr.
From GT Require Import GErrModel GErrSpec GErrRace.
Import ListNotations.

Definition heap := list (list val).
Record slice := mkS { s_arr : nat; s_len : nat; s_cap : nat }.
Definition nil_slice : slice := mkS 0 0 0.

Definition arr_of (h : heap) (a : nat) : list val := nth a h [].
Definition contents (h : heap) (s : slice) : list val := firstn (s_len s) (arr_of h (s_arr s)).

(* s[:n:n]  (Go panics unless n <= cap(s); CloneBase uses n = len(s)) *)
Definition slice3 (s : slice) (n : nat) : slice := mkS (s_arr s) n n.

Fixpoint upd_nth {A : Type} (l : list A) (k : nat) (x : A) : list A :=
  match l, k with
  | [], _ => []
  | _ :: r, O => x :: r
  | y :: r, S k' => y :: upd_nth r k' x
  end.

(* arr[k] = v *)
Definition heap_write (h : heap) (a k : nat) (v : val) : heap :=
  upd_nth h a (upd_nth (arr_of h a) k v).

(* Go's rule (runtime.nextslicecap, go1.18+), before rounding up to a malloc size class; for
   []error (16-byte elements) capacities 1, 2, 4, 8 are size classes, so the small cases used
   in the refutation below are exact.
     doublecap := oldCap + oldCap;  if newLen > doublecap { return newLen }
     if oldCap < 256 { return doublecap }
     for { newcap += (newcap + 3*256) >> 2; if newcap >= newLen { return newcap } }
   (the loop adds at least 192 per round, so [needed] rounds of fuel are never used up) *)
Fixpoint grow_loop (fuel newcap needed : nat) : nat :=
  match fuel with
  | O => needed
  | S f =>
      let nc := newcap + (newcap + 768) / 4 in
      if needed <=? nc then nc else grow_loop f nc needed
  end.
Definition go_grow (oldcap needed : nat) : nat :=
  if 2 * oldcap <? needed then needed
  else if oldcap <? 256 then 2 * oldcap
  else grow_loop needed oldcap needed.

Record mcell := mkM { m_serr : val; m_later : slice }.          (* srcError, laterSrcErrors *)
Record mem := mkMem { m_heap : heap; m_cells : list mcell }.

(* one derivation: the parent cell and the arguments CloneBase is called with *)
Record hstep := mkH {
  h_parent : nat; h_bp : val; h_ep : val; h_stt : stack_type;
  h_dtag : str; h_src : str; h_ext : str; h_serr : val; h_site : N; h_derived : str }.

Section Mem.
  Variable grow : nat -> nat -> nat.

  Definition append_mem (h : heap) (s : slice) (v : val) : heap * slice * list access :=
    if s_len s <? s_cap s
    then (heap_write h (s_arr s) (s_len s) v,
          mkS (s_arr s) (S (s_len s)) (s_cap s),
          [WrSlot (s_arr s) (s_len s)])
    else let c := grow (s_cap s) (S (s_len s)) in
         (h ++ [firstn (s_len s) (arr_of h (s_arr s)) ++ v :: repeat VNil (c - S (s_len s))],
          mkS (length h) (S (s_len s)) c,
          map (RdSlot (s_arr s)) (List.seq 0 (s_len s))
          ++ map (WrSlot (length h)) (List.seq 0 (S (s_len s)))).

  (* what CloneBase does to laterSrcErrors / srcError of the clone of [b] *)
  Definition clone_later_mem (clip : bool) (h : heap) (b : mcell) (serr : val)
    : heap * mcell * list access :=
    if is_nil (m_serr b) && negb (is_nil serr) then (h, mkM serr (m_later b), [])
    else if negb (is_nil serr)
         then let s := m_later b in
              let n := s_len s in
              let '(h', s', t) := append_mem h (if clip then slice3 s n else s) serr in
              (h', mkM (m_serr b) s', t)
         else (h, mkM (m_serr b) (m_later b), []).

  Definition mem_step (clip : bool) (ms : mem) (x : hstep) : mem * list access :=
    match nth_error (m_cells ms) (h_parent x) with
    | Some b =>
        let '(h', c, t) := clone_later_mem clip (m_heap ms) b (h_serr x) in
        (mkMem h' (m_cells ms ++ [c]), t)
    | None => (ms, [])
    end.

  Fixpoint mem_run (clip : bool) (ms : mem) (hist : list hstep) : mem * list access :=
    match hist with
    | [] => (ms, [])
    | x :: r =>
        let '(ms1, t1) := mem_step clip ms x in
        let '(ms2, t2) := mem_run clip ms1 r in (ms2, t1 ++ t2)
    end.
End Mem.

(* the functional model of the same history: GErrModel.clone_base, cell by cell *)
Definition fun_step (fs : list gerr) (x : hstep) : list gerr :=
  match nth_error fs (h_parent x) with
  | Some b => fs ++ [clone_base b (h_bp x) (h_ep x) (h_stt x) (h_dtag x) (h_src x) (h_ext x)
                                (h_serr x) (h_site x) (h_derived x)]
  | None => fs
  end.
Definition fun_run (fs : list gerr) (hist : list hstep) : list gerr := fold_left fun_step hist fs.

(* the memory state simulates the functional one: same srcError, and the first len elements of
   each cell's array are its laterSrcErrors list *)
Definition cell_sim (h : heap) (c : mcell) (g : gerr) : Prop :=
  m_serr c = g_serr g /\ contents h (m_later c) = g_later g.
Definition sim (ms : mem) (fs : list gerr) : Prop := Forall2 (cell_sim (m_heap ms)) (m_cells ms) fs.

Definition slice_wf (h : heap) (s : slice) : Prop :=
  s_len s <= s_cap s /\ s_cap s <= length (arr_of h (s_arr s)).
Definition mem_wf (ms : mem) : Prop := Forall (fun c => slice_wf (m_heap ms) (m_later c)) (m_cells ms).

(* array [a] can be reached (read or appended into) through some existing cell *)
Definition reachable (ms : mem) (a : nat) : Prop :=
  exists c, In c (m_cells ms) /\ s_arr (m_later c) = a /\ 0 < s_cap (m_later c).

(* a memory state for any functional state: every cell gets an array of its own, full *)
Definition mem_init (fs : list gerr) : mem :=
  mkMem (map g_later fs)
        (map (fun ig => mkM (g_serr (snd ig)) (mkS (fst ig) (length (g_later (snd ig)))
                                                   (length (g_later (snd ig)))))
             (combine (List.seq 0 (length fs)) fs)).

Definition is_slot_access (x : access) : Prop :=
  match x with RdSlot _ _ | WrSlot _ _ => True | _ => False end.

(* ---------------------------------------------------------------- the histories of method calls *)
(* the CloneBase call a method call makes (None: Convert's early return, or no such receiver) *)
Definition call_hstep (xw : method -> wiring) (v : val) (m : method) (a : margs) : option hstep :=
  match as_gerror v with
  | None => None
  | Some i =>
      let w := wt_of xw v m in
      if w_guard w && is_gerr_val (a_err a) then None
      else Some (mkH i (VG i) v (w_stack w) (eval_a a (w_dtag w)) (eval_a a (w_src w))
                     (eval_a a (w_msg w)) (eval_e a (w_serr w)) (a_site a) (a_derived a))
  end.

Definition opt_list {A : Type} (o : option A) : list A := match o with Some x => [x] | None => [] end.

Fixpoint derive_hist (xw : method -> wiring) (st : store) (v : val) (ch : list step) : list hstep :=
  match ch with
  | [] => []
  | (m, a) :: r =>
      match call xw st v m a with
      | Some (st', v') => opt_list (call_hstep xw v m a) ++ derive_hist xw st' v' r
      | None => []
      end
  end.

Fixpoint thread_hist (xw : method -> wiring) (st : store) (jobs : list (val * list step))
  : list hstep :=
  match jobs with
  | [] => []
  | (v, ch) :: rest =>
      derive_hist xw st v ch ++
      match derive xw st v ch with
      | Some (st', _) => thread_hist xw st' rest
      | None => []
      end
  end.

(* everything a goroutine touches: the fields of the cells (GErrRace.v) and the slots of the
   backing arrays of laterSrcErrors, the memory being laid out by [mem_init] *)
Definition thread_full_accesses (grow : nat -> nat -> nat) (clip : bool) (xw : method -> wiring)
           (st : store) (jobs : list (val * list step)) : list access :=
  thread_accesses xw st jobs
  ++ snd (mem_run grow clip (mem_init (map c_g st)) (thread_hist xw st jobs)).

(* ---------------------------------------------------------------- the C06-11 shape *)
Definition ferr (k : N) : val := VF 1 true k VNil.              (* a foreign error *)
Definition conv (p : nat) (e : val) : hstep :=                   (* parent.Convert(e) *)
  mkH p (VG p) (VG p) SourceStack [] [] [] e 0%N [].
Definition ex_factory : gerr := new_gerr [69%N] [98%N] [] true.
(* one factory, four Converts in a row (cells 1..4) *)
Definition ex_prefix : list hstep := [conv 0 (ferr 1); conv 1 (ferr 2); conv 2 (ferr 3); conv 3 (ferr 4)].
(* ... then two Converts from the fourth result (cells 5 and 6) *)
Definition ex_hist : list hstep := ex_prefix ++ [conv 4 (ferr 5); conv 4 (ferr 6)].

Definition cell_contents (ms : mem) (i : nat) : option (list val) :=
  option_map (fun c => contents (m_heap ms) (m_later c)) (nth_error (m_cells ms) i).
