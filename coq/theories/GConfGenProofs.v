(* GConfGenProofs.v — facts about the Go primitives of GConfGenPrims used by the translator
   ties (coq/ties/Tie_C03.v, Tie_C16_resolve.v): an in-place update of the entry being visited
   by `range` leaves the other entries alone.                                               *)
From Coq Require Import List String Bool Arith Lia.
Import ListNotations.
From GT Require Import GConfModel GConfGenPrims.

(* Go's (any, error) result of reduceAny / parseTemplatedElements *)
Definition enc (r : res tree) : tree * bool :=
  match r with Ok t => (t, false) | Err => (Null, true) end.

Lemma map_set_middle : forall (pre : gomap) k c suf r,
  ~ In k (map fst pre) -> map_set (pre ++ (k, c) :: suf) k r = pre ++ (k, r) :: suf.
Proof.
  induction pre as [|[k' c'] pre IH]; intros k c suf r Hn.
  - cbn. rewrite String.eqb_refl. reflexivity.
  - cbn [app map_set]. destruct (String.eqb k k') eqn:E.
    + apply String.eqb_eq in E. subst. exfalso. apply Hn. left. reflexivity.
    + f_equal. apply IH. intros H. apply Hn. right. exact H.
Qed.

Lemma slice_set_middle : forall (pre : list tree) c suf r,
  slice_set (pre ++ c :: suf) (List.length pre) r = pre ++ r :: suf.
Proof. induction pre as [|x pre IH]; intros; cbn; [reflexivity| f_equal; apply IH]. Qed.

Lemma nodup_mid : forall (pre : gomap) k c suf,
  NoDup (map fst (pre ++ (k, c) :: suf)) -> ~ In k (map fst pre).
Proof.
  intros pre k c suf H Hin. rewrite map_app in H. cbn in H.
  apply NoDup_remove_2 in H. apply H. apply in_or_app. left. exact Hin.
Qed.

Lemma keys_mid : forall (pre : gomap) k c r suf,
  map fst (pre ++ (k, c) :: suf) = map fst ((pre ++ [(k, r)]) ++ suf).
Proof. intros. rewrite <- app_assoc. rewrite !map_app. reflexivity. Qed.

Lemma fold_left_ext_in : forall A B (F G : A -> B -> A) (l : list B) a,
  (forall x, In x l -> forall a', F a' x = G a' x) -> fold_left F l a = fold_left G l a.
Proof.
  intros A B F G l. induction l as [|x l IH]; intros a H; [reflexivity|].
  cbn [fold_left]. rewrite (H x (or_introl eq_refl)). apply IH.
  intros y Hy. apply H. right. exact Hy.
Qed.
