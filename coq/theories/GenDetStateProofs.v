(* GenDetStateProofs.v — lemmas about GenDetStateModel.v (package state before a generation). *)
From Coq Require Import List Bool String.
From GT Require Import GenDetStateModel.
Import ListNotations.
Local Open Scope string_scope.
Local Open Scope list_scope.

Lemma implements_app : forall a b ty c,
  implements (a ++ b) ty c = implements a ty c || implements b ty c.
Proof. intros. unfold implements. apply existsb_app. Qed.

Lemma implements_loaded : forall src st ty c,
  implements (loaded src st) ty c = implements src ty c || implements (state_decls st) ty c.
Proof. intros. unfold loaded. apply implements_app. Qed.

Lemma mem_str_in : forall s l, mem_str s l = true <-> In s l.
Proof.
  intros s l. unfold mem_str. rewrite existsb_exists. split.
  - intros [x [Hx E]]. apply String.eqb_eq in E. subst x. exact Hx.
  - intros H. exists s. split; [exact H|apply String.eqb_refl].
Qed.

(* the plan only looks at the answers for the types of parsable traits *)
Lemma decode_plan_ext : forall impl impl' ts,
  (forall t, In t ts -> pt_parsable t = true -> forall c, impl (pt_type t) c = impl' (pt_type t) c) ->
  decode_plan impl ts = decode_plan impl' ts.
Proof.
  intros impl impl' ts E. unfold decode_plan. apply map_ext. intros c. f_equal.
  - unfold self_decoding. apply filter_ext_in. intros t Ht.
    destruct (pt_parsable t) eqn:P; [|reflexivity]. rewrite (E t Ht P c). reflexivity.
  - apply map_ext. intros u. unfold cast_family. apply filter_ext_in. intros t Ht.
    destruct (pt_parsable t) eqn:P; [|reflexivity]. rewrite (E t Ht P c). reflexivity.
Qed.

(* what an output declares: methods on the types of its -types list only, pointer receivers *)
Lemma genum_declares_in : forall types j y x d,
  In d (genum_declares types j y x) -> In (md_type d) types /\ md_ptr d = true.
Proof.
  intros types j y x d H. unfold genum_declares in H. apply in_flat_map in H.
  destruct H as [T [HT H]].
  apply in_app_or in H. destruct H as [H|H]; [|apply in_app_or in H; destruct H as [H|H]].
  - destruct j; cbn [In] in H; [|contradiction]. destruct H as [H|[]]. subst d. split; [exact HT|reflexivity].
  - destruct y; cbn [In] in H; [|contradiction]. destruct H as [H|[]]. subst d. split; [exact HT|reflexivity].
  - destruct x; cbn [In] in H; [|contradiction]. destruct H as [H|[]]. subst d. split; [exact HT|reflexivity].
Qed.

Lemma implements_declares : forall types j y x ty c,
  implements (genum_declares types j y x) ty c = true -> In ty types /\ c <> CText.
Proof.
  intros types j y x ty c H. unfold implements in H. apply existsb_exists in H.
  destruct H as [d [Hd H]]. apply andb_prop in H. destruct H as [H Hp].
  apply andb_prop in H. destruct H as [Ht _]. apply String.eqb_eq in Ht.
  destruct (genum_declares_in _ _ _ _ _ Hd) as [Hin Hptr]. subst ty. split; [exact Hin|].
  intros ->. rewrite Hptr in Hp. discriminate.
Qed.

(* ---------------------------------------------------------------- current code (ac1d647) *)
(* the generation function's input no longer contains the file at the output path: whatever
   sits there — nothing, the previous output, the output of another -types list or of other
   switches, a foreign file — the plan is the same *)
Theorem plan_any_state : forall iv src st st' ts,
  genum_plan iv src st ts = genum_plan iv src st' ts.
Proof. reflexivity. Qed.
(* and it is what d8826bb produced on a fresh package *)
Theorem plan_is_fresh_d8826bb : forall iv src st ts,
  genum_plan iv src st ts = genum_plan_d8826bb iv src PFresh ts.
Proof.
  intros. unfold genum_plan, genum_plan_d8826bb, loaded_overlaid, loaded. cbn [state_decls].
  rewrite app_nil_r. reflexivity.
Qed.

(* ---------------------------------------------------------------- d8826bb .. ac707f2 *)
Theorem plan_state_blind_d8826bb : forall iv src st ts,
  state_blind iv st ts -> genum_plan_d8826bb iv src st ts = genum_plan_d8826bb iv src PFresh ts.
Proof.
  intros iv src st ts B. unfold genum_plan_d8826bb. apply decode_plan_ext. intros t Ht P c.
  unfold implements_cur. destruct (asks_types iv (pt_type t) c) eqn:A; [|reflexivity].
  rewrite !implements_loaded, (B t Ht P c A). reflexivity.
Qed.

(* any output of a configuration whose -types list adds no type that a parsable trait is typed
   by: in particular every output of the same -types list, whatever its switches were *)
Theorem stale_output_blind : forall iv types' j y x ts,
  covers (iv_types iv) types' ts -> state_blind iv (PPrev (genum_declares types' j y x)) ts.
Proof.
  intros iv types' j y x ts C t Ht P c A. cbn [state_decls].
  destruct (implements (genum_declares types' j y x) (pt_type t) c) eqn:E; [|reflexivity].
  exfalso. destruct (implements_declares _ _ _ _ _ _ E) as [Hin Hc].
  destruct c; try contradiction; cbn [asks_types] in A; apply negb_true_iff in A;
    apply (C t Ht P) in Hin; apply mem_str_in in Hin; rewrite Hin in A; discriminate.
Qed.

Theorem plan_own_output_d8826bb : forall iv src j y x ts,
  genum_plan_d8826bb iv src (PPrev (genum_declares (iv_types iv) j y x)) ts = genum_plan_d8826bb iv src PFresh ts.
Proof.
  intros. apply plan_state_blind_d8826bb, stale_output_blind. intros t _ _ H. exact H.
Qed.

Theorem plan_stale_output_d8826bb : forall iv src types' j y x ts,
  covers (iv_types iv) types' ts ->
  genum_plan_d8826bb iv src (PPrev (genum_declares types' j y x)) ts = genum_plan_d8826bb iv src PFresh ts.
Proof. intros. apply plan_state_blind_d8826bb, stale_output_blind. assumption. Qed.

Theorem plan_foreign_file_d8826bb : forall iv src ts,
  genum_plan_d8826bb iv src (PPrev []) ts = genum_plan_d8826bb iv src PFresh ts.
Proof. intros. apply plan_state_blind_d8826bb. intros t _ _ c _. reflexivity. Qed.

(* the residual: the stale output of a LARGER -types list, from which the type of a parsable
   trait has since been dropped, still changes the plan *)
Lemma cx_dropped_differs :
  genum_plan_d8826bb cx_inv_dropped [] (PPrev (genum_declares cx_types true true true)) cx_traits
  <> genum_plan_d8826bb cx_inv_dropped [] PFresh cx_traits.
Proof. vm_compute. discriminate. Qed.

Theorem stale_superset_refuted :
  exists iv src types' j y x ts,
    genum_plan_d8826bb iv src (PPrev (genum_declares types' j y x)) ts <> genum_plan_d8826bb iv src PFresh ts.
Proof. exists cx_inv_dropped, [], cx_types, true, true, true, cx_traits. exact cx_dropped_differs. Qed.

Lemma cx_dropped_not_covered : ~ covers (iv_types cx_inv_dropped) cx_types cx_traits.
Proof.
  intros C.
  assert (H : In "Kind" ["Color"]).
  { apply (C (hd {| pt_name := ""; pt_type := ""; pt_parsable := false; pt_under := UOther |} cx_traits));
      cbn; auto. }
  destruct H as [H|[]]. discriminate H.
Qed.

(* ---------------------------------------------------------------- up to c36dccd *)
Theorem plan_state_blind_orig : forall src st ts,
  state_blind_orig st ts -> genum_plan_orig src st ts = genum_plan_orig src PFresh ts.
Proof.
  intros src st ts B. unfold genum_plan_orig. apply decode_plan_ext. intros t Ht P c.
  rewrite !implements_loaded, (B t Ht P c). reflexivity.
Qed.

Theorem plan_own_output_orig : forall src types j y x ts,
  no_selfref types ts ->
  genum_plan_orig src (PPrev (genum_declares types j y x)) ts = genum_plan_orig src PFresh ts.
Proof.
  intros src types j y x ts N. apply plan_state_blind_orig. intros t Ht P c. cbn [state_decls].
  destruct (implements (genum_declares types j y x) (pt_type t) c) eqn:E; [|reflexivity].
  exfalso. apply (N t Ht P). exact (proj1 (implements_declares _ _ _ _ _ _ E)).
Qed.

Lemma cx_differs_orig :
  genum_plan_orig [] (PPrev (genum_declares cx_types true true true)) cx_traits
  <> genum_plan_orig [] PFresh cx_traits.
Proof. vm_compute. discriminate. Qed.

Theorem prev_output_orig_refuted :
  exists src types j y x ts,
    genum_plan_orig src (PPrev (genum_declares types j y x)) ts <> genum_plan_orig src PFresh ts.
Proof. exists [], cx_types, true, true, true, cx_traits. exact cx_differs_orig. Qed.

Lemma cx_selfref : ~ no_selfref cx_types cx_traits.
Proof.
  intros N.
  apply (N (hd {| pt_name := ""; pt_type := ""; pt_parsable := false; pt_under := UOther |} cx_traits));
    cbn; auto.
Qed.

(* the counterexample under the current code: same plan fresh and over the previous output, and
   it is the plan the old code only reached on its second run (Kind decoded natively) *)
Lemma cx_fixed :
  genum_plan_d8826bb cx_inv [] (PPrev (genum_declares cx_types true true true)) cx_traits
  = genum_plan_d8826bb cx_inv [] PFresh cx_traits
  /\ genum_plan_d8826bb cx_inv [] PFresh cx_traits
     = genum_plan_orig [] (PPrev (genum_declares cx_types true true true)) cx_traits.
Proof. vm_compute. split; reflexivity. Qed.
