(* WGRefute.v — the pinned two-word algorithm violates C01 and C02: concrete witnesses
   (client program + schedule), checked by computation in the kernel VM.  The same two
   (program, schedule) pairs are the first corpus entries of harness/cmd/c01 and are replayed
   on the real code by every run of ./check C01 / C02.                                      *)
From Coq Require Import List Arith ZArith Bool.
From GT Require Import Base.Conc.
From GT Require Import WGModel WGSpec.
Import ListNotations.
Local Open Scope Z_scope.

(* C01: T1 completes Inc (count 1, channel c1 installed) and starts Dec: count.Add gives 0,
   it is preempted before the Swap.  T0's Inc: count.Add gives 1 = delta, its CAS against the
   sentinel fails (c1 is installed), it closes its own fresh channel and returns: the count is
   1 and stays 1.  T2 calls Wait, reads count 1 and channel c1, returns c1.  T1 resumes: Swap
   installs the sentinel and closes c1 - the waiter is released although the lower bound of
   the count was 1 during the whole Wait.                                                   *)
Definition c01_witness_progs : list (list call) := [[CAdd 1]; [CAdd 1; CAdd (-1)]; [CWait]].
Definition c01_witness_sched : list nat := [0; 1; 1; 1; 1; 1; 0; 0; 0; 2; 2; 2; 1; 1]%nat.

Lemma c01_orig_witness :
  well_behaved (tr (wgo_exec c01_witness_progs c01_witness_sched)) = true /\
  c01_ok (tr (wgo_exec c01_witness_progs c01_witness_sched)) = false.
Proof. vm_compute. split; reflexivity. Qed.

Lemma c01_orig_refuted : exists progs sched,
  well_behaved (tr (wgo_exec progs sched)) = true /\ c01_ok (tr (wgo_exec progs sched)) = false.
Proof. exists c01_witness_progs, c01_witness_sched. exact c01_orig_witness. Qed.

(* C02: T0 completes Inc and starts Dec: count.Add gives 0, preempted before the Swap.  T1's
   Inc: count.Add gives 1 = delta, CAS against the sentinel fails (c1 still installed).  T0
   resumes: Swap installs the sentinel, closes c1, returns 0.  T1 closes its fresh channel and
   returns 1.  At rest: count = 1 = sum of deltas, but the sentinel is installed: a Wait reads
   count 1 and the sentinel for ever.                                                        *)
Definition c02_witness_progs : list (list call) := [[CAdd 1; CAdd (-1)]; [CAdd 1]; [CWait]].
Definition c02_witness_sched : list nat := [0; 0; 0; 0; 0; 1; 1; 1; 0; 0; 1]%nat.

Definition c02_witness_state : wgo_config := wgo_exec c02_witness_progs c02_witness_sched.

(* the state after the witness schedule: every Add has returned, Count = sum of deltas = 1,
   the installed channel is the closed sentinel *)
Lemma c02_orig_witness_state :
  well_behaved (tr c02_witness_state) = true /\
  adds_in_flight (tr c02_witness_state) = [] /\
  sum_deltas (tr c02_witness_state) = 1 /\
  ocnt (sh c02_witness_state) = 1 /\ owch (sh c02_witness_state) = 0%nat /\
  nth_error (thr c02_witness_state) 2 = Some (Idle [CWait]).
Proof. vm_compute. repeat split; reflexivity. Qed.

Definition wgo_stepf := step wgo_begin wgo_mstep wg_fatal wgo_observe wgo_site.
Definition wgo_solo (cf : wgo_config) (tid k : nat) : wgo_config :=
  solo wgo_begin wgo_mstep wg_fatal wgo_observe wgo_site cf tid k.

(* a Wait that spins: in any configuration with count 1 and the sentinel installed, a thread
   inside Wait (at either of its two loads, having read count 1) is still inside Wait after
   any number of solo steps *)
Definition spinning (cf : wgo_config) (tid : nat) : Prop :=
  ocnt (sh cf) = 1 /\ owch (sh cf) = 0%nat /\
  exists todo, nth_error (thr cf) tid = Some (Run CWait OW0 todo) \/
               nth_error (thr cf) tid = Some (Run CWait (OW1 1) todo).

Lemma upd_nth_same : forall A (l : list A) i x y,
  nth_error l i = Some y -> nth_error (upd l i x) i = Some x.
Proof.
  induction l as [|a l IH]; intros [|i] x y H; simpl in *; try discriminate; eauto.
Qed.

Lemma spinning_step : forall cf tid, spinning cf tid -> spinning (wgo_stepf cf tid) tid.
Proof.
  intros cf tid (Hc & Hw & todo & [H | H]); unfold wgo_stepf, step; rewrite H; simpl.
  - rewrite Hc. repeat split; auto. exists todo. right. eapply upd_nth_same; eauto.
  - rewrite Hw. simpl. repeat split; auto. exists todo. left. eapply upd_nth_same; eauto.
Qed.

Lemma spinning_solo : forall k cf tid, spinning cf tid -> spinning (wgo_solo cf tid k) tid.
Proof.
  induction k as [|k IH]; intros cf tid H; [exact H|].
  unfold wgo_solo, solo in *. simpl. apply IH. apply spinning_step. exact H.
Qed.

Lemma c02_orig_wait_spins : forall k,
  exists l todo, nth_error (thr (wgo_solo c02_witness_state 2 (S (S k)))) 2 = Some (Run CWait l todo).
Proof.
  intro k.
  assert (S0 : spinning (wgo_solo c02_witness_state 2 2) 2).
  { vm_compute. repeat split; auto. exists []. right. reflexivity. }
  replace (wgo_solo c02_witness_state 2 (S (S k)))
    with (wgo_solo (wgo_solo c02_witness_state 2 2) 2 k).
  - destruct (spinning_solo k _ _ S0) as (_ & _ & todo & [H | H]); eauto.
  - unfold wgo_solo, solo, run. rewrite <- fold_left_app.
    replace (repeat 2%nat 2 ++ repeat 2%nat k) with (repeat 2%nat (S (S k))) by reflexivity.
    reflexivity.
Qed.

(* and the trace monitor sees it: a few solo steps of the waiter at rest *)
Lemma c02_orig_refuted_trace :
  well_behaved (tr (wgo_exec c02_witness_progs (c02_witness_sched ++ [2; 2; 2; 2; 2]%nat))) = true /\
  c02_ok (tr (wgo_exec c02_witness_progs (c02_witness_sched ++ [2; 2; 2; 2; 2]%nat))) = false.
Proof. vm_compute. split; reflexivity. Qed.

(* the count is per goroutine: the spinning Wait is also rejected when its steps are interleaved
   with stutters of a thread that does not exist (7) and with the steps of another waiter - an
   earlier version of the monitor counted only ADJACENT steps and accepted these traces *)
Lemma c02_orig_refuted_interleaved :
  c02_ok (tr (wgo_exec c02_witness_progs
                (c02_witness_sched ++ [2; 7; 2; 7; 2; 7; 2; 7; 2; 7; 2; 7]%nat))) = false /\
  c02_ok (tr (wgo_exec (c02_witness_progs ++ [[CWait]])
                (c02_witness_sched ++ [2; 3; 2; 3; 2; 3; 2; 3; 2; 3; 2; 3]%nat))) = false.
Proof. vm_compute. split; reflexivity. Qed.

(* non-vacuity of the step count: a passing trace on which a thread is inside Wait and has made
   an internal step at rest (the pinned Wait takes two loads) *)
Lemma c02_wait_steps_example :
  let t := tr (wgo_exec [[CWait]] [0; 0]%nat) in
  c02_ok t = true /\ in_call t 0%nat = Some CWait /\ rest_steps t 0%nat = 1%nat /\
  c02_ok (tr (wgo_exec [[CWait]] [0; 0; 0]%nat)) = true.
Proof. vm_compute. repeat split; reflexivity. Qed.

(* the repaired machine on the same two witnesses *)
Lemma witnesses_pass_now :
  c01_ok (tr (wg_exec c01_witness_progs c01_witness_sched)) = true /\
  c02_ok (tr (wg_exec c02_witness_progs (c02_witness_sched ++ [2; 2; 2; 2; 2]%nat))) = true.
Proof. vm_compute. split; reflexivity. Qed.
