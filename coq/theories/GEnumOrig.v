(* GEnumOrig.v — the PINNED genum generator (before the fixes C04-.., C05-.., C12-..), kept as a
   record: gen_orig differs from GEnumModel.gen in exactly the repaired places

     values.go    ValueDeduplicatedSet without the reset            dedup_orig
     generate.go  processDuplicates only for "unsafe" groups        drop_dup_rows_orig
     template     Parse switch rows by index (`index … $j`)         case_consts_orig (None = template
                                                                    error, generation aborts)
     template     one `v<i>` per self-unmarshaling parsable trait   native_vars_ok (redeclaration)
     traits.go    UntypedRune in no family                          extract_underlying_orig

   and the witnesses (the corpus definitions of ./check C12) on which it fails while the repaired
   generator succeeds.  Everything here is closed computation (vm_compute).                       *)
From Coq Require Import String Ascii ZArith List Bool.
From GT Require Import Base.GEnumStr.
From GT Require Import Base.GEnumSort.
From GT Require Import Base.GEnumSortFacts.
From GT Require Import GEnumModel GEnumProofs.
Import ListNotations.
Local Open Scope string_scope.
Local Open Scope list_scope.
Local Open Scope Z_scope.

Fixpoint cases_orig_from (cols : list column) (j : nat) (vs : list gvalue) : option (list dyn) :=
  match vs with
  | [] => Some []
  | v :: r =>
      match case_consts_orig cols j v, cases_orig_from cols (S j) r with
      | Some l, Some rest => Some (l ++ rest)
      | _, _ => None
      end
  end.

(* `v<i> := …` is declared once per self-unmarshaling parsable trait, in one function body *)
Definition native_vars_ok (o : opts) (cols : list column) : bool :=
  let count own := length (filter (fun c => col_parsable c && own (col_info c)) cols) in
  (negb (o_json o) || Nat.leb (count ti_json_own) 1)
  && (negb (o_yaml o) || Nat.leb (count ti_yaml_own) 1)
  && (negb (o_text o) || Nat.leb (count ti_text_own) 1).

Definition mk_tables_orig (d : defn) (o : opts) (vs : list gvalue) (cols : list column) : outcome tables :=
  match cases_orig_from cols 0 vs with
  | None => GenErr
  | Some consts =>
      if forallb (fun c => z_nodupb (map (fun r => g_z (r_owner r)) (col_rows c))) cols
         && dyn_nodupb consts
         && (negb (o_ci o) || str_nodupb (map (fun v => to_lower (g_name v)) vs))
         && str_nodupb (map col_name cols)
         && native_vars_ok o cols
      then Built {| t_ty := d_ty d; t_opts := o; t_all := vs; t_dedup := dedup_orig vs;
                    t_binsearch := Nat.ltb 15 (length vs); t_cols := cols |}
      else BuildErr
  end.

Definition gen_orig (d : defn) (o : opts) : outcome tables :=
  let vs := sort_values (d_consts d) in
  match vs with
  | [] => Unsupported
  | first :: rest =>
      if o_notraits o then mk_tables_orig d o vs []
      else
        match first_columns d o first (g_cells first) with
        | Built cols0 =>
            let ncols := length cols0 in
            if Nat.eqb ncols 0 then
              if forallb (fun v => Nat.eqb (length (g_cells v)) 0) vs then mk_tables_orig d o vs []
              else Unsupported
            else if negb (validate_counts vs ncols) then GenErr
            else if existsb (fun v => Nat.ltb ncols (length (g_cells v))) rest then Unsupported
            else
              let cols1 := add_rows rest 0 cols0 in
              let cols2 := sort_columns (drop_dup_rows_orig vs cols1) in
              if negb (validate_parsable cols2) then GenErr
              else mk_tables_orig d o vs cols2
        | GenErr => GenErr
        | BuildErr => BuildErr
        | Unsupported => Unsupported
        end
  end.

Definition is_built {T} (o : outcome T) : bool := match o with Built _ => true | _ => false end.
Definition is_generr {T} (o : outcome T) : bool := match o with GenErr => true | _ => false end.
Definition is_builderr {T} (o : outcome T) : bool := match o with BuildErr => true | _ => false end.

(* ---- witnesses *)
Definition icell (var : string) (z : Z) : cell :=
  {| cl_var := var; cl_expr := dec z; cl_val := {| dty := "int"; dval := PInt z |} |}.
Definition int_types : list (string * tyinfo) :=
  [("int", {| ti_bkind := BUntypedInt; ti_json_own := false; ti_yaml_own := false; ti_text_own := false |})].
Definition ety_int : ety := {| ty_name := "E0"; ty_signed := true; ty_bits := 64 |}.
Definition opts_with (p : list string) : opts :=
  {| o_json := true; o_yaml := true; o_text := true; o_ci := false; o_notraits := false; o_parsable := p |}.

(* a `Deprecated:` duplicate carrying trait cells: duplicate `case` in the accessor switch *)
Definition w_dup_cells : defn :=
  {| d_ty := ety_int;
     d_consts := [ {| c_name := "Cat"; c_val := 1; c_dep := false; c_cells := [icell "_Legs" 4] |};
                   {| c_name := "Feline"; c_val := 1; c_dep := true; c_cells := [icell "_" 5] |};
                   {| c_name := "Ant"; c_val := 2; c_dep := false; c_cells := [icell "_" 6] |} ];
     d_types := int_types |}.
Lemma dup_cells_orig : is_builderr (gen_orig w_dup_cells (opts_with [])) = true
                       /\ is_built (gen w_dup_cells (opts_with [])) = true.
Proof. vm_compute. split; reflexivity. Qed.

(* a parsable trait + a duplicated value without cells: `index $trait.Traits $j` out of range *)
Definition w_index : defn :=
  {| d_ty := ety_int;
     d_consts := [ {| c_name := "Cat"; c_val := 1; c_dep := false; c_cells := [icell "_Legs" 4] |};
                   {| c_name := "Ant"; c_val := 2; c_dep := false; c_cells := [icell "_" 6] |};
                   {| c_name := "Feline"; c_val := 1; c_dep := true; c_cells := [] |} ];
     d_types := int_types |}.
Lemma index_orig : is_generr (gen_orig w_index (opts_with ["Legs"])) = true
                   /\ is_built (gen w_index (opts_with ["Legs"])) = true.
Proof. vm_compute. split; reflexivity. Qed.

(* a parsable trait + a line without trait cells *)
Definition w_index2 : defn :=
  {| d_ty := ety_int;
     d_consts := [ {| c_name := "Aa"; c_val := 0; c_dep := false; c_cells := [icell "_Tag" 4] |};
                   {| c_name := "Bb"; c_val := 3; c_dep := false; c_cells := [] |} ];
     d_types := int_types |}.
Lemma index2_orig : is_generr (gen_orig w_index2 (opts_with ["Tag"])) = true
                    /\ is_built (gen w_index2 (opts_with ["Tag"])) = true.
Proof. vm_compute. split; reflexivity. Qed.

(* two parsable traits of self-unmarshaling types: `v0` declared twice *)
Definition acell (var ty : string) (z : Z) : cell :=
  {| cl_var := var; cl_expr := ty ++ dec z; cl_val := {| dty := ty; dval := PInt z |} |}.
Definition own_types : list (string * tyinfo) :=
  [("pkg.AuxA", {| ti_bkind := BInt; ti_json_own := true; ti_yaml_own := true; ti_text_own := true |});
   ("pkg.AuxB", {| ti_bkind := BUint8; ti_json_own := true; ti_yaml_own := true; ti_text_own := true |})].
Definition w_v0 : defn :=
  {| d_ty := ety_int;
     d_consts := [ {| c_name := "Xa"; c_val := 0; c_dep := false;
                      c_cells := [acell "_First" "pkg.AuxA" 1; acell "_Second" "pkg.AuxB" 2] |};
                   {| c_name := "Xb"; c_val := 1; c_dep := false;
                      c_cells := [acell "_" "pkg.AuxA" 3; acell "_" "pkg.AuxB" 4] |} ];
     d_types := own_types |}.
Lemma v0_orig : is_builderr (gen_orig w_v0 (opts_with ["First"; "Second"])) = true
                /\ is_built (gen w_v0 (opts_with ["First"; "Second"])) = true.
Proof. vm_compute. split; reflexivity. Qed.

(* an untyped rune trait was in no codec family *)
Lemma rune_orig : extract_underlying_orig BUntypedRune = KUnknown /\ extract_underlying BUntypedRune = KInt64.
Proof. split; reflexivity. Qed.

(* two parsable traits with equal cells on one line: the constant listed twice in one `case`
   (before fix C12-parsable-equal-cells); the repaired ParsableValuesOf lists it once and
   Parse<T>(10) returns the owning value *)
Definition w_equal : defn :=
  {| d_ty := ety_int;
     d_consts := [ {| c_name := "Ua"; c_val := 0; c_dep := false; c_cells := [icell "_Wa" 10; icell "_Wb" 10] |};
                   {| c_name := "Ub"; c_val := 1; c_dep := false; c_cells := [icell "_" 11; icell "_" 12] |} ];
     d_types := int_types |}.
Lemma equal_cells_orig :
  is_builderr (gen_orig w_equal (opts_with ["Wa"; "Wb"])) = true
  /\ exists t, gen w_equal (opts_with ["Wa"; "Wb"]) = Built t
               /\ sem_parse t {| dty := "int"; dval := PInt 10 |} = Some 0
               /\ sem_parse t {| dty := "int"; dval := PInt 12 |} = Some 1.
Proof. split; [vm_compute; reflexivity|]. eexists. split; [vm_compute; reflexivity|]. vm_compute. split; reflexivity. Qed.

(* a parsable plain-string trait that spells its value's own name: `case "Red", "Red"` (before fix
   C12-parsable-trait-equals-name); the name of another definition is now refused *)
Lemma own_name_orig :
  is_builderr (gen_orig GEnumProofs.on_defn GEnumProofs.on_opts) = true
  /\ is_built (gen GEnumProofs.on_defn GEnumProofs.on_opts) = true
  /\ is_builderr (gen_orig GEnumProofs.on_clash GEnumProofs.on_opts) = true
  /\ is_generr (gen GEnumProofs.on_clash GEnumProofs.on_opts) = true.
Proof. vm_compute. repeat split. Qed.

(* ---- a constant named like an identifier the template binds (fix C04-reserved-identifiers, 9cb41dd):
   `e E = iota; f` generated `func (e E) String() string { switch e { case e: return "e" …` — the receiver
   shadows the constant, f.String() = "e".  The generator before the fix accepted the definition (the
   emitted code is then NOT described by sem_string: the model has no notion of shadowing); now it refuses *)
Definition w_reserved : defn :=
  {| d_ty := {| ty_name := "E"; ty_signed := true; ty_bits := 64 |};
     d_consts := [ {| c_name := "e"; c_val := 0; c_dep := false; c_cells := [] |};
                   {| c_name := "f"; c_val := 1; c_dep := false; c_cells := [] |} ];
     d_types := [] |}.
Definition w_reserved_ci : defn :=
  {| d_ty := {| ty_name := "E"; ty_signed := true; ty_bits := 64 |};
     d_consts := [ {| c_name := "ok"; c_val := 0; c_dep := false; c_cells := [] |};
                   {| c_name := "f"; c_val := 1; c_dep := false; c_cells := [] |} ];
     d_types := [] |}.
Definition opts_ci (ci : bool) : opts :=
  {| o_json := true; o_yaml := true; o_text := true; o_ci := ci; o_notraits := false; o_parsable := [] |}.
Lemma reserved_orig :
  is_built (gen_orig w_reserved (opts_ci false)) = true /\ is_generr (gen w_reserved (opts_ci false)) = true
  /\ is_built (gen w_reserved_ci (opts_ci false)) = true /\ is_generr (gen w_reserved_ci (opts_ci true)) = true.
Proof. vm_compute. repeat split. Qed.
Lemma reserved_rejected : forall d o, existsb (fun c => reserved_name o (c_name c)) (d_consts d) = true -> gen d o = GenErr.
Proof.
  intros d o H. unfold gen.
  assert (Hr : existsb (fun v => reserved_name o (g_name v)) (sort_values (d_consts d)) = true).
  { apply existsb_exists in H. destruct H as [c [Hc Hn]]. apply existsb_exists. exists (to_gvalue c). split; [|exact Hn].
    unfold sort_values. apply (GEnumSortFacts.isort_in g_less). apply in_map. exact Hc. }
  destruct (sort_values (d_consts d)) as [|f r]; [discriminate|]. rewrite Hr. reflexivity.
Qed.
