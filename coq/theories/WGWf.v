(* WGWf.v — traces of the pair-CAS machine are well formed (WGSpec.trace_wf): the per-thread
   call status read off the trace is the thread's state, and every event respects it.        *)
From Coq Require Import List Arith ZArith Bool Lia.
From GT Require Import Base.Conc.
From GT Require Import Base.ConcFacts.
From GT Require Import WGModel WGSpec WGSpecProofs WGInv WGProofs.
Import ListNotations.
Local Open Scope Z_scope.

Definition tstatus (o : option wthread) : option call :=
  match o with Some (Run c _ _) => Some c | _ => None end.

(* the event of a step against the thread's status before and after *)
Lemma step_status : forall cf tid, Inv cf ->
  exists e o st,
    tr (wg_step cf tid) = Item tid e o st :: tr cf /\
    (forall j, j <> tid -> nth_error (thr (wg_step cf tid)) j = nth_error (thr cf) j) /\
    match tstatus (nth_error (thr cf) tid), e with
    | None, ECall c => tstatus (nth_error (thr (wg_step cf tid)) tid) = Some c
    | None, EStutter => tstatus (nth_error (thr (wg_step cf tid)) tid) = None
    | Some c, ETau => tstatus (nth_error (thr (wg_step cf tid)) tid) = Some c
    | Some c, ERet c' r => c' = c /\ ret_matches c r = true /\
                           tstatus (nth_error (thr (wg_step cf tid)) tid) = None
    | _, _ => False
    end.
Proof.
  intros cf tid HI. unfold wg_step, step.
  destruct (nth_error (thr cf) tid) as [t|] eqn:Hnth.
  2:{ cbn. do 3 eexists. split; [reflexivity|]. split; auto. rewrite Hnth. reflexivity. }
  pose proof (i_wf _ HI _ _ Hnth) as Hwf.
  assert (Hother : forall t' j, j <> tid ->
            nth_error (upd (thr cf) tid t') j = nth_error (thr cf) j).
  { intros t' j Hj. apply nth_error_upd_other. auto. }
  assert (Hsame : forall t', nth_error (upd (thr cf) tid t') tid = Some t').
  { intros t'. eapply nth_error_upd_same; eauto. }
  destruct t as [[|c todo]|c l todo].
  - cbn. do 3 eexists. split; [reflexivity|]. split; auto. rewrite Hsame. reflexivity.
  - cbn. do 3 eexists. split; [reflexivity|]. split; auto. rewrite Hsame. reflexivity.
  - destruct c as [d| |]; destruct l as [|ov oc och|x n| |]; try destruct Hwf; cbn [tstep wg_mstep].
    + cbn. do 3 eexists. split; [reflexivity|]. split; auto. rewrite Hsame. reflexivity.
    + destruct (Nat.eqb (ver (sh cf)) ov);
        [destruct (Z.eqb (oc + d) 0); destruct (Nat.eqb och 0)|];
        cbn; do 3 eexists; (split; [reflexivity|]); (split; [auto|]); rewrite Hsame; cbn; auto.
    + destruct (memb x (closed (sh cf)));
        cbn; do 3 eexists; (split; [reflexivity|]); (split; [auto|]); rewrite Hsame; cbn; auto.
    + cbn. do 3 eexists. split; [reflexivity|]. split; auto. rewrite Hsame. cbn. auto.
    + cbn. do 3 eexists. split; [reflexivity|]. split; auto. rewrite Hsame. cbn. auto.
Qed.

Record WfInv (cf : wg_config) : Prop := {
  w_status : forall tid, in_call (tr cf) tid = tstatus (nth_error (thr cf) tid);
  w_wf : trace_wf (tr cf) = true
}.

Lemma WfInv_init : forall progs, WfInv (init wg_init progs).
Proof.
  intro progs. constructor; cbn; auto. intro tid. rewrite nth_error_map.
  destruct (nth_error progs tid); reflexivity.
Qed.

Lemma WfInv_step : forall cf tid, Inv cf -> WfInv cf -> WfInv (wg_step cf tid).
Proof.
  intros cf tid HI HW. destruct (step_status cf tid HI) as (e & o & st & Htr & Hother & Hev).
  rewrite <- (w_status _ HW tid) in Hev.
  constructor.
  - intro j. rewrite Htr, in_call_cons. cbn [it_tid it_ev].
    destruct (Nat.eqb_spec tid j) as [<-|Nj].
    + destruct (in_call (tr cf) tid) as [c|] eqn:Ec; destruct e as [c'|c' r| |]; try contradiction.
      all: try (destruct Hev as (_ & _ & H); rewrite H; reflexivity).
      all: rewrite Hev; reflexivity.
    + rewrite Hother; auto. apply (w_status _ HW).
  - rewrite Htr. cbn [trace_wf it_ev it_tid]. rewrite (w_wf _ HW). cbn [andb].
    destruct (in_call (tr cf) tid) as [c|]; destruct e as [c'|c' r| |]; try contradiction; auto.
    destruct Hev as (-> & Hm & _). rewrite Hm.
    destruct c; cbn; auto. rewrite Z.eqb_refl. reflexivity.
Qed.

Theorem wg_trace_wf : forall progs sched, trace_wf (tr (wg_exec progs sched)) = true.
Proof.
  intros progs sched.
  cut (Inv (wg_exec progs sched) /\ WfInv (wg_exec progs sched)); [intros [_ H]; apply (w_wf _ H)|].
  unfold wg_exec.
  apply (exec_invariant _ _ _ _ _ wg_begin wg_mstep wg_fatal wg_observe wg_site
           (fun cf => Inv cf /\ WfInv cf)).
  - split; [apply Inv_init|apply WfInv_init].
  - intros cf t [HI HW]. split; [apply Inv_step; auto|apply WfInv_step; auto].
Qed.
