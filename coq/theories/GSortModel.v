(* GSortModel.v — executable model of the gsort generator and of the code it generates.
   No proofs in this file (GSortProofs.v), no judgement of observations (GSortJudge.v).

   Go source (gsort/gen)                               model
   ---------------------------------------------------------------------------------------
   struct field + its `gsort:"..."` tags, after        fieldT / tagT  (sorter name as written,
     sfdFromLine (split on ",", Atoi, accessor)          incl. a leading "*"; priority : Z;
                                                         accessor, "" when absent; IsBool =
                                                         FieldType.String() == "bool")
   SortFieldDesc                                       sfd   (+ sf_idx: which struct field the
                                                         accessor expression reads)
   sortFieldDescFromTag (one sfd per gsort tag,        sfds_of_field, all_sfds
     in tag order, fields in declaration order)
   createSorterDesc: descs map[sorter]*SorterDesc,     upsert / collect (association list in
     append + sort.Sort(desc.Fields) on every insert     first-insertion order; the map's
                                                         iteration order is C14's concern)
   SortFieldDescs.Less (generated: Priority <)         prio_lt ; sort.Sort = sort_prio (an
                                                         insertion sort: with distinct
                                                         priorities every correct sort agrees,
                                                         with equal ones Validate rejects)
   SortFieldDescs.Validate (non-empty, set.Add of      validate / distinct_prios
     each priority must report "new")
   SorterDesc.UsePointer / SortTypeName                sd_pointer / sd_name
   SorterDesc.PriorityTree (sort by priority, one      priority_tree : list cmpline (the
     CompareLine per field, Accessor = FieldName         lopsided tree is a list: Nest = tail)
     [+ "." + CustomAccessor], IsBool)
   CompareLine.String                                  cl_string (repaired rendering
                                                         `!s[i].X && s[j].X`), cl_string_orig
                                                         (pinned rendering `s[j].X`)
   gsort.gotmpl "PriorityBlock"                        render_block (text), less_with (meaning)
   gsort.gotmpl per-sorter block                       render_sorter

   Behaviour layer.  An element of the generated slice type is modelled by the list of the
   values of the VIEWS of its struct fields in declaration order: two slots per field, the
   field read plainly (slot 2*idx) and read through the accessor a tag names (slot 2*idx+1;
   the property's quantifier knows one accessor, String()).  Which view a key reads is decided
   per tag (`slot`), so one field can be a plain key of one sorter and a String() key of
   another.  Ordered Go types (strings, signed and
   unsigned integers, NaN-free floats, results of String()) are all strict total orders whose
   `==` is the order's equality; the harness maps each such value to its rank, an integer, so
   an ordered key is a Z; a bool key is a bool.  `getz`/`getb` read field i as an ordered /
   bool value (total functions: a well-typed program only ever reads a field at its own kind,
   the other projection is a don't-care default).  Value and pointer element forms have the
   same meaning: `s[i].X` auto-dereferences (nil elements are outside the property).        *)
From Coq Require Import List Bool ZArith String.
Import ListNotations.
Local Open Scope string_scope.

(* ------------------------------------------------------------------ generator layer *)

Record tagT := { tg_sorter : string; tg_prio : Z; tg_acc : string }.
Record fieldT := { fd_name : string; fd_isbool : bool; fd_tags : list tagT }.

Record sfd := { sf_idx : nat; sf_name : string; sf_isbool : bool; sf_acc : string;
                sf_sorter : string; sf_prio : Z }.
Record sdesc := { sd_type : string; sd_sorter : string; sd_fields : list sfd }.

Definition sfds_of_field (idx : nat) (f : fieldT) : list sfd :=
  map (fun t => {| sf_idx := idx; sf_name := fd_name f; sf_isbool := fd_isbool f;
                   sf_acc := tg_acc t; sf_sorter := tg_sorter t; sf_prio := tg_prio t |})
      (fd_tags f).

Fixpoint all_sfds_from (idx : nat) (fs : list fieldT) : list sfd :=
  match fs with
  | [] => []
  | f :: r => sfds_of_field idx f ++ all_sfds_from (S idx) r
  end.
Definition all_sfds (fs : list fieldT) : list sfd := all_sfds_from 0 fs.

(* generated SortFieldDescs.Less and sort.Sort over it *)
Definition prio_lt (a b : sfd) : bool := (sf_prio a <? sf_prio b)%Z.
Fixpoint ins_prio (x : sfd) (l : list sfd) : list sfd :=
  match l with
  | [] => [x]
  | y :: r => if prio_lt y x then y :: ins_prio x r else x :: y :: r
  end.
Definition sort_prio (l : list sfd) : list sfd := fold_right ins_prio [] l.

(* descs[fd.SortTypeName]: append to the existing desc or create one; sort.Sort(desc.Fields) *)
Fixpoint upsert (ty : string) (fd : sfd) (descs : list sdesc) : list sdesc :=
  match descs with
  | [] => [ {| sd_type := ty; sd_sorter := sf_sorter fd; sd_fields := sort_prio [fd] |} ]
  | d :: r =>
      if String.eqb (sd_sorter d) (sf_sorter fd)
      then {| sd_type := sd_type d; sd_sorter := sd_sorter d;
              sd_fields := sort_prio (sd_fields d ++ [fd]) |} :: r
      else d :: upsert ty fd r
  end.
Definition collect (ty : string) (fs : list fieldT) : list sdesc :=
  fold_left (fun descs fd => upsert ty fd descs) (all_sfds fs) [].

(* Validate: `known.Add(priority)` must be new for every field; empty is an error *)
Fixpoint distinct_prios (seen : list Z) (l : list sfd) : bool :=
  match l with
  | [] => true
  | f :: r => if existsb (Z.eqb (sf_prio f)) seen then false
              else distinct_prios (sf_prio f :: seen) r
  end.
Definition validate (l : list sfd) : bool :=
  match l with [] => false | _ => distinct_prios [] l end.

(* fix ac707f2: inside the Validate loop `if other, ok := descs["*"+desc.sortTypeName]; ok` is an
   error too: `S` and `*S` are two keys of the map but one type name in the output *)
Definition forms_ok (ds : list sdesc) : bool :=
  forallb (fun d => negb (existsb (fun d' => String.eqb (sd_sorter d') ("*" ++ sd_sorter d)) ds)) ds.
(* createSorterDesc: None = an error is returned (generation aborts, no file is written) *)
Definition create (ty : string) (fs : list fieldT) : option (list sdesc) :=
  let ds := collect ty fs in
  if forallb (fun d => validate (sd_fields d)) ds
  then (if forms_ok ds then Some ds else None) else None.
(* up to 50aeaa4: no such check (the output then declared the type S twice) *)
Definition create_orig2 (ty : string) (fs : list fieldT) : option (list sdesc) :=
  let ds := collect ty fs in
  if forallb (fun d => validate (sd_fields d)) ds then Some ds else None.

Definition find_sorter (name : string) (ds : list sdesc) : option sdesc :=
  find (fun d => String.eqb (sd_sorter d) name) ds.

Definition sd_pointer (d : sdesc) : bool := prefix "*" (sd_sorter d).
Definition sd_name (d : sdesc) : string :=
  if sd_pointer d then substring 1 (String.length (sd_sorter d) - 1) (sd_sorter d)
  else sd_sorter d.

(* PriorityTree.  A compare line reads a VIEW of a struct field: the field itself (`s[i].F`) or
   the result of the tag's accessor (`s[i].F.String()`).  The same field may be read through
   different views by different sorters (one tag with, another without accessor), so an element
   has one slot per view, not per field: slot 2*idx is field idx read plainly, slot 2*idx+1 is
   field idx read through its accessor (see `elem` below). *)
Definition slot (idx : nat) (acc : string) : nat :=
  if String.eqb acc "" then 2 * idx else S (2 * idx).
Record cmpline := { cl_isbool : bool; cl_acc : string; cl_idx : nat }.
Definition accessor (f : sfd) : string :=
  if String.eqb (sf_acc f) "" then sf_name f else sf_name f ++ "." ++ sf_acc f.
Definition line_of (f : sfd) : cmpline :=
  {| cl_isbool := sf_isbool f; cl_acc := accessor f; cl_idx := slot (sf_idx f) (sf_acc f) |}.
Definition priority_tree (d : sdesc) : list cmpline := map line_of (sort_prio (sd_fields d)).

(* CompareLine.String: the current (repaired) rendering and the pinned one *)
Definition cl_string (c : cmpline) : string :=
  if cl_isbool c then "!s[i]." ++ cl_acc c ++ " && s[j]." ++ cl_acc c
  else "s[i]." ++ cl_acc c ++ " < s[j]." ++ cl_acc c.
Definition cl_string_orig (c : cmpline) : string :=
  if cl_isbool c then "s[j]." ++ cl_acc c
  else "s[i]." ++ cl_acc c ++ " < s[j]." ++ cl_acc c.

(* template PriorityBlock, as lines without indentation *)
Fixpoint render_block (str : cmpline -> string) (cs : list cmpline) : list string :=
  match cs with
  | [] => []
  | c :: rest =>
      match rest with
      | [] => []
      | _ => ("if s[i]." ++ cl_acc c ++ " == s[j]." ++ cl_acc c ++ " {")
               :: render_block str rest ++ ["}"]
      end ++ ["return " ++ str c]
  end.

(* the block the template emits for one sorter (gofmt-ed, indentation dropped) *)
Definition render_sorter (str : cmpline -> string) (d : sdesc) : list string :=
  [ "// " ++ sd_name d ++ " implements a sort.Sort interface for " ++ sd_type d ++ ".";
    "type " ++ sd_name d ++ " []" ++ (if sd_pointer d then "*" else "") ++ sd_type d;
    "func (s " ++ sd_name d ++ ") Len() int {"; "return len(s)"; "}";
    "func (s " ++ sd_name d ++ ") Swap(i, j int) {"; "s[i], s[j] = s[j], s[i]"; "}";
    "func (s " ++ sd_name d ++ ") Less(i, j int) bool {" ]
  ++ render_block str (priority_tree d) ++ ["}"].

(* ------------------------------------------------------------------ behaviour layer *)

Inductive val := VZ (z : Z) | VB (b : bool).
Definition elem := list val.
Definition getz (e : elem) (i : nat) : Z :=
  match nth_error e i with Some (VZ z) => z | _ => 0%Z end.
Definition getb (e : elem) (i : nat) : bool :=
  match nth_error e i with Some (VB b) => b | _ => false end.

(* `s[i].ACC == s[j].ACC` *)
Definition cl_eq (c : cmpline) (a b : elem) : bool :=
  if cl_isbool c then Bool.eqb (getb a (cl_idx c)) (getb b (cl_idx c))
  else Z.eqb (getz a (cl_idx c)) (getz b (cl_idx c)).
(* the expression CompareLine.String renders, evaluated with s[i] = a, s[j] = b *)
Definition cl_cmp (c : cmpline) (a b : elem) : bool :=
  if cl_isbool c then negb (getb a (cl_idx c)) && getb b (cl_idx c)
  else Z.ltb (getz a (cl_idx c)) (getz b (cl_idx c)).
Definition cl_cmp_orig (c : cmpline) (a b : elem) : bool :=
  if cl_isbool c then getb b (cl_idx c)
  else Z.ltb (getz a (cl_idx c)) (getz b (cl_idx c)).

(* meaning of the rendered PriorityBlock: `if a.k == b.k { <rest> } return <cmp k>`; the last
   line has no `if`.  An empty chain cannot be generated (Validate). *)
Fixpoint less_with (cmp : cmpline -> elem -> elem -> bool) (cs : list cmpline) (a b : elem)
  : bool :=
  match cs with
  | [] => false
  | c :: rest =>
      match rest with
      | [] => cmp c a b
      | _ => if cl_eq c a b then less_with cmp rest a b else cmp c a b
      end
  end.
Definition less := less_with cl_cmp.
Definition less_orig := less_with cl_cmp_orig.

(* generated Less of sorter `name` of a struct, end to end; None = nothing is generated *)
Definition gen_less (ty : string) (fs : list fieldT) (name : string)
  : option (elem -> elem -> bool) :=
  match create ty fs with
  | None => None
  | Some ds => match find_sorter name ds with
               | None => None
               | Some d => Some (less (priority_tree d))
               end
  end.
Definition gen_less_orig (ty : string) (fs : list fieldT) (name : string)
  : option (elem -> elem -> bool) :=
  match create ty fs with
  | None => None
  | Some ds => match find_sorter name ds with
               | None => None
               | Some d => Some (less_orig (priority_tree d))
               end
  end.

(* ------------------------------------------------------------------ specification *)
(* A key reads one view (slot) of a field as an ordered value or as a bool (false before true). *)
Inductive key := KOrd (i : nat) | KBool (i : nat).
Definition key_rank (k : key) (e : elem) : Z :=
  match k with
  | KOrd i => getz e i
  | KBool i => if getb e i then 1%Z else 0%Z
  end.
(* lexicographic "strictly less" over a list of keys, most significant first *)
Fixpoint lex_lt (ks : list key) (a b : elem) : bool :=
  match ks with
  | [] => false
  | k :: r => (key_rank k a <? key_rank k b)%Z
              || ((key_rank k a =? key_rank k b)%Z && lex_lt r a b)
  end.

Definition key_of_line (c : cmpline) : key :=
  if cl_isbool c then KBool (cl_idx c) else KOrd (cl_idx c).
Definition keys_of (cs : list cmpline) : list key := map key_of_line cs.

(* the keys the property speaks about, straight from the definition: the fields tagged for the
   sorter, in ascending priority *)
Fixpoint tagged_from (idx : nat) (name : string) (fs : list fieldT) : list (Z * key) :=
  match fs with
  | [] => []
  | f :: r =>
      map (fun t => (tg_prio t, if fd_isbool f then KBool (slot idx (tg_acc t))
                                else KOrd (slot idx (tg_acc t))))
          (filter (fun t => String.eqb (tg_sorter t) name) (fd_tags f))
      ++ tagged_from (S idx) name r
  end.
Definition tagged (name : string) (fs : list fieldT) : list (Z * key) := tagged_from 0 name fs.
Fixpoint ins_pk (x : Z * key) (l : list (Z * key)) : list (Z * key) :=
  match l with
  | [] => [x]
  | y :: r => if (fst y <? fst x)%Z then y :: ins_pk x r else x :: y :: r
  end.
Definition spec_keys (name : string) (fs : list fieldT) : list key :=
  map snd (fold_right ins_pk [] (tagged name fs)).
Definition spec_less (name : string) (fs : list fieldT) : elem -> elem -> bool :=
  lex_lt (spec_keys name fs).
(* priorities of one sorter pairwise distinct: the property's "any assignment of distinct
   priorities" *)
Fixpoint zs_distinct (l : list Z) : bool :=
  match l with
  | [] => true
  | z :: r => negb (existsb (Z.eqb z) r) && zs_distinct r
  end.
Definition prios_distinct (name : string) (fs : list fieldT) : bool :=
  zs_distinct (map fst (tagged name fs)).
Definition sorter_names (fs : list fieldT) : list string :=
  map sf_sorter (all_sfds fs).
