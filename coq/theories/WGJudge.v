(* WGJudge.v — judgement of traces recorded from the real SelectableWaitGroup (no proofs).

   A case = client programs, the schedule the vsched scheduler enforced on the instrumented
   real code, the recorded trace (OLDEST FIRST; channels named by hand-out order; closed set =
   ascending hand-out indices of the closed channels), and the outcome of the WaitTimeout(5ms)
   probe made after the schedule (0 nil, 1 ErrWGTimeout, 2 hung under the watchdog, 3 no probe).

     code 1  the recorded trace violates the property's monitor (failing input)
     code 2  it satisfies the monitor but differs from the model's trace for the same schedule
     code 0  otherwise; also for traces outside the property's domain (lb went negative)      *)
From Coq Require Import List Arith ZArith Bool Uint63.
From GT Require Import Base.Verdict.
From GT Require Import Base.Conc.
From GT Require Import WGModel WGSpec.
Import ListNotations.
Local Open Scope Z_scope.

Record wg_case := WGCase {
  wc_progs : list (list call);
  wc_sched : list nat;
  wc_obs : list witem;
  wc_tmo : nat;
  wc_probes : list (nat * nat)   (* (position, 4*wt + wc): WaitTimeout / WaitCTX(cancelled
                                    context) called right after that position;
                                    wt: 0 nil, 1 ErrWGTimeout, 2 hung, 3 not called;
                                    wc: 0 nil, 1 the context's error, 2 hung, 3 not called *)
}.

(* compact constructor used by the generated case files *)
Definition ti (tid : nat) (e : ev) (count : Z) (cl : list nat) (site : nat) : witem :=
  Item tid e (count, cl) site.

(* ---------------------------------------------------------------- packed cases
   The harness writes a case as a list of primitive 63-bit integers, each holding five 12-bit
   fields (elaborating such literals is an order of magnitude cheaper than elaborating the
   constructor form).  Field stream (signed values are offset by 2048):
     nthreads, per thread: ncalls, per call: kind (0 add, 1 wait), delta;
     tmo, nsteps, per step: tid, event (0 call, 1 ret, 2 tau, 3 stutter, 4 ret-panic),
     call kind, call delta, value, Count(), site, nclosed, closed...;
     nprobes, per probe: position, code
   [decode_case] is part of the judge (no theorem is about it); it is exercised by every
   corpus entry: a wrong decoding shows up as a difference from the model.                    *)
(* 12 bits of a primitive integer as a binary number (no unary numbers above a few hundred) *)
Fixpoint bits_N (k : nat) (i : int) : N :=
  match k with
  | O => 0%N
  | S k' => ((if Uint63.is_even i then 0 else 1) + 2 * bits_N k' (Uint63.lsr i 1%uint63))%N
  end.
Definition field_at (i : int) (k : int) : N := bits_N 12 (Uint63.lsr i k).
Definition fields_of (i : int) : list N :=
  [field_at i 0%uint63; field_at i 12%uint63; field_at i 24%uint63; field_at i 36%uint63;
   field_at i 48%uint63].

Definition unpack (l : list int) : list N := flat_map fields_of l.

Definition sgn (n : N) : Z := Z.of_N n - 2048.
Definition nn (n : N) : nat := N.to_nat n.

(* a signed value: one field v+2048, or the escape 4095 followed by a sign field and the magnitude
   in six 12-bit fields, little endian (deltas such as 1<<31, 1<<62) *)
Definition take_z (l : list N) : option (Z * list N) :=
  match l with
  | 4095%N :: neg :: m0 :: m1 :: m2 :: m3 :: m4 :: m5 :: r =>
      let m := (m0 + 4096 * (m1 + 4096 * (m2 + 4096 * (m3 + 4096 * (m4 + 4096 * m5)))))%N in
      Some ((match neg with 0%N => Z.of_N m | _ => - Z.of_N m end)%Z, r)
  | 4095%N :: _ => None
  | v :: r => Some (sgn v, r)
  | [] => None
  end.

Definition dec_call (k : N) (d : Z) : call := match k with 0%N => CAdd d | _ => CWait end.

Fixpoint dec_calls (n : nat) (l : list N) : option (list call * list N) :=
  match n with
  | O => Some ([], l)
  | S n' =>
      match l with
      | k :: r0 =>
          match take_z r0 with
          | Some (d, r) =>
              match dec_calls n' r with
              | Some (cs, r') => Some (dec_call k d :: cs, r')
              | None => None
              end
          | None => None
          end
      | _ => None
      end
  end.

Fixpoint dec_progs (n : nat) (l : list N) : option (list (list call) * list N) :=
  match n with
  | O => Some ([], l)
  | S n' =>
      match l with
      | nc :: r =>
          match dec_calls (nn nc) r with
          | Some (cs, r') =>
              match dec_progs n' r' with
              | Some (ps, r'') => Some (cs :: ps, r'')
              | None => None
              end
          | None => None
          end
      | [] => None
      end
  end.

Fixpoint take_n (n : nat) (l : list N) : option (list nat * list N) :=
  match n with
  | O => Some ([], l)
  | S n' => match l with
            | x :: r => match take_n n' r with
                        | Some (a, b) => Some (nn x :: a, b)
                        | None => None
                        end
            | [] => None
            end
  end.

Definition dec_ev (e k : N) (d v : Z) : option ev :=
  match e with
  | 0%N => Some (ECall (dec_call k d))
  | 1%N => Some (ERet (dec_call k d)
                      (match k with 0%N => RInt v | _ => RChan (Z.to_nat v) end))
  | 2%N => Some ETau
  | 3%N => Some EStutter
  | 4%N => Some (ERet (dec_call k d) RPanic)
  | _ => None
  end.

Fixpoint dec_steps (n : nat) (l : list N) : option (list witem * list N) :=
  match n with
  | O => Some ([], l)
  | S n' =>
      match l with
      | tid :: e :: k :: r0 =>
          match take_z r0 with
          | Some (d, r1) =>
              match take_z r1 with
              | Some (v, r2) =>
                  match take_z r2 with
                  | Some (cnt, site :: ncl :: r) =>
                      match dec_ev e k d v, take_n (nn ncl) r with
                      | Some e', Some (cl, r') =>
                          match dec_steps n' r' with
                          | Some (its, r'') => Some (Item (nn tid) e' (cnt, cl) (nn site) :: its, r'')
                          | None => None
                          end
                      | _, _ => None
                      end
                  | _ => None
                  end
              | None => None
              end
          | None => None
          end
      | _ => None
      end
  end.

Fixpoint dec_probes (n : nat) (l : list N) : option (list (nat * nat)) :=
  match n with
  | O => Some []
  | S n' =>
      match l with
      | pos :: code :: r =>
          match dec_probes n' r with
          | Some ps => Some ((nn pos, nn code) :: ps)
          | None => None
          end
      | _ => None
      end
  end.

(* ---------------------------------------------------------------- canonical channel names *)
Fixpoint lookup (x : nat) (m : list (nat * nat)) : option nat :=
  match m with
  | [] => None
  | (y, i) :: r => if Nat.eqb x y then Some i else lookup x r
  end.

Fixpoint canon_from (m : list (nat * nat)) (items : list witem) : list witem :=
  match items with
  | [] => []
  | it :: rest =>
      let '(m', e') :=
        match it_ev it with
        | ERet CWait (RChan x) =>
            match lookup x m with
            | Some i => (m, ERet CWait (RChan i))
            | None => (m ++ [(x, length m)], ERet CWait (RChan (length m)))
            end
        | e => (m, e)
        end in
      let cl := snd (it_obs it) in
      let cl' := map snd (filter (fun p => memb (fst p) cl) m') in
      Item (it_tid it) e' (fst (it_obs it), cl') (it_site it) :: canon_from m' rest
  end.

(* trace of a machine (newest first) -> oldest first with canonical channel names *)
Definition canon (t : trace) : list witem := canon_from [] (rev t).

(* ---------------------------------------------------------------- equality of items *)
Definition call_eqb (a b : call) : bool :=
  match a, b with
  | CAdd x, CAdd y => Z.eqb x y
  | CWait, CWait => true
  | CCount, CCount => true
  | _, _ => false
  end.
Definition ret_eqb (a b : ret) : bool :=
  match a, b with
  | RInt x, RInt y => Z.eqb x y
  | RChan x, RChan y => Nat.eqb x y
  | RPanic, RPanic => true
  | _, _ => false
  end.
Definition ev_eqb (a b : ev) : bool :=
  match a, b with
  | ECall x, ECall y => call_eqb x y
  | ERet x r, ERet y q => call_eqb x y && ret_eqb r q
  | ETau, ETau => true
  | EStutter, EStutter => true
  | _, _ => false
  end.
Fixpoint natlist_eqb (a b : list nat) : bool :=
  match a, b with
  | [], [] => true
  | x :: r, y :: q => Nat.eqb x y && natlist_eqb r q
  | _, _ => false
  end.
Definition item_eqb (a b : witem) : bool :=
  Nat.eqb (it_tid a) (it_tid b) && ev_eqb (it_ev a) (it_ev b) &&
  Z.eqb (fst (it_obs a)) (fst (it_obs b)) && natlist_eqb (snd (it_obs a)) (snd (it_obs b)) &&
  Nat.eqb (it_site a) (it_site b).
Fixpoint items_eqb (a b : list witem) : bool :=
  match a, b with
  | [], [] => true
  | x :: r, y :: q => item_eqb x y && items_eqb r q
  | _, _ => false
  end.

(* index of the first differing step (for reports) *)
Fixpoint first_diff (n : nat) (a b : list witem) : option nat :=
  match a, b with
  | [], [] => None
  | x :: r, y :: q => if item_eqb x y then first_diff (S n) r q else Some n
  | _, _ => Some n
  end.

Definition decode_case (l : list int) : option wg_case :=
  match unpack l with
  | nt :: r =>
      match dec_progs (nn nt) r with
      | Some (ps, tmo :: ns :: r') =>
          match dec_steps (nn ns) r' with
          | Some (its, np :: r'') =>
              match dec_probes (nn np) r'' with
              | Some prs => Some (WGCase ps (map (fun it => it_tid it) its) its (nn tmo) prs)
              | None => None
              end
          | _ => None
          end
      | _ => None
      end
  | [] => None
  end.

(* ---------------------------------------------------------------- the judges *)
Definition obs_trace (c : wg_case) : trace := rev (wc_obs c).

Definition model_trace (c : wg_case) : list witem := canon (tr (wg_exec (wc_progs c) (wc_sched c))).
Definition model_trace_orig (c : wg_case) : list witem :=
  canon (tr (wgo_exec (wc_progs c) (wc_sched c))).

Definition model_eq (c : wg_case) : bool := items_eqb (model_trace c) (wc_obs c).
Definition model_eq_orig (c : wg_case) : bool := items_eqb (model_trace_orig c) (wc_obs c).

(* WaitTimeout probe: judged only when it was made with no Add in flight *)
Definition tmo_ok (c : wg_case) : bool :=
  let t := obs_trace c in
  match wc_tmo c with
  | 3%nat => true
  | v => implb (is_nil (adds_in_flight t))
               (Nat.eqb v (if Z.eqb (sum_deltas t) 0 then 0 else 1))
  end.
(* the model's prediction for the probe *)
Definition tmo_model (c : wg_case) : bool :=
  match wc_tmo c with
  | 3%nat => true
  | v => let cf := wg_exec (wc_progs c) (wc_sched c) in
         Nat.eqb v (if Z.eqb (cnt (sh cf)) 0 then 0 else 1)
  end.

(* WaitTimeout / WaitCTX called in the middle of the schedule: judged when no Add is in flight
   at that position.  With sum > 0 WaitTimeout must time out and WaitCTX must return the context's
   error (the deadline is honoured whatever the count is); with sum = 0 WaitTimeout returns nil
   and WaitCTX may return either (both cases of its select are ready).  Neither may hang. *)
Definition probe_ok (t : trace) (pr : nat * nat) : bool :=
  let p := prefix_upto t (fst pr) in
  if is_nil (adds_in_flight p) then
    let z := Z.eqb (sum_deltas p) 0 in
    let wt := Nat.div (snd pr) 4 in
    let wc := Nat.modulo (snd pr) 4 in
    (Nat.eqb wt 3 || Nat.eqb wt (if z then 0 else 1)) &&
    (Nat.eqb wc 3 || (if z then Nat.leb wc 1 else Nat.eqb wc 1))
  else true.
Definition probes_ok (c : wg_case) : bool := forallb (probe_ok (obs_trace c)) (wc_probes c).

Definition in_domain (c : wg_case) : bool := well_behaved (obs_trace c).
(* a recorded trace that does not respect the per-thread call discipline cannot come from a
   correct harness run: it is reported as a correspondence failure (code 2).  For well-formed
   traces c01_ok is exactly c01_spec (WGSpecProofs.c01_ok_iff_spec). *)
Definition obs_wf (c : wg_case) : bool := trace_wf (obs_trace c).

Definition c01_judge (c : wg_case) : nat :=
  if in_domain c then
    if obs_wf c then verdict (c01_ok (obs_trace c)) (model_eq c) else 2%nat
  else 0%nat.
Definition c02_judge (c : wg_case) : nat :=
  if in_domain c then
    if obs_wf c then verdict (c02_ok (obs_trace c) && tmo_ok c && probes_ok c)
                             (model_eq c && tmo_model c)
    else 2%nat
  else 0%nat.

(* C02's statement carries no side condition on the sign of the count (C02_rest, C02_monitor hold
   for every program): the same judgement without the in_domain gate.  Used for the schedules with
   negative excursions that are searched after a tie / obligation broke (the scheduler then lets
   decrements overtake the increments covering them). *)
Definition c02_judge_unc (c : wg_case) : nat :=
  if obs_wf c then verdict (c02_ok (obs_trace c) && tmo_ok c && probes_ok c)
                           (model_eq c && tmo_model c)
  else 2%nat.
Definition c02_trace_judge_unc (c : wg_case) : nat :=
  if obs_wf c then (if c02_ok (obs_trace c) && tmo_ok c && probes_ok c then 0%nat else 1%nat)
  else 2%nat.

(* the same against the model of the pinned two-word algorithm (development aid: shows that
   the [_orig] machine, about which the refutation theorems speak, is the pinned code) *)
Definition c01_judge_orig (c : wg_case) : nat :=
  if in_domain c then verdict (c01_ok (obs_trace c)) (model_eq_orig c) else 0%nat.
Definition c02_judge_orig (c : wg_case) : nat :=
  if in_domain c then verdict (c02_ok (obs_trace c) && tmo_ok c && probes_ok c) (model_eq_orig c)
  else 0%nat.

(* cross-check of the two formulations of the C01 monitor on an observed trace: 0 = agree *)
Definition mon_agree (c : wg_case) : nat :=
  if Bool.eqb (c01_ok (obs_trace c)) (c01_decl (obs_trace c)) then 0%nat else 2%nat.

(* trace-only judgement, for a source whose structure is not the one the machine models (the tie
   is broken and the shared-memory operations differ): no model state is compared, the recorded
   trace is judged by the property's monitor alone - verdict 1 or 0; a recording that is not
   well formed is a harness failure (2) *)
Definition c01_trace_judge (c : wg_case) : nat :=
  if in_domain c then
    if obs_wf c then (if c01_ok (obs_trace c) then 0%nat else 1%nat) else 2%nat
  else 0%nat.
Definition c02_trace_judge (c : wg_case) : nat :=
  if in_domain c then
    if obs_wf c then (if c02_ok (obs_trace c) && tmo_ok c && probes_ok c then 0%nat else 1%nat)
    else 2%nat
  else 0%nat.

(* ---------------------------------------------------------------- the deadline probe
   harness/cmd/c01 -mode deadline: WaitTimeout(d) / WaitCTX(context.WithTimeout(d)) on a goroutine
   of their own on the real code while a driver works the group.  Times in milliseconds.
     scenario 0  idle group: nil, at once (within 0.7 d)
     scenario 1  count 1, never released: the deadline's error, not before 0.8 d, not after 2 d
     scenario 2  release + re-arm cycles (Dec to zero; the woken waiter is held at its next yield
                 point until the Inc that re-arms the group is done): an answer within 2 d,
                 whatever it is - the deadline is an absolute time fixed at the call
                 (WGTimed: the k of TW0 k only counts down; WGTimed.twr_unbounded is the model of
                 an implementation that restarts it)
     scenario 3  WaitCTX(ctx), ctx = WithTimeout(10 d) cancelled by its owner at d/2, count 1: the
                 context's error right after the cancellation (a deadline-carrying context that
                 ends early must end the wait)
   result: 0 nil, 1 the deadline's error, 2 no answer within 5 d.  The factor 2 is slack for a
   loaded machine; the harness re-measures before it writes a violating case.                *)
Record dl_case := DlCase {
  dl_api : N;        (* 0 WaitTimeout, 1 WaitCTX *)
  dl_scen : N;
  dl_d : N;
  dl_elapsed : N;
  dl_res : N;
  dl_cycles : N;     (* release + re-arm cycles made *)
  dl_held : N        (* of which the waiter was held between Dec and Inc *)
}.

Definition dl_ok (c : dl_case) : bool :=
  match dl_scen c with
  | 0%N => N.eqb (dl_res c) 0 && N.leb (10 * dl_elapsed c) (7 * dl_d c)
  | 1%N => N.eqb (dl_res c) 1 && N.leb (8 * dl_d c) (10 * dl_elapsed c)
           && N.leb (dl_elapsed c) (2 * dl_d c)
  | 2%N => negb (N.eqb (dl_res c) 2) && N.leb (dl_elapsed c) (2 * dl_d c)
  (* scenario 3: WaitCTX with a context whose deadline is 10 d away, CANCELLED at d/2, count 1,
     never released: the context's error, not before 0.4 d and not after 2 d *)
  | _ => N.eqb (dl_res c) 1 && N.leb (4 * dl_d c) (10 * dl_elapsed c)
         && N.leb (dl_elapsed c) (2 * dl_d c)
  end%N.

Definition dl_judge (c : dl_case) : nat := if dl_ok c then 0%nat else 1%nat.
Definition dl_nontrivial (c : dl_case) : bool := N.ltb 0 (dl_held c).

(* model-only correspondence (spec ignored): used to tell apart code 2 from code 1 causes *)
Definition corr_judge (c : wg_case) : nat := if model_eq c then 0%nat else 2%nat.

(* non-trivial case: some step found a thread inside a call while another thread moved, i.e.
   the schedule really interleaves two calls *)
Fixpoint interleaves (cur : option nat) (open : list nat) (items : list witem) : bool :=
  match items with
  | [] => false
  | it :: rest =>
      let tid := it_tid it in
      let others := existsb (fun t => negb (Nat.eqb t tid)) open in
      let open' := match it_ev it with
                   | ECall _ => tid :: open
                   | ERet _ _ => remove_tid tid open
                   | _ => open
                   end in
      match it_ev it with
      | ETau | ERet _ _ => others || interleaves cur open' rest
      | _ => interleaves cur open' rest
      end
  end.
Definition wg_nontrivial (c : wg_case) : bool := interleaves None [] (wc_obs c).

(* judges on packed cases: verdict + 3 * (disagreement of the two C01 formulations); 9 = the
   words do not decode *)
Definition enc_judge (j : wg_case -> nat) (l : list int) : nat :=
  match decode_case l with
  | Some c => j c + 3 * mon_agree c
  | None => 9%nat
  end.
Definition enc_nontrivial (l : list int) : bool :=
  match decode_case l with Some c => wg_nontrivial c | None => false end.
