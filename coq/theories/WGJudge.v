(* WGJudge.v — judgement of traces recorded from the real SelectableWaitGroup (no proofs).

   A case = client programs, the schedule the vsched scheduler enforced on the instrumented
   real code, the recorded trace (OLDEST FIRST; channels named by hand-out order; closed set =
   ascending hand-out indices of the closed channels), and the outcome of the WaitTimeout(5ms)
   probe made after the schedule (0 nil, 1 ErrWGTimeout, 2 hung under the watchdog, 3 no probe).

     code 1  the recorded trace violates the property's monitor (failing input)
     code 2  it satisfies the monitor but differs from the model's trace for the same schedule
     code 0  otherwise; also for traces outside the property's domain (lb went negative)      *)
From Coq Require Import List Arith ZArith Bool.
From GT Require Import Base.Verdict.
From GT Require Import Base.Conc.
From GT Require Import WGModel WGSpec.
Import ListNotations.
Local Open Scope Z_scope.

Record wg_case := WGCase {
  wc_progs : list (list call);
  wc_sched : list nat;
  wc_obs : list witem;
  wc_tmo : nat
}.

(* compact constructor used by the generated case files *)
Definition ti (tid : nat) (e : ev) (count : Z) (cl : list nat) (site : nat) : witem :=
  Item tid e (count, cl) site.

(* ---------------------------------------------------------------- canonical channel names *)
Fixpoint lookup (x : nat) (m : list (nat * nat)) : option nat :=
  match m with
  | [] => None
  | (y, i) :: r => if Nat.eqb x y then Some i else lookup x r
  end.

Fixpoint canon_from (m : list (nat * nat)) (items : list witem) : list witem :=
  match items with
  | [] => []
  | it :: rest =>
      let '(m', e') :=
        match it_ev it with
        | ERet CWait (RChan x) =>
            match lookup x m with
            | Some i => (m, ERet CWait (RChan i))
            | None => (m ++ [(x, length m)], ERet CWait (RChan (length m)))
            end
        | e => (m, e)
        end in
      let cl := snd (it_obs it) in
      let cl' := map snd (filter (fun p => memb (fst p) cl) m') in
      Item (it_tid it) e' (fst (it_obs it), cl') (it_site it) :: canon_from m' rest
  end.

(* trace of a machine (newest first) -> oldest first with canonical channel names *)
Definition canon (t : trace) : list witem := canon_from [] (rev t).

(* ---------------------------------------------------------------- equality of items *)
Definition call_eqb (a b : call) : bool :=
  match a, b with
  | CAdd x, CAdd y => Z.eqb x y
  | CWait, CWait => true
  | CCount, CCount => true
  | _, _ => false
  end.
Definition ret_eqb (a b : ret) : bool :=
  match a, b with
  | RInt x, RInt y => Z.eqb x y
  | RChan x, RChan y => Nat.eqb x y
  | RPanic, RPanic => true
  | _, _ => false
  end.
Definition ev_eqb (a b : ev) : bool :=
  match a, b with
  | ECall x, ECall y => call_eqb x y
  | ERet x r, ERet y q => call_eqb x y && ret_eqb r q
  | ETau, ETau => true
  | EStutter, EStutter => true
  | _, _ => false
  end.
Fixpoint natlist_eqb (a b : list nat) : bool :=
  match a, b with
  | [], [] => true
  | x :: r, y :: q => Nat.eqb x y && natlist_eqb r q
  | _, _ => false
  end.
Definition item_eqb (a b : witem) : bool :=
  Nat.eqb (it_tid a) (it_tid b) && ev_eqb (it_ev a) (it_ev b) &&
  Z.eqb (fst (it_obs a)) (fst (it_obs b)) && natlist_eqb (snd (it_obs a)) (snd (it_obs b)) &&
  Nat.eqb (it_site a) (it_site b).
Fixpoint items_eqb (a b : list witem) : bool :=
  match a, b with
  | [], [] => true
  | x :: r, y :: q => item_eqb x y && items_eqb r q
  | _, _ => false
  end.

(* index of the first differing step (for reports) *)
Fixpoint first_diff (n : nat) (a b : list witem) : option nat :=
  match a, b with
  | [], [] => None
  | x :: r, y :: q => if item_eqb x y then first_diff (S n) r q else Some n
  | _, _ => Some n
  end.

(* ---------------------------------------------------------------- the judges *)
Definition obs_trace (c : wg_case) : trace := rev (wc_obs c).

Definition model_trace (c : wg_case) : list witem := canon (tr (wg_exec (wc_progs c) (wc_sched c))).
Definition model_trace_orig (c : wg_case) : list witem :=
  canon (tr (wgo_exec (wc_progs c) (wc_sched c))).

Definition model_eq (c : wg_case) : bool := items_eqb (model_trace c) (wc_obs c).
Definition model_eq_orig (c : wg_case) : bool := items_eqb (model_trace_orig c) (wc_obs c).

(* WaitTimeout probe: judged only when it was made with no Add in flight *)
Definition tmo_ok (c : wg_case) : bool :=
  let t := obs_trace c in
  match wc_tmo c with
  | 3%nat => true
  | v => implb (is_nil (adds_in_flight t))
               (Nat.eqb v (if Z.eqb (sum_deltas t) 0 then 0 else 1))
  end.
(* the model's prediction for the probe *)
Definition tmo_model (c : wg_case) : bool :=
  match wc_tmo c with
  | 3%nat => true
  | v => let cf := wg_exec (wc_progs c) (wc_sched c) in
         Nat.eqb v (if Z.eqb (cnt (sh cf)) 0 then 0 else 1)
  end.

Definition in_domain (c : wg_case) : bool := well_behaved (obs_trace c).

Definition c01_judge (c : wg_case) : nat :=
  if in_domain c then verdict (c01_ok (obs_trace c)) (model_eq c) else 0%nat.
Definition c02_judge (c : wg_case) : nat :=
  if in_domain c then verdict (c02_ok (obs_trace c) && tmo_ok c) (model_eq c && tmo_model c)
  else 0%nat.

(* the same against the model of the pinned two-word algorithm (development aid: shows that
   the [_orig] machine, about which the refutation theorems speak, is the pinned code) *)
Definition c01_judge_orig (c : wg_case) : nat :=
  if in_domain c then verdict (c01_ok (obs_trace c)) (model_eq_orig c) else 0%nat.
Definition c02_judge_orig (c : wg_case) : nat :=
  if in_domain c then verdict (c02_ok (obs_trace c) && tmo_ok c) (model_eq_orig c) else 0%nat.

(* cross-check of the two formulations of the C01 monitor on an observed trace: 0 = agree *)
Definition mon_agree (c : wg_case) : nat :=
  if Bool.eqb (c01_ok (obs_trace c)) (c01_decl (obs_trace c)) then 0%nat else 2%nat.

(* model-only correspondence (spec ignored): used to tell apart code 2 from code 1 causes *)
Definition corr_judge (c : wg_case) : nat := if model_eq c then 0%nat else 2%nat.

(* non-trivial case: some step found a thread inside a call while another thread moved, i.e.
   the schedule really interleaves two calls *)
Fixpoint interleaves (cur : option nat) (open : list nat) (items : list witem) : bool :=
  match items with
  | [] => false
  | it :: rest =>
      let tid := it_tid it in
      let others := existsb (fun t => negb (Nat.eqb t tid)) open in
      let open' := match it_ev it with
                   | ECall _ => tid :: open
                   | ERet _ _ => remove_tid tid open
                   | _ => open
                   end in
      match it_ev it with
      | ETau | ERet _ _ => others || interleaves cur open' rest
      | _ => interleaves cur open' rest
      end
  end.
Definition wg_nontrivial (c : wg_case) : bool := interleaves None [] (wc_obs c).
