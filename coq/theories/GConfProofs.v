(* GConfProofs.v — lemmas about GConfModel: the repaired reduceAny computes the
   specification's resolution on every well-formed document; Get reads the subtree at a path;
   loading fails exactly when a switch on the selected path has no active entry; unselected
   branches are irrelevant; the pinned code violated all of this (three witnesses).          *)
From Coq Require Import List String Ascii Bool Arith Lia.
From GT Require Import GConfModel.
Import ListNotations.
Local Open Scope string_scope.

(* ------------------------------------------------------------------ induction on trees *)
Section TreeInd.
  Variable P : tree -> Prop.
  Hypothesis HStr : forall s, P (Str s).
  Hypothesis HAtom : forall s, P (Atom s).
  Hypothesis HNull : P Null.
  Hypothesis HLst : forall l, Forall P l -> P (Lst l).
  Hypothesis HMp : forall kv, Forall (fun p => P (snd p)) kv -> P (Mp kv).

  Fixpoint tree_ind' (t : tree) : P t :=
    match t with
    | Str s => HStr s
    | Atom s => HAtom s
    | Null => HNull
    | Lst l =>
        HLst l ((fix go (l : list tree) : Forall P l :=
                   match l with
                   | [] => Forall_nil _
                   | c :: r => Forall_cons c (tree_ind' c) (go r)
                   end) l)
    | Mp kv =>
        HMp kv ((fix go (l : list (string * tree)) : Forall (fun p => P (snd p)) l :=
                   match l with
                   | [] => Forall_nil _
                   | p :: r => Forall_cons p (tree_ind' (snd p)) (go r)
                   end) kv)
    end.
End TreeInd.

(* ------------------------------------------------------------------ unfolding reduce *)
Definition rmap (f : tree -> res tree) (kv : list (string * tree)) : list (string * res tree) :=
  map (fun p => (fst p, f (snd p))) kv.

Lemma reduce_Lst : forall dims l,
  reduce dims (Lst l) = lift Lst (seq_list (map (reduce dims) l)).
Proof.
  intros dims l. cbn [reduce].
  match goal with |- match ?E with _ => _ end = _ =>
    assert (H : E = seq_list (map (reduce dims) l)) end.
  { induction l as [|c r IH]; [reflexivity|].
    cbn [map seq_list]. destruct (reduce dims c); [|reflexivity]. rewrite IH. reflexivity. }
  rewrite H. destruct (seq_list _); reflexivity.
Qed.

Lemma reduce_Mp : forall dims kv,
  reduce dims (Mp kv) =
  match classify dims kv with
  | Some d => match active_entry d (rmap (reduce dims) kv) with Some r => r | None => Err end
  | None => lift Mp (seq_kv (rmap (reduce dims) kv))
  end.
Proof.
  intros dims kv. cbn [reduce]. destruct (classify dims kv) as [d|].
  - unfold active_entry.
    match goal with |- match ?E with _ => _ end = _ =>
      assert (H : E = option_map snd
                (find (fun p : string * res tree => negb (is_default (fst p)) && is_sel d (fst p))
                      (rmap (reduce dims) kv))) end.
    { induction kv as [|[k c] r IH]; [reflexivity|].
      cbn [rmap map find fst snd]. destruct (negb (is_default k) && is_sel d k); [reflexivity|].
      exact IH. }
    rewrite H. clear H.
    destruct (find _ (rmap (reduce dims) kv)) as [p|]; [reflexivity|]. cbn [option_map].
    match goal with |- match ?E with _ => _ end = _ =>
      assert (H : E = option_map snd
                (find (fun p : string * res tree => is_default (fst p)) (rmap (reduce dims) kv))) end.
    { induction kv as [|[k c] r IH]; [reflexivity|].
      cbn [rmap map find fst snd]. destruct (is_default k); [reflexivity|]. exact IH. }
    rewrite H. destruct (find _ (rmap (reduce dims) kv)); reflexivity.
  - match goal with |- match ?E with _ => _ end = _ =>
      assert (H : E = seq_kv (rmap (reduce dims) kv)) end.
    { induction kv as [|[k c] r IH]; [reflexivity|].
      cbn [rmap map seq_kv fst snd]. destruct (reduce dims c); [|reflexivity].
      fold (rmap (reduce dims) r). rewrite IH. reflexivity. }
    rewrite H. destruct (seq_kv _); reflexivity.
Qed.

Lemma resolve_Mp : forall dims kv,
  resolve_spec dims (Mp kv) =
  match spec_switch dims kv with
  | Some d => match active_entry d (rmap (resolve_spec dims) kv) with Some r => r | None => Err end
  | None => lift Mp (seq_kv (rmap (resolve_spec dims) kv))
  end.
Proof. reflexivity. Qed.

Lemma resolve_Lst : forall dims l,
  resolve_spec dims (Lst l) = lift Lst (seq_list (map (resolve_spec dims) l)).
Proof. reflexivity. Qed.

(* ------------------------------------------------------------------ classification *)
Lemma switch_dimension_find : forall dims keys,
  switch_dimension dims keys = find (fun d => forallb (parses d) keys) dims.
Proof. induction dims as [|d r IH]; intros; cbn; [reflexivity|]. rewrite IH. reflexivity. Qed.

(* a map that holds nothing but a `default` entry: the one shape on which the code (which
   treats it as a switch of the first dimension, as it always did) and the specification
   (for which a switch has at least one dimension value) differ; outside C03's documents *)
Definition default_only {A} (kv : list (string * A)) : bool :=
  match kv with [] => false | _ => match nondefault_keys kv with [] => true | _ => false end end.

Lemma classify_spec_switch : forall A dims (kv : list (string * A)),
  default_only kv = false -> classify dims kv = spec_switch dims kv.
Proof.
  intros A dims kv H. unfold classify, spec_switch, default_only in *.
  destruct kv as [|p r]; [reflexivity|].
  destruct (nondefault_keys (p :: r)) eqn:E; [discriminate|].
  apply switch_dimension_find.
Qed.

Fixpoint no_default_only (t : tree) : Prop :=
  match t with
  | Lst l => (fix go (l : list tree) : Prop :=
                match l with [] => True | c :: r => no_default_only c /\ go r end) l
  | Mp kv => default_only kv = false /\
             (fix go (l : list (string * tree)) : Prop :=
                match l with [] => True | p :: r => no_default_only (snd p) /\ go r end) kv
  | _ => True
  end.

Lemma ndo_Lst : forall l, no_default_only (Lst l) <-> Forall no_default_only l.
Proof.
  intros l. cbn [no_default_only]. induction l as [|c r IH]; split; intros H.
  - constructor. - exact I.
  - destruct H as [H1 H2]. constructor; [exact H1| apply IH; exact H2].
  - inversion H; subst. split; [assumption| apply IH; assumption].
Qed.

Lemma ndo_Mp : forall kv, no_default_only (Mp kv) <->
  default_only kv = false /\ Forall (fun p => no_default_only (snd p)) kv.
Proof.
  intros kv. cbn [no_default_only]. split; intros [H0 H]; split; try exact H0.
  - induction kv as [|p r IH] in H |- *; [constructor|]. destruct H as [H1 H2].
    constructor; [exact H1| apply IH; exact H2].
  - clear H0. induction H as [|p r H1 H2 IH]; [exact I|]. split; assumption.
Qed.

Lemma rmap_ext : forall f g kv,
  Forall (fun p => f (snd p) = g (snd p)) kv -> rmap f kv = rmap g kv.
Proof.
  intros f g kv H. induction H as [|p r H1 H2 IH]; [reflexivity|].
  cbn [rmap map]. rewrite H1. f_equal. exact IH.
Qed.

Lemma map_ext_Forall : forall (f g : tree -> res tree) l,
  Forall (fun c => f c = g c) l -> map f l = map g l.
Proof.
  intros f g l H. induction H as [|c r H1 H2 IH]; [reflexivity|]. cbn. rewrite H1, IH. reflexivity.
Qed.

(* the repaired code computes the specification wherever no map is `default`-only *)
Lemma reduce_eq_spec : forall dims t, no_default_only t -> reduce dims t = resolve_spec dims t.
Proof.
  intros dims t. induction t as [s|s| |l IH|kv IH] using tree_ind'; intros H; try reflexivity.
  - rewrite reduce_Lst, resolve_Lst. apply ndo_Lst in H.
    rewrite (map_ext_Forall (reduce dims) (resolve_spec dims) l); [reflexivity|].
    rewrite Forall_forall in *. intros c Hc. apply IH; [exact Hc| apply H; exact Hc].
  - rewrite reduce_Mp, resolve_Mp. apply ndo_Mp in H. destruct H as [H0 H].
    rewrite (classify_spec_switch _ dims kv H0).
    rewrite (rmap_ext (reduce dims) (resolve_spec dims) kv); [reflexivity|].
    rewrite Forall_forall in *. intros p Hp. apply IH; [exact Hp| apply H; exact Hp].
Qed.

(* ------------------------------------------------------------------ well-formed documents *)
Inductive WF (dims : list dim) : option nat -> tree -> Prop :=
| WF_str : forall p s, WF dims p (Str s)
| WF_atom : forall p s, WF dims p (Atom s)
| WF_null : forall p, WF dims p Null
| WF_lst : forall p l, Forall (WF dims None) l -> WF dims p (Lst l)
| WF_plain : forall p kv,
    NoDup (map fst kv) ->
    (forall k, In k (map fst kv) ->
               k <> default_key /\ forall d, In d dims -> d_parse d k = None) ->
    Forall (fun q => WF dims None (snd q)) kv ->
    WF dims p (Mp kv)
| WF_switch : forall p i d kv,
    NoDup (map fst kv) ->
    nondefault_keys kv <> [] ->
    nth_error dims i = Some d ->
    (forall k, In k (nondefault_keys kv) -> d_parse d k <> None) ->
    (forall j dj, j < i -> nth_error dims j = Some dj ->
                  exists k, In k (nondefault_keys kv) /\ d_parse dj k = None) ->
    NoDup (parsed_values d (nondefault_keys kv)) ->
    p <> Some i ->
    Forall (fun q => WF dims (Some i) (snd q)) kv ->
    WF dims p (Mp kv).

Lemma nondefault_keys_in : forall A (kv : list (string * A)) k,
  In k (nondefault_keys kv) <-> In k (map fst kv) /\ is_default k = false.
Proof.
  intros A kv k. unfold nondefault_keys. rewrite filter_In.
  destruct (is_default k); cbn; intuition congruence.
Qed.

Lemma is_default_false : forall k, k <> default_key -> is_default k = false.
Proof. intros k H. unfold is_default. apply String.eqb_neq. exact H. Qed.

Lemma WF_Lst_inv : forall dims p l, WF dims p (Lst l) -> Forall (WF dims None) l.
Proof. intros dims p l H. inversion H; subst. assumption. Qed.

Definition plain_map (dims : list dim) (kv : list (string * tree)) : Prop :=
  NoDup (map fst kv) /\
  (forall k, In k (map fst kv) ->
             k <> default_key /\ forall d, In d dims -> d_parse d k = None) /\
  Forall (fun q => WF dims None (snd q)) kv.

Definition switch_map (dims : list dim) (p : option nat) (i : nat) (d : dim)
           (kv : list (string * tree)) : Prop :=
  NoDup (map fst kv) /\
  nondefault_keys kv <> [] /\
  nth_error dims i = Some d /\
  (forall k, In k (nondefault_keys kv) -> d_parse d k <> None) /\
  (forall j dj, j < i -> nth_error dims j = Some dj ->
                exists k, In k (nondefault_keys kv) /\ d_parse dj k = None) /\
  NoDup (parsed_values d (nondefault_keys kv)) /\
  p <> Some i /\
  Forall (fun q => WF dims (Some i) (snd q)) kv.

Lemma WF_Mp_inv : forall dims p kv, WF dims p (Mp kv) ->
  plain_map dims kv \/ exists i d, switch_map dims p i d kv.
Proof.
  intros dims p kv H. inversion H; subst.
  - left. unfold plain_map. tauto.
  - right. exists i, d. unfold switch_map. tauto.
Qed.

Lemma WF_no_default_only : forall dims t p, WF dims p t -> no_default_only t.
Proof.
  intros dims t. induction t as [s|s| |l IH|kv IH] using tree_ind'; intros p H; try exact I.
  - apply ndo_Lst. apply WF_Lst_inv in H. rewrite Forall_forall in *. intros c Hc.
    eapply IH; [exact Hc|]. apply H. exact Hc.
  - apply ndo_Mp. apply WF_Mp_inv in H.
    destruct H as [[Hnd [Hkeys Hch]] | [i [d [Hnd [Hne [Hn [Hp [Hfirst [Hv [Hpar Hch]]]]]]]]]].
    + split.
      * unfold default_only. destruct kv as [|[k c] r]; [reflexivity|].
        destruct (nondefault_keys ((k, c) :: r)) eqn:E; [|reflexivity]. exfalso.
        assert (Hk : In k (nondefault_keys ((k, c) :: r))).
        { apply nondefault_keys_in. split; [left; reflexivity|].
          apply is_default_false. apply (Hkeys k). left. reflexivity. }
        rewrite E in Hk. exact Hk.
      * rewrite Forall_forall in *. intros q Hq. eapply IH; [exact Hq|]. apply Hch. exact Hq.
    + split.
      * unfold default_only. destruct kv as [|q r]; [reflexivity|].
        destruct (nondefault_keys (q :: r)); [congruence| reflexivity].
      * rewrite Forall_forall in *. intros q Hq. eapply IH; [exact Hq|]. apply Hch. exact Hq.
Qed.

Lemma reduce_resolves : forall dims t p, WF dims p t -> reduce dims t = resolve_spec dims t.
Proof. intros. apply reduce_eq_spec. eapply WF_no_default_only. eassumption. Qed.

Lemma load_resolves : forall dims t p, WF dims p t -> load_model dims t = load_spec dims t.
Proof.
  intros dims t p H. unfold load_model, load_spec. destruct t; try reflexivity.
  rewrite (reduce_resolves dims _ p H). reflexivity.
Qed.

(* ------------------------------------------------------------------ wfb is sound for WF *)
Lemma nodup_strings_sound : forall l, nodup_strings l = true -> NoDup l.
Proof.
  induction l as [|x r IH]; intros H; [constructor|]. cbn in H.
  apply andb_true_iff in H. destruct H as [H1 H2]. constructor; [|apply IH; exact H2].
  intros Hin. apply negb_true_iff in H1.
  assert (existsb (String.eqb x) r = true); [|congruence].
  apply existsb_exists. exists x. split; [exact Hin| apply String.eqb_refl].
Qed.

Lemma nodup_nats_sound : forall l, nodup_nats l = true -> NoDup l.
Proof.
  induction l as [|x r IH]; intros H; [constructor|]. cbn in H.
  apply andb_true_iff in H. destruct H as [H1 H2]. constructor; [|apply IH; exact H2].
  intros Hin. apply negb_true_iff in H1.
  assert (existsb (Nat.eqb x) r = true); [|congruence].
  apply existsb_exists. exists x. split; [exact Hin| apply Nat.eqb_refl].
Qed.

Lemma index_of_switch_sound : forall dims keys i0 i,
  index_of_switch dims keys i0 = Some i ->
  i0 <= i /\
  (exists d, nth_error dims (i - i0) = Some d /\ forallb (parses d) keys = true) /\
  (forall j dj, j < i - i0 -> nth_error dims j = Some dj -> forallb (parses dj) keys = false).
Proof.
  induction dims as [|d r IH]; intros keys i0 i H; [discriminate|]. cbn in H.
  destruct (forallb (parses d) keys) eqn:E.
  - inversion H; subst. split; [lia|]. rewrite Nat.sub_diag. split.
    + exists d. split; [reflexivity| exact E].
    + intros j dj Hj. lia.
  - apply IH in H. destruct H as [Hle [[d' [Hn Hf]] Hfirst]]. split; [lia|].
    replace (i - i0) with (S (i - S i0)) by lia. split.
    + exists d'. split; [exact Hn| exact Hf].
    + intros j dj Hj Hnth. destruct j as [|j]; cbn in Hnth.
      * inversion Hnth; subst. exact E.
      * apply (Hfirst j dj); [lia| exact Hnth].
Qed.

Lemma wfb_sound : forall dims t p, wfb dims p t = true -> WF dims p t.
Proof.
  intros dims t. induction t as [s|s| |l IH|kv IH] using tree_ind'; intros p H;
    try (constructor; fail).
  - cbn [wfb] in H. constructor. rewrite forallb_forall in H. rewrite Forall_forall in *.
    intros c Hc. apply IH; [exact Hc| apply H; exact Hc].
  - cbn [wfb] in H. apply andb_true_iff in H. destruct H as [Hnd H].
    apply nodup_strings_sound in Hnd.
    match type of H with (if ?c then _ else _) = true => destruct c eqn:Eplain end.
    + apply WF_plain; [exact Hnd| |].
      * intros k Hk. rewrite forallb_forall in Eplain. specialize (Eplain k Hk).
        apply andb_true_iff in Eplain. destruct Eplain as [E1 E2]. split.
        -- intros ->. cbn in E1. discriminate.
        -- intros d Hd. rewrite forallb_forall in E2. specialize (E2 d Hd).
           unfold parses in E2. destruct (d_parse d k); [discriminate| reflexivity].
      * rewrite forallb_forall in H. rewrite Forall_forall in *.
        intros q Hq. apply IH; [exact Hq| apply H; exact Hq].
    + destruct (nondefault_keys kv) as [|k0 ks] eqn:Ekeys; [discriminate|].
      destruct (index_of_switch dims (k0 :: ks) 0) as [i|] eqn:Ei; [|discriminate].
      apply andb_true_iff in H. destruct H as [H Hch].
      apply andb_true_iff in H. destruct H as [Hpar Hd].
      apply index_of_switch_sound in Ei. destruct Ei as [_ [[d [Hn Hf]] Hfirst]].
      rewrite Nat.sub_0_r in *. rewrite Hn in Hd.
      apply (WF_switch dims p i d kv); try assumption.
      * rewrite Ekeys. discriminate.
      * rewrite Ekeys. intros k Hk. rewrite forallb_forall in Hf. specialize (Hf k Hk).
        unfold parses in Hf. destruct (d_parse d k); [discriminate| discriminate].
      * rewrite Ekeys. intros j dj Hj Hnth. specialize (Hfirst j dj Hj Hnth).
        assert (Hex : existsb (fun k => negb (parses dj k)) (k0 :: ks) = true).
        { clear -Hfirst. induction (k0 :: ks) as [|a r IH]; [discriminate|]. cbn in *.
          destruct (parses dj a); cbn in *; [apply IH; exact Hfirst| reflexivity]. }
        apply existsb_exists in Hex. destruct Hex as [k [Hk1 Hk2]]. exists k. split; [exact Hk1|].
        unfold parses in Hk2. destruct (d_parse dj k); [discriminate| reflexivity].
      * rewrite Ekeys. apply nodup_nats_sound. exact Hd.
      * intros ->. cbn in Hpar. rewrite Nat.eqb_refl in Hpar. discriminate.
      * rewrite forallb_forall in Hch. rewrite Forall_forall in *.
        intros q Hq. apply IH; [exact Hq| apply Hch; exact Hq].
Qed.

(* ------------------------------------------------------------------ Get *)
Lemma extract_subtree : forall keys kv,
  keys <> [] -> extract kv keys = subtree_at (Mp kv) keys.
Proof.
  induction keys as [|k rest IH]; intros kv Hne; [congruence|].
  cbn [extract subtree_at]. destruct (assoc k kv) as [last|]; [|reflexivity].
  destruct rest as [|k2 rest2]; [reflexivity|].
  destruct last; try reflexivity. apply IH. discriminate.
Qed.

Lemma split_from_nonempty : forall s acc, split_from acc s <> [].
Proof. induction s as [|c r IH]; intros acc; cbn; [discriminate|]. destruct (Ascii.eqb c "."); [discriminate| apply IH]. Qed.

Lemma get_model_spec : forall cfg key, get_model cfg key = get_spec cfg key.
Proof.
  intros cfg key. unfold get_model, get_spec.
  destruct (split_dots key) eqn:E.
  - exfalso. eapply split_from_nonempty. exact E.
  - apply extract_subtree. discriminate.
Qed.

(* keys written with dots address the path of their segments *)
Fixpoint no_dot (s : string) : bool :=
  match s with EmptyString => true | String c r => negb (Ascii.eqb c ".") && no_dot r end.

Fixpoint join_dots (path : list string) : string :=
  match path with
  | [] => EmptyString
  | [k] => k
  | k :: rest => k ++ String "." (join_dots rest)
  end.

Lemma split_from_app : forall s acc rest,
  no_dot s = true ->
  split_from acc (s ++ String "." rest) = acc s :: split_from (fun x => x) rest.
Proof.
  induction s as [|c r IH]; intros acc rest H; cbn.
  - reflexivity.
  - cbn in H. apply andb_true_iff in H. destruct H as [H1 H2].
    apply negb_true_iff in H1. rewrite H1. rewrite IH; [reflexivity| exact H2].
Qed.

Lemma split_from_nodot : forall s acc, no_dot s = true -> split_from acc s = [acc s].
Proof.
  induction s as [|c r IH]; intros acc H; cbn; [reflexivity|].
  cbn in H. apply andb_true_iff in H. destruct H as [H1 H2].
  apply negb_true_iff in H1. rewrite H1. rewrite IH; [reflexivity| exact H2].
Qed.

Lemma split_join : forall path,
  path <> [] -> forallb no_dot path = true -> split_dots (join_dots path) = path.
Proof.
  induction path as [|k rest IH]; intros Hne H; [congruence|].
  cbn in H. apply andb_true_iff in H. destruct H as [H1 H2].
  destruct rest as [|k2 rest2].
  - cbn. unfold split_dots. apply split_from_nodot. exact H1.
  - cbn [join_dots]. unfold split_dots. rewrite split_from_app; [|exact H1].
    f_equal. apply IH; [discriminate| exact H2].
Qed.

Lemma get_at_path : forall cfg path,
  path <> [] -> forallb no_dot path = true ->
  get_model cfg (join_dots path) = subtree_at (Mp cfg) path.
Proof.
  intros cfg path Hne H. unfold get_model. rewrite split_join; [|exact Hne|exact H].
  apply extract_subtree. exact Hne.
Qed.

(* ------------------------------------------------------------------ the active entry *)
Lemma find_rmap : forall (f : tree -> res tree) (q : string -> bool) kv,
  find (fun p : string * res tree => q (fst p)) (rmap f kv) =
  option_map (fun p => (fst p, f (snd p))) (find (fun p : string * tree => q (fst p)) kv).
Proof.
  intros f q kv. induction kv as [|[k c] r IH]; [reflexivity|].
  cbn [rmap map find fst snd]. destruct (q k); [reflexivity| exact IH].
Qed.

Lemma active_entry_rmap : forall f d kv,
  active_entry d (rmap f kv) = option_map f (active_entry d kv).
Proof.
  intros f d kv. unfold active_entry.
  rewrite (find_rmap f (fun k => negb (is_default k) && is_sel d k)).
  destruct (find (fun p : string * tree => negb (is_default (fst p)) && is_sel d (fst p)) kv);
    [reflexivity|]. cbn [option_map].
  rewrite (find_rmap f is_default).
  destruct (find (fun p : string * tree => is_default (fst p)) kv); reflexivity.
Qed.

Lemma spec_switch_rmap : forall dims f kv, spec_switch dims (rmap f kv) = spec_switch dims kv.
Proof.
  intros. unfold spec_switch, nondefault_keys, rmap. rewrite map_map. cbn [fst]. reflexivity.
Qed.

Lemma active_entry_in : forall A d (kv : list (string * A)) c,
  active_entry d kv = Some c -> exists k, In (k, c) kv.
Proof.
  intros A d kv c H. unfold active_entry in H.
  destruct (find _ kv) as [p|] eqn:E1.
  - inversion H; subst. apply find_some in E1. exists (fst p). destruct p; apply E1.
  - destruct (find (fun p => is_default (fst p)) kv) as [p|] eqn:E2; [|discriminate].
    inversion H; subst. apply find_some in E2. exists (fst p). destruct p; apply E2.
Qed.

(* resolution of a switch = resolution of its active entry; no active entry = failure *)
Lemma resolve_switch : forall dims kv d,
  spec_switch dims kv = Some d ->
  resolve_spec dims (Mp kv) =
  match active_entry d kv with Some c => resolve_spec dims c | None => Err end.
Proof.
  intros dims kv d H. rewrite resolve_Mp, H, active_entry_rmap.
  destruct (active_entry d kv); reflexivity.
Qed.

Lemma resolve_plain : forall dims kv,
  spec_switch dims kv = None ->
  resolve_spec dims (Mp kv) = lift Mp (seq_kv (rmap (resolve_spec dims) kv)).
Proof. intros dims kv H. rewrite resolve_Mp, H. reflexivity. Qed.

(* ------------------------------------------------------------------ failure, exactly *)
(* Stuck: on the selected path there is a switch with neither the selected value nor default *)
Inductive Stuck (dims : list dim) : tree -> Prop :=
| St_lst : forall l c, In c l -> Stuck dims c -> Stuck dims (Lst l)
| St_plain : forall kv k c,
    spec_switch dims kv = None -> In (k, c) kv -> Stuck dims c -> Stuck dims (Mp kv)
| St_here : forall kv d,
    spec_switch dims kv = Some d -> active_entry d kv = None -> Stuck dims (Mp kv)
| St_follow : forall kv d c,
    spec_switch dims kv = Some d -> active_entry d kv = Some c -> Stuck dims c ->
    Stuck dims (Mp kv).

Lemma seq_list_err : forall A (l : list (res A)), seq_list l = Err <-> In Err l.
Proof.
  intros A l. induction l as [|[a|] r IH]; cbn.
  - split; [discriminate| intros []].
  - destruct (seq_list r); split; intros H.
    + discriminate. + destruct H as [H|H]; [discriminate| apply IH in H; discriminate].
    + right. apply IH. reflexivity. + reflexivity.
  - split; [intros _; left; reflexivity| reflexivity].
Qed.

Lemma seq_kv_err : forall A (l : list (string * res A)),
  seq_kv l = Err <-> exists k, In (k, Err) l.
Proof.
  intros A l. induction l as [|[k [a|]] r IH]; cbn.
  - split; [discriminate| intros [k []]].
  - destruct (seq_kv r); split; intros H.
    + discriminate.
    + destruct H as [k' [H|H]]; [discriminate|].
      assert (@Err (list (string * A)) = Err) by reflexivity.
      destruct IH as [_ IH]. discriminate IH. exists k'. exact H.
    + destruct IH as [IH _]. destruct (IH eq_refl) as [k' Hk']. exists k'. right. exact Hk'.
    + reflexivity.
  - split; [intros _; exists k; left; reflexivity| reflexivity].
Qed.

Lemma lift_err : forall A B (f : A -> B) r, lift f r = Err <-> r = Err.
Proof. intros A B f [a|]; cbn; split; congruence. Qed.

Lemma error_iff_stuck : forall dims t, resolve_spec dims t = Err <-> Stuck dims t.
Proof.
  intros dims t. induction t as [s|s| |l IH|kv IH] using tree_ind'.
  - split; [discriminate| intros H; inversion H].
  - split; [discriminate| intros H; inversion H].
  - split; [discriminate| intros H; inversion H].
  - rewrite resolve_Lst, lift_err, seq_list_err, in_map_iff. rewrite Forall_forall in IH. split.
    + intros [c [Hc Hin]]. apply (St_lst dims l c Hin). apply IH; assumption.
    + intros H. inversion H; subst. exists c. split; [apply IH; assumption| assumption].
  - rewrite Forall_forall in IH. destruct (spec_switch dims kv) as [d|] eqn:E.
    + rewrite (resolve_switch dims kv d E). destruct (active_entry d kv) as [c|] eqn:Ea.
      * destruct (active_entry_in _ d kv c Ea) as [k Hin]. specialize (IH (k, c) Hin). cbn in IH.
        split.
        -- intros H. apply (St_follow dims kv d c E Ea). apply IH. exact H.
        -- intros H. inversion H; subst; try congruence.
           rewrite E in H1. inversion H1; subst. rewrite Ea in H2. inversion H2; subst.
           apply IH. assumption.
      * split; [intros _; apply (St_here dims kv d E Ea)| reflexivity].
    + rewrite (resolve_plain dims kv E), lift_err, seq_kv_err. split.
      * intros [k Hin]. unfold rmap in Hin. apply in_map_iff in Hin.
        destruct Hin as [[k' c] [Heq Hin]]. cbn in Heq. inversion Heq; subst.
        apply (St_plain dims kv k c E Hin). apply (IH (k, c) Hin). assumption.
      * intros H. inversion H; subst; try congruence. exists k. unfold rmap.
        apply in_map_iff. exists (k, c). split; [|assumption]. cbn. f_equal.
        apply (IH (k, c)); assumption.
Qed.

(* ------------------------------------------------------------------ unselected branches *)
(* two documents agree on the selected part when they differ at most in entries of switches
   that are not the active entry *)
Inductive Agree (dims : list dim) : tree -> tree -> Prop :=
| Ag_refl : forall t, Agree dims t t
| Ag_lst : forall l l', Forall2 (Agree dims) l l' -> Agree dims (Lst l) (Lst l')
| Ag_plain : forall kv kv',
    spec_switch dims kv = None -> spec_switch dims kv' = None ->
    Forall2 (fun p q => fst p = fst q /\ Agree dims (snd p) (snd q)) kv kv' ->
    Agree dims (Mp kv) (Mp kv')
| Ag_switch : forall kv kv' d d' c c',
    spec_switch dims kv = Some d -> spec_switch dims kv' = Some d' ->
    active_entry d kv = Some c -> active_entry d' kv' = Some c' ->
    Agree dims c c' -> Agree dims (Mp kv) (Mp kv')
| Ag_switch_none : forall kv kv' d d',
    spec_switch dims kv = Some d -> spec_switch dims kv' = Some d' ->
    active_entry d kv = None -> active_entry d' kv' = None ->
    Agree dims (Mp kv) (Mp kv').

Section AgreeInd.
  Variable dims : list dim.
  Variable P : tree -> tree -> Prop.
  Hypothesis Hrefl : forall t, P t t.
  Hypothesis Hlst : forall l l', Forall2 (fun a b => Agree dims a b /\ P a b) l l' -> P (Lst l) (Lst l').
  Hypothesis Hplain : forall kv kv',
    spec_switch dims kv = None -> spec_switch dims kv' = None ->
    Forall2 (fun p q => fst p = fst q /\ Agree dims (snd p) (snd q) /\ P (snd p) (snd q)) kv kv' ->
    P (Mp kv) (Mp kv').
  Hypothesis Hswitch : forall kv kv' d d' c c',
    spec_switch dims kv = Some d -> spec_switch dims kv' = Some d' ->
    active_entry d kv = Some c -> active_entry d' kv' = Some c' ->
    Agree dims c c' -> P c c' -> P (Mp kv) (Mp kv').
  Hypothesis Hnone : forall kv kv' d d',
    spec_switch dims kv = Some d -> spec_switch dims kv' = Some d' ->
    active_entry d kv = None -> active_entry d' kv' = None -> P (Mp kv) (Mp kv').

  Fixpoint Agree_ind' (t t' : tree) (H : Agree dims t t') {struct H} : P t t' :=
    match H in Agree _ a b return P a b with
    | Ag_refl _ t => Hrefl t
    | Ag_lst _ l l' HF =>
        Hlst l l' ((fix go (l l' : list tree) (HF : Forall2 (Agree dims) l l') {struct HF}
                      : Forall2 (fun a b => Agree dims a b /\ P a b) l l' :=
                      match HF with
                      | Forall2_nil _ => Forall2_nil _
                      | Forall2_cons a b Hab Hr =>
                          Forall2_cons a b (conj Hab (Agree_ind' a b Hab)) (go _ _ Hr)
                      end) l l' HF)
    | Ag_plain _ kv kv' E E' HF =>
        Hplain kv kv' E E'
          ((fix go (l l' : list (string * tree))
                (HF : Forall2 (fun p q => fst p = fst q /\ Agree dims (snd p) (snd q)) l l') {struct HF}
              : Forall2 (fun p q => fst p = fst q /\ Agree dims (snd p) (snd q) /\ P (snd p) (snd q)) l l' :=
              match HF with
              | Forall2_nil _ => Forall2_nil _
              | Forall2_cons a b (conj Hk Hab) Hr =>
                  Forall2_cons a b (conj Hk (conj Hab (Agree_ind' (snd a) (snd b) Hab))) (go _ _ Hr)
              end) kv kv' HF)
    | Ag_switch _ kv kv' d d' c c' E E' A A' Hc =>
        Hswitch kv kv' d d' c c' E E' A A' Hc (Agree_ind' c c' Hc)
    | Ag_switch_none _ kv kv' d d' E E' A A' => Hnone kv kv' d d' E E' A A'
    end.
End AgreeInd.

Lemma agree_resolve : forall dims t t', Agree dims t t' -> resolve_spec dims t = resolve_spec dims t'.
Proof.
  intros dims t t' H. induction H using Agree_ind'.
  - reflexivity.
  - rewrite !resolve_Lst. f_equal. f_equal.
    induction H as [|a b l l' [_ Hab] _ IH]; [reflexivity|]. cbn. rewrite Hab, IH. reflexivity.
  - rewrite (resolve_plain dims kv H), (resolve_plain dims kv' H0). f_equal. f_equal.
    clear H H0. induction H1 as [|a b l l' [Hk [_ Hab]] _ IH]; [reflexivity|].
    cbn [rmap map]. rewrite Hk, Hab. f_equal. exact IH.
  - rewrite (resolve_switch dims kv d H), (resolve_switch dims kv' d' H0), H1, H2. exact IHAgree.
  - rewrite (resolve_switch dims kv d H), (resolve_switch dims kv' d' H0), H1, H2. reflexivity.
Qed.

(* ------------------------------------------------------------------ dimension values *)
Lemma select_dim_default : forall parse dflt env name,
  lookup_env env name = None -> select_dim parse dflt env name = Ok dflt.
Proof. intros. unfold select_dim. rewrite H. reflexivity. Qed.

Lemma select_dim_env : forall parse dflt env name s v,
  lookup_env env name = Some s -> parse s = Some v -> select_dim parse dflt env name = Ok v.
Proof. intros. unfold select_dim. rewrite H, H0. reflexivity. Qed.

Lemma select_dim_env_bad : forall parse dflt env name s,
  lookup_env env name = Some s -> parse s = None -> select_dim parse dflt env name = Err.
Proof. intros. unfold select_dim. rewrite H, H0. reflexivity. Qed.

Lemma apply_flag_none : forall parse v, apply_flag parse None v = v.
Proof. reflexivity. Qed.

Lemma apply_flag_some : forall parse s v v', parse s = Some v' -> apply_flag parse (Some s) v = v'.
Proof. intros parse s v v' H. unfold apply_flag. rewrite H. reflexivity. Qed.

(* ------------------------------------------------------------------ the pinned code *)
Definition T1 : list (string * nat) := [("D1a", 0); ("D1b", 1); ("D1c", 2); ("D1d", 3)].
Definition T2 : list (string * nat) := [("D2a", 0); ("D2b", 1); ("D2c", 2); ("D2d", 3); ("D2e", 4)].
Definition dims12 : list dim := [mk_dim T1 0; mk_dim T2 0].

(* (a) an empty map *)
Definition witness_a : tree := Mp [("k", Mp [])].
(* (b) a D1 switch under a D2 switch under a D1 switch *)
Definition witness_b : tree :=
  Mp [("k", Mp [("D1a", Mp [("D2a", Mp [("D1a", Str "x"); ("default", Str "y")])])])].
(* (c) a switch without default in an unselected branch of a switch of a later dimension *)
Definition witness_c : tree :=
  Mp [("k", Mp [("D2b", Mp [("D1b", Str "x")]); ("default", Str "z")])].

Lemma orig_refuted_a :
  WF dims12 None witness_a /\ load_spec dims12 witness_a = Ok [("k", Mp [])] /\
  load_orig dims12 witness_a = Some Err.
Proof. split; [apply wfb_sound; vm_compute; reflexivity| split; vm_compute; reflexivity]. Qed.

Lemma orig_refuted_b :
  WF dims12 None witness_b /\ load_spec dims12 witness_b = Ok [("k", Str "x")] /\
  load_orig dims12 witness_b = Some (Ok [("k", Mp [("D1a", Str "x"); ("default", Str "y")])]).
Proof. split; [apply wfb_sound; vm_compute; reflexivity| split; vm_compute; reflexivity]. Qed.

Lemma orig_refuted_c :
  WF dims12 None witness_c /\ load_spec dims12 witness_c = Ok [("k", Str "z")] /\
  load_orig dims12 witness_c = Some Err.
Proof. split; [apply wfb_sound; vm_compute; reflexivity| split; vm_compute; reflexivity]. Qed.

(* the repaired code on the same documents *)
Lemma fixed_on_witnesses :
  load_model dims12 witness_a = Ok [("k", Mp [])] /\
  load_model dims12 witness_b = Ok [("k", Str "x")] /\
  load_model dims12 witness_c = Ok [("k", Str "z")].
Proof. repeat split; vm_compute; reflexivity. Qed.

(* ------------------------------------------------------------------ "the entry for the
   selected value": in a well-formed switch it is unique, so the first-match search of
   active_entry (and of the code's `range`) finds exactly it, whatever the iteration order *)
Lemma parsed_values_in : forall d keys k v,
  In k keys -> d_parse d k = Some v -> In v (parsed_values d keys).
Proof.
  intros d keys k v Hin Hp. unfold parsed_values. apply in_flat_map. exists k.
  split; [exact Hin|]. rewrite Hp. left. reflexivity.
Qed.

Lemma parsed_values_two : forall d keys k1 k2 v,
  NoDup keys -> NoDup (parsed_values d keys) ->
  In k1 keys -> In k2 keys -> d_parse d k1 = Some v -> d_parse d k2 = Some v -> k1 = k2.
Proof.
  intros d keys. induction keys as [|k r IH]; intros k1 k2 v Hnd Hv H1 H2 P1 P2; [inversion H1|].
  inversion Hnd as [|? ? Hnotin Hnd']; subst.
  unfold parsed_values in Hv. cbn [flat_map] in Hv. fold (parsed_values d r) in Hv.
  destruct H1 as [H1|H1]; destruct H2 as [H2|H2]; subst.
  - reflexivity.
  - exfalso. rewrite P1 in Hv. cbn in Hv. inversion Hv as [|? ? Hn _]; subst.
    apply Hn. eapply parsed_values_in; eassumption.
  - exfalso. rewrite P2 in Hv. cbn in Hv. inversion Hv as [|? ? Hn _]; subst.
    apply Hn. eapply parsed_values_in; eassumption.
  - apply (IH k1 k2 v); try assumption.
    destruct (d_parse d k); [|exact Hv]. cbn in Hv. inversion Hv; assumption.
Qed.

Lemma nodup_nondefault : forall A (kv : list (string * A)),
  NoDup (map fst kv) -> NoDup (nondefault_keys kv).
Proof. intros. unfold nondefault_keys. apply NoDup_filter. assumption. Qed.

Lemma nodup_assoc : forall A (kv : list (string * A)) k c,
  NoDup (map fst kv) -> In (k, c) kv -> assoc k kv = Some c.
Proof.
  intros A kv. induction kv as [|[k' c'] r IH]; intros k c Hnd Hin; [inversion Hin|].
  cbn [map fst] in Hnd. inversion Hnd as [|? ? Hnotin Hnd']; subst. cbn [assoc].
  destruct Hin as [Heq|Hin].
  - inversion Heq; subst. rewrite String.eqb_refl. reflexivity.
  - destruct (String.eqb k k') eqn:E.
    + apply String.eqb_eq in E. subst. exfalso. apply Hnotin.
      apply in_map_iff. exists (k', c). split; [reflexivity| exact Hin].
    + apply IH; assumption.
Qed.

Lemma active_selected : forall d (kv : list (string * tree)) k c,
  NoDup (map fst kv) -> NoDup (parsed_values d (nondefault_keys kv)) ->
  In (k, c) kv -> k <> default_key -> d_parse d k = Some (d_sel d) ->
  active_entry d kv = Some c.
Proof.
  intros d kv k c Hnd Hv Hin Hk Hp. unfold active_entry.
  destruct (find (fun p : string * tree => negb (is_default (fst p)) && is_sel d (fst p)) kv)
    as [[k' c']|] eqn:E.
  - apply find_some in E. destruct E as [Hin' Hpred]. cbn [fst] in Hpred.
    apply andb_true_iff in Hpred. destruct Hpred as [Hd' Hs'].
    apply negb_true_iff in Hd'. unfold is_sel in Hs'.
    destruct (d_parse d k') as [v'|] eqn:Ep'; [|discriminate].
    apply Nat.eqb_eq in Hs'. subst v'.
    assert (k = k').
    { apply (parsed_values_two d (nondefault_keys kv) k k' (d_sel d)); try assumption.
      - apply nodup_nondefault. exact Hnd.
      - apply nondefault_keys_in. split.
        + apply in_map_iff. exists (k, c). split; [reflexivity| exact Hin].
        + apply is_default_false. exact Hk.
      - apply nondefault_keys_in. split.
        + apply in_map_iff. exists (k', c'). split; [reflexivity| exact Hin'].
        + exact Hd'. }
    subst k'. cbn [snd].
    pose proof (nodup_assoc _ kv k c Hnd Hin) as A1.
    pose proof (nodup_assoc _ kv k c' Hnd Hin') as A2. congruence.
  - exfalso. apply (find_none _ _ E) in Hin. cbn [fst] in Hin.
    rewrite (is_default_false k Hk) in Hin. unfold is_sel in Hin. rewrite Hp in Hin.
    rewrite Nat.eqb_refl in Hin. discriminate.
Qed.

Lemma find_default_assoc : forall A (kv : list (string * A)),
  option_map snd (find (fun p => is_default (fst p)) kv) = assoc default_key kv.
Proof.
  intros A kv. induction kv as [|[k c] r IH]; [reflexivity|].
  cbn [find fst assoc]. unfold is_default at 1. rewrite String.eqb_sym.
  destruct (String.eqb default_key k); [reflexivity| exact IH].
Qed.

Lemma active_default : forall d (kv : list (string * tree)),
  (forall k c, In (k, c) kv -> k <> default_key -> d_parse d k <> Some (d_sel d)) ->
  active_entry d kv = assoc default_key kv.
Proof.
  intros d kv H. unfold active_entry.
  destruct (find (fun p : string * tree => negb (is_default (fst p)) && is_sel d (fst p)) kv)
    as [[k' c']|] eqn:E.
  - exfalso. apply find_some in E. destruct E as [Hin Hpred]. cbn [fst] in Hpred.
    apply andb_true_iff in Hpred. destruct Hpred as [Hd' Hs'].
    apply negb_true_iff in Hd'. unfold is_sel in Hs'.
    destruct (d_parse d k') as [v'|] eqn:Ep'; [|discriminate].
    apply Nat.eqb_eq in Hs'. subst v'. apply (H k' c' Hin); [|exact Ep'].
    intros ->. unfold is_default in Hd'. rewrite String.eqb_refl in Hd'. discriminate.
  - rewrite <- find_default_assoc. destruct (find _ kv) as [p|]; reflexivity.
Qed.

(* the three refutations of the pinned code, in the form Props/C03.v states them *)
Lemma orig_refuted_empty_map :
  exists dims t, WF dims None t /\ load_orig dims t <> Some (load_spec dims t).
Proof.
  exists dims12, witness_a. destruct orig_refuted_a as [W [S O]]. split; [exact W|].
  rewrite S, O. discriminate.
Qed.

Lemma orig_refuted_nested_raw_map :
  exists dims t, WF dims None t /\ load_orig dims t <> Some (load_spec dims t).
Proof.
  exists dims12, witness_b. destruct orig_refuted_b as [W [S O]]. split; [exact W|].
  rewrite S, O. discriminate.
Qed.

Lemma orig_refuted_unselected_branch :
  exists dims t, WF dims None t /\ load_orig dims t <> Some (load_spec dims t).
Proof.
  exists dims12, witness_c. destruct orig_refuted_c as [W [S O]]. split; [exact W|].
  rewrite S, O. discriminate.
Qed.
