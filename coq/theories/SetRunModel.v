(* SetRunModel.v — operation sequences on one Set with an ITERATION-ORDER ORACLE and with
   Slice() as an operation (no proofs).

   Go ranges over a map in an unspecified order that may differ from one range statement to
   the next.  In [s_run] (SetModel.v) that order is fixed to the key list of the model; here
   every operation that ranges over a map carries the order the runtime happened to use:

     XOp (OAddSet items) order     s.AddSet(Make(items...)), ranging over the argument in [order]
     XOp OAddSelf order            s.AddSet(s)
     XOp (ORemoveSet items) order  s.RemoveSet(Make(items...))
     XOp ORemoveSelf order         s.RemoveSet(s)
     XSlice order                  s.Slice(): the result lists the keys in [order] (nil when empty)
     XOp o _                       every other operation (no range over a map; the order is unused)

   [order_ok] says that the order is a permutation of the keys of the map that is ranged over;
   the theorems of SetRunProofs quantify over all such oracles.  The output of a step is a
   boolean (XB) or the result of Slice() (XL).  Abstractly a Slice() result is not determined
   by the set (any order is allowed), so the abstract output of XSlice is the set itself (AS) and
   [out_ok] says what a concrete result must satisfy with respect to it: nil exactly for the
   empty set, otherwise a duplicate-free listing of exactly the members.                      *)
From Coq Require Import List Bool Arith Permutation.
From GT Require Import SetModel.
Import ListNotations.

Section SetRun.
  Variable T : Type.
  Variable eqb : T -> T -> bool.

  Inductive xop :=
  | XOp (o : sop T) (order : list T)
  | XSlice (order : list T).

  Inductive xout := XB (b : bool) | XL (l : option (list T)).

  Definition slice_in (order : list T) : option (list T) :=
    match order with [] => None | l => Some l end.

  Definition x_step (s : sset T) (x : xop) : sset T * xout :=
    match x with
    | XSlice order => (s, XL (slice_in order))
    | XOp (OAddSet _) order | XOp OAddSelf order =>
        let r := s_addset eqb s order in (fst r, XB (snd r))
    | XOp (ORemoveSet _) order | XOp ORemoveSelf order =>
        let r := s_removeset eqb s order in (fst r, XB (snd r))
    | XOp o _ => let r := s_step eqb s o in (fst r, XB (snd r))
    end.

  Definition order_ok (s : sset T) (x : xop) : Prop :=
    match x with
    | XOp (OAddSet items) order | XOp (ORemoveSet items) order =>
        Permutation order (elems (s_make eqb items))
    | XOp OAddSelf order | XOp ORemoveSelf order | XSlice order => Permutation order (elems s)
    | XOp _ _ => True
    end.

  Fixpoint x_run (s : sset T) (xs : list xop) : list xout :=
    match xs with
    | [] => []
    | x :: rest => let r := x_step s x in snd r :: x_run (fst r) rest
    end.
  Definition x_final (s : sset T) (xs : list xop) : sset T :=
    fold_left (fun s x => fst (x_step s x)) xs s.
  (* every oracle answer along the run is a permutation of the map ranged over at that moment *)
  Fixpoint orders_ok (s : sset T) (xs : list xop) : Prop :=
    match xs with
    | [] => True
    | x :: rest => order_ok s x /\ orders_ok (fst (x_step s x)) rest
    end.

  (* ---- abstract side ---- *)
  Inductive axout := AB (b : bool) | AS (p : T -> bool).
  Definition ax_step (p : T -> bool) (dom : list T) (x : xop) : (T -> bool) * axout :=
    match x with
    | XSlice _ => (p, AS p)
    | XOp o _ => let a := a_step eqb p dom o in (fst a, AB (snd a))
    end.
  Fixpoint ax_run (p : T -> bool) (dom : list T) (xs : list xop) : list axout :=
    match xs with
    | [] => []
    | x :: rest => let a := ax_step p dom x in snd a :: ax_run (fst a) dom rest
    end.
  Fixpoint ax_final (p : T -> bool) (dom : list T) (xs : list xop) : T -> bool :=
    match xs with
    | [] => p
    | x :: rest => ax_final (fst (ax_step p dom x)) dom rest
    end.

  (* a concrete output is what the mathematical set allows *)
  Definition out_ok (c : xout) (a : axout) : Prop :=
    match c, a with
    | XB b, AB b' => b = b'
    | XL None, AS p => forall x, p x = false
    | XL (Some l), AS p => l <> [] /\ NoDup l /\ forall x, In x l <-> p x = true
    | _, _ => False
    end.

  Definition xop_ok (ok : sop T -> Prop) (x : xop) : Prop :=
    match x with XOp o _ => ok o | XSlice _ => True end.
End SetRun.
Arguments XOp {T}. Arguments XSlice {T}. Arguments XB {T}. Arguments XL {T}.
Arguments slice_in {T}. Arguments x_step {T}. Arguments order_ok {T}. Arguments x_run {T}.
Arguments x_final {T}. Arguments orders_ok {T}. Arguments AB {T}. Arguments AS {T}.
Arguments ax_step {T}. Arguments ax_run {T}. Arguments ax_final {T}. Arguments out_ok {T}.
Arguments xop_ok {T}.
