(* SetHeapProofs.v — the store-level operations of SetHeapModel.v (to which the store rendering
   of set.go is tied every run) against the value model:

   * simulation: on a valid receiver reference they compute exactly what SetModel computes on
     the map the receiver denotes (result flag and resulting map);
   * frame: every other location keeps its contents — in particular the argument of AddSet /
     RemoveSet when it is another map;
   * identity: the receiver keeps its location, or — when it was nil — gets a FRESH one; it never
     takes over the argument's location (no aliasing is created);
   * programs over several variables whose non-nil references are pairwise distinct keep them
     distinct and are, variable by variable, the value-level programs of SetMultiModel — whose
     refinement of a vector of mathematical sets (SetMultiProofs) therefore holds of the store
     semantics.                                                                              *)
From Coq Require Import List Bool Arith Lia.
From GT Require Import SetModel SetProofs SetMultiModel SetMultiProofs SetHeapPrims SetHeapModel.
Import ListNotations.

Section HeapProofs.
  Variable T : Type.
  Variable eqb : T -> T -> bool.
  Notation heap := (heap T).

  (* ---------- lists with one position replaced ---------- *)
  Lemma list_set_length {A} (l : list A) k v : length (list_set l k v) = length l.
  Proof. revert k. induction l as [|x r IH]; intros [|k]; cbn; auto. Qed.

  Lemma nth_list_set_same {A} (l : list A) k v d : k < length l -> nth k (list_set l k v) d = v.
  Proof.
    revert k. induction l as [|x r IH]; intros [|k] H; cbn in *; try lia; auto.
    all: try (apply IH; lia).
  Qed.

  Lemma nth_list_set_other {A} (l : list A) k k' v d : k <> k' -> nth k' (list_set l k v) d = nth k' l d.
  Proof.
    revert k k'. induction l as [|x r IH]; intros [|k] [|k'] H; cbn; auto; try congruence.
    all: try (apply IH; congruence).
  Qed.

  Lemma list_set_twice {A} (l : list A) k v w : list_set (list_set l k v) k w = list_set l k w.
  Proof. revert k. induction l as [|x r IH]; intros [|k]; cbn; auto. all: try (f_equal; apply IH). Qed.

  (* ---------- heap facts ---------- *)
  Lemma upd_length (h : heap) r l : length (h_upd h r l) = length h.
  Proof. destruct r; cbn; [reflexivity | apply list_set_length]. Qed.

  Lemma keys_upd_same (h : heap) r l : r <> 0 -> valid h r -> h_keys (h_upd h r l) r = l.
  Proof.
    unfold valid. destruct r as [|k]; [congruence|]. intros _ H. cbn.
    apply nth_list_set_same. lia.
  Qed.

  Lemma keys_upd_other (h : heap) r q l : q <> r -> h_keys (h_upd h r l) q = h_keys h q.
  Proof.
    destruct r as [|k]; [reflexivity|]. destruct q as [|k']; [reflexivity|]. intros H. cbn.
    apply nth_list_set_other. congruence.
  Qed.

  Lemma upd_twice (h : heap) r l l' : h_upd (h_upd h r l) r l' = h_upd h r l'.
  Proof. destruct r; cbn; [reflexivity | apply list_set_twice]. Qed.

  Lemma upd_same (h : heap) r : valid h r -> h_upd h r (h_keys h r) = h.
  Proof.
    destruct r as [|k]; [reflexivity|]. unfold valid. cbn. revert k.
    induction h as [|y rest IH]; intros [|k] Hv; cbn in *; try lia; auto.
    f_equal. apply IH. lia.
  Qed.

  Lemma valid_upd (h : heap) r l q : valid h q -> valid (h_upd h r l) q.
  Proof. unfold valid. rewrite upd_length. auto. Qed.

  Lemma keys_alloc_old (h : heap) q : valid h q -> h_keys (h ++ [[]]) q = h_keys h q.
  Proof.
    unfold valid. destruct q as [|k]; [reflexivity|]. intros H. cbn. apply app_nth1. lia.
  Qed.

  Lemma keys_alloc_new (h : heap) : h_keys (h ++ [[]]) (S (length h)) = [].
  Proof. cbn. rewrite app_nth2 by lia. rewrite Nat.sub_diag. reflexivity. Qed.

  Lemma keys_nil (h : heap) : h_keys h 0 = [].
  Proof. reflexivity. Qed.

  (* ---------- the loops, on a non-nil valid location ---------- *)
  Lemma put_fold_heap r items : forall h,
    r <> 0 -> valid h r ->
    fold_left (st_put_step eqb r) items h
    = h_upd h r (fold_left (fun l x => insert eqb x l) items (h_keys h r)).
  Proof.
    induction items as [|x xs IH]; intros h Hr Hv; cbn [fold_left].
    - symmetry. apply upd_same. exact Hv.
    - unfold st_put_step at 2. unfold h_put. rewrite IH by (auto using valid_upd).
      rewrite keys_upd_same by assumption. rewrite upd_twice. reflexivity.
  Qed.

  Lemma add_fold_heap r items : forall h b,
    r <> 0 -> valid h r ->
    fold_left (st_add_step eqb r) items (h, b)
    = (let '(l, b') := fold_left (add_step eqb) items (h_keys h r, b) in (h_upd h r l, b')).
  Proof.
    induction items as [|x xs IH]; intros h b Hr Hv; cbn [fold_left].
    - cbv beta iota. rewrite upd_same by exact Hv. reflexivity.
    - change (st_add_step eqb r (h, b) x) with (h_put eqb h r x, b || negb (h_has eqb h r x)).
      change (add_step eqb (h_keys h r, b) x)
        with (insert eqb x (h_keys h r), b || negb (memb eqb x (h_keys h r))).
      unfold h_put, h_has.
      rewrite IH by (auto using valid_upd). rewrite keys_upd_same by assumption.
      destruct (fold_left (add_step eqb) xs (insert eqb x (h_keys h r), b || negb (memb eqb x (h_keys h r)))).
      rewrite upd_twice. reflexivity.
  Qed.

  Lemma rem_fold_heap r items : forall h b,
    r <> 0 -> valid h r ->
    fold_left (st_rem_step eqb r) items (h, b)
    = (let '(l, b') := fold_left (rem_step eqb) items (h_keys h r, b) in (h_upd h r l, b')).
  Proof.
    induction items as [|x xs IH]; intros h b Hr Hv; cbn [fold_left].
    - cbv beta iota. rewrite upd_same by exact Hv. reflexivity.
    - change (st_rem_step eqb r (h, b) x) with (h_del eqb h r x, b || h_has eqb h r x).
      change (rem_step eqb (h_keys h r, b) x)
        with (delete eqb x (h_keys h r), b || memb eqb x (h_keys h r)).
      unfold h_del, h_has.
      rewrite IH by (auto using valid_upd). rewrite keys_upd_same by assumption.
      destruct (fold_left (rem_step eqb) xs (delete eqb x (h_keys h r), b || memb eqb x (h_keys h r))).
      rewrite upd_twice. reflexivity.
  Qed.

  (* ---------- Add / AddSet ---------- *)
  (* what an Add-like operation does, for the list [xs] it inserts *)
  Definition add_post (h : heap) (r : ref) (xs : list T) (res : heap * ref * bool) : Prop :=
    let '(h', r', b) := res in
    h_deref h' r' = fst (s_add eqb (h_deref h r) xs)
    /\ b = snd (s_add eqb (h_deref h r) xs)
    /\ ((r <> 0 /\ r' = r /\ length h' = length h) \/ (r = 0 /\ r' = S (length h) /\ length h' = S (length h)))
    /\ (forall q, q <> r' -> valid h q -> h_keys h' q = h_keys h q).

  Lemma add_like h r xs :
    valid h r ->
    add_post h r xs
      (let '(h1, r1) := st_alloc_if_nil h r in
       let '(h2, b) := fold_left (st_add_step eqb r1) xs (h1, false) in (h2, r1, b)).
  Proof.
    intros Hv. unfold st_alloc_if_nil, h_is_nil, add_post, s_add.
    destruct r as [|k]; cbn [Nat.eqb h_alloc].
    - (* nil receiver: a fresh location *)
      assert (Hv1 : valid (h ++ [[]]) (S (length h))) by (unfold valid; rewrite app_length; cbn; lia).
      rewrite add_fold_heap by (auto; lia). rewrite keys_alloc_new. cbn [h_deref elems h_keys].
      destruct (fold_left (add_step eqb) xs ([], false)) as [l b'] eqn:E. cbn [fst snd].
      split; [|split; [reflexivity|split]].
      + unfold h_deref. cbn [h_is_nil Nat.eqb]. f_equal.
        apply keys_upd_same; [lia | exact Hv1].
      + right. rewrite upd_length, app_length. cbn. split; [reflexivity|split; [reflexivity|lia]].
      + intros q Hq Hvq. rewrite keys_upd_other by exact Hq. apply keys_alloc_old. exact Hvq.
    - rewrite add_fold_heap by (auto; lia). cbn [h_deref elems].
      destruct (fold_left (add_step eqb) xs (h_keys h (S k), false)) as [l b'] eqn:E. cbn [fst snd].
      split; [|split; [reflexivity|split]].
      + unfold h_deref. cbn [h_is_nil Nat.eqb]. f_equal. apply keys_upd_same; [lia | exact Hv].
      + left. rewrite upd_length. repeat split; lia.
      + intros q Hq _. apply keys_upd_other. exact Hq.
  Qed.

  Lemma st_add_spec h r items : valid h r -> add_post h r items (st_add eqb h r items).
  Proof. apply add_like. Qed.

  Lemma st_addset_spec h r a :
    valid h r -> valid h a -> add_post h r (h_keys h a) (st_addset eqb h r a).
  Proof.
    intros Hv Ha. unfold st_addset.
    pose proof (add_like h r (h_keys h a) Hv) as H.
    destruct (st_alloc_if_nil h r) as [h1 r1] eqn:E.
    assert (Hk : h_keys h1 a = h_keys h a).
    { unfold st_alloc_if_nil in E. destruct (h_is_nil r); cbn [h_alloc] in E; inversion E; subst;
        [apply keys_alloc_old; exact Ha | reflexivity]. }
    rewrite Hk. exact H.
  Qed.

  (* ---------- Remove / RemoveSet ---------- *)
  Definition rem_post (h : heap) (r : ref) (xs : list T) (res : heap * bool) : Prop :=
    let '(h', b) := res in
    h_deref h' r = fst (s_remove eqb (h_deref h r) xs)
    /\ b = snd (s_remove eqb (h_deref h r) xs)
    /\ length h' = length h
    /\ (forall q, q <> r -> h_keys h' q = h_keys h q).

  Lemma rem_like h r xs :
    valid h r ->
    rem_post h r xs
      (if Nat.eqb (h_len h r) 0 then (h, false) else fold_left (st_rem_step eqb r) xs (h, false)).
  Proof.
    intros Hv. unfold rem_post, s_remove, h_len. cbn [elems h_deref].
    destruct (Nat.eqb (length (h_keys h r)) 0) eqn:E0.
    - cbn [fst snd]. auto.
    - assert (Hr : r <> 0) by (intros ->; cbn in E0; discriminate).
      rewrite rem_fold_heap by assumption.
      destruct (fold_left (rem_step eqb) xs (h_keys h r, false)) as [l b'] eqn:E. cbn [fst snd is_nil].
      split; [|split; [reflexivity|split]].
      + unfold h_deref. f_equal. apply keys_upd_same; assumption.
      + apply upd_length.
      + intros q Hq. apply keys_upd_other. exact Hq.
  Qed.

  Lemma st_remove_spec h r items : valid h r -> rem_post h r items (st_remove eqb h r items).
  Proof. apply rem_like. Qed.

  Lemma st_removeset_spec h r a : valid h r -> rem_post h r (h_keys h a) (st_removeset eqb h r a).
  Proof. apply rem_like. Qed.

  (* ---------- Make ---------- *)
  Lemma st_make_spec h items :
    let '(h', r) := st_make eqb h items in
    h_deref h' r = s_make eqb items /\ r = S (length h) /\ length h' = S (length h)
    /\ (forall q, valid h q -> h_keys h' q = h_keys h q).
  Proof.
    unfold st_make, h_alloc.
    assert (Hv1 : valid (h ++ [[]]) (S (length h))) by (unfold valid; rewrite app_length; cbn; lia).
    rewrite put_fold_heap by (auto; lia). rewrite keys_alloc_new.
    split; [|split; [reflexivity|split]].
    - unfold h_deref, s_make. cbn [h_is_nil Nat.eqb]. f_equal. apply keys_upd_same; [lia | exact Hv1].
    - rewrite upd_length, app_length. cbn. lia.
    - intros q Hq. rewrite keys_upd_other by (unfold valid in Hq; lia). apply keys_alloc_old. exact Hq.
  Qed.

  (* ---------- no aliasing: the receiver never takes over the argument's location ---------- *)
  Lemma st_addset_no_alias h r a :
    valid h r -> valid h a ->
    let '(_, r', _) := st_addset eqb h r a in
    (r' = r \/ ~ valid h r') /\ (a <> 0 -> a <> r -> r' <> a).
  Proof.
    intros Hv Ha. pose proof (st_addset_spec h r a Hv Ha) as H. unfold add_post in H.
    destruct (st_addset eqb h r a) as [[h' r'] b]. destruct H as [_ [_ [[[Hr [-> _]]|[-> [-> _]]] _]]].
    - split; [now left|]. intros _ H. congruence.
    - split; [right; unfold valid; lia|]. intros _ _ E. unfold valid in Ha. lia.
  Qed.

  (* ================= programs over several variables ================= *)
  Notation sget := SetHeapModel.sget.

  (* non-nil references of different variables name different maps *)
  Definition distinct (rs : list ref) : Prop :=
    forall i j, i <> j -> sget rs i <> 0 -> sget rs i <> sget rs j.
  Definition sinv (st : sstate T) : Prop :=
    Forall (valid (fst st)) (snd st) /\ distinct (snd st).

  Lemma deref_nil (h : heap) : h_deref h 0 = @s_nil T.
  Proof. reflexivity. Qed.

  Lemma mget_view (h : heap) rs i : mget (view (h, rs)) i = h_deref h (sget rs i).
  Proof.
    unfold mget, view, SetHeapModel.sget. cbn [fst snd]. rewrite <- (deref_nil h). apply map_nth.
  Qed.

  Lemma sget_valid (h : heap) rs i : Forall (valid h) rs -> valid h (sget rs i).
  Proof.
    intros H. unfold SetHeapModel.sget. revert i.
    induction H as [|x r Hx _ IH]; intros [|i]; cbn; auto; unfold valid; lia.
  Qed.

  Lemma mset_same {A} (l : list A) i d : mset l i (nth i l d) = l.
  Proof. revert i. induction l as [|x r IH]; intros [|i]; cbn; auto. all: try (f_equal; apply IH). Qed.

  Lemma map_pointwise {A B} (f g : A -> B) (l : list A) d :
    (forall k, f (nth k l d) = g (nth k l d)) -> map f l = map g l.
  Proof.
    induction l as [|x r IH]; intros H; cbn; [reflexivity|].
    f_equal; [exact (H 0) | apply IH; intros k; exact (H (S k))].
  Qed.

  (* replacing the reference of variable i, all other variables denoting what they denoted *)
  Lemma view_update (h h' : heap) rs i r' :
    (forall k, k <> i -> h_deref h' (sget rs k) = h_deref h (sget rs k)) ->
    view (h', mset rs i r') = mset (view (h, rs)) i (h_deref h' r').
  Proof.
    unfold view, SetHeapModel.sget. cbn [fst snd]. revert i.
    induction rs as [|x r IH]; intros i H; [destruct i; reflexivity|].
    destruct i as [|i]; cbn [mset map].
    - f_equal. apply (map_pointwise _ _ r 0). intros k. exact (H (S k) (Nat.neq_succ_0 k)).
    - f_equal; [exact (H 0 (Nat.neq_0_succ i))|].
      apply IH. intros k Hk. apply (H (S k)). congruence.
  Qed.

  Lemma view_same_refs (h h' : heap) rs i :
    (forall k, k <> i -> h_deref h' (sget rs k) = h_deref h (sget rs k)) ->
    view (h', rs) = mset (view (h, rs)) i (h_deref h' (sget rs i)).
  Proof.
    intros H. rewrite <- (view_update h h' rs i (sget rs i) H).
    unfold SetHeapModel.sget. rewrite mset_same. reflexivity.
  Qed.

  Lemma deref_eq (h h' : heap) q : h_keys h' q = h_keys h q -> h_deref h' q = h_deref h q.
  Proof. intros E. unfold h_deref. rewrite E. reflexivity. Qed.

  Lemma sget_mset_same rs i r : i < length rs -> sget (mset rs i r) i = r.
  Proof.
    unfold SetHeapModel.sget. revert i. induction rs as [|x l IH]; intros [|i] H; cbn in *; try lia; auto.
    all: try (apply IH; lia).
  Qed.

  Lemma sget_mset_other rs i k r : k <> i -> sget (mset rs i r) k = sget rs k.
  Proof.
    unfold SetHeapModel.sget. revert i k. induction rs as [|x l IH]; intros [|i] [|k] H; cbn; auto; try congruence.
    all: try (apply IH; congruence).
  Qed.

  Lemma sget_mset_out (rs : list ref) i r : length rs <= i -> mset rs i r = rs.
  Proof. revert i. induction rs as [|x l IH]; intros [|i] H; cbn in *; auto; try lia. all: try (f_equal; apply IH; lia). Qed.

  Lemma mset_length {A} (l : list A) i v : length (mset l i v) = length l.
  Proof. revert i. induction l as [|x r IH]; intros [|i]; cbn; auto. Qed.

  (* the new reference of variable i is its old one, nil, or one that no variable holds *)
  Lemma distinct_mset rs i r' :
    distinct rs ->
    (r' = sget rs i \/ r' = 0 \/ forall k, sget rs k <> r') ->
    distinct (mset rs i r').
  Proof.
    intros Hd Hr a b Hab Ha.
    destruct (Nat.lt_ge_cases i (length rs)) as [Hi|Hi].
    2:{ rewrite sget_mset_out in * by exact Hi. apply Hd; assumption. }
    destruct (Nat.eq_dec a i) as [->|Hai]; [|destruct (Nat.eq_dec b i) as [->|Hbi]].
    - rewrite sget_mset_same in * by exact Hi. rewrite sget_mset_other by congruence.
      destruct Hr as [->|[->|Hf]]; [apply Hd; assumption | congruence | intros E; apply (Hf b); congruence].
    - rewrite sget_mset_same by exact Hi. rewrite sget_mset_other in * by exact Hai.
      destruct Hr as [->|[->|Hf]]; [apply Hd; assumption | exact Ha | apply Hf].
    - rewrite !sget_mset_other in * by assumption. apply Hd; assumption.
  Qed.

  Lemma valid_mset (h : heap) rs i r : Forall (valid h) rs -> valid h r -> Forall (valid h) (mset rs i r).
  Proof.
    intros H Hr. revert i. induction H as [|x l Hx Hl IH]; intros [|i]; cbn; constructor; auto.
  Qed.

  Lemma valid_mono (h h' : heap) rs : length h <= length h' -> Forall (valid h) rs -> Forall (valid h') rs.
  Proof. intros Hl H. eapply Forall_impl; [|exact H]. unfold valid. intros; lia. Qed.

  (* an Add-like step on variable i *)
  Lemma add_like_step (h : heap) rs i xs h' r' b :
    sinv (h, rs) -> add_post h (sget rs i) xs (h', r', b) ->
    view (h', mset rs i r') = mset (view (h, rs)) i (fst (s_add eqb (h_deref h (sget rs i)) xs))
    /\ b = snd (s_add eqb (h_deref h (sget rs i)) xs)
    /\ sinv (h', mset rs i r').
  Proof.
    intros [Hval Hdis] [Hd [Hb [Hid Hframe]]]. cbn [fst snd] in *.
    assert (Hothers : forall k, k <> i -> h_deref h' (sget rs k) = h_deref h (sget rs k)).
    { intros k Hk. apply deref_eq.
      destruct (Nat.eq_dec (sget rs k) 0) as [E|E]; [rewrite E; reflexivity|].
      apply Hframe; [|apply sget_valid; exact Hval].
      destruct Hid as [[_ [-> _]]|[_ [-> _]]].
      - apply Hdis; assumption.
      - pose proof (sget_valid h rs k Hval) as V. unfold valid in V. lia. }
    split; [|split; [exact Hb|split]].
    - rewrite (view_update h h' rs i r' Hothers). rewrite Hd. reflexivity.
    - cbn [fst snd]. destruct Hid as [[Hnz [-> Hl]]|[Hz [-> Hl]]].
      + apply valid_mset; [apply (valid_mono h); [lia | exact Hval]|].
        pose proof (sget_valid h rs i Hval) as V. unfold valid in *. lia.
      + apply valid_mset; [apply (valid_mono h); [lia | exact Hval]|]. unfold valid. lia.
    - cbn [snd]. apply distinct_mset; [exact Hdis|].
      destruct Hid as [[_ [-> _]]|[_ [-> _]]]; [now left|].
      right. right. intros k E. pose proof (sget_valid h rs k Hval) as V. unfold valid in V. lia.
  Qed.

  Lemma rem_like_step (h : heap) rs i xs h' b :
    sinv (h, rs) -> rem_post h (sget rs i) xs (h', b) ->
    view (h', rs) = mset (view (h, rs)) i (fst (s_remove eqb (h_deref h (sget rs i)) xs))
    /\ b = snd (s_remove eqb (h_deref h (sget rs i)) xs)
    /\ sinv (h', rs).
  Proof.
    intros [Hval Hdis] [Hd [Hb [Hl Hframe]]]. cbn [fst snd] in *.
    assert (Hothers : forall k, k <> i -> h_deref h' (sget rs k) = h_deref h (sget rs k)).
    { intros k Hk. apply deref_eq.
      destruct (Nat.eq_dec (sget rs k) 0) as [E|E]; [rewrite E; reflexivity|].
      apply Hframe. apply Hdis; assumption. }
    split; [|split; [exact Hb|split]].
    - rewrite (view_same_refs h h' rs i Hothers). rewrite Hd. reflexivity.
    - cbn [fst snd]. apply (valid_mono h); [lia | exact Hval].
    - exact Hdis.
  Qed.

  (* one step of a store program is the step of the value-level program on what the variables
     denote, and the invariant (valid, pairwise distinct non-nil references) is kept *)
  Lemma st_step_sim st o :
    sinv st ->
    let r := st_step eqb st o in
    view (fst r) = fst (m_step eqb (view st) o)
    /\ snd r = snd (m_step eqb (view st) o)
    /\ sinv (fst r).
  Proof.
    destruct st as [h rs]. intros Hinv. pose proof Hinv as [Hval Hdis]. cbn [fst snd] in Hval, Hdis.
    unfold m_step. destruct o as [i|i items|i items|i j|i items|i j|i items|i items];
      cbn [st_step m_target m_sop s_step]; rewrite ?mget_view.
    - (* MNil *)
      cbn [fst snd]. split; [|split; [reflexivity|split]].
      + rewrite (view_update h h rs i 0) by reflexivity. reflexivity.
      + cbn [fst snd]. apply valid_mset; [exact Hval | unfold valid; lia].
      + cbn [snd]. apply distinct_mset; [exact Hdis | right; now left].
    - (* MMake *)
      pose proof (st_make_spec h items) as H. destruct (st_make eqb h items) as [h' r].
      destruct H as [Hd [Hr [Hl Hframe]]]. cbn [fst snd].
      assert (Hothers : forall k, k <> i -> h_deref h' (sget rs k) = h_deref h (sget rs k)).
      { intros k _. apply deref_eq. apply Hframe. apply sget_valid. exact Hval. }
      split; [|split; [reflexivity|split]].
      + rewrite (view_update h h' rs i r Hothers). rewrite Hd. reflexivity.
      + cbn [fst snd]. apply valid_mset; [apply (valid_mono h); [lia | exact Hval] | unfold valid; lia].
      + cbn [snd]. apply distinct_mset; [exact Hdis|]. right. right. intros k E.
        pose proof (sget_valid h rs k Hval) as V. unfold valid in V. lia.
    - (* MAdd *)
      pose proof (st_add_spec h (sget rs i) items (sget_valid h rs i Hval)) as H.
      destruct (st_add eqb h (sget rs i) items) as [[h' r'] b]. cbn [fst snd].
      exact (add_like_step h rs i items h' r' b Hinv H).
    - (* MAddSet *)
      pose proof (st_addset_spec h (sget rs i) (sget rs j) (sget_valid h rs i Hval) (sget_valid h rs j Hval)) as H.
      destruct (st_addset eqb h (sget rs i) (sget rs j)) as [[h' r'] b]. cbn [fst snd].
      exact (add_like_step h rs i _ h' r' b Hinv H).
    - (* MRemove *)
      pose proof (st_remove_spec h (sget rs i) items (sget_valid h rs i Hval)) as H.
      destruct (st_remove eqb h (sget rs i) items) as [h' b]. cbn [fst snd].
      exact (rem_like_step h rs i items h' b Hinv H).
    - (* MRemoveSet *)
      pose proof (st_removeset_spec h (sget rs i) (sget rs j) (sget_valid h rs i Hval)) as H.
      destruct (st_removeset eqb h (sget rs i) (sget rs j)) as [h' b]. cbn [fst snd].
      exact (rem_like_step h rs i _ h' b Hinv H).
    - (* MHas *)
      cbn [fst snd]. split; [|split; [reflexivity | exact Hinv]].
      rewrite <- mget_view. unfold mget. rewrite mset_same. reflexivity.
    - (* MHasAny *)
      cbn [fst snd]. split; [|split; [reflexivity | exact Hinv]].
      rewrite <- mget_view. unfold mget. rewrite mset_same. reflexivity.
  Qed.

  (* whole programs *)
  Definition st_final (st : sstate T) (ops : list (mop T)) : sstate T :=
    fold_left (fun st o => fst (st_step eqb st o)) ops st.

  Lemma st_run_sim ops : forall st,
    sinv st ->
    map snd (st_run eqb st ops) = map snd (m_run eqb (view st) ops)
    /\ view (st_final st ops) = m_final T eqb (view st) ops
    /\ sinv (st_final st ops).
  Proof.
    induction ops as [|o rest IH]; intros st Hinv.
    - cbn. auto.
    - destruct (st_step_sim st o Hinv) as [Ev [Eb Hi]].
      destruct (IH _ Hi) as [E1 [E2 E3]].
      cbn [st_run m_run map]. unfold st_final, m_final in *. cbn [fold_left fst snd].
      rewrite Ev in E1, E2. split; [f_equal; assumption | split; assumption].
  Qed.

  (* k nil variables over the empty heap *)
  Lemma init_sinv k : sinv ([], repeat 0 k) /\ view (([] : heap), repeat 0 k) = repeat s_nil k.
  Proof.
    split; [split|].
    - cbn [fst snd]. induction k; cbn; constructor; auto. unfold valid. lia.
    - intros i j _ H. exfalso. apply H. unfold SetHeapModel.sget. clear. revert i.
      induction k; intros [|i]; cbn; auto.
    - unfold view. cbn [fst snd]. induction k; cbn; [reflexivity|]. f_equal. assumption.
  Qed.
End HeapProofs.

(* the store semantics refines a vector of mathematical sets *)
Section HeapRefines.
  Variable T : Type.
  Variable eqb : T -> T -> bool.
  Hypothesis eqb_eq : forall x y, eqb x y = true <-> x = y.

  Lemma store_refines dom k ops :
    Forall (mop_ok T dom) ops ->
    let st0 : sstate T := ([], repeat 0 k) in
    map snd (st_run eqb st0 ops) = am_run T eqb (repeat a_empty k) dom ops
    /\ mrel T eqb (view (st_final T eqb st0 ops)) (am_final T eqb (repeat a_empty k) dom ops)
    /\ sinv T (st_final T eqb st0 ops).
  Proof.
    intros Hok st0. destruct (init_sinv T k) as [Hinv Hview].
    destruct (st_run_sim T eqb ops st0 Hinv) as [E1 [E2 E3]].
    destruct (init_ok T eqb dom k) as [A [B C]].
    destruct (mrun_refines T eqb eqb_eq dom ops _ _ A B C Hok) as [R1 [_ R3]].
    change (view st0) with (view (([] : heap T), repeat 0 k)) in E1, E2. rewrite Hview in E1, E2.
    split; [rewrite E1; exact R1 | split; [rewrite E2; exact R3 | exact E3]].
  Qed.
End HeapRefines.
