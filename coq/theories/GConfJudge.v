(* GConfJudge.v — judgement of observed gconfig loads and lookups (C03).  No proofs.

   A case = the registered dimensions (name, ParseGeneric table recorded from the real enum,
   builder default), the environment variables naming dimension values, the document (as the
   harness itself decoded the YAML text it handed to FromBytes), and what the real library
   did: outcome of WithDimension/FromBytes, GetDimension per dimension, Get[any] and
   Get[string] at the probed keys.

   codes: 0 ok | 1 observation violates the specification (in-domain: a failing input)
          2 observation satisfies the specification but differs from the model
          3 out-of-domain document on which implementation and model differ (informational)
          4 the generator's by-construction expectation differs from resolve_spec (machinery) *)
From Coq Require Import List String Bool Arith.
From GT Require Import Base.Verdict GConfModel.
Import ListNotations.
Local Open Scope string_scope.

(* strings with bytes that are not printable ASCII are written by the harness as bs [bytes] *)
Fixpoint bs (l : list nat) : string :=
  match l with [] => EmptyString | n :: r => String (Ascii.ascii_of_nat n) (bs r) end.

Definition c_tab : string := String (Ascii.ascii_of_nat 9) EmptyString.
Definition c_nl : string := String (Ascii.ascii_of_nat 10) EmptyString.
Definition c_cr : string := String (Ascii.ascii_of_nat 13) EmptyString.
Definition cat (l : list string) : string := String.concat EmptyString l.

Record dimcase := {
  dc_name : string;
  dc_table : list (string * nat);
  dc_default : nat;
  dc_flag : option string;   (* value given to flag.Set(name, _) after WithDimension, if any *)
}.

Inductive load_obs := LOk | LErr | LBuildPanic | LPanic.
Inductive get_obs := GVal (t : tree) | GErr | GPanic.
Inductive str_obs := SVal (s : string) | SErr | SPanic.

Record c03_case := {
  cc_dims : list dimcase;
  cc_env : list (string * string);
  cc_doc : tree;
  cc_oracle : option (res (list (string * tree)));
  cc_load : load_obs;
  cc_dimvals : list nat;
  cc_gets : list (string * get_obs);
  cc_strs : list (string * str_obs);
}.

Definition list_eqb {A} (eqb : A -> A -> bool) :=
  fix go (a b : list A) : bool :=
    match a, b with
    | [], [] => true
    | x :: r, y :: r' => eqb x y && go r r'
    | _, _ => false
    end.

Definition kv_eqb (a b : list (string * tree)) : bool := tree_eqb (Mp a) (Mp b).

Definition res_kv_eqb (a b : res (list (string * tree))) : bool :=
  match a, b with
  | Ok x, Ok y => kv_eqb x y
  | Err, Err => true
  | _, _ => false
  end.

(* WithDimension for every registered dimension, in order; Err = some initFlag failed *)
Fixpoint build_dims (env : list (string * string)) (ds : list dimcase) : res (list dim) :=
  match ds with
  | [] => Ok []
  | d :: rest =>
      match select_dim (fun k => assoc k (dc_table d)) (dc_default d) env (dc_name d) with
      | Err => Err
      | Ok v => match build_dims env rest with
                | Err => Err
                | Ok r => Ok (mk_dim (dc_table d)
                                     (apply_flag (fun k => assoc k (dc_table d)) (dc_flag d) v) :: r)
                end
      end
  end.

Definition load_obs_eqb (a b : load_obs) : bool :=
  match a, b with
  | LOk, LOk | LErr, LErr | LBuildPanic, LBuildPanic | LPanic, LPanic => true
  | _, _ => false
  end.

Definition get_expect (g : option tree) : get_obs :=
  match g with Some t => GVal t | None => GErr end.

Definition get_obs_eqb (a b : get_obs) : bool :=
  match a, b with
  | GVal x, GVal y => tree_eqb x y
  | GErr, GErr | GPanic, GPanic => true
  | _, _ => false
  end.

Definition drop2 (s : string) : string :=
  match s with String _ (String _ r) => r | _ => s end.

(* Get[string]: yaml re-marshal of the value decoded into a string *)
Definition str_expect (g : option tree) : str_obs :=
  match g with
  | Some (Str s) => SVal s
  | Some (Atom a) => SVal (drop2 a)
  | Some Null => SVal EmptyString
  | Some (Lst _) | Some (Mp _) => SErr
  | None => SErr
  end.

Definition str_obs_eqb (a b : str_obs) : bool :=
  match a, b with
  | SVal x, SVal y => String.eqb x y
  | SErr, SErr | SPanic, SPanic => true
  | _, _ => false
  end.

(* does the observation agree with a loader/lookup pair? *)
Definition agrees (load : list dim -> tree -> res (list (string * tree)))
           (get : list (string * tree) -> string -> option tree) (c : c03_case) : bool :=
  match build_dims (cc_env c) (cc_dims c) with
  | Err => load_obs_eqb (cc_load c) LBuildPanic
  | Ok dims =>
      match load dims (cc_doc c) with
      | Err => load_obs_eqb (cc_load c) LErr
      | Ok cfg =>
          load_obs_eqb (cc_load c) LOk &&
          list_eqb Nat.eqb (cc_dimvals c) (map d_sel dims) &&
          forallb (fun p => get_obs_eqb (snd p) (get_expect (get cfg (fst p)))) (cc_gets c) &&
          forallb (fun p => str_obs_eqb (snd p) (str_expect (get cfg (fst p)))) (cc_strs c)
      end
  end.

(* a flag value outside the enum is not "an assignment of values to the dimensions" *)
Definition flags_parse (ds : list dimcase) : bool :=
  forallb (fun d => match dc_flag d with
                    | None => true
                    | Some s => match assoc s (dc_table d) with Some _ => true | None => false end
                    end) ds.

(* the property's quantifier, as a predicate on the INPUT only: every dimension gets a value of
   its enum (default / environment / flag), the document is a well-formed dimensioned document
   (wfb decides WF: GConfRelProofs.wfb_decides_WF) and its root is a map (what yaml decodes a
   configuration file to).  A root switch resolving to a non-map is inside: loading must fail. *)
Definition in_domain (c : c03_case) : bool :=
  match build_dims (cc_env c) (cc_dims c) with
  | Err => false
  | Ok dims =>
      flags_parse (cc_dims c) &&
      wfb dims None (cc_doc c) &&
      match cc_doc c with Mp _ => true | _ => false end
  end.

(* counted by the checks: how many cases the judge put outside the quantifier *)
Definition c03_out_of_domain (c : c03_case) : nat := if in_domain c then 0 else 1.

Definition oracle_ok (c : c03_case) : bool :=
  match cc_oracle c, build_dims (cc_env c) (cc_dims c) with
  | Some o, Ok dims => res_kv_eqb o (load_spec dims (cc_doc c))
  | _, _ => true
  end.

Definition c03_judge (c : c03_case) : nat :=
  if in_domain c then
    if negb (oracle_ok c) then 4
    else verdict (agrees load_spec get_spec c) (agrees load_model get_model c)
  else if agrees load_model get_model c then 0 else 3.

(* the same observation judged against the model of the pinned (pre-fix) code: used to show
   that reduce_any_orig is a faithful record of the code the _refuted theorems speak about *)
Definition load_orig_total (dims : list dim) (t : tree) : res (list (string * tree)) :=
  match load_orig dims t with Some r => r | None => Err end.
Definition c03_judge_orig (c : c03_case) : nat :=
  if agrees load_orig_total get_model c then 0 else 2.

(* coverage: a case is non-trivial when resolution had to choose: the document contains a
   switch (under the case's dimensions) or an empty map or a failing load *)
Fixpoint has_switch (dims : list dim) (t : tree) {struct t} : bool :=
  match t with
  | Lst l => existsb (has_switch dims) l
  | Mp kv =>
      match spec_switch dims kv with Some _ => true | None => false end ||
      match kv with [] => true | _ => false end ||
      existsb (fun p => has_switch dims (snd p)) kv
  | _ => false
  end.
Definition c03_nontrivial (c : c03_case) : bool :=
  match build_dims (cc_env c) (cc_dims c) with
  | Err => true
  | Ok dims => has_switch dims (cc_doc c)
  end.
