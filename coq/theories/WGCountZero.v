(* WGCountZero.v — C01 with the REAL count: a channel returned by Wait is observed closed only if
   Count() was 0 at some position between the start of that Wait and the observation.

   WGSpec.c01_ok / c01_spec judge "zero" conservatively (lower bound lb = returned increments +
   called decrements <= 0): that is what the property's quantifier prescribes for judging
   recorded traces, but it would also accept an implementation that releases waiters when a Dec
   has merely been CALLED.  Here the mark of a watch is set only at positions whose observation
   shows Count() = 0; everything else is the monitor of WGSpec.v.

     c01z_ok        streaming monitor (executable; also evaluated on every recorded trace)
     c01z_spec      the sentence over positions
     c01z_ok_spec   c01z_ok t = true -> c01z_spec t, for every trace
     c01z_all       every trace of the pair-CAS machine is accepted (invariant InvZ on top of
                    WGInv.Inv: a watch that returned x has its mark as soon as x is closed or
                    pending close - x stops being installed only by a CAS to count 0)        *)
From Coq Require Import List Arith ZArith Bool Lia Sorted.
From GT Require Import Base.Conc.
From GT Require Import Base.ConcFacts.
From GT Require Import WGModel WGSpec WGSpecProofs WGInv.
Import ListNotations.
Local Open Scope Z_scope.

(* ---------------------------------------------------------------- the monitor *)
Definition mon_stepz (m : mon) (z : bool) (it : witem) : mon :=
  let ws1 := map (mark z) (m_ws m) in
  let ws2 := match it_ev it with
             | ECall CWait => Watch (it_tid it) None z :: ws1
             | ERet CWait (RChan x) => set_ret (it_tid it) x ws1
             | _ => ws1
             end in
  Mon ws2 (m_ok m && forallb (watch_ok (snd (it_obs it))) ws2).

Definition zcount (it : witem) : bool := Z.eqb (fst (it_obs it)) 0.

Fixpoint monz_of (t : trace) : mon :=
  match t with
  | [] => Mon [] true
  | it :: older => mon_stepz (monz_of older) (zcount it) it
  end.

Definition c01z_ok (t : trace) : bool := m_ok (monz_of t).

Definition c01z_spec (t : trace) : Prop :=
  forall s r tid x u it,
    wait_call t s r tid x ->
    (r <= u)%nat -> item_at t u = Some it -> In x (snd (it_obs it)) ->
    exists tau it', (s <= tau <= u)%nat /\ item_at t tau = Some it' /\ fst (it_obs it') = 0.

(* ---------------------------------------------------------------- monitor => sentence
   the development of WGSpecProofs (annotated watches) with the mark "Count() = 0 observed" *)
Fixpoint awsz_of (t : trace) : list awatch :=
  match t with
  | [] => []
  | it :: older =>
      let z := zcount it in
      let ws1 := map (amark z) (awsz_of older) in
      match it_ev it with
      | ECall CWait => (length older, Watch (it_tid it) None z) :: ws1
      | ERet CWait (RChan x) => aset_ret (it_tid it) x ws1
      | _ => ws1
      end
  end.

Lemma awsz_erase : forall t, map snd (awsz_of t) = m_ws (monz_of t).
Proof.
  induction t as [|it t IH]; [reflexivity|].
  cbn [awsz_of monz_of]. unfold mon_stepz. cbn [m_ws].
  assert (E : map snd (map (amark (zcount it)) (awsz_of t))
              = map (mark (zcount it)) (m_ws (monz_of t))).
  { rewrite <- IH. rewrite !map_map. reflexivity. }
  destruct (it_ev it) as [c|c r| |]; try exact E.
  - destruct c; try exact E. cbn [map snd]. rewrite E. reflexivity.
  - destruct c; try exact E. destruct r; try exact E. rewrite aset_ret_erase, E. reflexivity.
Qed.

Definition zeroz_witness (t : trace) (s : nat) : Prop :=
  exists tau it, (s <= tau < length t)%nat /\ item_at t tau = Some it /\ fst (it_obs it) = 0.

Record awsz_inv (t : trace) : Prop := {
  z_sorted : StronglySorted gt (starts (awsz_of t));
  z_start : forall s w, In (s, w) (awsz_of t) ->
              (s < length t)%nat /\
              exists it, item_at t s = Some it /\ it_tid it = w_tid w /\ it_ev it = ECall CWait;
  z_zero : forall s w, In (s, w) (awsz_of t) -> w_zero w = true -> zeroz_witness t s;
  z_ret : forall s w y, In (s, w) (awsz_of t) -> w_ch w = Some y ->
            exists r it, (s < r < length t)%nat /\ item_at t r = Some it /\
                         it_tid it = w_tid w /\ it_ev it = ERet CWait (RChan y);
  z_all : forall s it, item_at t s = Some it -> it_ev it = ECall CWait ->
            exists w, In (s, w) (awsz_of t);
  z_done : forall s r tid x, wait_call t s r tid x ->
             exists w, In (s, w) (awsz_of t) /\ w_ch w = Some x
}.

Lemma zeroz_witness_cons : forall (it : witem) (t : trace) s, zeroz_witness t s -> zeroz_witness (it :: t) s.
Proof.
  intros it t s (tau & it0 & Hr & Hi & Hz). exists tau, it0. split; [simpl; lia|].
  split; [rewrite item_at_old; [exact Hi|lia]|exact Hz].
Qed.

Lemma zeroz_witness_now : forall (it : witem) (t : trace) s, (s <= length t)%nat -> fst (it_obs it) = 0 ->
  zeroz_witness (it :: t) s.
Proof.
  intros it t s Hs Hl. exists (length t), it. split.
  - split; [exact Hs|simpl; apply Nat.lt_succ_diag_r].
  - split; [apply item_at_new|exact Hl].
Qed.

Lemma awsz_inv_all : forall t, awsz_inv t.
Proof.
  induction t as [|it t IH].
  - constructor; cbn.
    + constructor.
    + intros s w [].
    + intros s w [].
    + intros s w y [].
    + intros s it H. unfold item_at in H. simpl in H. destruct s; discriminate H.
    + intros s r tid x (_ & (o & p & H) & _). unfold item_at in H. simpl in H.
      destruct s; discriminate H.
  - set (z := zcount it).
    set (A1 := map (amark z) (awsz_of t)).
    assert (HA1 : forall s w, In (s, w) A1 -> exists w0, In (s, w0) (awsz_of t) /\ w = mark z w0).
    { intros s w H. apply in_map_iff in H. destruct H as ([s0 w0] & E & Hin).
      unfold amark in E. simpl in E. inversion E; subst. eauto. }
    assert (HA1' : forall s w0, In (s, w0) (awsz_of t) -> In (s, mark z w0) A1).
    { intros s w0 H. apply in_map_iff. exists (s, w0). split; auto. }
    assert (Hstart1 : forall s w, In (s, w) A1 ->
              (s < length (it :: t))%nat /\
              exists it0, item_at (it :: t) s = Some it0 /\ it_tid it0 = w_tid w /\
                          it_ev it0 = ECall CWait).
    { intros s w H. destruct (HA1 _ _ H) as (w0 & Hin & ->).
      destruct (z_start _ IH _ _ Hin) as (Hs & it0 & H1 & H2 & H3).
      split; [simpl; lia|]. exists it0. rewrite item_at_old; auto. }
    assert (Hzero1 : forall s w, In (s, w) A1 -> w_zero w = true -> zeroz_witness (it :: t) s).
    { intros s w H Hz. destruct (HA1 _ _ H) as (w0 & Hin & ->). simpl in Hz.
      apply orb_true_iff in Hz. destruct Hz as [Hz|Hz].
      - apply zeroz_witness_cons. eapply (z_zero _ IH); eauto.
      - apply zeroz_witness_now; [destruct (z_start _ IH _ _ Hin); lia|].
        apply Z.eqb_eq. exact Hz. }
    assert (Hret1 : forall s w y, In (s, w) A1 -> w_ch w = Some y ->
              exists r it0, (s < r < length (it :: t))%nat /\ item_at (it :: t) r = Some it0 /\
                            it_tid it0 = w_tid w /\ it_ev it0 = ERet CWait (RChan y)).
    { intros s w y H Hc. destruct (HA1 _ _ H) as (w0 & Hin & ->). simpl in Hc.
      destruct (z_ret _ IH _ _ _ Hin Hc) as (r & it0 & Hr & H1 & H2 & H3).
      exists r, it0. split; [simpl; lia|]. rewrite item_at_old; [auto|lia]. }
    assert (Hsorted1 : StronglySorted gt (starts A1)).
    { unfold A1. rewrite starts_amark. exact (z_sorted _ IH). }
    assert (Hall1 : forall s it0, (s < length t)%nat -> item_at (it :: t) s = Some it0 ->
              it_ev it0 = ECall CWait -> exists w, In (s, w) A1).
    { intros s it0 Hs H He. rewrite item_at_old in H; auto.
      destruct (z_all _ IH _ _ H He) as (w0 & Hin). eauto. }
    assert (Hdone1 : forall s r tid x, (r < length t)%nat -> wait_call (it :: t) s r tid x ->
              exists w, In (s, w) A1 /\ w_ch w = Some x).
    { intros s r tid x Hr Hw. apply wait_call_old in Hw; auto.
      destruct (z_done _ IH _ _ _ _ Hw) as (w0 & Hin & Hc). exists (mark z w0). split; auto. }
    assert (Hwc_bound : forall s r tid x, wait_call (it :: t) s r tid x -> (r <= length t)%nat).
    { intros s r tid x (_ & _ & (o & p & H) & _). apply item_at_lt in H. simpl in H. lia. }
    assert (Hgen : forall A',
              (A' = A1 /\ (forall x, it_ev it <> ERet CWait (RChan x)) /\ it_ev it <> ECall CWait) ->
              awsz_of (it :: t) = A' -> awsz_inv (it :: t)).
    { intros A' (-> & Hnr & Hnc) HA. constructor; rewrite ?HA.
      - exact Hsorted1.
      - exact Hstart1.
      - exact Hzero1.
      - exact Hret1.
      - intros s it0 H He. destruct (Nat.lt_ge_cases s (length t)) as [L|L]; [eapply Hall1; eauto|].
        pose proof (item_at_lt _ _ _ H) as Hlt. simpl in Hlt. assert (Es : s = length t) by lia. subst s.
        rewrite item_at_new in H. inversion H; subst it0. contradiction.
      - intros s r tid x Hw. destruct (Nat.lt_ge_cases r (length t)) as [L|L]; [eapply Hdone1; eauto|].
        pose proof (Hwc_bound _ _ _ _ Hw) as Hb. assert (Er : r = length t) by lia. subst r.
        destruct Hw as (_ & _ & (o & p & H) & _). rewrite item_at_new in H. inversion H as [E].
        exfalso. apply (Hnr x). rewrite E. reflexivity. }
    destruct (it_ev it) as [c|c r| |] eqn:Ev.
    + destruct c as [d| |].
      * apply (Hgen A1); [repeat split; auto; congruence|]. cbn [awsz_of]. rewrite Ev. reflexivity.
      * assert (HA : awsz_of (it :: t) = (length t, Watch (it_tid it) None z) :: A1).
        { cbn [awsz_of]. rewrite Ev. reflexivity. }
        constructor; rewrite ?HA.
        -- cbn [starts map fst]. constructor; [exact Hsorted1|]. apply Forall_forall.
           intros s Hs. unfold starts in Hs. apply in_map_iff in Hs. destruct Hs as ([s0 w] & E & Hin).
           simpl in E. subst s0. destruct (Hstart1 _ _ Hin) as (_ & it0 & H & _).
           destruct (HA1 _ _ Hin) as (w0 & Hin0 & _). destruct (z_start _ IH _ _ Hin0). lia.
        -- intros s w [E|Hin]; [|auto]. inversion E; subst. split; [simpl; lia|].
           exists it. rewrite item_at_new. auto.
        -- intros s w [E|Hin] Hz; [|eauto]. inversion E; subst. cbn in Hz.
           apply zeroz_witness_now; [lia|]. apply Z.eqb_eq. exact Hz.
        -- intros s w y [E|Hin] Hc; [|eauto]. inversion E; subst. discriminate Hc.
        -- intros s it0 H He. destruct (Nat.lt_ge_cases s (length t)) as [L|L].
           ++ destruct (Hall1 _ _ L H He) as (w & Hw). exists w. right; auto.
           ++ pose proof (item_at_lt _ _ _ H) as Hlt. simpl in Hlt. assert (Es : s = length t) by lia.
              subst s. eexists. left; reflexivity.
        -- intros s r tid x Hw. destruct (Nat.lt_ge_cases r (length t)) as [L|L].
           ++ destruct (Hdone1 _ _ _ _ L Hw) as (w & Hw1 & Hw2). exists w. split; [right|]; auto.
           ++ pose proof (Hwc_bound _ _ _ _ Hw) as Hb. assert (Er : r = length t) by lia. subst r.
              destruct Hw as (_ & _ & (o & p & H) & _). rewrite item_at_new in H.
              inversion H as [E]. rewrite E in Ev. discriminate Ev.
      * apply (Hgen A1); [repeat split; auto; congruence|]. cbn [awsz_of]. rewrite Ev. reflexivity.
    + destruct c as [d| |].
      * apply (Hgen A1); [repeat split; auto; congruence|]. cbn [awsz_of]. rewrite Ev. reflexivity.
      * destruct r as [n|x|].
        -- apply (Hgen A1); [repeat split; auto; congruence|]. cbn [awsz_of]. rewrite Ev. reflexivity.
        -- assert (HA : awsz_of (it :: t) = aset_ret (it_tid it) x A1).
           { cbn [awsz_of]. rewrite Ev. reflexivity. }
           assert (Hin' : forall s w, In (s, w) (aset_ret (it_tid it) x A1) ->
                     In (s, w) A1 \/
                     exists w0, In (s, w0) A1 /\ w_ch w0 = None /\ w_tid w0 = it_tid it /\
                                w = Watch (it_tid it) (Some x) (w_zero w0)).
           { intros s w H. destruct (in_aset_ret _ _ _ _ H) as [H1|(w0 & H1 & H2 & H3 & H4)]; auto.
             right. exists w0. simpl in *. auto. }
           constructor; rewrite ?HA.
           ++ rewrite starts_aset_ret. exact Hsorted1.
           ++ intros s w H. destruct (Hin' _ _ H) as [H1|(w0 & H1 & H2 & H3 & ->)]; [auto|].
              destruct (Hstart1 _ _ H1) as (Hs & it0 & E1 & E2 & E3). split; auto.
              exists it0. repeat split; auto. cbn. congruence.
           ++ intros s w H Hz. destruct (Hin' _ _ H) as [H1|(w0 & H1 & H2 & H3 & ->)]; [eauto|].
              cbn in Hz. eauto.
           ++ intros s w y H Hc. destruct (Hin' _ _ H) as [H1|(w0 & H1 & H2 & H3 & ->)]; [eauto|].
              cbn in Hc. inversion Hc; subst y. exists (length t), it.
              destruct (HA1 _ _ H1) as (w00 & Hin0 & _). destruct (z_start _ IH _ _ Hin0) as (Hs & _).
              split; [simpl; lia|]. rewrite item_at_new. repeat split; auto.
           ++ intros s it0 H He. destruct (Nat.lt_ge_cases s (length t)) as [L|L].
              ** destruct (Hall1 _ _ L H He) as (w & Hw). eapply aset_ret_keeps_start; eauto.
              ** pose proof (item_at_lt _ _ _ H) as Hlt. simpl in Hlt. assert (Es : s = length t) by lia.
                 subst s. rewrite item_at_new in H. inversion H; subst it0. congruence.
           ++ intros s r tid y Hw. destruct (Nat.lt_ge_cases r (length t)) as [L|L].
              ** destruct (Hdone1 _ _ _ _ L Hw) as (w & Hw1 & Hw2). exists w. split; auto.
                 eapply aset_ret_keeps_some; eauto.
              ** pose proof (Hwc_bound _ _ _ _ Hw) as Hb. assert (Er : r = length t) by lia. subst r.
                 destruct Hw as (Hsr & (o & p & Hs) & (o' & p' & Hr) & Hmid).
                 rewrite item_at_new in Hr. inversion Hr as [E]. rewrite E in Ev. cbn in Ev.
                 inversion Ev; subst y. assert (Etid : it_tid it = tid) by (rewrite E; reflexivity).
                 destruct (Hall1 s _ Hsr Hs eq_refl) as (w & Hw).
                 destruct (Hstart1 _ _ Hw) as (_ & it0 & E1 & E2 & E3).
                 rewrite Hs in E1. inversion E1; subst it0. cbn in E2.
                 assert (Hnone : w_ch w = None).
                 { destruct (w_ch w) as [y|] eqn:Ec; auto. exfalso.
                   destruct (HA1 _ _ Hw) as (w0 & Hin0 & Ew). subst w. simpl in Ec, E2.
                   destruct (z_ret _ IH _ _ _ Hin0 Ec) as (r2 & it2 & Hr2 & G1 & G2 & G3).
                   assert (Ht2 : it_ev it2 = ETau).
                   { apply (Hmid r2 it2); [lia|rewrite item_at_old; [exact G1|lia]|].
                     rewrite G2. exact (eq_sym E2). }
                   congruence. }
                 destruct (in_split _ _ Hw) as (pre & post & Esplit).
                 exists (Watch tid (Some x) (w_zero w)). split; [|reflexivity].
                 cbn [it_tid]. rewrite ?Etid. rewrite Esplit.
                 apply aset_ret_hits; auto.
                 intros q Hq [Hqt Hqc].
                 assert (Hqs : (fst q > s)%nat).
                 { apply (sorted_split (starts pre) s (starts post)).
                   - replace (starts pre ++ s :: starts post) with (starts A1); [exact Hsorted1|].
                     rewrite Esplit. unfold starts. rewrite map_app. reflexivity.
                   - unfold starts. apply in_map. exact Hq. }
                 assert (Hq1 : In (fst q, snd q) A1).
                 { rewrite Esplit. apply in_or_app. left. destruct q; exact Hq. }
                 destruct (Hstart1 _ _ Hq1) as (Hql & it1 & F1 & F2 & F3).
                 destruct (HA1 _ _ Hq1) as (w0 & Hin0 & _).
                 destruct (z_start _ IH _ _ Hin0) as (Hql' & _).
                 specialize (Hmid (fst q) it1).
                 assert (it_ev it1 = ETau).
                 { apply Hmid; [lia|exact F1|rewrite F2; exact Hqt]. }
                 congruence.
        -- apply (Hgen A1); [repeat split; auto; congruence|]. cbn [awsz_of]. rewrite Ev. reflexivity.
      * apply (Hgen A1); [repeat split; auto; congruence|]. cbn [awsz_of]. rewrite Ev. reflexivity.
    + apply (Hgen A1); [repeat split; auto; congruence|]. cbn [awsz_of]. rewrite Ev. reflexivity.
    + apply (Hgen A1); [repeat split; auto; congruence|]. cbn [awsz_of]. rewrite Ev. reflexivity.
Qed.

Lemma mz_ok_older : forall (it : witem) (t : trace), m_ok (monz_of (it :: t)) = true -> m_ok (monz_of t) = true.
Proof.
  intros it t H. cbn [monz_of] in H. unfold mon_stepz in H. cbn [m_ok] in H.
  apply andb_true_iff in H. tauto.
Qed.

Lemma mz_ok_checks : forall (it : witem) (t : trace), m_ok (monz_of (it :: t)) = true ->
  forall w x, In w (m_ws (monz_of (it :: t))) -> w_ch w = Some x ->
              In x (snd (it_obs it)) -> w_zero w = true.
Proof.
  intros it t H w x Hin Hc Hx.
  assert (F : forallb (watch_ok (snd (it_obs it))) (m_ws (monz_of (it :: t))) = true).
  { cbn [monz_of] in *. unfold mon_stepz in *. cbn [m_ok m_ws] in *.
    apply andb_true_iff in H. tauto. }
  rewrite forallb_forall in F. specialize (F _ Hin). unfold watch_ok in F. rewrite Hc in F.
  assert (M : memb x (snd (it_obs it)) = true).
  { unfold memb. apply existsb_exists. exists x. split; auto. apply Nat.eqb_refl. }
  rewrite M in F. simpl in F. exact F.
Qed.

Theorem c01z_ok_spec : forall t, c01z_ok t = true -> c01z_spec t.
Proof.
  unfold c01z_ok. induction t as [|it t IH]; intros Hok.
  - intros s r tid x u it0 _ _ H. unfold item_at in H. simpl in H. destruct u; discriminate H.
  - intros s r tid x u it0 Hw Hru Hu Hx.
    destruct (Nat.lt_ge_cases u (length t)) as [L|L].
    + rewrite item_at_old in Hu; auto.
      destruct (IH (mz_ok_older _ _ Hok) s r tid x u it0) as (tau & it' & Ht & Hi & Hz); auto.
      { apply wait_call_old with (it := it); auto. lia. }
      exists tau, it'. split; auto. split; [rewrite item_at_old; [exact Hi|lia]|exact Hz].
    + pose proof (item_at_lt _ _ _ Hu) as Hlt. simpl in Hlt. assert (u = length t) by lia. subst u.
      rewrite item_at_new in Hu. inversion Hu; subst it0.
      pose proof (awsz_inv_all (it :: t)) as AI.
      destruct (z_done _ AI _ _ _ _ Hw) as (w & Hin & Hc).
      assert (Hin' : In w (m_ws (monz_of (it :: t)))).
      { rewrite <- awsz_erase. apply in_map_iff. exists (s, w). split; auto. }
      pose proof (mz_ok_checks _ _ Hok _ _ Hin' Hc Hx) as Hz.
      destruct (z_zero _ AI _ _ Hin Hz) as (tau & it' & Ht & Hi & Hl).
      exists tau, it'. split; [simpl in Ht; lia|]. split; assumption.
Qed.

(* ---------------------------------------------------------------- the machine *)
Lemma monz_preserved : forall (m : mon) (z : bool) (it : witem) (P P' : nat -> Prop),
  (forall w x, In w (m_ws m) -> w_ch w = Some x -> P x -> w_zero w = true) ->
  (forall x, P' x -> P x \/ z = true) ->
  (forall x, In x (snd (it_obs it)) -> P' x) ->
  (forall x, it_ev it = ERet CWait (RChan x) -> P' x -> z = true) ->
  m_ok m = true ->
  (forall w x, In w (m_ws (mon_stepz m z it)) -> w_ch w = Some x -> P' x -> w_zero w = true)
  /\ m_ok (mon_stepz m z it) = true.
Proof.
  intros m z it P P' Hold Hnew Hcl Hret Hok.
  assert (Hmarked : forall w x, In w (map (mark z) (m_ws m)) -> w_ch w = Some x ->
                               P' x -> w_zero w = true).
  { intros w x Hin Hc Hp. apply in_map_iff in Hin. destruct Hin as (w0 & <- & Hin). simpl in *.
    destruct (Hnew _ Hp) as [Hp0|Hz].
    - rewrite (Hold _ _ Hin Hc Hp0). reflexivity.
    - rewrite Hz. apply orb_true_r. }
  assert (Hws : forall w x,
    In w (m_ws (mon_stepz m z it)) -> w_ch w = Some x -> P' x -> w_zero w = true).
  { intros w x Hin Hc Hp. unfold mon_stepz in Hin. cbn [m_ws] in Hin.
    destruct (it_ev it) as [c|c r| |] eqn:Ev.
    - destruct c; try (eapply Hmarked; eauto; fail).
      destruct Hin as [<-|Hin]; [discriminate Hc|]. eapply Hmarked; eauto.
    - destruct c; try (eapply Hmarked; eauto; fail).
      destruct r as [n|y|]; try (eapply Hmarked; eauto; fail).
      apply in_set_ret in Hin. destruct Hin as [Hin|(w0 & Hin & Hn & ->)].
      + eapply Hmarked; eauto.
      + cbn [w_ch] in Hc. inversion Hc; subst y. cbn [w_zero].
        assert (Hz : z = true) by (eapply Hret; eauto).
        apply in_map_iff in Hin. destruct Hin as (w00 & <- & _). unfold mark. cbn [w_zero].
        rewrite Hz. apply orb_true_r.
    - eapply Hmarked; eauto.
    - eapply Hmarked; eauto. }
  split; [exact Hws|].
  unfold mon_stepz. cbn [m_ok]. rewrite Hok. cbn [andb].
  apply forallb_watch_ok. intros w x Hin Hc Hx.
  apply (Hws w x); auto.
Qed.

Definition cop (cf : wg_config) (x : nat) : Prop := In x (closed (sh cf)) \/ pending (thr cf) x.

Record InvZ (cf : wg_config) : Prop := {
  iz_mon : forall w x, In w (m_ws (monz_of (tr cf))) -> w_ch w = Some x -> cop cf x ->
             w_zero w = true;
  iz_ok : m_ok (monz_of (tr cf)) = true
}.

Lemma InvZ_init : forall progs, InvZ (init wg_init progs).
Proof. intro progs. constructor; cbn; [intros w x []|reflexivity]. Qed.

(* one lemma per kind of step: given how "closed or pending" changes and what the new count is *)
Lemma InvZ_next : forall cf cf' it,
  InvZ cf -> tr cf' = it :: tr cf ->
  snd (it_obs it) = closed (sh cf') ->
  (forall x, cop cf' x -> cop cf x \/ fst (it_obs it) = 0) ->
  (forall x, it_ev it = ERet CWait (RChan x) -> cop cf' x -> fst (it_obs it) = 0) ->
  InvZ cf'.
Proof.
  intros cf cf' it HZ Htr Hobs Hnew Hret.
  destruct (monz_preserved (monz_of (tr cf)) (zcount it) it (cop cf) (cop cf')) as [H1 H2].
  - exact (iz_mon _ HZ).
  - intros x Hx. destruct (Hnew _ Hx) as [H|H]; [left; auto|right]. unfold zcount. rewrite H. reflexivity.
  - intros x Hx. left. rewrite <- Hobs. exact Hx.
  - intros x E Hx. unfold zcount. rewrite (Hret _ E Hx). reflexivity.
  - exact (iz_ok _ HZ).
  - constructor; rewrite Htr; cbn [monz_of]; assumption.
Qed.

Theorem InvZ_step : forall cf tid, Inv cf -> InvZ cf -> InvZ (wg_step cf tid).
Proof.
  intros cf tid HI HZ. unfold wg_step, step.
  destruct (nth_error (thr cf) tid) as [t|] eqn:Hnth.
  2:{ eapply InvZ_next; eauto; cbn; auto. intros x E. discriminate E. }
  pose proof (i_wf _ HI _ _ Hnth) as Hwf.
  (* a step that leaves memory and pending set unchanged *)
  assert (K1 : forall t' e st,
            (forall x, holds t' x -> holds t x) ->
            (forall x, e = ERet CWait (RChan x) -> x = chn (sh cf)) ->
            InvZ (Config (sh cf) (upd (thr cf) tid t') (Item tid e (wg_observe (sh cf)) st :: tr cf))).
  { intros t' e st Hh Hw. eapply InvZ_next; eauto; cbn [tr sh it_obs it_ev wg_observe fst snd]; auto.
    - intros x [Hx|Hx]; left; [left; auto|right].
      destruct (pending_upd_inv _ _ _ _ _ Hnth Hx) as [H1|H1]; auto.
      exists tid, t. split; auto.
    - intros x E [Hx|Hx]; specialize (Hw _ E); subst x.
      + destruct (Nat.eq_dec (chn (sh cf)) 0) as [E0|N0]; [apply (i_sent _ HI); auto|].
        exfalso. apply (i_open _ HI N0). exact Hx.
      + exfalso. cbn [thr] in Hx.
        destruct (pending_upd_inv _ _ _ _ _ Hnth Hx) as [H1|H1].
        * apply (not_pending_installed _ HI). exists tid, t. split; auto.
        * apply (not_pending_installed _ HI). exact H1. }
  destruct t as [[|c todo]|c l todo].
  - cbn. apply K1; [intros x []|intros x E; discriminate E].
  - cbn. apply K1; [intros x Hx; destruct c; destruct Hx|intros x E; discriminate E].
  - destruct c as [d| |]; destruct l as [|ov oc och|x n| |]; try destruct Hwf.
    + cbn. apply K1; [intros x []|intros x E; discriminate E].
    + pose proof (i_ver _ HI _ _ Hnth) as V. cbn in V. destruct V as [V1 V2].
      cbn [tstep wg_mstep]. destruct (Nat.eqb_spec (ver (sh cf)) ov) as [Ev|Ev].
      * symmetry in Ev. destruct (V2 Ev) as [-> ->]. subst ov.
        (* successful compare-and-swap: the only new pending channel is the one unlinked by a
           CAS to zero *)
        assert (K2 : forall chn' nextc' t' e st,
                  (forall y, holds t' y -> cnt (sh cf) + d = 0) ->
                  (forall y, e <> ERet CWait (RChan y)) ->
                  InvZ (Config (Shared (S (ver (sh cf))) (cnt (sh cf) + d) chn' (closed (sh cf)) nextc')
                               (upd (thr cf) tid t')
                               (Item tid e (cnt (sh cf) + d, closed (sh cf)) st :: tr cf))).
        { intros chn' nextc' t' e st Hh He.
          eapply InvZ_next; eauto; cbn [tr sh it_obs it_ev fst snd closed thr]; auto.
          - intros y [Hy|Hy]; [left; left; auto|]. cbn [thr] in Hy.
            destruct (pending_upd_inv _ _ _ _ _ Hnth Hy) as [H1|H1]; [|left; right; auto].
            right. eapply Hh; eauto.
          - intros y E. exfalso. apply (He y). exact E. }
        destruct (Z.eqb_spec (cnt (sh cf) + d) 0) as [En|En];
          destruct (Nat.eqb_spec (chn (sh cf)) 0) as [Ec|Ec]; cbn;
          apply K2; try (intros y []; fail); try (intros y E; discriminate E).
        intros y _. exact En.
      * cbn. apply K1; [intros x []|intros x E; discriminate E].
    + pose proof (i_pend _ HI _ _ Hnth) as P. cbn in P. destruct P as (_ & _ & Pc & _).
      cbn [tstep wg_mstep]. destruct (memb x (closed (sh cf))) eqn:M.
      * apply memb_In in M. contradiction.
      * cbn. eapply InvZ_next; eauto; cbn [tr sh it_obs it_ev fst snd closed thr]; auto.
        -- intros y [[<-|Hy]|Hy]; left.
           ++ right. exists tid, (Run (CAdd d) (A2 x n) todo). split; auto. reflexivity.
           ++ left; auto.
           ++ cbn [thr] in Hy. destruct (pending_upd_inv _ _ _ _ _ Hnth Hy) as [H1|H1];
                [destruct H1|right; auto].
        -- intros y E. discriminate E.
    + cbn. apply K1; [intros x []|]. intros x E. inversion E. reflexivity.
    + cbn. apply K1; [intros x []|intros x E; discriminate E].
Qed.

Theorem c01z_all : forall progs sched, c01z_ok (tr (wg_exec progs sched)) = true.
Proof.
  intros progs sched. unfold c01z_ok.
  cut (Inv (wg_exec progs sched) /\ InvZ (wg_exec progs sched)); [intros [_ H]; apply (iz_ok _ H)|].
  unfold wg_exec.
  apply (exec_invariant _ _ _ _ _ wg_begin wg_mstep wg_fatal wg_observe wg_site
           (fun cf => Inv cf /\ InvZ cf)).
  - split; [apply Inv_init|apply InvZ_init].
  - intros cf t [HI HJ]. split; [apply Inv_step; auto|apply InvZ_step; auto].
Qed.

(* the property's first sentence, with the real count, for every program and schedule *)
Theorem c01_count_zero : forall progs sched, c01z_spec (tr (wg_exec progs sched)).
Proof. intros. apply c01z_ok_spec. apply c01z_all. Qed.
