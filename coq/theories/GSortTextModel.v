(* GSortTextModel.v — the TEXT of a generated Less body and its meaning (no proofs here:
   GSortTextProofs.v).

   GSortModel.v has two separate views of what the template emits for a chain of compare lines:
   `render_block` (the text, one trimmed line per list entry) and `less_with` (the meaning).  This
   file connects them through the emitted Go itself:

     gstmt / gexpr     abstract syntax of the statements the template's PriorityBlock can emit:
                         if s[i].ACC == s[j].ACC { <stmts> }      SIf (EEq ACC) <stmts>
                         return s[i].ACC < s[j].ACC               SReturn (ELt ACC)
                         return !s[i].ACC && s[j].ACC             SReturn (ENotAnd ACC)
     block_ast         the statement list the template recursion produces for a chain
     print_stmts       the pretty-printer (gofmt-ed lines, indentation dropped)
     parse_lines       a parser of such lines, word by word (`strings.Fields`), back to syntax
     eval_stmts        the meaning of the statements as Go executes them (sequential statements,
                       `if` runs its body when the condition holds, `return` ends the function;
                       falling off the end has no meaning: None), with the operands read from
                       the two elements through an accessor environment
     views_of          the accessor environment of a struct definition: `F` is field idx read
                       plainly (slot 2*idx), `F.<accessor>` the same field read through the
                       accessor of one of its tags (slot 2*idx+1); bool-ness as the generator
                       decides it (fd_isbool)

   The judge (GSortJudge.v) runs parse_lines / eval_stmts on the text the REAL template wrote
   for every farm case, so the generated text itself — not only its compiled behaviour — is
   given a meaning inside Coq and compared with the specification.                           *)
From Coq Require Import List Bool ZArith String Ascii.
From GT Require Import GSortModel.
Import ListNotations.
Local Open Scope list_scope.
Local Open Scope string_scope.

Inductive gexpr :=
| EEq (acc : string)        (* s[i].ACC == s[j].ACC *)
| ELt (acc : string)        (* s[i].ACC < s[j].ACC *)
| ENotAnd (acc : string).   (* !s[i].ACC && s[j].ACC *)
Inductive gstmt :=
| SIf (c : gexpr) (body : list gstmt)
| SReturn (e : gexpr).

(* ---- what the template recursion emits for a chain (PriorityBlock) *)
Definition ret_of (c : cmpline) : gstmt :=
  SReturn (if cl_isbool c then ENotAnd (cl_acc c) else ELt (cl_acc c)).
Fixpoint block_ast (cs : list cmpline) : list gstmt :=
  match cs with
  | [] => []
  | c :: rest =>
      (match rest with
      | [] => []
      | _ => [SIf (EEq (cl_acc c)) (block_ast rest)]
      end ++ [ret_of c])%list
  end.

(* ---- printing *)
Definition print_expr (e : gexpr) : string :=
  match e with
  | EEq a => "s[i]." ++ a ++ " == s[j]." ++ a
  | ELt a => "s[i]." ++ a ++ " < s[j]." ++ a
  | ENotAnd a => "!s[i]." ++ a ++ " && s[j]." ++ a
  end.
Fixpoint print_stmt (s : gstmt) : list string :=
  match s with
  | SIf c body => ("if " ++ print_expr c ++ " {") :: (flat_map print_stmt body ++ ["}"])%list
  | SReturn e => ["return " ++ print_expr e]
  end.
Definition print_stmts (ss : list gstmt) : list string := flat_map print_stmt ss.

(* ---- parsing, word by word *)
Definition is_space (c : ascii) : bool :=
  match c with " "%char | "009"%char => true | _ => false end.
(* strings.Fields: maximal runs of non-space characters *)
Fixpoint words_acc (cur : string) (s : string) : list string :=
  match s with
  | EmptyString => match cur with EmptyString => [] | _ => [cur] end
  | String c r =>
      if is_space c then match cur with EmptyString => words_acc "" r | _ => cur :: words_acc "" r end
      else words_acc (cur ++ String c "") r
  end.
Definition words (s : string) : list string := words_acc "" s.

Fixpoint strip_prefix (p s : string) : option string :=
  match p with
  | EmptyString => Some s
  | String a p' => match s with
                   | String b s' => if Ascii.eqb a b then strip_prefix p' s' else None
                   | EmptyString => None
                   end
  end.
(* the operand pair `s[i].A`, `s[j].B` must name one accessor *)
Definition operands (l r : string) : option string :=
  match strip_prefix "s[i]." l, strip_prefix "s[j]." r with
  | Some a, Some b => if String.eqb a b then Some a else None
  | _, _ => None
  end.
Definition parse_expr (ws : list string) : option gexpr :=
  match ws with
  | [l; op; r] =>
      if String.eqb op "==" then option_map EEq (operands l r)
      else if String.eqb op "<" then option_map ELt (operands l r)
      else if String.eqb op "&&" then
        match strip_prefix "!" l with
        | Some l' => option_map ENotAnd (operands l' r)
        | None => None
        end
      else None
  | _ => None
  end.

Inductive line :=
| LIf (c : gexpr) | LClose | LReturn (e : gexpr) | LBad.
Definition classify (s : string) : line :=
  match words s with
  | ["}"] => LClose
  | "return" :: ws => match parse_expr ws with Some e => LReturn e | None => LBad end
  | "if" :: ws =>
      match rev ws with
      | "{" :: rws => match parse_expr (rev rws) with Some e => LIf e | None => LBad end
      | _ => LBad
      end
  | _ => LBad
  end.

(* statements up to the matching close (or the end): a stack of open `if`s, innermost first;
   each frame holds the condition and the statements collected BEFORE the `if` in its parent *)
Fixpoint parse_go (ls : list line) (cur : list gstmt) (stack : list (gexpr * list gstmt))
  : option (list gstmt) :=
  match ls with
  | [] => match stack with [] => Some (rev cur) | _ => None end
  | LBad :: _ => None
  | LReturn e :: r => parse_go r (SReturn e :: cur) stack
  | LIf c :: r => parse_go r [] ((c, cur) :: stack)
  | LClose :: r =>
      match stack with
      | [] => None
      | (c, before) :: st => parse_go r (SIf c (rev cur) :: before) st
      end
  end.
Definition parse_lines (ls : list string) : option (list gstmt) :=
  parse_go (map classify ls) [] [].

(* ---- meaning *)
(* what an accessor text reads: (is the operand a bool, slot of the view) *)
Definition aenv := string -> option (bool * nat).

Definition eval_expr (env : aenv) (e : gexpr) (a b : elem) : option bool :=
  match e with
  | EEq acc => match env acc with
               | Some (true, k) => Some (Bool.eqb (getb a k) (getb b k))
               | Some (false, k) => Some (Z.eqb (getz a k) (getz b k))
               | None => None
               end
  | ELt acc => match env acc with
               | Some (false, k) => Some (Z.ltb (getz a k) (getz b k))
               | _ => None                       (* `<` is not defined on bool operands *)
               end
  | ENotAnd acc => match env acc with
                   | Some (true, k) => Some (negb (getb a k) && getb b k)
                   | _ => None                   (* `!`, `&&` need bool operands *)
                   end
  end.

(* Some (Some v): the statements return v; Some None: they complete without returning;
   None: an operand is ill-typed / unknown *)
Fixpoint eval_stmt (env : aenv) (s : gstmt) (a b : elem) {struct s} : option (option bool) :=
  match s with
  | SReturn e => option_map Some (eval_expr env e a b)
  | SIf c body =>
      match eval_expr env c a b with
      | None => None
      | Some false => Some None
      | Some true =>
          (fix go (ss : list gstmt) : option (option bool) :=
             match ss with
             | [] => Some None
             | s' :: r => match eval_stmt env s' a b with
                          | None => None
                          | Some (Some v) => Some (Some v)
                          | Some None => go r
                          end
             end) body
      end
  end.
Fixpoint eval_seq (env : aenv) (ss : list gstmt) (a b : elem) : option (option bool) :=
  match ss with
  | [] => Some None
  | s :: r => match eval_stmt env s a b with
              | None => None
              | Some (Some v) => Some (Some v)
              | Some None => eval_seq env r a b
              end
  end.
(* a function body must return *)
Definition eval_stmts (env : aenv) (ss : list gstmt) (a b : elem) : option bool :=
  match eval_seq env ss a b with Some (Some v) => Some v | _ => None end.

(* ---- accessor environments *)
(* of a chain: each line's accessor text reads that line's slot *)
Fixpoint env_of (cs : list cmpline) : aenv :=
  fun acc => match cs with
             | [] => None
             | c :: r => if String.eqb (cl_acc c) acc then Some (cl_isbool c, cl_idx c)
                         else env_of r acc
             end.
(* of a definition: `F` and `F.<accessor of one of F's tags>` *)
Fixpoint views_from (idx : nat) (fs : list fieldT) : aenv :=
  fun acc => match fs with
             | [] => None
             | f :: r =>
                 if String.eqb (fd_name f) acc then Some (fd_isbool f, slot idx "")
                 else if existsb (fun t => negb (String.eqb (tg_acc t) "")
                                           && String.eqb (fd_name f ++ "." ++ tg_acc t) acc)
                                 (fd_tags f)
                      then Some (fd_isbool f, slot idx "x")
                      else views_from (S idx) r acc
             end.
Definition views_of (fs : list fieldT) : aenv := views_from 0 fs.

(* the Less body inside a sorter block as the template writes it: the lines after the
   `func (s X) Less(i, j int) bool {` header up to the closing brace of the function *)
Fixpoint after_less (ls : list string) : option (list string) :=
  match ls with
  | [] => None
  | l :: r => match words l with
              | "func" :: _ :: _ :: w :: _ =>
                  match strip_prefix "Less(" w with
                  | Some _ => Some r
                  | None => after_less r
                  end
              | _ => after_less r
              end
  end.
Definition less_body (block : list string) : option (list string) :=
  match after_less block with
  | Some r => match rev r with
              | last :: body_rev => if String.eqb last "}" then Some (rev body_rev) else None
              | [] => None
              end
  | None => None
  end.
(* meaning of the generated text of one sorter under a definition's views *)
Definition text_less (fs : list fieldT) (block : list string) : option (elem -> elem -> option bool) :=
  match less_body block with
  | Some body => match parse_lines body with
                 | Some ss => Some (eval_stmts (views_of fs) ss)
                 | None => None
                 end
  | None => None
  end.
