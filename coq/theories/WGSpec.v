(* WGSpec.v — the specification side of C01/C02: executable monitors over traces.  No proofs.

   A trace is a list of items NEWEST FIRST (as the machine of Base/Conc.v builds it); one
   item per schedule entry: thread, event (call / return / internal step / stutter), and the
   observation after the step: Count() and the set of closed channels.  The same monitors
   judge (a) traces of the Coq machines and (b) traces recorded from the real code under the
   vsched scheduler (channels named by hand-out order there), so model and implementation
   are judged by one definition.

   lb (property C01's conservative lower bound of the count) =
        sum of deltas of increments that have RETURNED + sum of deltas of decrements CALLED.

   c01_ok   for every Wait w that returned channel x and every later position t at which x is
            closed there is a position tau, start(w) <= tau <= t, with lb(tau) <= 0.
            Streaming form: a watch per started Wait carries zero_seen, set at every position
            with lb <= 0 from the call on; the check "x closed -> zero_seen" runs at every
            position for every watch that has returned x.  [c01_spec] is the declarative
            reading over positions; WGProofs.c01_ok_spec relates the two.
   well_behaved   lb never negative (every decrement is issued after increments covering it
            have returned) - the property's side condition.
   c02_ok   at every position with no Add in flight:  Count() = sum of all deltas;  sum = 0 ->
            every channel handed out so far is closed;  a Wait returning at such a position
            with sum > 0 returns an open channel;  and a thread inside Wait has returned before
            it has made K_WAIT steps of its own while no Add was in flight (Wait never waits
            for a call that has not started).  The steps are counted PER GOROUTINE: what other
            goroutines do in between (stutters, other Waits, Count) does not reset the count;
            only an Add in flight does.  No call panics.  For well-formed traces c02_ok is
            exactly the sentence c02_spec (WGSpecProofs.c02_ok_iff_spec).                   *)
From Coq Require Import List Arith ZArith Bool.
From GT Require Import Base.Conc.
From GT Require Import WGModel.
Import ListNotations.
Local Open Scope Z_scope.

Definition trace := list witem.

Definition ev := event call ret.

(* ---------------------------------------------------------------- lower bound *)
Definition lb_delta (e : ev) : Z :=
  match e with
  | ERet (CAdd d) _ => if 0 <? d then d else 0
  | ECall (CAdd d) => if d <? 0 then d else 0
  | _ => 0
  end.

Fixpoint lb_of (t : trace) : Z :=
  match t with
  | [] => 0
  | it :: older => lb_of older + lb_delta (it_ev it)
  end.

Fixpoint well_behaved (t : trace) : bool :=
  match t with
  | [] => true
  | _ :: older => well_behaved older && (0 <=? lb_of t)
  end.

(* ---------------------------------------------------------------- C01 monitor *)
Record watch := Watch { w_tid : nat; w_ch : option nat; w_zero : bool }.
Record mon := Mon { m_ws : list watch; m_ok : bool }.

Definition mark (z : bool) (w : watch) : watch :=
  Watch (w_tid w) (w_ch w) (w_zero w || z).

Fixpoint set_ret (tid x : nat) (ws : list watch) : list watch :=
  match ws with
  | [] => []
  | w :: r =>
      match w_ch w with
      | None => if Nat.eqb (w_tid w) tid then Watch (w_tid w) (Some x) (w_zero w) :: r
                else w :: set_ret tid x r
      | Some _ => w :: set_ret tid x r
      end
  end.

Definition watch_ok (cl : list nat) (w : watch) : bool :=
  match w_ch w with
  | Some x => implb (memb x cl) (w_zero w)
  | None => true
  end.

Definition mon_step (m : mon) (lb : Z) (it : witem) : mon :=
  let z := lb <=? 0 in
  let ws1 := map (mark z) (m_ws m) in
  let ws2 := match it_ev it with
             | ECall CWait => Watch (it_tid it) None z :: ws1
             | ERet CWait (RChan x) => set_ret (it_tid it) x ws1
             | _ => ws1
             end in
  Mon ws2 (m_ok m && forallb (watch_ok (snd (it_obs it))) ws2).

Fixpoint mon_of (t : trace) : mon :=
  match t with
  | [] => Mon [] true
  | it :: older => mon_step (mon_of older) (lb_of t) it
  end.

Definition c01_ok (t : trace) : bool := m_ok (mon_of t).

(* declarative reading.  Positions count from the oldest item (position 0).  [at_pos t i]
   is the trace up to and including position i. *)
Definition older_first (t : trace) : list witem := rev t.
Definition prefix_upto (t : trace) (i : nat) : trace := rev (firstn (S i) (rev t)).
Definition item_at (t : trace) (i : nat) : option witem := nth_error (rev t) i.

(* w = (s, r, tid, x): thread tid called Wait at position s, it returned x at position r, and
   tid made no other call in between *)
Definition wait_call (t : trace) (s r tid x : nat) : Prop :=
  (s < r)%nat /\
  (exists o p, item_at t s = Some (Item tid (ECall CWait) o p)) /\
  (exists o p, item_at t r = Some (Item tid (ERet CWait (RChan x)) o p)) /\
  (forall k it, (s < k < r)%nat -> item_at t k = Some it -> it_tid it = tid -> it_ev it = ETau).

Definition c01_spec (t : trace) : Prop :=
  forall s r tid x u it,
    wait_call t s r tid x ->
    (r <= u)%nat -> item_at t u = Some it -> In x (snd (it_obs it)) ->
    exists tau, (s <= tau <= u)%nat /\ lb_of (prefix_upto t tau) <= 0.

(* ---------------------------------------------------------------- C02 monitor *)
Definition K_WAIT : nat := 4.

Record mon2 := Mon2 {
  q_inflight : list nat;          (* threads inside Add *)
  q_sum : Z;                      (* sum of the deltas of all Add calls so far *)
  q_handed : list nat;            (* channels returned by Wait so far *)
  q_waits : list (nat * nat);     (* (thread inside Wait, its own steps since an Add was last in flight) *)
  q_ok : bool
}.

Definition remove_tid (tid : nat) (l : list nat) : list nat :=
  filter (fun t => negb (Nat.eqb t tid)) l.

Definition is_nil {A} (l : list A) : bool := match l with [] => true | _ => false end.

(* the step counter of a waiter: an item of the waiter itself made while no Add is in flight
   counts, an item of anybody else made while no Add is in flight leaves the counter alone, any
   item made while an Add is in flight resets it (the Wait may be retrying because of that Add) *)
Definition wait_tick (tid : nat) (rest_before : bool) (p : nat * nat) : nat * nat :=
  if rest_before then (if Nat.eqb (fst p) tid then (fst p, S (snd p)) else p) else (fst p, O).

Definition mon2_step (m : mon2) (it : witem) : mon2 :=
  let tid := it_tid it in
  let e := it_ev it in
  let count := fst (it_obs it) in
  let cl := snd (it_obs it) in
  let rest_before := is_nil (q_inflight m) in
  let infl := match e with
              | ECall (CAdd _) => tid :: q_inflight m
              | ERet (CAdd _) _ => remove_tid tid (q_inflight m)
              | _ => q_inflight m
              end in
  let sum := match e with ECall (CAdd d) => q_sum m + d | _ => q_sum m end in
  let handed := match e with ERet CWait (RChan x) => x :: q_handed m | _ => q_handed m end in
  let waits0 := map (wait_tick tid rest_before) (q_waits m) in
  let waits := match e with
               | ECall CWait => (tid, O) :: waits0
               | ERet CWait _ => filter (fun p => negb (Nat.eqb (fst p) tid)) waits0
               | _ => waits0
               end in
  let rest := is_nil infl in
  let no_panic := match e with ERet _ RPanic => false | _ => true end in
  let q1 := implb rest (Z.eqb count sum) in
  let q2 := implb (rest && Z.eqb sum 0) (forallb (fun x => memb x cl) handed) in
  let q3 := match e with
            | ERet CWait (RChan x) => implb (rest && (0 <? sum)) (negb (memb x cl))
            | _ => true
            end in
  let q4 := forallb (fun p => Nat.ltb (snd p) K_WAIT) waits in
  Mon2 infl sum handed waits (q_ok m && no_panic && q1 && q2 && q3 && q4).

Fixpoint mon2_of (t : trace) : mon2 :=
  match t with
  | [] => Mon2 [] 0 [] [] true
  | it :: older => mon2_step (mon2_of older) it
  end.

Definition c02_ok (t : trace) : bool := q_ok (mon2_of t).

(* the parts of the trace the C02 statement speaks about *)
Definition sum_deltas (t : trace) : Z := q_sum (mon2_of t).
Definition handed_out (t : trace) : list nat := q_handed (mon2_of t).
Definition adds_in_flight (t : trace) : list nat := q_inflight (mon2_of t).

(* ---------------------------------------------------------------- C01, read call by call
   A second, independent executable formulation, used to cross-check the streaming monitor on
   every judged trace (WGJudge.mon_agree): for each Wait call separately, scan forward from
   the call: z = "lb <= 0 seen since the call"; the call's return is the first later item of
   the same thread that is not an internal step; after the return of channel x, at every
   position where x is closed z must hold.  Items are taken oldest first, each paired with
   the value of lb after it.                                                               *)
Fixpoint with_lb (lb : Z) (items : list witem) : list (witem * Z) :=
  match items with
  | [] => []
  | it :: rest => let lb' := lb + lb_delta (it_ev it) in (it, lb') :: with_lb lb' rest
  end.

Fixpoint observe_x (x : nat) (z : bool) (items : list (witem * Z)) : bool :=
  match items with
  | [] => true
  | (it, lb) :: rest =>
      let z' := z || (lb <=? 0) in
      implb (memb x (snd (it_obs it))) z' && observe_x x z' rest
  end.

Fixpoint check_call (tid : nat) (z : bool) (items : list (witem * Z)) : bool :=
  match items with
  | [] => true
  | (it, lb) :: rest =>
      if Nat.eqb (it_tid it) tid then
        match it_ev it with
        | ETau => check_call tid (z || (lb <=? 0)) rest
        | ERet CWait (RChan x) => observe_x x z items
        | _ => true
        end
      else check_call tid (z || (lb <=? 0)) rest
  end.

Fixpoint decl_from (items : list (witem * Z)) : bool :=
  match items with
  | [] => true
  | (it, lb) :: rest =>
      match it_ev it with
      | ECall CWait => check_call (it_tid it) (lb <=? 0) rest
      | _ => true
      end && decl_from rest
  end.

Definition c01_decl (t : trace) : bool := decl_from (with_lb 0 (rev t)).

(* ---------------------------------------------------------------- well-formed traces
   The call discipline of a thread: a call event only when idle, internal steps only inside a
   call, a return only of the call in progress (with a result of the right kind: Wait returns
   a channel), stutter only when idle.  Traces of the machines are well formed
   (WGWf.wg_trace_wf); recorded traces are checked by this function in the judge.  For well
   formed traces the streaming monitor c01_ok is EXACTLY the sentence c01_spec
   (WGSpecProofs.c01_ok_iff_spec).                                                           *)
Fixpoint in_call (t : trace) (tid : nat) : option call :=
  match t with
  | [] => None
  | it :: older =>
      if Nat.eqb (it_tid it) tid then
        match it_ev it with
        | ECall c => Some c
        | ERet _ _ => None
        | _ => in_call older tid
        end
      else in_call older tid
  end.

Definition call_same (a b : call) : bool :=
  match a, b with
  | CAdd x, CAdd y => Z.eqb x y
  | CWait, CWait => true
  | CCount, CCount => true
  | _, _ => false
  end.

Definition ret_matches (c : call) (r : ret) : bool :=
  match c, r with
  | CWait, RChan _ => true
  | CAdd _, RInt _ => true
  | CAdd _, RPanic => true
  | CCount, RInt _ => true
  | _, _ => false
  end.

Fixpoint trace_wf (t : trace) : bool :=
  match t with
  | [] => true
  | it :: older =>
      trace_wf older &&
      match it_ev it, in_call older (it_tid it) with
      | ECall _, None => true
      | ETau, Some _ => true
      | ERet c r, Some c' => call_same c c' && ret_matches c r
      | EStutter, None => true
      | _, _ => false
      end
  end.

(* ---------------------------------------------------------------- C02, declaratively
   for every position u (p = the trace up to and including u, it = the item at u):
   no call has panicked; if no Add is in flight after u then the observed Count() is the sum of
   the deltas, with sum 0 every channel handed out so far is observed closed, and a Wait
   returning at u with sum > 0 returns a channel observed open; and every thread that is inside
   Wait at u has made fewer than K_WAIT internal steps of its own since an Add was last in
   flight (or since it called Wait).                                                         *)
Definition at_rest (p : trace) : Prop := adds_in_flight p = [].

(* the internal steps thread tid has made, counting back from the newest item for as long as no
   Add was in flight when the item was made, up to the thread's own call *)
Fixpoint rest_steps (p : trace) (tid : nat) : nat :=
  match p with
  | [] => O
  | it :: older =>
      if is_nil (adds_in_flight older) then
        if Nat.eqb (it_tid it) tid then
          match it_ev it with
          | ETau => S (rest_steps older tid)
          | _ => O
          end
        else rest_steps older tid
      else O
  end.

Definition c02_spec (t : trace) : Prop :=
  forall u it, item_at t u = Some it ->
    let p := prefix_upto t u in
    (forall c, it_ev it <> ERet c RPanic) /\
    (at_rest p ->
       fst (it_obs it) = sum_deltas p /\
       (sum_deltas p = 0 -> forall x, In x (handed_out p) -> In x (snd (it_obs it))) /\
       (forall x, it_ev it = ERet CWait (RChan x) -> 0 < sum_deltas p ->
                  ~ In x (snd (it_obs it)))) /\
    (forall tid, in_call p tid = Some CWait -> (rest_steps p tid < K_WAIT)%nat).
