(* WGModel.v — executable model of gsync.SelectableWaitGroup.  No proofs here.

   CURRENT code (after fix C01-paircas: one atomic.Pointer to an immutable (count, chan) pair)

     Go source gsync/selectable_wait_group.go                   model (machine [wg_*])
     -------------------------------------------------------    ----------------------------------
     type wgState struct{count int; wChan chan struct{}}        shared: ver (identity of the pair
     wg.state atomic.Pointer[wgState]                             the pointer designates), cnt, chn
     closedChan (package level, closed in init)                 channel id 0, member of [closed]
     NewSelectableWaitGroup: Store(&wgState{0, closedChan})     wg_init
     Add(delta):  for {                                         call CAdd delta
        old := wg.state.Load()                       Add.0        A0 -> A1 ver cnt chn
        next := &wgState{old.count+delta, old.wChan}              (local)
        if next.count == 0 { next.wChan = closedChan }            (local)
        else if old.wChan == closedChan {make(chan)}              (local; the id is drawn when the CAS
                                                                   publishes it: an unpublished channel
                                                                   is unobservable)
        if wg.state.CompareAndSwap(old, next) {      Add.1        A1: pointer equality = [ver] equality;
           if next.count == 0 && old.wChan != closedChan {          success installs a pair with a new ver
              close(old.wChan) }                     Add.2        A2 x n
           return next.count }                                    RInt n
     }                                                            failure: back to A0
     Count(): wg.state.Load().count                  Count.0    CCount / C0
     Wait():  wg.state.Load().wChan                  Wait.0     CWait / W0  -> RChan chn
     Inc() / Dec()                                              CAdd 1 / CAdd (-1)
     close of an already closed channel panics                  RPanic (ends the thread)

   PINNED code (two words: atomic count + atomic pointer to the channel), machine [wgo_*]:
     newV := wg.count.Add(delta)                     Add.0      OA0
     if newV == 0 { old := wg.wChan.Swap(&closedChan) Add.1     OA1 n
        if old != &closedChan { close( *old) } }     Add.2      OA2 x n
     else if delta > 0 && newV == delta {
        newChan := make(chan struct{})                          (no id yet: see below)
        if !wg.wChan.CompareAndSwap(&closedChan,&newChan) Add.3 OA3 n
           { close(newChan) } }                      Add.4      OA4 n
     return newV
     Wait: for { count := wg.count.Load()            Wait.0     OW0
                 wgChan := wg.wChan.Load()           Wait.1     OW1 c
                 if count == 0 || (count > 0 && wgChan != &closedChan) { return *wgChan } }
     Count(): wg.count.Load()                        Count.0    OC0

   make(chan) yields a channel without a name; it is named (next unused id) when it first
   escapes: when a successful CAS publishes it, or when it is closed.  An unpublished channel
   is unobservable, so this is the same behaviour as naming it at make; it is also how the
   denotation of the IR (Base/ConcIR.v, WGDenote.v) treats make.

   One micro-step = one shared-memory operation = one vsched.Yield site of the instrumented
   real code; [wg_site] gives the site (100*function + index; Add=1, Wait=2, Count=3).      *)
From Coq Require Import List Arith ZArith Bool.
From GT Require Import Base.Conc.
Import ListNotations.
Local Open Scope Z_scope.

Inductive call := CAdd (d : Z) | CWait | CCount.
Inductive ret := RInt (n : Z) | RChan (x : nat) | RPanic.

Definition wg_fatal (r : ret) : bool := match r with RPanic => true | _ => false end.

Definition obs := (Z * list nat)%type.          (* Count(), ids of the closed channels *)

Definition memb (x : nat) (l : list nat) : bool := existsb (Nat.eqb x) l.

(* ------------------------------------------------------------------ current code *)
Record shared := Shared {
  ver : nat;            (* identity of the installed *wgState (fresh on every successful CAS) *)
  cnt : Z;              (* its count *)
  chn : nat;            (* its wChan; 0 = closedChan *)
  closed : list nat;    (* channels closed so far *)
  nextc : nat           (* next unused channel id *)
}.

Inductive loc :=
| A0                                   (* before wg.state.Load() *)
| A1 (ov : nat) (oc : Z) (och : nat)   (* before CompareAndSwap(old, next); old = (ov: oc, och) *)
| A2 (x : nat) (n : Z)                 (* before close(old.wChan) *)
| W0                                   (* before wg.state.Load() in Wait *)
| C0.                                  (* before wg.state.Load() in Count *)

Definition wg_begin (c : call) : loc :=
  match c with CAdd _ => A0 | CWait => W0 | CCount => C0 end.

Definition wg_mstep (c : call) (l : loc) (s : shared) : shared * (loc + ret) :=
  match c, l with
  | CAdd d, A0 => (s, inl (A1 (ver s) (cnt s) (chn s)))
  | CAdd d, A1 ov oc och =>
      if Nat.eqb (ver s) ov then
        let n := oc + d in
        if Z.eqb n 0 then
          let s' := Shared (S (ver s)) n 0%nat (closed s) (nextc s) in
          if Nat.eqb och 0 then (s', inr (RInt n)) else (s', inl (A2 och n))
        else if Nat.eqb och 0 then
          (Shared (S (ver s)) n (nextc s) (closed s) (S (nextc s)), inr (RInt n))
        else
          (Shared (S (ver s)) n och (closed s) (nextc s), inr (RInt n))
      else (s, inl A0)
  | CAdd d, A2 x n =>
      if memb x (closed s) then (s, inr RPanic)
      else (Shared (ver s) (cnt s) (chn s) (x :: closed s) (nextc s), inr (RInt n))
  | CWait, W0 => (s, inr (RChan (chn s)))
  | CCount, C0 => (s, inr (RInt (cnt s)))
  | _, _ => (s, inr RPanic)
  end.

Definition wg_observe (s : shared) : obs := (cnt s, closed s).

Definition wg_site (c : call) (l : loc) : nat :=
  match l with
  | A0 => 100 | A1 _ _ _ => 101 | A2 _ _ => 102 | W0 => 200 | C0 => 300
  end%nat.

Definition wg_init : shared := Shared 0 0 0%nat [0%nat] 1.

Definition wg_config := config shared loc call ret obs.
Definition witem := item call ret obs.
Definition wg_step : wg_config -> nat -> wg_config :=
  step wg_begin wg_mstep wg_fatal wg_observe wg_site.
Definition wg_run : wg_config -> list nat -> wg_config :=
  run wg_begin wg_mstep wg_fatal wg_observe wg_site.
Definition wg_exec (progs : list (list call)) (sched : list nat) : wg_config :=
  exec wg_begin wg_mstep wg_fatal wg_observe wg_site wg_init progs sched.
Definition wg_solo (cf : wg_config) (tid k : nat) : wg_config :=
  solo wg_begin wg_mstep wg_fatal wg_observe wg_site cf tid k.
Definition wg_reachable (cf : wg_config) : Prop :=
  reachable wg_begin wg_mstep wg_fatal wg_observe wg_site wg_init cf.

(* ------------------------------------------------------------------ pinned code *)
Record shared_o := SharedO {
  ocnt : Z;             (* wg.count *)
  owch : nat;           (* channel wg.wChan points to; 0 = closedChan *)
  oclosed : list nat;
  onextc : nat
}.

Inductive loc_o :=
| OA0                          (* before count.Add *)
| OA1 (n : Z)                  (* before wChan.Swap(&closedChan) *)
| OA2 (x : nat) (n : Z)        (* before close( *oldChan) *)
| OA3 (n : Z)                  (* before wChan.CompareAndSwap(&closedChan, &newChan) *)
| OA4 (n : Z)                  (* before close(newChan) *)
| OW0                          (* before count.Load *)
| OW1 (c : Z)                  (* before wChan.Load *)
| OC0.

Definition wgo_begin (c : call) : loc_o :=
  match c with CAdd _ => OA0 | CWait => OW0 | CCount => OC0 end.

Definition o_close (x : nat) (n : Z) (s : shared_o) : shared_o * (loc_o + ret) :=
  if memb x (oclosed s) then (s, inr RPanic)
  else (SharedO (ocnt s) (owch s) (x :: oclosed s) (onextc s), inr (RInt n)).

Definition wgo_mstep (c : call) (l : loc_o) (s : shared_o) : shared_o * (loc_o + ret) :=
  match c, l with
  | CAdd d, OA0 =>
      let n := ocnt s + d in
      if Z.eqb n 0 then (SharedO n (owch s) (oclosed s) (onextc s), inl (OA1 n))
      else if (0 <? d) && Z.eqb n d then
        (SharedO n (owch s) (oclosed s) (onextc s), inl (OA3 n))
      else (SharedO n (owch s) (oclosed s) (onextc s), inr (RInt n))
  | CAdd d, OA1 n =>
      let s' := SharedO (ocnt s) 0%nat (oclosed s) (onextc s) in
      if Nat.eqb (owch s) 0 then (s', inr (RInt n)) else (s', inl (OA2 (owch s) n))
  | CAdd d, OA2 x n => o_close x n s
  | CAdd d, OA3 n =>
      if Nat.eqb (owch s) 0
      then (SharedO (ocnt s) (onextc s) (oclosed s) (S (onextc s)), inr (RInt n))
      else (s, inl (OA4 n))
  | CAdd d, OA4 n =>
      (SharedO (ocnt s) (owch s) (onextc s :: oclosed s) (S (onextc s)), inr (RInt n))
  | CWait, OW0 => (s, inl (OW1 (ocnt s)))
  | CWait, OW1 c =>
      if Z.eqb c 0 || ((0 <? c) && negb (Nat.eqb (owch s) 0)) then (s, inr (RChan (owch s)))
      else (s, inl OW0)
  | CCount, OC0 => (s, inr (RInt (ocnt s)))
  | _, _ => (s, inr RPanic)
  end.

Definition wgo_observe (s : shared_o) : obs := (ocnt s, oclosed s).

Definition wgo_site (c : call) (l : loc_o) : nat :=
  match l with
  | OA0 => 100 | OA1 _ => 101 | OA2 _ _ => 102 | OA3 _ => 103 | OA4 _ => 104
  | OW0 => 200 | OW1 _ => 201 | OC0 => 300
  end%nat.

Definition wgo_init : shared_o := SharedO 0 0%nat [0%nat] 1.

Definition wgo_config := config shared_o loc_o call ret obs.
Definition wgo_exec (progs : list (list call)) (sched : list nat) : wgo_config :=
  exec wgo_begin wgo_mstep wg_fatal wgo_observe wgo_site wgo_init progs sched.
