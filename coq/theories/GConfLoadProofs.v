(* GConfLoadProofs.v — facts about the model of Builder.FromBytes as a whole (GConfLoadModel):
   the ROOT map is classified like every other map; loading fails exactly when decoding fails,
   the dimension resolution fails or yields a non-map, or the template pass fails; the Config
   records, for every registered dimension, the value resolution used.                        *)
From Coq Require Import List String Bool.
Import ListNotations.
From GT Require Import GConfModel GConfProofs GConfGenPrims GConfLoadModel.

(* a root that is a dimension switch is replaced by its active entry, which must be a map *)
Lemma load_root_switch : forall dims kv d,
  classify dims kv = Some d ->
  load_model dims (Mp kv) =
  match active_entry d kv with
  | Some c => match reduce dims c with Ok (Mp r) => Ok r | _ => Err end
  | None => Err
  end.
Proof.
  intros dims kv d H. unfold load_model. rewrite reduce_Mp, H, active_entry_rmap.
  destruct (active_entry d kv) as [c|]; [|reflexivity]. cbn [option_map]. reflexivity.
Qed.

(* a root that is a plain map keeps its keys *)
Lemma load_root_plain : forall dims kv,
  classify dims kv = None ->
  load_model dims (Mp kv) = seq_kv (rmap (reduce dims) kv).
Proof.
  intros dims kv H. unfold load_model. rewrite reduce_Mp, H.
  destruct (seq_kv (rmap (reduce dims) kv)); reflexivity.
Qed.

Section FromBytes.
  Variable ybytes : Type.
  Variable yum : ybytes -> gomap -> gomap * bool.
  Variable pte : tree -> tree * bool.
  Variable dims : list dim.

  (* loading succeeds exactly when every stage does, and then holds the template pass's result *)
  Lemma from_bytes_ok_iff : forall b cfg,
    from_bytes_model yum pte dims b = (cfg, false) <->
    exists data kv r, yum b map_empty = (data, false) /\ load_model dims (Mp data) = Ok kv /\
                      pte (Mp kv) = (r, false) /\ cfg = mk_config (dimension_values dims) (fst (as_map r)).
  Proof.
    intros b cfg. unfold from_bytes_model. split.
    - destruct (yum b map_empty) as [data [|]] eqn:Ey; [discriminate|].
      destruct (load_model dims (Mp data)) as [kv|] eqn:El; [|discriminate].
      destruct (pte (Mp kv)) as [r [|]] eqn:Ep; [discriminate|]. intros H. inversion H.
      exists data, kv, r. split; [reflexivity|]. split; [exact El|]. split; [exact Ep| congruence].
    - intros (data & kv & r & -> & -> & -> & ->). reflexivity.
  Qed.

  Lemma from_bytes_error_nil : forall b cfg, from_bytes_model yum pte dims b = (cfg, true) -> cfg = nil_config.
  Proof.
    intros b cfg. unfold from_bytes_model.
    destruct (yum b map_empty) as [data [|]]; [intros H; inversion H; reflexivity|].
    destruct (load_model dims (Mp data)) as [kv|]; [|intros H; inversion H; reflexivity].
    destruct (pte (Mp kv)) as [r [|]]; intros H; inversion H; reflexivity.
  Qed.
End FromBytes.

(* GetDimension: the Config holds, for every registered dimension, the very value d_sel that the
   resolution (is_sel) compared the switch keys with *)
Lemma dimension_values_sel : forall dims d v, In (Some d, v) (dimension_values dims) -> v = d_sel d.
Proof.
  intros dims d v H. unfold dimension_values in H. apply in_map_iff in H.
  destruct H as [d' [E _]]. inversion E. reflexivity.
Qed.

Lemma dimension_values_all : forall dims d, In d dims -> In (Some d, d_sel d) (dimension_values dims).
Proof. intros dims d H. unfold dimension_values. apply in_map_iff. exists d. split; [reflexivity| exact H]. Qed.
