(* GErrJudge.v — judgement of observed gerror behaviour for C15 (no proofs).
   Codes: 0 ok; 1 observation violates the specification (closed forms of GErrSpec);
   2 observation satisfies the specification but differs from the model (GErrModel);
   3 the recorded case lies outside the property's domain (a harness defect, never a verdict
   about the code).                                                                           *)
From Coq Require Import NArith List Bool.
From GT Require Import Base.Verdict.
From GT Require Import Base.GErrStr.
From GT Require Import GErrModel GErrSpec GErrMetric.
Import ListNotations.

Definition optN_eqb (a b : option N) : bool :=
  match a, b with
  | None, None => true
  | Some x, Some y => N.eqb x y
  | _, _ => false
  end.

Definition view_eqb (a b : view) : bool :=
  str_eqb (v_name a) (v_name b) && str_eqb (v_msg a) (v_msg b) && str_eqb (v_src a) (v_src b)
  && str_eqb (v_dtag a) (v_dtag b) && optN_eqb (v_stack a) (v_stack b).

Fixpoint views_eqb (a b : list view) : bool :=
  match a, b with
  | [], [] => true
  | x :: a', y :: b' => view_eqb x y && views_eqb a' b'
  | _, _ => false
  end.

(* a C15 case: one factory, one chain, the accessor values observed after every step and the
   factory's accessor values observed after the whole chain *)
Record c15_case := {
  k_name : str; k_msg : str; k_src : str; k_isfac : bool;
  k_steps : list step;
  k_frames : list str;          (* per step: function name of the frame that issues the call *)
  k_obs : list view;
  k_fac_after : view }.

Definition c15_v0 (c : c15_case) : view := mkV (k_name c) (k_msg c) (k_src c) [] None.
Definition c15_st0 (c : c15_case) : store :=
  [mkC (new_gerr (k_name c) (k_msg c) (k_src c) (k_isfac c)) None].

Definition dummy_view : view := mkV [] [] [] [] None.
Definition view_at (st : store) (v : val) : view :=
  match lookup st v with Some g => view_of g | None => dummy_view end.

(* model: run the chain on the store *)
Definition c15_model (c : c15_case) : option (list view * view) :=
  match derive_trace base_wiring (c15_st0 c) (VG 0) (k_steps c) with
  | None => None
  | Some (st, vs) => Some (map (view_at st) vs, view_at st (VG 0))
  end.

(* spec: closed forms over every prefix of the chain; the factory keeps its initial view *)
Definition c15_spec (c : c15_case) : list view * view :=
  (map (fun p => spec_view (c15_v0 c) (map (eff_of base_wiring) p)) (prefixes (k_steps c)),
   c15_v0 c).

(* the derived-source oracle of every step is the model's rendering of its frame name *)
Fixpoint frames_ok (steps : list step) (frames : list str) : bool :=
  match steps, frames with
  | [], [] => true
  | s :: steps', f :: frames' => str_eqb (a_derived (snd s)) (metric f) && frames_ok steps' frames'
  | _, _ => false
  end.

Definition c15_domain (c : c15_case) : bool :=
  forallb no_shortcut (k_steps c)
  && forallb derived_ok (map (eff_of base_wiring) (k_steps c))
  && frames_ok (k_steps c) (k_frames c).

Definition c15_judge (c : c15_case) : nat :=
  if negb (c15_domain c) then 3
  else
    let '(sv, sf) := c15_spec c in
    verdict (views_eqb (k_obs c) sv && view_eqb (k_fac_after c) sf)
            (match c15_model c with
             | Some (mv, mf) => views_eqb (k_obs c) mv && view_eqb (k_fac_after c) mf
             | None => false
             end).

(* non-trivial: some step actually changes message, tag, source or stack *)
Definition c15_nontrivial (c : c15_case) : bool :=
  existsb (fun s => let e := eff_of base_wiring s in
                    nonempty (trim_space (e_msg e)) || nonempty (e_dtag e) || nonempty (e_src e)
                    || takes_stack (e_stack e)) (k_steps c).
