(* GErrExtDesc.v — a description language for the two parts of the code the gerror generator
   emits for an extension type that are not CloneBase wiring: the print list of Error() and the
   field copies of toPrimaryType.  Definitions only; the laws are in GErrExtProofs.v.

   harness/cmd/xlate_gerr_wiring (mode `desc`) regenerates, from the code the CURRENT generator
   emits for every struct of the C09 farm, a [list pitem] (one item per statement of Error(), in
   order, selectors RESOLVED against the struct's own members: e.Source is the extension field
   when the struct declares one, the promoted GError field otherwise) and the list of fields
   toPrimaryType copies.  The check compares them, by computation, with [expected_desc] /
   [expected_primary] of the struct's declared fields; GErrExtProofs.desc_head / desc_primary show
   that a type with these descriptions prints and clones as the model (ext_error_head,
   to_primary) says — for which Props/C09.v proves the print and clone laws.

   generated Go (gerror.gotmpl)                                   item
   ------------------------------------------------------------   ---------------------------
   if name := e.GError.Name; len(name) > 0 {                       PIf "Name: " (PBase BName) ", "
       result += "Name: " + name + separator }
   if dTag := e.GError.ErrDetailTag(); len(dTag) > 0 { ... }       PIf "DTag: " (PBase BDTag) ", "
   if src := e.GError.Source; len(src) > 0 { ... }                 PIf "Source: " (PBase BSource) ", "
   result += fmt.Sprintf("%s: %v", "<print name>", e.F) + sep      PField "<print name>" "F" ", "
   result += "Message: " + e.GError.Message                        PMsg "Message: " (PBase BMessage)
   if stack := e.GError.ErrStack(); len(stack) > 0 { ...String() } PStack (PBase BStack)
   &T{GError: *gerr, F: e.F, ...}                                  the names F, sorted            *)
From Coq Require Import NArith List Bool.
From GT Require Import Base.GErrStr.
From GT Require Import GErrModel.
Import ListNotations.

Inductive bmember := BName | BDTag | BSource | BMessage | BStack.

Inductive psel :=
| PBase (m : bmember)            (* a member of the embedded GError *)
| POwn (field : str)             (* a field the extension struct declares itself *)
| POwnMethod (name : str).       (* a method the extension struct defines itself *)

Inductive pitem :=
| PIf (label : str) (s : psel) (sep : str)        (* if s is non-empty: label ++ s ++ sep *)
| PField (pname fname : str) (sep : str)          (* pname ++ ": " ++ %v of own field fname ++ sep *)
| PMsg (label : str) (s : psel)                   (* label ++ s *)
| PStack (s : psel).                              (* "\n" ++ stack text when the stack is non-empty *)

(* %v rendering of the own field called n (first declaration; names of a struct are distinct) *)
Fixpoint own_val (fs : list xfield) (n : str) : str :=
  match fs with
  | [] => []
  | f :: r => if str_eqb (f_name f) n then f_val f else own_val r n
  end.

Definition sel_str (g : gerr) (x : xinfo) (s : psel) : str :=
  match s with
  | PBase BName => g_name g
  | PBase BDTag => g_dtag g
  | PBase BSource => g_src g
  | PBase BMessage => g_msg g
  | PBase BStack => []
  | POwn n => own_val (x_fields x) n
  | POwnMethod _ => []
  end.

(* the text an item contributes to the head of Error() (the text before the stack) *)
Definition eval_item (g : gerr) (x : xinfo) (it : pitem) : str :=
  match it with
  | PIf l s sep => let v := sel_str g x s in if nonempty v then l ++ v ++ sep else []
  | PField pn fn sep => pn ++ lit_colon ++ own_val (x_fields x) fn ++ sep
  | PMsg l s => l ++ sel_str g x s
  | PStack _ => []
  end.

Definition eval_desc (g : gerr) (x : xinfo) (d : list pitem) : str := concat (map (eval_item g x) d).

(* what the template must produce for a struct with the given extra fields *)
Definition expected_desc (fs : list xfield) : list pitem :=
  [PIf lit_name (PBase BName) lit_sep; PIf lit_dtag (PBase BDTag) lit_sep;
   PIf lit_source (PBase BSource) lit_sep]
  ++ map (fun f => PField (print_name f) (f_name f) lit_sep) (fields_to_print fs)
  ++ [PMsg lit_message (PBase BMessage); PStack (PBase BStack)].

Definition expected_primary (fs : list xfield) : list str :=
  map f_name (sort_fields (filter f_clone fs)).

(* toPrimaryType described by the names it copies: a new struct, the named fields copied from the
   receiver, every other field zero *)
Definition primary_by_names (names : list str) (x : xinfo) : xinfo :=
  mkX (x_type x)
      (map (fun f => if existsb (str_eqb (f_name f)) names then f
                     else mkF (f_name f) (f_tagged f) (f_tagname f) (f_opts f) (f_zero f) (f_zero f))
           (x_fields x)).

(* comparison of descriptions (for the tie, by computation) *)
Definition bmember_eqb (a b : bmember) : bool :=
  match a, b with
  | BName, BName | BDTag, BDTag | BSource, BSource | BMessage, BMessage | BStack, BStack => true
  | _, _ => false
  end.
Definition psel_eqb (a b : psel) : bool :=
  match a, b with
  | PBase m, PBase m' => bmember_eqb m m'
  | POwn n, POwn n' => str_eqb n n'
  | POwnMethod n, POwnMethod n' => str_eqb n n'
  | _, _ => false
  end.
Definition pitem_eqb (a b : pitem) : bool :=
  match a, b with
  | PIf l s p, PIf l' s' p' => str_eqb l l' && psel_eqb s s' && str_eqb p p'
  | PField a1 a2 a3, PField b1 b2 b3 => str_eqb a1 b1 && str_eqb a2 b2 && str_eqb a3 b3
  | PMsg l s, PMsg l' s' => str_eqb l l' && psel_eqb s s'
  | PStack s, PStack s' => psel_eqb s s'
  | _, _ => false
  end.
Fixpoint desc_eqb (a b : list pitem) : bool :=
  match a, b with
  | [], [] => true
  | x :: a', y :: b' => pitem_eqb x y && desc_eqb a' b'
  | _, _ => false
  end.
Fixpoint names_eqb (a b : list str) : bool :=
  match a, b with
  | [], [] => true
  | x :: a', y :: b' => str_eqb x y && names_eqb a' b'
  | _, _ => false
  end.
