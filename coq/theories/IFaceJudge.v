(* IFaceJudge.v — judgement of observed FindInterface behaviour (no proofs).

   A case = one generated package, one target struct, one option combination:
     inputs   the embedding tree of the target as read off go/types (methods with their
              signatures as type ASTs, oracle bits for "implements context.Context / error"),
              the import specs of the file the ImportHandler was built from, the package's
              import map, the options;
     observed per method of the returned Interface: Name, Signature(), input and output
              parameter names; GetActive() as (alias, path, ImportString()); go/types' own
              method set of *T; whether `type Rendered interface{...}; var _ Rendered = pointer-to-T`
              built inside the package.
   Codes: 0 ok; 1 the observation violates the property's specification; 2 it satisfies the
   specification but differs from the model; 3 the model's formalisation of Go's promotion
   rule (go_ms) or of the method set of an interface (iface_methods, a set union) disagrees
   with go/types on this tree (machinery fault, never a finding);
   cases outside the property's quantifier (in_domain = false) never gate.                  *)
From Coq Require Import List Bool String NArith Arith.
From GT Require Import Base.Verdict IFaceModel IFaceParse.
Import ListNotations.
Local Open Scope string_scope.

Record obs_meth := OM { om_name : string; om_sig : string;
                        om_in : list string; om_out : list string }.

Record c19_case := C19 {
  cc_self : string;
  cc_pkg_imports : list (string * string);
  cc_specs : list (string * option string);
  cc_locals : list string;
  cc_priv : bool;
  cc_emb : bool;
  cc_src : stree;                       (* the embedding tree as declared (interfaces unflattened) *)
  cc_obs : list obs_meth;
  cc_obs_imports : list (string * string * string);
  cc_goms : list string;
  cc_gt_ifaces : list (list meth);      (* go/types' Method(i) list of every interface node, pre-order *)
  cc_compiled : bool
}.

(* the tree namedTypeToInterface walks: interfaces flattened by the model's own union *)
Definition cc_tree (c : c19_case) : tree := flatten (cc_src c).

(* ---- go/types' method list of an interface against the model's union (iface_methods) ---- *)
Definition pinfo_eqb (a b : pinfo) : bool :=
  String.eqb (pi_name a) (pi_name b) && Bool.eqb (pi_ctx a) (pi_ctx b) && Bool.eqb (pi_err a) (pi_err b).
Definition pkg_eqb (a b : option (string * string)) : bool :=
  match a, b with
  | None, None => true
  | Some (p, n), Some (p', n') => String.eqb p p' && String.eqb n n'
  | _, _ => false
  end.
Fixpoint ty_eqb (a b : ty) {struct a} : bool :=
  match a, b with
  | TBasic s, TBasic s' => String.eqb s s'
  | TNamed p n l, TNamed p' n' l' =>
      pkg_eqb p p' && String.eqb n n' &&
      (fix go (l l' : list ty) {struct l} : bool :=
         match l, l' with
         | [], [] => true
         | x :: r, x' :: r' => ty_eqb x x' && go r r'
         | _, _ => false
         end) l l'
  | TPtr x, TPtr x' | TSlice x, TSlice x' => ty_eqb x x'
  | TArray n x, TArray n' x' => N.eqb n n' && ty_eqb x x'
  | TMap k v, TMap k' v' => ty_eqb k k' && ty_eqb v v'
  | TFunc ps v rs, TFunc ps' v' rs' =>
      let go := fix go (l l' : list (pinfo * ty)) {struct l} : bool :=
         match l, l' with
         | [], [] => true
         | (p, x) :: r, (p', x') :: r' => pinfo_eqb p p' && ty_eqb x x' && go r r'
         | _, _ => false
         end in
      go ps ps' && Bool.eqb v v' && go rs rs'
  | _, _ => false
  end.
Definition meth_eqb (a b : meth) : bool :=
  String.eqb (m_name a) (m_name b) && Bool.eqb (m_field a) (m_field b) &&
  ty_eqb (TFunc (m_ps a) (m_variadic a) (m_rs a)) (TFunc (m_ps b) (m_variadic b) (m_rs b)).

Fixpoint src_ifaces (s : stree) : list itree :=
  match s with
  | SStruct _ _ embs => flat_map src_ifaces embs
  | SIface i => [i]
  end.

Definition same_meths (a b : list meth) : bool :=
  Nat.eqb (List.length a) (List.length b) &&
  forallb (fun m => existsb (meth_eqb m) b) a && forallb (fun m => existsb (meth_eqb m) a) b.

Definition ifaces_ok (c : c19_case) : bool :=
  let is := src_ifaces (cc_src c) in
  Nat.eqb (List.length is) (List.length (cc_gt_ifaces c)) &&
  forallb (fun p : itree * list meth => same_meths (iface_methods (fst p)) (snd p))
          (combine is (cc_gt_ifaces c)).

Definition list_eqb (a b : list string) : bool :=
  Nat.eqb (List.length a) (List.length b) &&
  forallb (fun p => String.eqb (fst p) (snd p)) (combine a b).

(* ---- domain of the property (what the quantifier and the theorems' hypotheses cover) ---- *)
Definition basic_names : list string :=
  ["bool"; "string"; "int"; "int8"; "int16"; "int32"; "int64"; "uint"; "uint8"; "uint16";
   "uint32"; "uint64"; "uintptr"; "byte"; "rune"; "float32"; "float64"; "complex64";
   "complex128"].

Fixpoint ty_in_domain (t : ty) : bool :=
  match t with
  | TBasic s => mem s basic_names
  | TNamed _ _ targs => forallb ty_in_domain targs
  | TPtr x | TSlice x | TArray _ x => ty_in_domain x
  | TMap k v => ty_in_domain k && ty_in_domain v
  | TFunc ps v rs =>
      forallb (fun p : pinfo * ty => ty_in_domain (snd p)) ps &&
      forallb (fun p : pinfo * ty => ty_in_domain (snd p)) rs &&
      forallb (fun p : pinfo * ty => unnamed (pi_name (fst p)) || valid_identb (pi_name (fst p)))
              (ps ++ rs)%list
  end.

Definition meth_in_domain (m : meth) : bool :=
  ty_in_domain (TFunc (m_ps m) (m_variadic m) (m_rs m)).

Fixpoint tree_in_domain (t : tree) : bool :=
  match t with
  | Tr _ own embs => forallb meth_in_domain own && nodupb (map m_name own) &&
                     forallb tree_in_domain embs
  end.

(* the aliases of the OBSERVED active imports are pairwise distinct and none is a package-level
   name (part of the specification: "every import it needs is among the active imports under
   the alias used" — two imports binding one name do not compile) *)
Definition obs_aliases_ok (c : c19_case) : bool :=
  let als := map (fun o : string * string * string => fst (fst o)) (cc_obs_imports c) in
  nodupb als && forallb (fun a => negb (mem a (cc_locals c))) als.

(* the environment of the handler: current code (on-demand imports get an unused name) *)
Definition c_env0 (c : c19_case) : env := Env (cc_self c) (cc_pkg_imports c) (cc_locals c) true [].
Definition c_env (c : c19_case) : env := handler_env (c_env0 c) (cc_specs c).

Definition model_of (c : c19_case) : list rmeth * table :=
  find_interface (c_env0 c) (cc_specs c) (cc_priv c) (cc_emb c)
                 (cc_tree c).

(* the domain is a predicate on the INPUT only: embedding at most two levels deep, types and
   parameter names inside the listed constructors, and the file the handler is built from
   compiles (its import specs bind distinct names, none a package-level name) *)
Definition in_domain (c : c19_case) : bool :=
  Nat.leb (height (cc_tree c)) 2 && tree_in_domain (cc_tree c) &&
  specs_okb (c_env c) (cc_specs c).
Definition in_domain_with (mo : list rmeth * table) (c : c19_case) : bool := in_domain c.

(* ---- specification side ---- *)
Definition names_ok (c : c19_case) (o : obs_meth) : bool :=
  match find_decl (cc_tree c) (om_name o) with
  | None => false
  | Some m =>
      Nat.eqb (List.length (om_in o)) (List.length (m_ps m)) &&
      Nat.eqb (List.length (om_out o)) (List.length (m_rs m)) &&
      names_okb (map fst (m_ps m ++ m_rs m)%list) (om_in o ++ om_out o)%list
  end.

Definition methods_ok (c : c19_case) : bool :=
  let obs := map om_name (cc_obs c) in
  nodupb obs &&
  forallb (spec_methodb (cc_priv c) (cc_emb c) (cc_tree c)) obs &&
  forallb (fun n => negb (spec_methodb (cc_priv c) (cc_emb c) (cc_tree c) n) || mem n obs)
          (all_names (cc_tree c)).

(* the signature of every collected method is the rendering of the declaration Go selects for
   that name (the unique shallowest one) — not of some other method of the same name further
   down; rendered under the import table as FindInterface leaves it *)
Definition final_table (c : c19_case) : table :=
  let e := c_env c in
  snd (to_iface e (cc_priv c) (cc_emb c) (calc_imports e (cc_specs c)) (cc_tree c)).

Definition sig_ok (c : c19_case) (st : table) (o : obs_meth) : bool :=
  match find_decl (cc_tree c) (om_name o) with
  | None => false
  | Some m0 =>
      String.eqb (om_sig o)
                 (signature (fst (render_method (c_env c) st m0)))
  end.

Definition sigs_ok (c : c19_case) : bool :=
  let st := final_table c in forallb (sig_ok c st) (cc_obs c).

(* the compile check gates: a collected method carrying another declaration's signature makes
   `var _ Rendered = pointer-to-T` fail ("wrong type for method"), which is verdict 1; a
   signature text that differs from the rendering of Go's declaration while the package still
   compiles denotes the same type and is a difference from the model (verdict 2, see model_eq) *)
Definition spec_ok (c : c19_case) : bool :=
  methods_ok c && forallb (names_ok c) (cc_obs c) && obs_aliases_ok c && cc_compiled c.

(* ---- model side ---- *)
(* the observed Signature() text, read back by the parser of IFaceParse (the method name replaced
   by `func`), is the tree of the model's reference: the text means what the model says it means *)
Definition pty_eqb_dec (a b : option pty) : bool :=
  match a, b with
  | Some x, Some y => (fix eq (x y : pty) {struct x} : bool :=
                         match x, y with
                         | PName q n l, PName q' n' l' =>
                             (match q, q' with Some a, Some b => String.eqb a b | None, None => true | _, _ => false end) &&
                             String.eqb n n' &&
                             (fix go (l l' : list pty) {struct l} : bool :=
                                match l, l' with
                                | [], [] => true
                                | u :: r, u' :: r' => eq u u' && go r r'
                                | _, _ => false
                                end) l l'
                         | PPtr u, PPtr u' | PSlice u, PSlice u' => eq u u'
                         | PArray n u, PArray n' u' => N.eqb n n' && eq u u'
                         | PMap k v, PMap k' v' => eq k k' && eq v v'
                         | PFunc i o, PFunc i' o' =>
                             (fix goi (l l' : list (string * bool * pty)) {struct l} : bool :=
                                match l, l' with
                                | [], [] => true
                                | (n, v, u) :: r, (n', v', u') :: r' => String.eqb n n' && Bool.eqb v v' && eq u u' && goi r r'
                                | _, _ => false
                                end) i i' &&
                             (fix go (l l' : list pty) {struct l} : bool :=
                                match l, l' with
                                | [], [] => true
                                | u :: r, u' :: r' => eq u u' && go r r'
                                | _, _ => false
                                end) o o'
                         | _, _ => false
                         end) x y
  | _, _ => false
  end.

Definition sig_parses (o : obs_meth) (m : rmeth) : bool :=
  match strip (rm_name m) (om_sig o) with
  | Some rest => pty_eqb_dec (parse ("func" ++ rest)) (Some (to_pty (EFunc (rm_in m) (rm_out m))))
  | None => false
  end.

Definition meth_eq (o : obs_meth) (m : rmeth) : bool :=
  String.eqb (om_sig o) (signature m) &&
  list_eqb (om_in o) (map (fun p : string * bool * texpr => fst (fst p)) (rm_in m)) &&
  list_eqb (om_out o) (map (fun p : string * bool * texpr => fst (fst p)) (rm_out m)).

Definition model_eq_with (mo : list rmeth * table) (c : c19_case) : bool :=
  let '(ms, act) := mo in
  Nat.eqb (List.length ms) (List.length (cc_obs c)) &&
  forallb (fun o => match filter (fun m => String.eqb (rm_name m) (om_name o)) ms with
                    | [m] => meth_eq o m
                    | _ => false
                    end) (cc_obs c) &&
  Nat.eqb (List.length act) (List.length (cc_obs_imports c)) &&
  forallb (fun o : string * string * string =>
             let '(al, path, istr) := o in
             match tget act path with
             | Some i => String.eqb (i_alias i) al && String.eqb (import_string i) istr
             | None => false
             end) (cc_obs_imports c).

Definition model_eq (c : c19_case) : bool := model_eq_with (model_of c) c.

(* inside the quantifier: every observed signature text parses to the tree of the model's reference *)
Definition sigs_parse_with (mo : list rmeth * table) (c : c19_case) : bool :=
  forallb (fun o => match filter (fun m => String.eqb (rm_name m) (om_name o)) (fst mo) with
                    | [m] => sig_parses o m
                    | _ => false
                    end) (cc_obs c).

(* go/types' method set of *T against the selector rule as formalised in the model *)
Definition goms_ok (c : c19_case) : bool :=
  forallb (fun n => Bool.eqb (go_ms (cc_tree c) n) (mem n (cc_goms c)))
          (all_names (cc_tree c) ++ cc_goms c)%list.

Definition c19_judge (c : c19_case) : nat :=
  if negb (goms_ok c && ifaces_ok c) then 3
  else if negb (in_domain c) then 0
  else verdict (spec_ok c) (model_eq c && sigs_ok c && sigs_parse_with (model_of c) c).

(* informational judgement of the cases outside the quantifier: model comparison only *)
Definition c19_judge_info (c : c19_case) : nat :=
  if in_domain c then 0 else if model_eq c then 0 else 2.

(* both in one evaluation: codes 1-3 gate; outside the quantifier (counted, reported in the
   evidence, never gating): 10 = equal to the model, 12 = different from the model *)
Definition c19_judge_all (c : c19_case) : nat :=
  let mo := model_of c in
  if negb (goms_ok c && ifaces_ok c) then 3
  else if in_domain_with mo c then verdict (spec_ok c) (model_eq_with mo c && sigs_ok c && sigs_parse_with mo c)
  else if model_eq_with mo c then 10 else 12.

Definition c19_nontrivial (c : c19_case) : bool :=
  in_domain c &&
  (Nat.ltb 0 (height (cc_tree c)) && cc_emb c ||
   existsb (fun m => negb (list_eqb (map (fun p : pinfo * ty => pi_name (fst p)) (m_ps m ++ m_rs m)%list) [])
                     && existsb (fun p : pinfo * ty => negb (unnamed (pi_name (fst p)))) (m_ps m ++ m_rs m)%list
                     && existsb (fun p : pinfo * ty => unnamed (pi_name (fst p))) (m_ps m ++ m_rs m)%list)
           (t_own (cc_tree c)) ||
   Nat.ltb 0 (List.length (cc_obs_imports c))).
