(* LogCtxJudge.v — judgement of observed behaviour of package log (no proofs).

   Sequential cases: global core, operation sequence, and after every operation the entries
   captured by the in-memory core for every context so far at every level Debug..Error.
   Concurrent cases: initial shared logger, per-goroutine operation lists, the schedule that
   was replayed on the instrumented code, the shared logger probed after every step.
   Stress cases: free-running goroutines, only the final probe.                              *)
From Coq Require Import ZArith NArith List Bool Arith.
From GT Require Import Base.Verdict.
From GT Require Import Base.LogConc.
From GT Require Import LogCtxModel.
Import ListNotations.

(* one probe of one logger at the four levels.  Reg fs m: at level i (0 = Debug .. 3 = Error)
   exactly one entry carrying exactly fs was captured when bit i of m is set, none otherwise
   (the compact form, used by the harness whenever it applies); Irr: anything else, verbatim *)
Inductive cobs :=
| Reg (fs : list field) (mask : N)
| Irr (full : list (list (list field))).

Definition expand (o : cobs) : list (list (list field)) :=
  match o with
  | Reg fs m => map (fun i => if N.testbit m i then [fs] else []) [0; 1; 2; 3]%N
  | Irr full => full
  end.

Fixpoint list_eqb {A} (eqb : A -> A -> bool) (a b : list A) : bool :=
  match a, b with
  | [], [] => true
  | x :: a', y :: b' => eqb x y && list_eqb eqb a' b'
  | _, _ => false
  end.

Definition fields_eqb := list_eqb N.eqb.
Definition probe_eqb := list_eqb (list_eqb fields_eqb).

(* ---------- sequential ---------- *)
(* lc_obs: before the first and after every operation the harness probes every context; the
   file lists, per step, only the (context, probe) pairs that differ from the previous step
   (in increasing context order, a new context last) — [rows] rebuilds the full table *)
Record lc_case := { lc_glob : core; lc_ops : list op; lc_obs : list (list (nat * cobs)) }.

Definition table := list (list (list (list field))).

Fixpoint apply_diff (r : table) (d : list (nat * cobs)) : table :=
  match d with
  | [] => r
  | (i, o) :: rest =>
      apply_diff (if i <? length r then upd i (expand o) r
                  else if i =? length r then r ++ [expand o] else r) rest
  end.

Fixpoint rows (r : table) (ds : list (list (nat * cobs))) : list table :=
  match ds with
  | [] => []
  | d :: rest => let r' := apply_diff r d in r' :: rows r' rest
  end.

Definition obs_eqb (a : list (list (nat * cobs))) (b : list table) : bool :=
  list_eqb (list_eqb probe_eqb) (rows [] a) b.

Definition lc_judge (c : lc_case) : nat :=
  verdict (obs_eqb (lc_obs c) (srun_obs (sinit (abs (lc_glob c))) (lc_ops c)))
          (obs_eqb (lc_obs c) (LogCtxModel.run_obs core_with (init (lc_glob c)) (lc_ops c))).

(* ---------- sequential, sparse observation ---------- *)
(* Log(ctx) must be a pure observer; a history probed after every step cannot show a defect
   that an intermediate Log call repairs (a lazily built logger flushed by Log, say).  These
   cases are probed only at a few points: lp_probes lists (number of operations executed before
   the probe, [(context, what it showed)]), in the order the probes were taken; the last entry is
   the probe of every context after the whole history.  Judged against the same tables. *)
Record lp_case := { lp_glob : core; lp_ops : list op; lp_probes : list (nat * list (nat * cobs)) }.

Definition probes_ok (tab : list table) (ps : list (nat * list (nat * cobs))) : bool :=
  forallb (fun kp : nat * list (nat * cobs) =>
             match nth_error tab (fst kp) with
             | Some r => forallb (fun co : nat * cobs =>
                                    match nth_error r (fst co) with
                                    | Some pr => probe_eqb (expand (snd co)) pr
                                    | None => false
                                    end) (snd kp)
             | None => false
             end) ps.

Definition lp_judge (c : lp_case) : nat :=
  verdict (probes_ok (srun_obs (sinit (abs (lp_glob c))) (lp_ops c)) (lp_probes c))
          (probes_ok (LogCtxModel.run_obs core_with (init (lp_glob c)) (lp_ops c)) (lp_probes c)).

(* non-trivial: a field-adding operation applied to a logger whose level had been set, a
   holder shared by several contexts, or the holder-less default path *)
Fixpoint nontrivial_from (st : sstate) (lvlset : list nat) (ops : list op) : bool :=
  match ops with
  | [] => false
  | o :: rest =>
      let hit :=
        match o with
        | OWith c (_ :: _) | OChild c (_ :: _) =>
            match sholder_of st c with
            | Some h => existsb (Nat.eqb h) lvlset
            | None => true
            end
        | OSetLevel c _ | OEnableDebug c =>
            match sholder_of st c with None => true | Some _ => false end
        | _ => false
        end in
      let lvlset' :=
        match o with
        | OSetLevel c _ | OEnableDebug c =>
            match sholder_of st c with Some h => h :: lvlset | None => length (sstore st) :: lvlset end
        | OChild c _ =>
            match sholder_of st c with
            | Some h => if existsb (Nat.eqb h) lvlset then length (sstore st) :: lvlset else lvlset
            | None => lvlset
            end
        | _ => lvlset
        end in
      hit || nontrivial_from (sstep st o) lvlset' rest
  end.
Definition lc_nontrivial (c : lc_case) : bool :=
  nontrivial_from (sinit (abs (lc_glob c))) [] (lc_ops c).
Definition lp_nontrivial (c : lp_case) : bool :=
  nontrivial_from (sinit (abs (lp_glob c))) [] (lp_ops c).

(* ---------- concurrent ---------- *)
Fixpoint count (x : N) (l : list N) : nat :=
  match l with [] => 0 | y :: t => (if N.eqb x y then 1 else 0) + count x t end.
Definition perm_eqb (a b : list N) : bool :=
  Nat.eqb (length a) (length b) && forallb (fun x => Nat.eqb (count x a) (count x b)) (a ++ b).

Fixpoint last_level (ops : list cop) (acc : option level) : option level :=
  match ops with
  | [] => acc
  | CSetLevel l :: t => last_level t (Some l)
  | _ :: t => last_level t acc
  end.

(* levels the logger may end at: the level of a SetLevel that is the last one of its own
   goroutine; the initial level when nobody sets one *)
Definition final_levels (c0 : core) (progs : list (list cop)) : list level :=
  match flat_map (fun p => match last_level p None with Some l => [l] | None => [] end) progs with
  | [] => [clevel c0]
  | ls => ls
  end.

(* a is a subsequence of b (greedy matching decides it) *)
Fixpoint is_subseq (a b : list N) : bool :=
  match a, b with
  | [], _ => true
  | _ :: _, [] => false
  | x :: a', y :: b' => if N.eqb x y then is_subseq a' b' else is_subseq a b'
  end.

(* "no field and no level change lost": the final logger carries the initial fields followed
   by a permutation of everything added - in which the fields of every single goroutine keep
   the order in which that goroutine added them - at the level of a last SetLevel *)
Definition final_ok (c0 : core) (progs : list (list cop)) (final : cobs) : bool :=
  let pr := expand final in
  let fs := hd [] (last pr []) in                          (* entry captured at Error level *)
  let init_fs := cfields c0 in
  let added := flat_map cop_fields (concat progs) in
  fields_eqb (firstn (length init_fs) fs) init_fs
  && perm_eqb (skipn (length init_fs) fs) added
  && forallb (fun p => is_subseq (flat_map cop_fields p) (skipn (length init_fs) fs)) progs
  && existsb (fun l => probe_eqb pr (sprobe (fs, l))) (final_levels c0 progs).

(* the same with a sequential TAIL: operations issued (by one more goroutine) after all the
   others have returned.  Their fields come last, in their order; if the tail sets a level, the
   logger ends at the tail's last SetLevel - whatever the parallel part did *)
Definition final_ok_tail (c0 : core) (progs : list (list cop)) (tail : list cop) (final : cobs) : bool :=
  let pr := expand final in
  let fs := hd [] (last pr []) in
  let init_fs := cfields c0 in
  let tf := flat_map cop_fields tail in
  let mid := firstn (length fs - length init_fs - length tf) (skipn (length init_fs) fs) in
  fields_eqb fs (init_fs ++ mid ++ tf)
  && perm_eqb mid (flat_map cop_fields (concat progs))
  && forallb (fun p => is_subseq (flat_map cop_fields p) mid) progs
  && existsb (fun l => probe_eqb pr (sprobe (fs, l)))
       (match last_level tail None with Some l => [l] | None => final_levels c0 progs end).

(* ---- children created by ChildLogger calls running concurrently with the updates ---- *)
Definition sub_multiset (a b : list N) : bool := forallb (fun x => count x a <=? count x b) a.

Definition set_levels (ops : list cop) : list level :=
  flat_map (fun o => match o with CSetLevel l => [l] | _ => [] end) ops.

(* the child created by operation number idx of goroutine t: its logger carries the initial
   fields, then fields added to the shared logger by WithFields calls (each at most as often as
   it was added, and at least everything its own goroutine added before), then its own; its
   level is the initial one or one that some SetLevel asked for *)
Definition child_ok (c0 : core) (progs : list (list cop)) (ti : nat * nat) (o : cobs) : bool :=
  match nth_error (nth (fst ti) progs []) (snd ti) with
  | Some (CChild fs) =>
      let pr := expand o in
      let fso := hd [] (last pr []) in
      let init_fs := cfields c0 in
      let mid := firstn (length fso - length init_fs - length fs) (skipn (length init_fs) fso) in
      fields_eqb fso (init_fs ++ mid ++ fs)
      && sub_multiset mid (flat_map cop_fields (concat progs))
      && sub_multiset (flat_map cop_fields (firstn (snd ti) (nth (fst ti) progs []))) mid
      && existsb (fun l => probe_eqb pr (sprobe (fso, l))) (clevel c0 :: set_levels (concat progs))
  | _ => false
  end.

Definition children_ok (c0 : core) (progs : list (list cop)) (ch : list ((nat * nat) * cobs)) : bool :=
  forallb (fun x => child_ok c0 progs (fst x) (snd x)) ch.

Fixpoint list_eqb2 {A B} (eqb : A -> B -> bool) (a : list A) (b : list B) : bool :=
  match a, b with
  | [], [] => true
  | x :: a', y :: b' => eqb x y && list_eqb2 eqb a' b'
  | _, _ => false
  end.

Definition child_eqb (a : (nat * nat) * cobs) (b : (nat * nat) * core) : bool :=
  (fst (fst a) =? fst (fst b)) && (snd (fst a) =? snd (fst b)) && probe_eqb (expand (snd a)) (probe (snd b)).

(* cc_children: (goroutine, position in its program) and the probe of every child, in the order
   of creation; probed once, after the schedule *)
(* cc_tail: operations issued after all goroutines of cc_progs have returned - goroutine number
   [length cc_progs] of the model, scheduled only then *)
Record cc_case := { cc_init : core; cc_progs : list (list cop); cc_tail : list cop; cc_sched : list nat;
                    cc_obs : list cobs; cc_done : bool; cc_children : list ((nat * nat) * cobs) }.

Definition cc_judge (c : cc_case) : nat :=
  let allp := cc_progs c ++ [cc_tail c] in
  let st0 := cinit (cc_init c) allp in
  let model_obs := map probe (crun_obs st0 (cc_sched c)) in
  let model_done := all_returned cop core (fst (crun st0 (cc_sched c))) in
  verdict ((negb (cc_done c)
            || final_ok_tail (cc_init c) (cc_progs c) (cc_tail c) (last (cc_obs c) (Irr [])))
           && children_ok (cc_init c) allp (cc_children c))
          (list_eqb probe_eqb (map expand (cc_obs c)) model_obs && Bool.eqb (cc_done c) model_done
           && list_eqb2 child_eqb (cc_children c) (crun_children st0 (cc_sched c))).

(* some CAS failed / some goroutine was pre-empted between its Load and its update *)
Definition cc_nontrivial (c : cc_case) : bool :=
  negb (Nat.eqb (length (cc_sched c)) (length (flat_map cprog (concat (cc_progs c)))))
  || negb (list_eqb (fun a b => Nat.eqb a b) (cc_sched c)
             (flat_map (fun t => repeat t (length (flat_map cprog (nth t (cc_progs c) []))))
                       (seq 0 (length (cc_progs c))))).

Record sc_case := { sc_init : core; sc_progs : list (list cop); sc_tail : list cop; sc_final : cobs;
                    sc_children : list ((nat * nat) * cobs) }.
Definition sc_judge (c : sc_case) : nat :=
  verdict (final_ok_tail (sc_init c) (sc_progs c) (sc_tail c) (sc_final c)
           && children_ok (sc_init c) (sc_progs c ++ [sc_tail c]) (sc_children c)) true.
