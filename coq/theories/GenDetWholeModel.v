(* GenDetWholeModel.v — the per-generator COMPOSITION of the order-sensitive steps of
   GenDetModel.v: what one invocation hands to its template, with every choice (map iteration
   order, outcome of an unstable sort) an argument.  No proofs here (GenDetWholeProofs.v).

   gsort   GenDetModel.gsort_tables already is the whole pipeline (C14_gsort).
   gerror  Generate.Parse: g.ErrorDescs[i] for the i-th entry of -types (slice, flag order), each
           with createErrorDesc's sort.Sort(fields); the template calls FieldsToPrint and
           FieldsToClone (filter + sort.Sort again)                      gerror_table
   genum   Generate.Parse for one enum type: sort.Sort(values); the trait instances of every
           column appended value by value with sort.Sort(tDesc.Traits) after every append (the
           last call sorts them all); processDuplicates (map range) + sort.Sort(traits).
           Value.Less is not a strict weak order on values of mixed signedness
           (C14_value_less_no_global_sort), so the sorts by Value.Less are taken as RELATIONS
           ("some ascending arrangement") instead of functions: genum_run in out.

   Input well-formedness = what Go's type checker guarantees of a package that compiles:
   constant names of a package are pairwise distinct, field names of a struct are, a value has
   one cell per trait column.  Trait (method) names may collide only for `_Foo` next to `Foo`
   (the output then does not compile): wf asks for distinct ones.                              *)
From Coq Require Import List Bool ZArith String Permutation.
From GT Require Import GSortModel GenDetModel Base.SortU.
Import ListNotations.

(* ------------------------------------------------------------------ gerror *)
Record gerror_row := { gr_type : string; gr_fields : list efield; gr_print : list efield;
                       gr_clone : list efield }.
(* srt: createErrorDesc's sort; srtp / srtc: the sorts inside FieldsToPrint / FieldsToClone *)
Definition gerror_table (srt srtp srtc : list efield -> list efield)
           (types : list (string * list efield)) : list gerror_row :=
  map (fun tf => {| gr_type := fst tf; gr_fields := gerror_fields srt (snd tf);
                    gr_print := fields_to_print srt srtp (snd tf);
                    gr_clone := fields_to_clone srt srtc (snd tf) |}) types.
Definition wf_gerror_in (types : list (string * list efield)) : Prop :=
  forall ty fs, In (ty, fs) types -> NoDup (map ef_name fs).

(* ------------------------------------------------------------------ genum, one enum type *)
Record genum_in := { gi_consts : list evalue;          (* in source order *)
                     gi_traits : list tdesc }.         (* columns; instances in append order *)
Record genum_out := { go_values : list evalue; go_traits : list tdesc }.
Definition wf_genum_in (i : genum_in) : Prop :=
  NoDup (map ev_name (gi_consts i))
  /\ NoDup (map td_name (gi_traits i))
  /\ forall t, In t (gi_traits i) -> NoDup (map (fun x => ev_name (ti_owner x)) (td_insts t)).
(* a column after its last sort.Sort(tDesc.Traits): the same column, instances ascending *)
Definition column_sorted (t t' : tdesc) : Prop :=
  td_name t' = td_name t /\ td_typeref t' = td_typeref t /\ td_parsable t' = td_parsable t
  /\ Permutation (td_insts t') (td_insts t) /\ sorted inst_lt (td_insts t').
Definition genum_run (i : genum_in) (o : genum_out) : Prop :=
  Permutation (go_values o) (gi_consts i) /\ sorted value_lt (go_values o)
  /\ exists cols pi srt,
       Forall2 column_sorted (gi_traits i) cols /\ iter_ok pi /\ sort_ok trait_lt srt
       /\ go_traits o = process_dups pi srt (go_values o) cols.
