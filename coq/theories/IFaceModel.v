(* IFaceModel.v — executable mirror of gencommon's FindInterface pipeline.  No proofs here.

   Go source (current tree = pinned tree + fixes/C19-*.patch)         model
   ---------------------------------------------------------------    ---------------------------
   params.go  getSafeParamName (numbering loop skips taken names)      number_name, get_safe_param_name
              reserveParamName                                         reserve
              Params.keepNames   (user-chosen names first)             keep_names
              Params.ensureNames (ctx / err / argN / retN)             ensure_names
   method.go  Method.ensureParamNames (one map for inputs+outputs)     ensure_param_names
              Method.Signature, Params.Declarations / TypeNames        sig_text, declarations, type_names
   params.go  ParamsFromSignatureTuple (variadic: "[]" trimmed)        params_from_tuple (inside extract)
   imports.go calcImports                                              calc_imports
              ImportHandler.ExtractTypeRef / addNamed                  extract / add_named
              GetActive, ImportDesc.ImportString                       active, import_string
   interface.go namedTypeToInterface: private filter, own methods,     to_iface
              embedded merge (first-seen map methodsToAdd, conflict
              set ignoreEmbeddedMethodsNamed), go/types method-set
              filter on the merged methods

              named interfaces: go/types' Interface.Method(i), the     iface_methods (itree), flatten (stree)
              type set of the declaration (a set union)
   imports.go unusedName (fresh name for an on-demand import)          unused_name, taken_names (in add_named)

   The pinned (pre-fix) code is kept as  get_safe_param_name_orig / ensure_names_orig /
   ensure_param_names_orig  (params.go, method.go),  to_iface_orig  (interface.go, no
   method-set filter) and, for imports.go before fixes/C19-import-alias-collision.patch, the
   environment switch  e_unique_alias = false.

   Conventions.  Identifiers and rendered text are Coq [string]s (bytes).  The Go map
   paramDeduper is an association list keyed by name.  ih.imports is an association list
   keyed by package path (the only iteration over it, GetActive, sorts by path; the model
   compares it as a set).  methodsToAdd is ranged over in Go's random map order: the model
   keeps first-seen order and all statements are about membership.
   The unbounded numbering loop of getSafeParamName is run with fuel [S (length d)];
   IFaceNamesProofs.number_name_fresh shows the fuel is never exhausted.
   go/types is not modelled: a type is given as the AST [ty] the harness reads off go/types,
   "implements error / context.Context" (TypeImplements) are per-parameter oracle bits, and the
   method set go/types computes for a struct (used by the fixed merge) is computed by [go_ms],
   the selector rule of the Go specification on the embedding tree; the correspondence run
   compares [go_ms] with go/types' own answer on every generated type.
   TBasic s stands for the default branch of ExtractTypeRef (s = go/types' String(); for the
   typed basic types of parameters the TrimPrefix "untyped " is the identity, and so is the
   types.Default of fixes/C13-untyped-kinds.patch, which only changes untyped constant kinds —
   outside this property).  *types.Named and *types.Alias are the one constructor TNamed.
   Not mirrored: Param.TypeArgNames (a second ExtractTypeRef over the type arguments that
   addNamed has just visited: same calls, no new state, not part of Signature()), comments. *)
From Coq Require Import List Bool String Ascii NArith Arith DecimalString.
Import ListNotations.
Local Open Scope string_scope.

(* ------------------------------------------------------------------ strings *)
Definition itoa (n : N) : string := NilEmpty.string_of_uint (N.to_uint n).

Fixpoint join (sep : string) (l : list string) : string :=
  match l with
  | [] => ""
  | [x] => x
  | x :: r => x ++ sep ++ join sep r
  end.

Definition mem (s : string) (l : list string) : bool := existsb (String.eqb s) l.

Definition has_suffix (s suf : string) : bool :=
  let ls := String.length s in
  let lf := String.length suf in
  if Nat.leb lf ls then String.eqb (substring (ls - lf) lf s) suf else false.

Definition trim_prefix (pre s : string) : string :=
  if prefix pre s then substring (String.length pre) (String.length s - String.length pre) s else s.

(* path.Base for import paths (no trailing slash) *)
Fixpoint base_from (s acc : string) : string :=
  match s with
  | EmptyString => acc
  | String c r => if Ascii.eqb c "/" then base_from r "" else base_from r (acc ++ String c "")
  end.
Definition path_base (s : string) : string :=
  match base_from s "" with "" => "." | b => b end.

(* ------------------------------------------------------------------ identifiers *)
Definition is_letter (c : ascii) : bool :=
  let n := N_of_ascii c in
  ((65 <=? n) && (n <=? 90) || (97 <=? n) && (n <=? 122) || (n =? 95) || (128 <=? n))%N.
Definition is_digit (c : ascii) : bool :=
  let n := N_of_ascii c in ((48 <=? n) && (n <=? 57))%N.

Fixpoint all_chars (p : ascii -> bool) (s : string) : bool :=
  match s with EmptyString => true | String c r => p c && all_chars p r end.

Definition keywords : list string :=
  ["break"; "case"; "chan"; "const"; "continue"; "default"; "defer"; "else"; "fallthrough";
   "for"; "func"; "go"; "goto"; "if"; "import"; "interface"; "map"; "package"; "range";
   "return"; "select"; "struct"; "switch"; "type"; "var"].

(* a Go identifier usable as a parameter name: letter (or _ or a non-ASCII byte) first, then
   letters/digits; not the blank identifier; not a keyword *)
Definition valid_identb (s : string) : bool :=
  match s with
  | EmptyString => false
  | String c r => is_letter c && all_chars (fun c => is_letter c || is_digit c) r
  end && negb (String.eqb s "_") && negb (mem s keywords).
Definition valid_ident (s : string) : Prop := valid_identb s = true.

Definition exported (s : string) : bool :=
  match s with
  | EmptyString => false
  | String c _ => let n := N_of_ascii c in ((65 <=? n) && (n <=? 90))%N
  end.

(* ------------------------------------------------------------------ (a) parameter names *)
Definition dmap := list (string * N).

Fixpoint dget (d : dmap) (k : string) : option N :=
  match d with
  | [] => None
  | (k', v) :: r => if String.eqb k k' then Some v else dget r k
  end.
Fixpoint dset (d : dmap) (k : string) (v : N) : dmap :=
  match d with
  | [] => [(k, v)]
  | (k', v') :: r => if String.eqb k k' then (k, v) :: r else (k', v') :: dset r k v
  end.
Definition dmem (d : dmap) (k : string) : bool :=
  match dget d k with Some _ => true | None => false end.
Definition dkeys (d : dmap) : list string := map fst d.

(* for taken := true; taken; _, taken = d[result] { result = name + itoa(v); v++ } *)
Fixpoint number_name (fuel : nat) (d : dmap) (name : string) (v : N) : string * N :=
  let cand := name ++ itoa v in
  match fuel with
  | O => (cand, N.succ v)
  | S f => if dmem d cand then number_name f d name (N.succ v) else (cand, N.succ v)
  end.

Definition get_safe_param_name (d : dmap) (name : string) (always : bool) : string * dmap :=
  let v := match dget d name with Some v => v | None => 0%N end in
  if dmem d name || always
  then let '(r, v') := number_name (S (List.length d)) d name v in (r, dset d name v')
  else (name, dset d name v).

Definition reserve (d : dmap) (name : string) : dmap :=
  if dmem d name then d else dset d name 0%N.

Record pinfo := PI { pi_name : string; pi_ctx : bool; pi_err : bool }.
Definition set_name (p : pinfo) (n : string) : pinfo := PI n (pi_ctx p) (pi_err p).
Definition unnamed (s : string) : bool := String.eqb s "" || String.eqb s "_".

Fixpoint keep_names (d : dmap) (ps : list pinfo) : list pinfo * dmap :=
  match ps with
  | [] => ([], d)
  | p :: r =>
      if unnamed (pi_name p)
      then let '(r', d') := keep_names d r in (p :: r', d')
      else let '(n, d1) := get_safe_param_name d (pi_name p) false in
           let '(r', d') := keep_names (reserve d1 n) r in (set_name p n :: r', d')
  end.

Definition gen_choice (is_output : bool) (len i : nat) (p : pinfo) : string * bool :=
  if is_output && Nat.eqb (len - 1) i && pi_err p then ("err", false)
  else if negb is_output && Nat.eqb i 0 && pi_ctx p then ("ctx", false)
  else (if is_output then "ret" else "arg", true).

Fixpoint ensure_names_from (d : dmap) (is_output : bool) (len i : nat) (ps : list pinfo)
  : list pinfo * dmap :=
  match ps with
  | [] => ([], d)
  | p :: r =>
      if unnamed (pi_name p)
      then let '(base, always) := gen_choice is_output len i p in
           let '(n, d1) := get_safe_param_name d base always in
           let '(r', d') := ensure_names_from (reserve d1 n) is_output len (S i) r in
           (set_name p n :: r', d')
      else let '(r', d') := ensure_names_from d is_output len (S i) r in (p :: r', d')
  end.
Definition ensure_names (d : dmap) (is_output : bool) (ps : list pinfo) : list pinfo * dmap :=
  ensure_names_from d is_output (List.length ps) 0 ps.

Definition ensure_param_names (ins outs : list pinfo) : list pinfo * list pinfo :=
  let '(ins1, d1) := keep_names [] ins in
  let '(outs1, d2) := keep_names d1 outs in
  let '(ins2, d3) := ensure_names d2 false ins1 in
  let '(outs2, _) := ensure_names d3 true outs1 in
  (ins2, outs2).

Definition final_names (ins outs : list pinfo) : list string :=
  let '(i, o) := ensure_param_names ins outs in map pi_name (i ++ o)%list.

(* ---- the pinned code (before fixes/C19-param-names.patch) ---- *)
Definition get_safe_param_name_orig (d : dmap) (name : string) (always : bool) : string * dmap :=
  let v := match dget d name with Some v => v | None => 0%N end in
  if dmem d name || always
  then (name ++ itoa v, dset d name (N.succ v))
  else (name, dset d name v).

Fixpoint named_pass_orig (d : dmap) (ps : list pinfo) : list pinfo * dmap :=
  match ps with
  | [] => ([], d)
  | p :: r =>
      if unnamed (pi_name p)
      then let '(r', d') := named_pass_orig d r in (p :: r', d')
      else let '(n, d1) := get_safe_param_name_orig d (pi_name p) false in
           let '(r', d') := named_pass_orig d1 r in (set_name p n :: r', d')
  end.
Fixpoint unnamed_pass_orig (d : dmap) (is_output : bool) (len i : nat) (ps : list pinfo)
  : list pinfo * dmap :=
  match ps with
  | [] => ([], d)
  | p :: r =>
      if unnamed (pi_name p)
      then let '(base, always) := gen_choice is_output len i p in
           let '(n, d1) := get_safe_param_name_orig d base always in
           let '(r', d') := unnamed_pass_orig d1 is_output len (S i) r in
           (set_name p n :: r', d')
      else let '(r', d') := unnamed_pass_orig d is_output len (S i) r in (p :: r', d')
  end.
Definition ensure_names_orig (d : dmap) (is_output : bool) (ps : list pinfo) :=
  let '(ps1, d1) := named_pass_orig d ps in unnamed_pass_orig d1 is_output (List.length ps) 0 ps1.
Definition ensure_param_names_orig (ins outs : list pinfo) : list pinfo * list pinfo :=
  let '(ins1, d1) := ensure_names_orig [] false ins in
  let '(outs1, _) := ensure_names_orig d1 true outs in
  (ins1, outs1).
Definition final_names_orig (ins outs : list pinfo) : list string :=
  let '(i, o) := ensure_param_names_orig ins outs in map pi_name (i ++ o)%list.

(* ---- specification of the names (judges observations and is what C19_names proves) ---- *)
(* user-chosen name at each position (None = unnamed or _), inputs then outputs *)
Definition user_name (p : pinfo) : option string :=
  if unnamed (pi_name p) then None else Some (pi_name p).

Fixpoint nodupb (l : list string) : bool :=
  match l with [] => true | x :: r => negb (mem x r) && nodupb r end.

(* kept: a user name that differs from every user name before it stays as written *)
Fixpoint keptb (seen : list string) (users : list (option string)) (finals : list string) : bool :=
  match users, finals with
  | [], [] => true
  | None :: us, _ :: fs => keptb seen us fs
  | Some u :: us, f :: fs => (mem u seen || String.eqb f u) && keptb (u :: seen) us fs
  | _, _ => false
  end.

(* the same as a relation that also covers lists in which the user repeats a name (which Go
   rejects): a user name stays as written unless it equals a name already given to an earlier
   user-named parameter *)
Fixpoint kept (seen : list string) (users : list (option string)) (finals : list string) : Prop :=
  match users, finals with
  | [], [] => True
  | None :: us, _ :: fs => kept seen us fs
  | Some u :: us, f :: fs => (In u seen \/ f = u) /\ kept (f :: seen) us fs
  | _, _ => False
  end.

Fixpoint somes {A} (l : list (option A)) : list A :=
  match l with [] => [] | Some x :: r => x :: somes r | None :: r => somes r end.

Definition names_okb (params : list pinfo) (finals : list string) : bool :=
  nodupb finals && forallb valid_identb finals && keptb [] (map user_name params) finals.

(* ------------------------------------------------------------------ (c) type references *)
Inductive ty :=
| TBasic (s : string)                                      (* default branch: go/types String() *)
| TNamed (pkg : option (string * string)) (name : string) (targs : list ty)
                          (* *types.Named and *types.Alias; pkg = (path, package name), None = universe *)
| TPtr (e : ty)
| TSlice (e : ty)
| TArray (n : N) (e : ty)
| TMap (k v : ty)
| TFunc (ps : list (pinfo * ty)) (variadic : bool) (rs : list (pinfo * ty)).

(* a rendered parameter: name, variadic flag, type reference *)
Inductive texpr :=
| ERaw (s : string)
| EName (q : option string) (name : string) (args : list texpr)
| EPtr (e : texpr)
| ESlice (e : texpr)
| EArray (n : N) (e : texpr)
| EMap (k v : texpr)
| EFunc (ins outs : list (string * bool * texpr)).

Record imp := Imp { i_path : string; i_alias : string; i_alias_is_pkg : bool; i_in_use : bool }.
Definition table := list imp.

Fixpoint tget (t : table) (path : string) : option imp :=
  match t with
  | [] => None
  | i :: r => if String.eqb path (i_path i) then Some i else tget r path
  end.
Fixpoint tset (t : table) (i : imp) : table :=
  match t with
  | [] => [i]
  | j :: r => if String.eqb (i_path i) (i_path j) then i :: r else j :: tset r i
  end.
Definition active (t : table) : table := filter i_in_use t.

Definition import_string (i : imp) : string :=
  if i_alias_is_pkg i then """" ++ i_path i ++ """"
  else i_alias i ++ " """ ++ i_path i ++ """".

(* the package being generated for: its path, packages.Package.Imports (path -> name), the
   package-level names of its scope (PInfo.Types.Scope()), and a version switch:
   e_unique_alias = true is the current code (fixes/C19-import-alias-collision.patch: an import
   added on demand gets a name that is not bound yet), false the code before it *)
Record env := Env { e_self : string; e_pkg_imports : list (string * string);
                    e_locals : list string; e_unique_alias : bool;
                    e_shadowed : list string }.
(* e_shadowed: the names bound by the import specs in ImportHandler.shadowed — specs of the file
   whose path a later spec imports again under another name (calcImports keeps the later one in
   the map and the earlier ones there); fixed once calcImports has run, read by unusedName *)
Definition with_shadowed (e : env) (names : list string) : env :=
  Env (e_self e) (e_pkg_imports e) (e_locals e) (e_unique_alias e) names.
Fixpoint assoc (l : list (string * string)) (k : string) : option string :=
  match l with
  | [] => None
  | (k', v) :: r => if String.eqb k k' then Some v else assoc r k
  end.

(* calcImports: one entry per import spec of the file (later specs of a path overwrite) *)
Definition calc_import (e : env) (spec : string * option string) : imp :=
  let '(path, rename) := spec in
  match rename with
  | Some n => Imp path n false false
  | None => match assoc (e_pkg_imports e) path with
            | Some n => Imp path n true false
            | None => Imp path (path_base path) true false
            end
  end.
Definition calc_imports (e : env) (specs : list (string * option string)) : table :=
  fold_left (fun t s => tset t (calc_import e s)) specs [].

(* the same loop with ImportHandler.shadowed: the entry a spec overwrites goes there *)
Definition calc_step (e : env) (st : table * list imp) (spec : string * option string) : table * list imp :=
  let i := calc_import e spec in
  (tset (fst st) i,
   match tget (fst st) (i_path i) with Some prev => (snd st ++ [prev])%list | None => snd st end).
Definition calc_imports_sh (e : env) (specs : list (string * option string)) : table * list imp :=
  fold_left (calc_step e) specs ([], []).

(* the name an import spec binds in the file (what the Go compiler sees): the rename, else the
   package name go/packages reports for the path *)
Definition spec_name (e : env) (spec : string * option string) : string := i_alias (calc_import e spec).

(* what the Go compiler guarantees of the file the handler is built from (a predicate on the
   INPUT): the specs bind pairwise distinct names, none of them a package-level name of the
   package, `_` or `.` (one path may be imported several times, under different names) *)
Definition specs_okb (e : env) (specs : list (string * option string)) : bool :=
  nodupb (map (spec_name e) specs) &&
  forallb (fun s => negb (mem (spec_name e s) (e_locals e)) &&
                    negb (String.eqb (spec_name e s) "_") && negb (String.eqb (spec_name e s) "."))
          specs.

(* ImportHandler.unusedName: name, or name followed by the first number from 2 on with which it
   is not among the taken names (the import names the handler knows and the package-level names).
   The loop `for n := 2; bound(result); n++ { result = name + Itoa(n) }` is number_name over the
   taken names as keys (same fuel argument: IFaceNamesProofs.number_name_fresh) *)
Definition taken_names (e : env) (st : table) : list string :=
  (map i_alias st ++ e_shadowed e ++ e_locals e)%list.
Definition unused_name (taken : list string) (name : string) : string :=
  if mem name taken
  then fst (number_name (S (List.length taken)) (map (fun a => (a, 0%N)) taken) name 2)
  else name.

(* addNamed, import part: the qualifier to print and the new table *)
Definition add_named (e : env) (st : table) (pkg : option (string * string))
  : option string * table :=
  match pkg with
  | None => (None, st)
  | Some (path, pname) =>
      if String.eqb path (e_self e) then (None, st)
      else match tget st path with
           | Some i => (Some (i_alias i), tset st (Imp path (i_alias i) (i_alias_is_pkg i) true))
           | None =>
               let '(al0, isp0) :=
                 match assoc (e_pkg_imports e) path with
                 | Some n => if String.eqb pname "" then (n, true) else (pname, has_suffix path pname)
                 | None => (pname, has_suffix path pname)
                 end in
               let al := if e_unique_alias e then unused_name (taken_names e st) al0 else al0 in
               let isp := if String.eqb al al0 then isp0 else false in
               (Some al, tset st (Imp path al isp true))
           end
  end.

Definition trim_slice (x : texpr) : texpr := match x with ESlice y => y | _ => x end.

Definition zip_names (ps : list pinfo) (xs : list (bool * texpr)) : list (string * bool * texpr) :=
  map (fun q : pinfo * (bool * texpr) => (pi_name (fst q), fst (snd q), snd (snd q))) (combine ps xs).

Section Extract.
  Variable e : env.

  (* ExtractTypeRef; the inner fixpoints are the loops over type arguments and over the
     parameter tuples (ParamsFromSignatureTuple) *)
  Fixpoint extract (st : table) (t : ty) {struct t} : texpr * table :=
    match t with
    | TBasic s => (ERaw (trim_prefix "untyped " s), st)
    | TPtr x => let '(r, st1) := extract st x in (EPtr r, st1)
    | TSlice x => let '(r, st1) := extract st x in (ESlice r, st1)
    | TArray n x => let '(r, st1) := extract st x in (EArray n r, st1)
    | TMap k v => let '(rk, st1) := extract st k in
                  let '(rv, st2) := extract st1 v in (EMap rk rv, st2)
    | TNamed pkg name targs =>
        let '(q, st1) := add_named e st pkg in
        let '(args, st2) :=
          (fix go (st : table) (l : list ty) {struct l} : list texpr * table :=
             match l with
             | [] => ([], st)
             | x :: r => let '(rx, s1) := extract st x in
                         let '(rr, s2) := go s1 r in (rx :: rr, s2)
             end) st1 targs in
        (EName q name args, st2)
    | TFunc ps variadic rs =>
        let tuple :=
          (fix go (st : table) (variadic : bool) (l : list (pinfo * ty)) {struct l}
             : list (bool * texpr) * table :=
             match l with
             | [] => ([], st)
             | (_, x) :: r =>
                 let '(rx, s1) := extract st x in
                 let isv := variadic && match r with [] => true | _ => false end in
                 let '(rr, s2) := go s1 variadic r in
                 ((isv, if isv then trim_slice rx else rx) :: rr, s2)
             end) in
        let '(xi, st1) := tuple st variadic ps in
        let '(xo, st2) := tuple st1 false rs in
        let '(ni, no) := ensure_param_names (map fst ps) (map fst rs) in
        (EFunc (zip_names ni xi) (zip_names no xo), st2)
    end.

  Fixpoint extract_list (st : table) (l : list ty) : list texpr * table :=
    match l with
    | [] => ([], st)
    | x :: r => let '(rx, s1) := extract st x in
                let '(rr, s2) := extract_list s1 r in (rx :: rr, s2)
    end.

  Fixpoint params_from_tuple (st : table) (variadic : bool) (l : list (pinfo * ty))
    : list (bool * texpr) * table :=
    match l with
    | [] => ([], st)
    | (_, x) :: r =>
        let '(rx, s1) := extract st x in
        let isv := variadic && match r with [] => true | _ => false end in
        let '(rr, s2) := params_from_tuple s1 variadic r in
        ((isv, if isv then trim_slice rx else rx) :: rr, s2)
    end.
End Extract.

(* ---- printing (Signature / Declarations / TypeNames) ---- *)
Definition declarations (ps : list (string * bool * string)) : string :=
  join ", " (map (fun p : string * bool * string =>
                   let '(n, v, s) := p in n ++ (if v then "..." else "") ++ " " ++ s) ps).
Definition type_names (ps : list (string * bool * string)) : string :=
  join ", " (map (fun p : string * bool * string =>
                   let '(_, v, s) := p in (if v then "[]" else "") ++ s) ps).
Definition sig_text (name : string) (ins outs : list (string * bool * string)) : string :=
  if Nat.ltb 1 (List.length outs)
  then name ++ "(" ++ declarations ins ++ ") (" ++ type_names outs ++ ")"
  else name ++ "(" ++ declarations ins ++ ") " ++ type_names outs.

(* a dot-import puts the package's exported names into the file scope: no qualifier (addNamed) *)
Fixpoint print (x : texpr) : string :=
  match x with
  | ERaw s => s
  | EName q n args =>
      (match q with Some a => if String.eqb a "." then "" else a ++ "." | None => "" end) ++ n ++
      (match args with [] => "" | _ => "[" ++ join ", " (map print args) ++ "]" end)
  | EPtr y => "*" ++ print y
  | ESlice y => "[]" ++ print y
  | EArray n y => "[" ++ itoa n ++ "]" ++ print y
  | EMap k v => "map[" ++ print k ++ "]" ++ print v
  | EFunc ins outs =>
      sig_text "func" (map (fun p : string * bool * texpr => let '(n, v, y) := p in (n, v, print y)) ins)
                      (map (fun p : string * bool * texpr => let '(n, v, y) := p in (n, v, print y)) outs)
  end.

(* ---- what a rendered reference denotes (specification side) ---- *)
Definition blank : pinfo := PI "" false false.

Fixpoint erase (t : ty) : ty :=
  match t with
  | TBasic s => TBasic s
  | TNamed pkg n targs =>
      TNamed (match pkg with Some (p, _) => Some (p, "") | None => None end) n (map erase targs)
  | TPtr x => TPtr (erase x)
  | TSlice x => TSlice (erase x)
  | TArray n x => TArray n (erase x)
  | TMap k v => TMap (erase k) (erase v)
  | TFunc ps v rs => TFunc (map (fun p : pinfo * ty => (blank, erase (snd p))) ps) v
                           (map (fun p : pinfo * ty => (blank, erase (snd p))) rs)
  end.

(* the package an alias is bound to by the active imports *)
Definition resolve (act : table) (a : string) : option string :=
  match filter (fun i => String.eqb (i_alias i) a) act with
  | [i] => Some (i_path i)
  | _ => None                        (* unbound or bound twice: the file does not compile *)
  end.

Fixpoint sequence {A} (l : list (option A)) : option (list A) :=
  match l with
  | [] => Some []
  | Some x :: r => match sequence r with Some r' => Some (x :: r') | None => None end
  | None :: _ => None
  end.

Section Denote.
  Variable self : string.              (* path of the package the text is compiled in *)
  Variable local : string -> bool.     (* names declared at package level there *)
  Variable act : table.                (* the active imports *)

  Fixpoint denote (x : texpr) : option ty :=
    match x with
    | ERaw s => Some (TBasic s)
    | EName q n args =>
        match sequence (map denote args) with
        | None => None
        | Some targs =>
            match q with
            | None => Some (TNamed (if local n then Some (self, "") else None) n targs)
            | Some a => match resolve act a with
                        | Some p => Some (TNamed (Some (p, "")) n targs)
                        | None => None
                        end
            end
        end
    | EPtr y => option_map TPtr (denote y)
    | ESlice y => option_map TSlice (denote y)
    | EArray n y => option_map (TArray n) (denote y)
    | EMap k v => match denote k, denote v with
                  | Some a, Some b => Some (TMap a b)
                  | _, _ => None
                  end
    | EFunc ins outs =>
        let den := fun p : string * bool * texpr =>
                     let '(_, v, y) := p in
                     option_map (fun t => (blank, if v then TSlice t else t)) (denote y) in
        match sequence (map den ins), sequence (map den outs) with
        | Some ps, Some rs => Some (TFunc ps (existsb (fun p : string * bool * texpr => snd (fst p)) ins) rs)
        | _, _ => None
        end
    end.
End Denote.

(* hypotheses of the type-reference theorems *)
(* a later state of the import table keeps every active import active under the same alias *)
Definition extends (st st' : table) : Prop :=
  forall p i, tget st p = Some i -> i_in_use i = true ->
  exists i', tget st' p = Some i' /\ i_in_use i' = true /\ i_alias i' = i_alias i.

(* the aliases of the active imports are pairwise distinct *)
Definition alias_injective (act : table) : Prop := NoDup (map i_alias act).

Definition has_alias (act : table) (a : string) : Prop := exists i, In i act /\ i_alias i = a.

(* a type as go/types hands it over for a method of a package that compiles: universe names
   are not shadowed by package-level declarations, same-package names are declared, a variadic
   tuple ends in a slice *)
Inductive wf_ty (self : string) (local : string -> bool) : ty -> Prop :=
| WBasic s : prefix "untyped " s = false -> wf_ty self local (TBasic s)
| WNamed pkg n targs :
    match pkg with
    | None => local n = false
    | Some (p, _) => String.eqb p self = true -> local n = true
    end ->
    Forall (wf_ty self local) targs -> wf_ty self local (TNamed pkg n targs)
| WPtr x : wf_ty self local x -> wf_ty self local (TPtr x)
| WSlice x : wf_ty self local x -> wf_ty self local (TSlice x)
| WArray n x : wf_ty self local x -> wf_ty self local (TArray n x)
| WMap k v : wf_ty self local k -> wf_ty self local v -> wf_ty self local (TMap k v)
| WFunc ps v rs :
    Forall (fun p : pinfo * ty => wf_ty self local (snd p)) ps ->
    Forall (fun p : pinfo * ty => wf_ty self local (snd p)) rs ->
    (v = true -> exists ps0 pi x, ps = (ps0 ++ [(pi, TSlice x)])%list) ->
    wf_ty self local (TFunc ps v rs).

(* qualifiers used by a reference *)
Fixpoint qualifiers (x : texpr) : list string :=
  match x with
  | ERaw _ => []
  | EName q _ args => ((match q with Some a => [a] | None => [] end) ++ flat_map qualifiers args)%list
  | EPtr y | ESlice y | EArray _ y => qualifiers y
  | EMap k v => (qualifiers k ++ qualifiers v)%list
  | EFunc ins outs => (flat_map (fun p : string * bool * texpr => qualifiers (snd p)) ins ++
                       flat_map (fun p : string * bool * texpr => qualifiers (snd p)) outs)%list
  end.

(* ------------------------------------------------------------------ (b) method collection *)
(* a selector declared by a named type: a method (with its signature) or — m_field — a struct
   field, of which only the name matters: a field is never collected (Named.Method(i) does not
   list it) but, in Go, a field shadows every deeper method of the same name *)
Record meth := M { m_name : string; m_ps : list (pinfo * ty); m_variadic : bool;
                   m_rs : list (pinfo * ty); m_field : bool }.
Definition is_meth (m : meth) : bool := negb (m_field m).

(* a named type as namedTypeToInterface sees it: its own reference, the methods
   Named.Method(i) (or, for a named interface, the interface's method set) together with the
   names of its struct fields (embedded ones included: their name is the type name), and the
   types of its embedded fields (T or *T with T named) in field order *)
Inductive tree := Tr (self : ty) (own : list meth) (embedded : list tree).

Definition t_self (t : tree) := match t with Tr s _ _ => s end.
Definition t_own (t : tree) := match t with Tr _ o _ => o end.
Definition t_emb (t : tree) := match t with Tr _ _ e => e end.
Definition own_names (t : tree) : list string := map m_name (t_own t).       (* all selectors *)
Definition meth_names (t : tree) : list string := map m_name (filter is_meth (t_own t)).

Fixpoint height (t : tree) : nat :=
  match t with Tr _ _ embs => fold_right (fun x acc => Nat.max (S (height x)) acc) 0 embs end.

(* Go's selector rule for methods of *T: the name must be declared (as a field or a method)
   exactly once at the shallowest embedding depth at which it is declared at all, and that one
   declaration must be a method *)
Definition count_level (lvl : list tree) (n : string) : nat :=
  List.length (filter (fun t => mem n (own_names t)) lvl).
Fixpoint ms_level (fuel : nat) (lvl : list tree) (n : string) : bool :=
  match count_level lvl n with
  | 0 => match fuel with O => false | S f => ms_level f (flat_map t_emb lvl) n end
  | 1 => existsb (fun t => mem n (meth_names t)) lvl
  | _ => false
  end.
Definition go_ms (t : tree) (n : string) : bool := ms_level (height t) [t] n.

(* ---- named interface types: the method set of an interface is a SET ----
   namedTypeToInterface lists a named interface through go/types' Interface.Method(i),
   the type set go/types computes for the declaration: the explicitly declared methods, then, in
   the order of the embedded interfaces, the methods of each embedded interface that are not
   there yet BY NAME (Go demands identical signatures for such duplicates and keeps the first —
   typeset.go computeInterfaceTypeSet/addMethod).  [itree] is the declaration as written
   (explicit methods, embedded named interfaces, recursively), [iface_methods] that set; the
   order go/types finally sorts it in is not modelled (every statement and every comparison of
   the judge is by name).  The correspondence run compares [iface_methods] with go/types'
   Method(i) list — names and full signatures — on every interface of every case.           *)
Inductive itree := IT (self : ty) (explicit : list meth) (embedded : list itree).
Definition it_self (i : itree) := match i with IT s _ _ => s end.
Definition it_explicit (i : itree) := match i with IT _ x _ => x end.
Definition it_emb (i : itree) := match i with IT _ _ e => e end.

Definition has_name (acc : list meth) (n : string) : bool :=
  existsb (fun x => String.eqb (m_name x) n) acc.
Definition union_add (acc ms : list meth) : list meth :=
  fold_left (fun acc m => if has_name acc (m_name m) then acc else (acc ++ [m])%list) ms acc.

Fixpoint iface_methods (i : itree) : list meth :=
  match i with
  | IT _ ex embs => fold_left (fun acc f => union_add acc (iface_methods f)) embs (union_add [] ex)
  end.

(* every declaration below an interface, and their names *)
Fixpoint all_decls (i : itree) : list meth :=
  match i with IT _ ex embs => (ex ++ flat_map all_decls embs)%list end.
Definition decl_names (i : itree) : list string := map m_name (all_decls i).

(* the collection of seeded change C19-21 (kept as a record of what the set semantics excludes):
   explicit methods, then everything inherited that is not EXPLICITLY declared — a method two
   embedded interfaces share is listed twice *)
Fixpoint iface_methods_concat (i : itree) : list meth :=
  match i with
  | IT _ ex embs =>
      (ex ++ filter (fun m => negb (has_name ex (m_name m))) (flat_map iface_methods_concat embs))%list
  end.

(* the source of an embedding tree: struct (or other defined) types with their selectors and
   embedded fields; named interface types as declared *)
Inductive stree :=
| SStruct (self : ty) (own : list meth) (embedded : list stree)
| SIface (i : itree).

(* what namedTypeToInterface sees through go/types *)
Fixpoint flatten (s : stree) : tree :=
  match s with
  | SStruct self own embs => Tr self own (map flatten embs)
  | SIface i => Tr (it_self i) (iface_methods i) []
  end.
Fixpoint flatten_concat (s : stree) : tree :=
  match s with
  | SStruct self own embs => Tr self own (map flatten_concat embs)
  | SIface i => Tr (it_self i) (iface_methods_concat i) []
  end.

(* a rendered method: name, inputs, outputs *)
Record rmeth := RM { rm_name : string; rm_in : list (string * bool * texpr);
                     rm_out : list (string * bool * texpr) }.

(* MethodFromSignature + Name assignment *)
Definition render_method (e : env) (st : table) (m : meth) : rmeth * table :=
  let '(xi, st1) := params_from_tuple e st (m_variadic m) (m_ps m) in
  let '(xo, st2) := params_from_tuple e st1 false (m_rs m) in
  let '(ni, no) := ensure_param_names (map fst (m_ps m)) (map fst (m_rs m)) in
  (RM (m_name m) (zip_names ni xi) (zip_names no xo), st2).

Fixpoint render_methods (e : env) (st : table) (ms : list meth) : list rmeth * table :=
  match ms with
  | [] => ([], st)
  | m :: r => let '(x, s1) := render_method e st m in
              let '(xs, s2) := render_methods e s1 r in (x :: xs, s2)
  end.

Definition signature (m : rmeth) : string :=
  sig_text (rm_name m) (map (fun p : string * bool * texpr => let '(n, v, y) := p in (n, v, print y)) (rm_in m))
                       (map (fun p : string * bool * texpr => let '(n, v, y) := p in (n, v, print y)) (rm_out m)).

(* the loop over one embedded interface's methods: methodsToAdd (first-seen, by name) and the
   conflict set ignoreEmbeddedMethodsNamed *)
Definition merge_one {A} (name : A -> string) (st : list A * list string) (m : A)
  : list A * list string :=
  let '(toadd, ign) := st in
  if mem (name m) ign then st
  else if existsb (fun x => String.eqb (name x) (name m)) toadd
       then (filter (fun x => negb (String.eqb (name x) (name m))) toadd, name m :: ign)
       else ((toadd ++ [m])%list, ign).
Definition merge {A} (name : A -> string) (st : list A * list string) (ms : list A) :=
  fold_left (merge_one name) ms st.

Definition visible (priv : bool) (m : meth) : bool := is_meth m && (priv || exported (m_name m)).

Section ToIface.
  Variable e : env.
  Variables priv emb : bool.
  Variable ms_filter : bool.        (* true: current code; false: the pinned code *)

  Fixpoint to_iface_gen (st : table) (t : tree) {struct t} : list rmeth * table :=
    match t with
    | Tr self own embs =>
        let '(_, st1) := extract e st self in
        let '(own', st2) := render_methods e st1 (filter (visible priv) own) in
        if negb emb then (own', st2) else
        let '(acc, st3) :=
          (fix go (acc : list rmeth * list string) (st : table) (l : list tree) {struct l} :=
             match l with
             | [] => (acc, st)
             | f :: r => let '(ms, s1) := to_iface_gen st f in
                         go (merge rm_name acc ms) s1 r
             end) ([], map rm_name own') st2 embs in
        ((own' ++ filter (fun m => negb ms_filter || go_ms t (rm_name m)) (fst acc))%list, st3)
    end.
End ToIface.

Definition to_iface (e : env) (priv emb : bool) := to_iface_gen e priv emb true.
Definition to_iface_orig (e : env) (priv emb : bool) := to_iface_gen e priv emb false.

(* FindInterface: result methods and the handler's active imports *)
Definition handler_env (e : env) (specs : list (string * option string)) : env :=
  with_shadowed e (map i_alias (snd (calc_imports_sh e specs))).
Definition find_interface (e : env) (specs : list (string * option string)) (priv emb : bool)
           (t : tree) : list rmeth * table :=
  let '(ms, st) := to_iface (handler_env e specs) priv emb (calc_imports e specs) t in (ms, active st).

(* ---- names only: the same collection on bare names (what C19_embedded is about) ---- *)
Section Names.
  Variables priv emb : bool.
  Variable ms_filter : bool.
  Definition vis_names (t : tree) : list string :=
    filter (fun n => priv || exported n) (meth_names t).

  Fixpoint iface_names_gen (t : tree) : list string :=
    match t with
    | Tr self own embs =>
        let own' := filter (fun n => priv || exported n) (map m_name (filter is_meth own)) in
        if negb emb then own' else
        let acc := fold_left (fun acc f => merge (fun n : string => n) acc (iface_names_gen f))
                             embs ([], own') in
        (own' ++ filter (fun n => negb ms_filter || go_ms t n) (fst acc))%list
    end.
End Names.
Definition iface_names (priv emb : bool) := iface_names_gen priv emb true.
Definition iface_names_orig (priv emb : bool) := iface_names_gen priv emb false.

(* the selector Go picks for a name: the first embedding level that declares it, as a field or
   as a method (when go_ms holds it is the only declaration at that level, and a method) *)
Fixpoint find_level (fuel : nat) (lvl : list tree) (n : string) : option meth :=
  match flat_map (fun t => filter (fun m => String.eqb (m_name m) n) (t_own t)) lvl with
  | m :: _ => Some m
  | [] => match fuel with O => None | S f => find_level f (flat_map t_emb lvl) n end
  end.
Definition find_decl (t : tree) (n : string) : option meth := find_level (height t) [t] n.

(* ---- specification of the method set, in the property's words, for judging observations:
   own visible methods, plus (IncludeEmbedded) the visible promoted ones — in Go's method set,
   not defined by the type itself, and defined under at most one embedded field ---- *)
Fixpoint all_names (t : tree) : list string :=
  match t with Tr _ own embs => (map m_name own ++ flat_map all_names embs)%list end.

Definition spec_added (priv : bool) (t : tree) (n : string) : bool :=
  (priv || exported n) && go_ms t n && negb (mem n (own_names t)) &&
  Nat.leb (List.length (filter (fun f => go_ms f n) (t_emb t))) 1.

Definition spec_methodb (priv emb : bool) (t : tree) (n : string) : bool :=
  mem n (vis_names priv t) || (emb && spec_added priv t n).

(* ---- what an import line binds (specification of ImportString) ---- *)
(* packages mentioned by a type, with the package name go/types reports for them *)
Fixpoint ty_pkgs (t : ty) : list (string * string) :=
  match t with
  | TBasic _ => []
  | TNamed pkg _ targs =>
      ((match pkg with Some pp => [pp] | None => [] end) ++ flat_map ty_pkgs targs)%list
  | TPtr x | TSlice x | TArray _ x => ty_pkgs x
  | TMap k v => (ty_pkgs k ++ ty_pkgs v)%list
  | TFunc ps _ rs => (flat_map (fun p : pinfo * ty => ty_pkgs (snd p)) ps ++
                      flat_map (fun p : pinfo * ty => ty_pkgs (snd p)) rs)%list
  end.

Fixpoint tree_types (t : tree) : list ty :=
  match t with
  | Tr self own embs =>
      (self :: map (fun m => TFunc (m_ps m) (m_variadic m) (m_rs m)) own ++ flat_map tree_types embs)%list
  end.

(* the name the Go compiler binds for the import line ImportString() prints, given the package
   name [real p] declared in the directory of path p *)
Definition bound_name (real : string -> string) (i : imp) : string :=
  if i_alias_is_pkg i then real (i_path i) else i_alias i.
