(* GSortTmplModel.v — the recursive block of gsort.gotmpl as a term, and its execution (no proofs).

   harness/cmd/xlate_gsort_tmpl regenerates, with text/template/parse, the named template that the
   generated Less invokes (today "PriorityBlock") as a `list tnode`:

     TText s        literal text                     TAcc   {{.Accessor}}
     TStr           {{.String}}                      TRec   {{template "<itself>" .Nest}}
     TIfNest body   {{if .HasNest}} body {{end}}     TUnknown src   anything else

   `exec` runs such a term on a chain of compare lines the way text/template does on the
   lopsided tree PriorityTree builds (the dot is the current line, `.Nest` the rest of the chain,
   `.HasNest` = the rest is not empty, `.String` = CompareLine.String = cl_string).  `tmpl_agrees`
   compares the words of the produced text (gofmt only changes white space) with the words of the
   model's `render_block` on every chain of 1..4 lines over both kinds of key — the tie
   coq/ties/Tie_C08.v evaluates it on the regenerated term.  By C08_text_denotes the text of
   `render_block` denotes the lexicographic order.                                             *)
From Coq Require Import List Bool String Ascii.
From GT Require Import GSortModel.
Import ListNotations.
Local Open Scope string_scope.

Inductive tnode :=
| TText (s : string)
| TAcc
| TStr
| TIfNest (body : list tnode)
| TRec
| TBlock                        (* in the Less body: {{template "<block>" <sorter>.PriorityTree}} *)
| TUnknown (src : string).

(* one node, the dot being line `c` of a chain whose remainder is `rest` *)
Fixpoint exec_node (self : list cmpline -> string) (c : cmpline) (rest : list cmpline) (n : tnode)
  : string :=
  match n with
  | TText s => s
  | TAcc => cl_acc c
  | TStr => cl_string c
  | TIfNest body =>
      match rest with
      | [] => ""
      | _ => (fix go (l : list tnode) : string :=
                match l with [] => "" | x :: r => exec_node self c rest x ++ go r end) body
      end
  | TRec => self rest
  | TBlock => "<block?>"        (* not part of the recursive block itself *)
  | TUnknown _ => "<?>"
  end.
(* one invocation of the template on the chain `cs` (dot = head of cs) *)
Definition exec_nodes (self : list cmpline -> string) (ns : list tnode) (cs : list cmpline) : string :=
  match cs with
  | [] => ""
  | c :: rest => String.concat "" (map (exec_node self c rest) ns)
  end.
(* the recursion through {{template}}: one level per line of the chain *)
Fixpoint exec (fuel : nat) (block : list tnode) (cs : list cmpline) : string :=
  match fuel with
  | O => ""
  | S f => exec_nodes (exec f block) block cs
  end.
Definition exec_block (block : list tnode) (cs : list cmpline) : string :=
  exec (S (List.length cs)) block cs.

(* tokens of a text: maximal runs of characters other than blank, tab, newline, carriage return;
   `{` and `}` each stand alone *)
Definition is_ws (c : ascii) : bool :=
  match c with " "%char | "009"%char | "010"%char | "013"%char => true | _ => false end.
(* braces are tokens of their own (the template writes `{if`, gofmt breaks the line) *)
Definition is_brace (c : ascii) : bool :=
  match c with "{"%char | "}"%char => true | _ => false end.
Fixpoint tokens_acc (cur : string) (s : string) : list string :=
  match s with
  | EmptyString => match cur with EmptyString => [] | _ => [cur] end
  | String c r =>
      if is_ws c then match cur with EmptyString => tokens_acc "" r | _ => cur :: tokens_acc "" r end
      else if is_brace c
           then match cur with
                | EmptyString => String c "" :: tokens_acc "" r
                | _ => cur :: String c "" :: tokens_acc "" r
                end
      else tokens_acc (cur ++ String c "") r
  end.
Definition tokens (s : string) : list string := tokens_acc "" s.

Fixpoint strs_eq (a b : list string) : bool :=
  match a, b with
  | [], [] => true
  | x :: a', y :: b' => String.eqb x y && strs_eq a' b'
  | _, _ => false
  end.

(* all chains of n lines: line k reads accessor Fk (or Fk.String()), bool or ordered *)
Definition mk_line (k : nat) (isbool withacc : bool) : cmpline :=
  let name := "F" ++ String (ascii_of_nat (48 + k)) "" in
  {| cl_isbool := isbool; cl_acc := if withacc then name ++ ".String()" else name; cl_idx := k |}.
Fixpoint chains (n k : nat) : list (list cmpline) :=
  match n with
  | O => [[]]
  | S n' => flat_map (fun tl => [mk_line k false false :: tl; mk_line k true false :: tl;
                                 mk_line k false true :: tl]) (chains n' (S k))
  end.
Definition test_chains : list (list cmpline) :=
  chains 1 0 ++ chains 2 0 ++ chains 3 0 ++ chains 4 0.

(* the whole Less body: literal text, and the block run on the sorter's chain *)
Definition exec_less (body block : list tnode) (cs : list cmpline) : string :=
  String.concat "" (map (fun n => match n with
                                  | TText s => s
                                  | TBlock => exec_block block cs
                                  | _ => "<?>"
                                  end) body).
Definition less_agrees_on (body block : list tnode) (cs : list cmpline) : bool :=
  strs_eq (tokens (exec_less body block cs)) (flat_map tokens (render_block cl_string cs)).
Definition less_agrees (body block : list tnode) : bool :=
  forallb (less_agrees_on body block) test_chains.

Definition agrees_on (block : list tnode) (cs : list cmpline) : bool :=
  strs_eq (tokens (exec_block block cs)) (flat_map tokens (render_block cl_string cs)).
Definition tmpl_agrees (block : list tnode) : bool := forallb (agrees_on block) test_chains.

(* the template as it stands at the time of writing (informational; the tie does not compare
   with it) *)
Definition hand_block : list tnode :=
  [TIfNest [TText "if s[i]."; TAcc; TText " == s[j]."; TAcc; TText " {"; TRec; TText "
}"];
   TText "
return "; TStr].
