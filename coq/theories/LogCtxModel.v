(* LogCtxModel.v — executable model of package log (log/context_utils.go, log/custom_level.go)
   and of go.uber.org/zap v1.25 as far as property C18 sees it.  Definitions only.

   Go source                                   model
   ------------------------------------------  ------------------------------------------------
   zapcore.Core of the global logger            Base lvl fields      (observer / ioCore: a level
     (ioCore, zaptest/observer contextObserver)                        enabler + accumulated context)
   customLevelCoreWrapper{Core, minLevel}       Wrap core lvl
   Core.Enabled                                 enabled
   Core.Check (AddCore of the receiver)         check
   Core.Write (promoted through the wrapper)    write
   Logger.check + CheckedEntry.Write            emit  (the entries an in-memory core captures)
   ioCore.With / contextObserver.With           core_with on Base
   customLevelCoreWrapper.With (ptr receiver)   core_with on Wrap  = re-wrap   (repaired code)
     promoted embedded Core.With (pinned code)  core_with_orig on Wrap = inner core, wrapper lost
   Logger.With(fields...)                       logger_with  (zero fields: the receiver itself)
   CustomLevelLogger = WithOptions(WrapCore)    custom_level
   logHolder (atomic.Pointer[zap.Logger])       index into [store]
   context.Context                              index into [ctxs]; value = option holder
                                                (None = no logHolderKey on the path to the root)
   getOrDefault                                 holder_of / logger_of (default: global logger)
   InitLogger ChildLogger WithFields SetLevel   step (OInit OChild OWith OSetLevel OEnableDebug);
     EnableDebug; context.WithValue/WithCancel   ODerive = any context derived without a holder
   Log                                          log_of
   zap.ReplaceGlobals between operations        OSetGlobal g  (outside the property's operation
                                                list; holder-less contexts follow the new global,
                                                existing holders keep what they were built from;
                                                the "returned" context is a fresh context.TODO())

   Every operation returns a context; the model appends it to [ctxs] (a growing tree of
   contexts, context 0 = context.TODO()).  Fields are identified by a number (the harness
   maps k to a named zap field); levels are zapcore.Level values (Debug=-1 .. Error=2) in Z.
   The machine is parametrised by the core's With so that the pinned behaviour
   ([core_with_orig]) and the repaired one ([core_with]) share every other definition.       *)
From Coq Require Import ZArith List Bool.
From GT Require Import Base.LogConc.
From GT Require Import Base.LogConcCfg.
Import ListNotations.
Local Open Scope Z_scope.

Definition level := Z.
Definition field := N.

Inductive core :=
| Base (lvl : level) (fs : list field)
| Wrap (c : core) (lvl : level).

(* ---- zap as the property sees it ---- *)
Definition enabled (c : core) (l : level) : bool :=
  match c with Base m _ => m <=? l | Wrap _ m => m <=? l end.

(* Write: the wrapper has no Write of its own, the embedded core's is promoted *)
Fixpoint write (c : core) (extra : list field) : list field :=
  match c with Base _ fs => fs ++ extra | Wrap c' _ => write c' extra end.

(* Check adds the receiver itself to the checked entry when the receiver is enabled *)
Definition check (c : core) (l : level) : list core := if enabled c l then [c] else [].

(* Logger.check (early Enabled test for levels below DPanic) then CheckedEntry.Write:
   the list of entries (each its field list) captured for one log call without call fields *)
Definition emit (c : core) (l : level) : list (list field) :=
  if enabled c l then map (fun k => write k []) (check c l) else [].

(* Sync: the wrapper has none of its own, the embedded core's is promoted - it reaches the
   innermost (real) core, as Write does *)
Fixpoint sink (c : core) : core :=
  match c with Base _ _ => c | Wrap c' _ => sink c' end.

(* customLevelCoreWrapper.Level() / zapcore.LevelOf of an ioCore or observer core *)
Definition core_level (c : core) : level := match c with Base m _ => m | Wrap _ m => m end.

(* SetLevel after SetLevel after ...: one wrapper per call, the latest outermost *)
Definition wrap_all (c : core) (ms : list level) : core := fold_left Wrap ms c.

Fixpoint core_with (c : core) (fs : list field) : core :=
  match c with
  | Base l f => Base l (f ++ fs)
  | Wrap c' l => Wrap (core_with c' fs) l
  end.

Fixpoint core_with_orig (c : core) (fs : list field) : core :=
  match c with
  | Base l f => Base l (f ++ fs)
  | Wrap c' _ => core_with_orig c' fs
  end.

Definition is_nil {A} (l : list A) : bool := match l with [] => true | _ => false end.

Section Ops.
  Variable cw : core -> list field -> core.

  Definition logger_with (c : core) (fs : list field) : core :=
    if is_nil fs then c else cw c fs.

  Definition custom_level (c : core) (l : level) : core := Wrap c l.

  Record state := { glob : core; store : list core; ctxs : list (option nat) }.

  Inductive op :=
  | OInit (c : nat) (fs : list field)
  | OChild (c : nat) (fs : list field)
  | OWith (c : nat) (fs : list field)
  | OSetLevel (c : nat) (l : level)
  | OEnableDebug (c : nat)
  | ODerive (c : nat)
  | OSetGlobal (g : core).

  Definition holder_of (st : state) (c : nat) : option nat := nth c (ctxs st) None.

  (* lh.Load() after getOrDefault *)
  Definition logger_of (st : state) (c : nat) : core :=
    match holder_of st c with
    | Some h => nth h (store st) (glob st)
    | None => glob st
    end.

  Definition log_of := logger_of.

  Fixpoint upd {A} (n : nat) (x : A) (l : list A) : list A :=
    match l, n with
    | [], _ => []
    | _ :: t, O => x :: t
    | h :: t, S k => h :: upd k x t
    end.

  (* a fresh holder storing [c], attached to a new context *)
  Definition fresh (st : state) (c : core) : state :=
    {| glob := glob st; store := store st ++ [c];
       ctxs := ctxs st ++ [Some (length (store st))] |}.

  (* Load; derive; store back into the holder the context already has (the returned context
     is the argument itself: same holder), or into the default holder which is then attached *)
  Definition update (st : state) (c : nat) (f : core -> core) : state :=
    match holder_of st c with
    | Some h => {| glob := glob st; store := upd h (f (nth h (store st) (glob st))) (store st);
                   ctxs := ctxs st ++ [Some h] |}
    | None => fresh st (f (glob st))
    end.

  Definition step (st : state) (o : op) : state :=
    match o with
    | OInit _ fs => fresh st (logger_with (glob st) fs)
    | OChild c fs => fresh st (logger_with (logger_of st c) fs)
    | OWith c fs => update st c (fun lg => logger_with lg fs)
    | OSetLevel c l => update st c (fun lg => custom_level lg l)
    | OEnableDebug c => update st c (fun lg => custom_level lg (-1))
    | ODerive c => {| glob := glob st; store := store st; ctxs := ctxs st ++ [holder_of st c] |}
    | OSetGlobal g => {| glob := g; store := store st; ctxs := ctxs st ++ [None] |}
    end.

  Definition init (g : core) : state := {| glob := g; store := []; ctxs := [None] |}.

  Definition run (g : core) (ops : list op) : state := fold_left step ops (init g).
End Ops.


(* ---- specification: what the property says a context logger is ---- *)
(* per holder: the accumulated field list and the level; ChildLogger / InitLogger fork *)
Definition slog := (list field * level)%type.

(* what a core amounts to: its accumulated context and its effective (outermost) level *)
Fixpoint cfields (c : core) : list field :=
  match c with Base _ fs => fs | Wrap c' _ => cfields c' end.
Definition clevel (c : core) : level := match c with Base l _ => l | Wrap _ l => l end.
Definition abs (c : core) : slog := (cfields c, clevel c).


Record sstate := { sglob : slog; sstore : list slog; sctxs : list (option nat) }.

Definition sholder_of (st : sstate) (c : nat) : option nat := nth c (sctxs st) None.
Definition slogger_of (st : sstate) (c : nat) : slog :=
  match sholder_of st c with
  | Some h => nth h (sstore st) (sglob st)
  | None => sglob st
  end.

Definition sfresh (st : sstate) (x : slog) : sstate :=
  {| sglob := sglob st; sstore := sstore st ++ [x];
     sctxs := sctxs st ++ [Some (length (sstore st))] |}.

Definition supdate (st : sstate) (c : nat) (f : slog -> slog) : sstate :=
  match sholder_of st c with
  | Some h => {| sglob := sglob st; sstore := upd h (f (nth h (sstore st) (sglob st))) (sstore st);
                 sctxs := sctxs st ++ [Some h] |}
  | None => sfresh st (f (sglob st))
  end.

Definition add_fields (fs : list field) (x : slog) : slog := (fst x ++ fs, snd x).
Definition set_level (l : level) (x : slog) : slog := (fst x, l).

Definition sstep (st : sstate) (o : op) : sstate :=
  match o with
  | OInit _ fs => sfresh st (add_fields fs (sglob st))
  | OChild c fs => sfresh st (add_fields fs (slogger_of st c))
  | OWith c fs => supdate st c (add_fields fs)
  | OSetLevel c l => supdate st c (set_level l)
  | OEnableDebug c => supdate st c (set_level (-1))
  | ODerive c => {| sglob := sglob st; sstore := sstore st; sctxs := sctxs st ++ [sholder_of st c] |}
  | OSetGlobal g => {| sglob := abs g; sstore := sstore st; sctxs := sctxs st ++ [None] |}
  end.

Definition sinit (g : slog) : sstate := {| sglob := g; sstore := []; sctxs := [None] |}.
Definition srun (g : slog) (ops : list op) : sstate := fold_left sstep ops (sinit g).

(* an entry is emitted exactly at or above the logger's level, carrying exactly its fields *)
Definition semit (x : slog) (l : level) : list (list field) :=
  if snd x <=? l then [fst x] else [].

(* ---- observation of a whole run (used by the judge and the harness) ---- *)
Definition probe_levels : list level := [-1; 0; 1; 2].   (* Debug Info Warn Error *)

Definition probe (c : core) : list (list (list field)) := map (emit c) probe_levels.
Definition sprobe (x : slog) : list (list (list field)) := map (semit x) probe_levels.

(* before the first and after every operation: every context so far, at every level *)
Definition row (st : state) : list (list (list (list field))) :=
  map (fun c => probe (log_of st c)) (seq 0 (length (ctxs st))).
Definition srow (st : sstate) : list (list (list (list field))) :=
  map (fun c => sprobe (slogger_of st c)) (seq 0 (length (sctxs st))).

Fixpoint run_obs (cw : core -> list field -> core) (st : state) (ops : list op)
  : list (list (list (list (list field)))) :=
  row st :: match ops with
            | [] => []
            | o :: rest => run_obs cw (step cw st o) rest
            end.

Fixpoint srun_obs (st : sstate) (ops : list op) : list (list (list (list (list field)))) :=
  srow st :: match ops with
             | [] => []
             | o :: rest => srun_obs (sstep st o) rest
             end.

(* ---- concurrent part: WithFields / SetLevel / ChildLogger on contexts sharing one holder ---- *)
(* CChild fs: ChildLogger(ctx, fs...) - one Load of the shared holder; the derived logger goes
   into a FRESH holder, the shared one is only read *)
Inductive cop := CWith (fs : list field) | CSetLevel (l : level) | CChild (fs : list field).
(* logger.With(fields...) | CustomLevelLogger(logger, level) | nothing (read-only) *)
Inductive fn := FWith | FLevel | FRead.

(* what an operation adds to / sets on the SHARED logger *)
Definition cop_fields (o : cop) : list field := match o with CWith fs => fs | _ => [] end.
Definition cop_level (o : cop) : level := match o with CSetLevel l => l | _ => 0 end.
Definition cop_is_read (o : cop) : bool := match o with CChild _ => true | _ => false end.

Definition cpure (cw : core -> list field -> core) (f : fn) (o : cop) (c : core) : core :=
  match f with
  | FWith => logger_with cw c (cop_fields o)
  | FLevel => custom_level c (cop_level o)
  | FRead => c
  end.
Definition cident (f : fn) (o : cop) : bool :=
  match f with FWith => is_nil (cop_fields o) | FLevel => false | FRead => true end.

(* the shared-memory programs of the three functions.  The translator (harness/cmd/
   xlate_logconc) regenerates control-flow graphs of the atomic operations of WithFields,
   SetLevel and ChildLogger from log/context_utils.go on every check; they are compared with
   these programs by a bisimulation check that is proved sound (Base/LogConcCfgProofs.v) *)
Definition prog_withfields : list (instr fn) := [ILoad; ICas FWith 0].
Definition prog_setlevel : list (instr fn) := [ILoad; ICas FLevel 0].
Definition prog_child : list (instr fn) := [IRead].
Definition prog_withfields_orig : list (instr fn) := [ILoad; IStore FWith].
Definition prog_setlevel_orig : list (instr fn) := [ILoad; IStore FLevel].

Definition cfn (o : cop) : fn := match o with CWith _ => FWith | CSetLevel _ => FLevel | CChild _ => FRead end.
Definition cprog (o : cop) : list (instr fn) :=
  match o with CWith _ => prog_withfields | CSetLevel _ => prog_setlevel | CChild _ => prog_child end.
Definition cprog_orig (o : cop) : list (instr fn) :=
  match o with CWith _ => prog_withfields_orig | CSetLevel _ => prog_setlevel_orig | CChild _ => prog_child end.

(* repaired code *)
Definition crun := LogConc.run cop core fn (cpure core_with) cident cprog.
Definition crun_obs := LogConc.run_obs cop core fn (cpure core_with) cident cprog.
Definition crun_vals := LogConc.run_vals cop core fn (cpure core_with) cident cprog.
(* pinned code: Load; Store, and the With that drops the wrapper *)
Definition crun_orig := LogConc.run cop core fn (cpure core_with_orig) cident cprog_orig.
(* generic in both, for judging an arbitrary tree *)
Definition cinit (c0 : core) (progs : list (list cop)) := LogConc.init_state cop core c0 progs.

(* the loggers of the children created during a run, in the order of their creation (the
   order of the Loads): (goroutine, position of the ChildLogger call in its program), logger *)
Fixpoint children_from (pre : list (nat * cop)) (evs : list ((nat * cop) * core))
  : list ((nat * nat) * core) :=
  match evs with
  | [] => []
  | (to, seen) :: rest =>
      match snd to with
      | CChild fs => [((fst to, length (ops_of cop (fst to) pre)), logger_with core_with seen fs)]
      | _ => []
      end ++ children_from (pre ++ [to]) rest
  end.
Definition crun_children (st0 : mstate cop core) (sched : list nat) : list ((nat * nat) * core) :=
  children_from [] (combine (snd (crun st0 sched)) (crun_vals st0 sched)).

(* sequential meaning of one concurrent operation on the abstract SHARED logger *)
Definition sapply (x : slog) (o : cop) : slog :=
  match o with CWith fs => add_fields fs x | CSetLevel l => set_level l x | CChild _ => x end.

(* the level after the operations in linearisation order: that of the last SetLevel *)
Definition lin_level (tr : list cop) (l0 : level) : level :=
  fold_left (fun l o => match o with CSetLevel l' => l' | _ => l end) tr l0.

(* ---- the graphs the translator regenerates from the source (Base/LogConcCfg.v) ---- *)
Definition fn_eqb (f g : fn) : bool :=
  match f, g with FWith, FWith | FLevel, FLevel | FRead, FRead => true | _, _ => false end.

(* the hand-written programs as graphs *)
Definition hand_graph (o : cop) : list (ginstr fn) := embed fn (cprog o).

(* the machine running per-operation graphs [gp] (the regenerated ones) *)
Definition gcrun (gp : cop -> list (ginstr fn)) := grun cop core fn (cpure core_with) cident gp.
Definition gcrun_obs (gp : cop -> list (ginstr fn)) := grun_obs cop core fn (cpure core_with) cident gp.

(* what ./check C18 evaluates on the regenerated graphs: bisimilar to the hand-written programs *)
Definition tie_ok (gp : cop -> list (ginstr fn)) : bool :=
  prog_equiv fn fn_eqb (gp (CWith [])) (hand_graph (CWith []))
  && prog_equiv fn fn_eqb (gp (CSetLevel 0)) (hand_graph (CSetLevel 0))
  && prog_equiv fn fn_eqb (gp (CChild [])) (hand_graph (CChild [])).
