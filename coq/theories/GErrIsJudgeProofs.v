(* GErrIsJudgeProofs.v — the executable specification the C06 judge applies (GErrHist: spec_ops,
   spec_cells, spec_is, spec_extract; GErrIsJudge: c06_spec_ok) connected to the model
   (GErrModel: call, errors_is, extract_fref) by theorems.

   The judge's bookkeeping ([binfo]) is computed from the HISTORY alone; the property theorems of
   Props/C06.v speak of [origin] (read off the back-references the code maintains).  Here:

   1. [hist_invariant] / [c06_invariant]: along ANY history of ANY pool the bookkeeping and the
      store agree cell by cell ([cell_inv]): originating factory, "is a pool factory", FactoryOf
      marker, the converted foreign error; the expected result cells are the model's ([res_ok]).
   2. [spec_is_sound]: whatever [spec_is] claims about errors.Is(x, y) is what the model computes.
   3. [model_no_panic*]: errors.Is never panics / runs out of fuel on the judged pairs.
   4. [spec_extract_sound]: whatever [spec_extract] claims is what the model computes.
   5. [c06_model_satisfies_spec] / [c06_model_judged_ok]: the model's own observations satisfy
      [c06_spec_ok] (judge verdict 0); [siblings_end_to_end]: two chains from one factory.

   Admissibility of a history is an executable boolean over (pool kinds, foreign list, history):
   [ops_admb] / [ops_adm], with its reading in model terms [ops_adm_at] ([ops_admb_sound]).   *)
From Coq Require Import NArith List Bool Lia PeanoNat.
From GT Require Import Base.GErrStr.
From GT Require Import GErrModel GErrSpec GErrProofs GErrHist GErrIsProofs GErrHistProofs GErrIsJudge.
Import ListNotations.

(* ================================================================ admissible histories *)
Definition is_some {A} (o : option A) : bool := match o with Some _ => true | None => false end.

(* the kind of a cell: true = an extension struct (handed out as VX), false = a bare *GError *)
Definition cell_kind (c : cell) : bool := is_some (c_x c).
Definition kinds_of (st : store) : list bool := map cell_kind st.

(* [chain_ok] over the kinds only *)
Fixpoint chain_okk (kinds : list bool) (v : val) : bool :=
  match v with
  | VNil => true
  | VF _ _ _ u => chain_okk kinds u
  | VG i => Nat.ltb i (length kinds)
  | VX i => Nat.ltb i (length kinds) && nth i kinds false
  end.

(* the receiver of a method call: a cell as handed out, or the embedded pointer of a cell *)
Definition recv_admb (kinds : list bool) (r : vref) : bool :=
  match r with RC i | RE i => Nat.ltb i (length kinds) | _ => false end.

(* the error argument: nil, an existing cell, or a foreign error whose Unwrap chain ends in nil or
   in an existing cell *)
Definition ref_admb (kinds : list bool) (fs : list val) (r : vref) : bool :=
  match r with
  | RNil => true
  | RC i | RE i => Nat.ltb i (length kinds)
  | RF k => match nth k fs VNil with
            | VNil => true
            | VF _ _ _ u => chain_okk kinds u
            | _ => false
            end
  end.

(* the kind of the cell a call on receiver [r] allocates: methods of the generated type return
   the generated type, methods reached through the embedded pointer return *GError *)
Definition new_kind (kinds : list bool) (r : vref) : bool :=
  match r with RC i => nth i kinds false | _ => false end.

Fixpoint ops_admb (kinds : list bool) (fs : list val) (ops : list hstep) : bool :=
  match ops with
  | [] => true
  | HFac i :: rest => Nat.ltb i (length kinds) && ops_admb kinds fs rest
  | HOp o :: rest =>
      recv_admb kinds (o_recv o) && ref_admb kinds fs (o_err o)
      && ops_admb (if is_convert (o_m o) && is_some (ref_cell (o_err o)) then kinds
                   else kinds ++ [new_kind kinds (o_recv o)]) fs rest
  end.

Definition kinds0 (roots : list c06_root) : list bool := map (fun r => is_some (r_ext r)) roots.

(* executable admissibility of a judged history: every receiver is an existing cell, every error
   argument exists when it is used, FactoryOf is applied to existing cells *)
Definition ops_adm (roots : list c06_root) (fs : list val) (ops : list hstep) : bool :=
  ops_admb (kinds0 roots) fs ops.

(* the same in model terms, along the run of the history *)
Fixpoint ops_adm_at (st : store) (fs : list val) (ops : list hstep) : Prop :=
  match ops with
  | [] => True
  | HFac i :: rest => i < length st /\ ops_adm_at (set_isfac st i) fs rest
  | HOp o :: rest =>
      (exists i, ref_cell (o_recv o) = Some i /\ gv st (resolve st fs (o_recv o)) = Some i)
      /\ admissible st (resolve st fs (o_err o))
      /\ match call ext_wiring st (resolve st fs (o_recv o)) (o_m o) (op_args st fs o) with
         | Some (st', _) => ops_adm_at st' fs rest
         | None => True
         end
  end.

(* c06_domain, conjuncts 1 and 2 *)
Definition roots_ok (roots : list c06_root) : bool :=
  forallb (fun r => match r_ext r with Some _ => r_isfac r | None => true end) roots.
Definition fs_vf (fs : list val) : bool :=
  forallb (fun v => match v with VF _ _ _ _ => true | _ => false end) fs.

(* every foreign error of the case is admissible in (final) store [st] *)
Definition fs_admb (st : store) (fs : list val) : bool :=
  forallb (fun v => match v with VF _ _ _ u => chain_ok st u | _ => false end) fs.

(* ================================================================ small facts *)
Lemma gv_lt st v i : gv st v = Some i -> i < length st.
Proof. intros G. destruct (gv_cell _ _ _ G) as [c [E _]]. apply nth_error_Some. congruence. Qed.

Lemma gv_VG st i : i < length st -> gv st (VG i) = Some i.
Proof.
  intros L. simpl. destruct (nth_error st i) eqn:E; [reflexivity|].
  apply nth_error_None in E. lia.
Qed.

Lemma gv_val_of_lt st i : i < length st -> gv st (val_of st i) = Some i.
Proof.
  intros L. destruct (nth_error st i) as [c|] eqn:E; [exact (gv_val_of st i c E)|].
  apply nth_error_None in E. lia.
Qed.

Lemma resolve_cell_gv st fs r i :
  ref_cell r = Some i -> i < length st -> gv st (resolve st fs r) = Some i.
Proof.
  destruct r; simpl; try discriminate; intros H; injection H as ->; intros L.
  - apply gv_val_of_lt. exact L.
  - apply gv_VG. exact L.
Qed.

Lemma as_gerror_val_of st i : as_gerror (val_of st i) = Some i.
Proof. unfold val_of. destruct (nth_error st i) as [c|]; [destruct (c_x c)|]; reflexivity. Qed.

Lemma as_gerror_resolve st fs r i : ref_cell r = Some i -> as_gerror (resolve st fs r) = Some i.
Proof.
  destruct r; simpl; try discriminate; intros H; injection H as ->; [|reflexivity].
  apply as_gerror_val_of.
Qed.

Lemma nth_fs_vf fs k : fs_vf fs = true ->
  nth k fs VNil = VNil \/ exists t c p u, nth k fs VNil = VF t c p u.
Proof.
  intros H. destruct (Nat.lt_ge_cases k (length fs)) as [L|L].
  - right. unfold fs_vf in H. rewrite forallb_forall in H.
    specialize (H (nth k fs VNil) (nth_In _ _ L)).
    destruct (nth k fs VNil); try discriminate; eauto.
  - left. apply nth_overflow. exact L.
Qed.

Lemma is_gerr_resolve st fs r :
  fs_vf fs = true -> is_gerr_val (resolve st fs r) = is_some (ref_cell r).
Proof.
  intros V. destruct r; simpl; try reflexivity.
  - unfold val_of. destruct (nth_error st i) as [c|]; [destruct (c_x c)|]; reflexivity.
  - destruct (nth_fs_vf fs k V) as [->|[t [c [p [u ->]]]]]; reflexivity.
Qed.

Lemma base_guard m : w_guard (base_wiring m) = is_convert m.
Proof. destruct m; reflexivity. Qed.
Lemma ext_guard m : w_guard (ext_wiring m) = is_convert m.
Proof. destruct m; reflexivity. Qed.
Lemma wt_guard v m : w_guard (wt_of ext_wiring v m) = is_convert m.
Proof. destruct v, m; reflexivity. Qed.
Lemma eval_serr_base a m :
  eval_e a (w_serr (base_wiring m)) = if is_convert m then a_err a else VNil.
Proof. destruct m; reflexivity. Qed.
Lemma eval_serr_ext a m :
  eval_e a (w_serr (ext_wiring m)) = if is_convert m then a_err a else VNil.
Proof. destruct m; reflexivity. Qed.

Lemma clone_fref g i ep w a :
  g_fref (apply_wiring w g (VG i) ep a) = if is_nil (g_fref g) then VG i else g_fref g.
Proof.
  destruct (clone_fields w g (VG i) ep a) as [Hf _]. rewrite Hf.
  destruct (is_nil (g_fref g)) eqn:N; simpl; [reflexivity|]. rewrite N. reflexivity.
Qed.

(* a call that is not the early return of Convert: exactly one fresh cell, described in full *)
Lemma call_fresh st v m a st' r i ci :
  gv st v = Some i -> nth_error st i = Some ci ->
  is_convert m && is_gerr_val (a_err a) = false ->
  call ext_wiring st v m a = Some (st', r) ->
  exists c', st' = st ++ [c'] /\ as_gerror r = Some (length st)
    /\ g_fref (c_g c') = (if is_nil (g_fref (c_g ci)) then VG i else g_fref (c_g ci))
    /\ g_serr (c_g c')
       = serr_after (g_serr (c_g ci)) (if is_convert m then a_err a else VNil)
    /\ g_later (c_g c')
       = later_after (g_serr (c_g ci)) (g_later (c_g ci)) (if is_convert m then a_err a else VNil)
    /\ g_isfac (c_g c') = false
    /\ cell_kind c' = (match v with VX _ => true | _ => false end).
Proof.
  intros G Ei Gd H.
  destruct v as [|k|k|]; simpl in G, H; try discriminate.
  - destruct (nth_error st k) as [c|] eqn:E; [|discriminate]. injection G as ->.
    rewrite Ei in E. injection E as <-. rewrite base_guard, Gd in H. injection H as <- <-.
    eexists. split; [reflexivity|]. split; [reflexivity|]. simpl.
    destruct (clone_fields (base_wiring m) (c_g ci) (VG i) (VG i) a) as [_ [Hs [Hl Hi]]].
    rewrite clone_fref, Hs, Hl, Hi, eval_serr_base. repeat split; reflexivity.
  - destruct (nth_error st k) as [c|] eqn:E; [|discriminate].
    destruct (c_x c) as [x|] eqn:X; [|discriminate]. injection G as ->.
    rewrite Ei in E. injection E as <-. rewrite ext_guard, Gd in H. injection H as <- <-.
    eexists. split; [reflexivity|]. split; [reflexivity|]. simpl.
    destruct (clone_fields (ext_wiring m) (c_g ci) (VG i) (VX i) a) as [_ [Hs [Hl Hi]]].
    rewrite clone_fref, Hs, Hl, Hi, eval_serr_ext. repeat split; reflexivity.
Qed.

Lemma length_set_isfac st : forall i, length (set_isfac st i) = length st.
Proof. induction st as [|c r IH]; intros [|i]; simpl; auto. Qed.

Lemma kinds_set_isfac st : forall i, kinds_of (set_isfac st i) = kinds_of st.
Proof.
  induction st as [|c r IH]; intros [|i]; simpl; try reflexivity.
  unfold kinds_of in IH. rewrite IH. reflexivity.
Qed.

Lemma origin_set_isfac st i k : origin (set_isfac st i) k = origin st k.
Proof.
  unfold origin. rewrite nth_error_set_isfac.
  destruct (Nat.eqb k i); [destruct (nth_error st k); reflexivity|reflexivity].
Qed.

Lemma length_mark_fac infos : forall i, length (mark_fac infos i) = length infos.
Proof. induction infos as [|b r IH]; intros [|i]; simpl; auto. Qed.

Definition fac_info (b : binfo) : binfo :=
  mkB (b_orig b) (b_root b) true (b_conv b) (b_conv_before b).

Lemma nth_mark_fac infos : forall i k, i < length infos ->
  nth k (mark_fac infos i) dummy_info
  = if Nat.eqb k i then fac_info (nth k infos dummy_info) else nth k infos dummy_info.
Proof.
  induction infos as [|b r IH]; intros i k L; simpl in L; [lia|].
  destruct i as [|i], k as [|k]; simpl; try reflexivity. apply IH. lia.
Qed.

(* ================================================================ 1. the invariant *)
(* cell k of the store against the k-th bookkeeping entry *)
Record cell_inv (nroots : nat) (fs : list val) (st : store) (k : nat) (c : cell) (b : binfo)
  : Prop := mkCI {
  ci_orig : origin st k = b_orig b;                       (* the originating factory *)
  ci_orig_root : b_orig b < nroots;                       (* ... is a pool factory *)
  ci_root : b_root b = Nat.ltb k nroots;                  (* roots stay roots, nothing else is *)
  ci_fref : is_nil (g_fref (c_g c)) = Nat.ltb k nroots;   (* no back-reference <-> pool factory *)
  ci_isfac : b_isfac b = g_isfac (c_g c);                 (* FactoryOf marker *)
  (* the result of Convert(S)(foreign f) matches that foreign error when it is comparable *)
  ci_conv : forall f t p u, b_conv b = Some f -> nth f fs VNil = VF t true p u ->
            conv_match (c_g c) (VF t true p u) = true }.

Record hinv (nroots : nat) (fs : list val) (st : store) (infos : list binfo) : Prop := mkHI {
  hi_len : length infos = length st;
  hi_roots : nroots <= length st;
  hi_reach : reachable ext_wiring st;
  hi_cells : forall k c, nth_error st k = Some c ->
             cell_inv nroots fs st k c (nth k infos dummy_info) }.

Lemma hinv_wf n fs st infos : hinv n fs st infos -> wf st.
Proof. intros H. exact (reachable_wf ext_wiring st ext_wiring_guarded (hi_reach _ _ _ _ H)). Qed.

(* ---- the pool *)
Lemma infos0_length rs : forall s, length (infos0 s rs) = length rs.
Proof. induction rs as [|r rs IH]; intros s; simpl; [reflexivity|]. rewrite IH. reflexivity. Qed.

Lemma infos0_nth rs : forall s k r, nth_error rs k = Some r ->
  nth k (infos0 s rs) dummy_info = mkB (s + k) true (r_isfac r) None false.
Proof.
  induction rs as [|r0 rs IH]; intros s k r H; destruct k as [|k]; simpl in *; try discriminate.
  - injection H as ->. rewrite Nat.add_0_r. reflexivity.
  - rewrite (IH (S s) k r H). replace (s + S k) with (S s + k) by lia. reflexivity.
Qed.

Lemma st0_root_cells roots :
  roots_ok roots = true -> Forall root_cell (map root_cell_of roots).
Proof.
  intros R. rewrite Forall_forall. intros c Hc. apply in_map_iff in Hc as [r [<- Hr]].
  unfold roots_ok in R. rewrite forallb_forall in R. specialize (R r Hr).
  unfold root_cell. simpl. repeat split. intros x Hx. rewrite Hx in R. exact R.
Qed.

Lemma hinv_init roots fs :
  roots_ok roots = true ->
  hinv (length roots) fs (map root_cell_of roots) (infos0 0 roots).
Proof.
  intros R. split.
  - rewrite infos0_length, map_length. reflexivity.
  - rewrite map_length. lia.
  - apply reach_pool. apply st0_root_cells. exact R.
  - intros k c E. rewrite nth_error_map in E.
    destruct (nth_error roots k) as [r|] eqn:Er; [|discriminate]. simpl in E. injection E as <-.
    assert (L : k < length roots) by (apply nth_error_Some; congruence).
    rewrite (infos0_nth roots 0 k r Er). split; simpl.
    + apply (origin_root _ k (root_cell_of r)); [|reflexivity].
      rewrite nth_error_map, Er. reflexivity.
    + exact L.
    + symmetry. apply Nat.ltb_lt. exact L.
    + symmetry. apply Nat.ltb_lt. exact L.
    + reflexivity.
    + intros; discriminate.
Qed.

(* ---- a method call that allocates *)
Lemma cell_inv_extend n fs st c' k c b :
  k < length st -> cell_inv n fs st k c b -> cell_inv n fs (st ++ [c']) k c b.
Proof.
  intros L [H1 H2 H3 H4 H5 H6]. split; auto. rewrite origin_extend by exact L. exact H1.
Qed.

Lemma hinv_fresh n fs st infos v m a st' r i ci conv cb :
  hinv n fs st infos ->
  gv st v = Some i -> nth_error st i = Some ci -> admissible st (a_err a) ->
  is_convert m && is_gerr_val (a_err a) = false ->
  call ext_wiring st v m a = Some (st', r) ->
  (forall f, conv = Some f -> is_convert m = true /\ a_err a = nth f fs VNil) ->
  hinv n fs st' (infos ++ [mkB (b_orig (nth i infos dummy_info)) false false conv cb])
  /\ as_gerror r = Some (length st) /\ length st' = S (length st)
  /\ kinds_of st' = kinds_of st ++ [match v with VX _ => true | _ => false end].
Proof.
  intros H G Ei Adm Gd C Hconv.
  pose proof (hinv_wf _ _ _ _ H) as W.
  destruct H as [HL HR HRe HC].
  destruct (call_fresh st v m a st' r i ci G Ei Gd C) as [c' [-> [Ar [Hf [Hs [Hl [Hi Hk]]]]]]].
  pose proof (HC i ci Ei) as [Io Ior Ir Ifr Iis Icv].
  split; [|split; [exact Ar|split; [rewrite app_length; simpl; lia|]]].
  2:{ unfold kinds_of. rewrite map_app. simpl. rewrite Hk. reflexivity. }
  split.
  - rewrite !app_length, HL. reflexivity.
  - rewrite app_length. lia.
  - exact (reach_call ext_wiring st v m a _ r HRe Adm C).
  - intros k c Ek. apply nth_error_snoc_inv in Ek as [[Lk Ek]|[-> ->]].
    + rewrite app_nth1 by (rewrite HL; exact Lk).
      apply cell_inv_extend; [exact Lk|]. exact (HC k c Ek).
    + rewrite app_nth2 by (rewrite HL; lia). rewrite HL, Nat.sub_diag. simpl nth.
      assert (Ge : Nat.ltb (length st) n = false) by (apply Nat.ltb_ge; exact HR).
      split; simpl.
      * unfold origin. rewrite nth_error_app2, Nat.sub_diag by lia. simpl. rewrite Hf.
        destruct (W i ci Ei) as [Fi _ _ _ | o co Fi _ _ _ _ _ _ _].
        -- rewrite Fi. simpl. rewrite <- Io. exact (eq_sym (origin_root st i ci Ei Fi)).
        -- rewrite Fi. simpl. rewrite <- Io. exact (eq_sym (origin_der st i ci o Ei Fi)).
      * exact Ior.
      * symmetry. exact Ge.
      * rewrite Hf, Ge. destruct (is_nil (g_fref (c_g ci))) eqn:N; [reflexivity|exact N].
      * symmetry. exact Hi.
      * intros f t p u Hc Hn. destruct (Hconv f Hc) as [Cm Ea].
        unfold conv_match. rewrite Hs, Hl, Cm, Ea, Hn.
        exact (conv_after_comparable (g_serr (c_g ci)) (g_later (c_g ci)) t p u).
Qed.

(* ---- FactoryOf on an existing cell *)
Lemma hinv_fac n fs st infos i :
  hinv n fs st infos -> i < length st -> hinv n fs (set_isfac st i) (mark_fac infos i).
Proof.
  intros [HL HR HRe HC] Li. split.
  - rewrite length_mark_fac, length_set_isfac. exact HL.
  - rewrite length_set_isfac. exact HR.
  - apply reach_factory_of. exact HRe.
  - intros k c Ek. rewrite nth_error_set_isfac in Ek.
    rewrite nth_mark_fac by (rewrite HL; exact Li).
    destruct (Nat.eqb k i) eqn:Eki.
    + destruct (nth_error st k) as [c0|] eqn:E0; [|discriminate]. simpl in Ek. injection Ek as <-.
      destruct (HC k c0 E0) as [H1 H2 H3 H4 H5 H6].
      split; simpl; auto. rewrite origin_set_isfac. exact H1.
    + destruct (HC k c Ek) as [H1 H2 H3 H4 H5 H6].
      split; auto. rewrite origin_set_isfac. exact H1.
Qed.

(* ---- any history *)
Theorem hist_invariant n fs : fs_vf fs = true -> forall ops st infos st' res infos' exp,
  hinv n fs st infos -> ops_adm_at st fs ops ->
  run_ops ext_wiring st fs ops = Some (st', res) -> spec_ops infos ops = (infos', exp) ->
  hinv n fs st' infos' /\ res_ok exp res = true /\ length st <= length st'.
Proof.
  intros V. induction ops as [|[o|i] rest IH]; intros st infos st' res infos' exp H A R S.
  - simpl in R, S. injection R as <- <-. injection S as <- <-. auto.
  - (* a method call *)
    simpl in A. destruct A as [[i [Rc Gv]] [Adm Anext]].
    cbn [run_ops] in R. cbn [spec_ops] in S. rewrite Rc in S.
    pose proof (is_gerr_resolve st fs (o_err o) V) as Ig.
    change (match ref_cell (o_err o) with Some _ => true | None => false end)
      with (is_some (ref_cell (o_err o))) in S.
    destruct (gv_cell _ _ _ Gv) as [ci [Ei _]].
    destruct (is_convert (o_m o) && is_some (ref_cell (o_err o))) eqn:Gd.
    + (* Convert of a value that already is a gerror error *)
      apply andb_true_iff in Gd as [Cm Sj].
      assert (Ge : is_gerr_val (a_err (op_args st fs o)) = true) by (simpl; rewrite Ig; exact Sj).
      assert (Gw : w_guard (wt_of ext_wiring (resolve st fs (o_recv o)) (o_m o)) = true)
        by (rewrite wt_guard; exact Cm).
      rewrite (call_convert_idem ext_wiring st _ (o_m o) (op_args st fs o) i Gv Gw Ge) in R, Anext.
      destruct (ref_cell (o_err o)) as [j|] eqn:Rj; [|discriminate].
      simpl a_err in R. rewrite (as_gerror_resolve st fs (o_err o) j Rj) in R.
      destruct (run_ops ext_wiring st fs rest) as [[st2 ks]|] eqn:R2; [|discriminate].
      injection R as <- <-.
      destruct (spec_ops infos rest) as [inf rs] eqn:S2. injection S as <- <-.
      destruct (IH st infos st2 ks inf rs H Anext R2 S2) as [H2 [Ro Le]].
      split; [exact H2|]. split; [|exact Le]. simpl. rewrite Nat.eqb_refl. exact Ro.
    + (* a fresh cell *)
      assert (Gd' : is_convert (o_m o) && is_gerr_val (a_err (op_args st fs o)) = false)
        by (simpl; rewrite Ig; exact Gd).
      destruct (call ext_wiring st (resolve st fs (o_recv o)) (o_m o) (op_args st fs o))
        as [[st1 v1]|] eqn:C; [|discriminate].
      set (conv := if is_convert (o_m o) then match o_err o with RF k => Some k | _ => None end
                   else None) in S.
      set (cb := b_conv_before (nth i infos dummy_info)
                 || match b_conv (nth i infos dummy_info) with Some _ => true | None => false end) in S.
      assert (Hconv : forall f, conv = Some f ->
                is_convert (o_m o) = true /\ a_err (op_args st fs o) = nth f fs VNil).
      { intros f Hf. unfold conv in Hf. destruct (is_convert (o_m o)); [|discriminate].
        split; [reflexivity|]. simpl a_err. destruct (o_err o); try discriminate.
        injection Hf as ->. reflexivity. }
      destruct (hinv_fresh n fs st infos (resolve st fs (o_recv o)) (o_m o) (op_args st fs o)
                  st1 v1 i ci conv cb H Gv Ei Adm Gd' C Hconv)
        as [H1 [Ar [L1 _]]].
      rewrite Ar in R.
      destruct (run_ops ext_wiring st1 fs rest) as [[st2 ks]|] eqn:R2; [|discriminate].
      injection R as <- <-.
      destruct (spec_ops (infos ++ [mkB (b_orig (nth i infos dummy_info)) false false conv cb]) rest)
        as [inf rs] eqn:S2.
      injection S as <- <-.
      destruct (IH st1 _ st2 ks inf rs H1 Anext R2 S2) as [H2 [Ro Le]].
      split; [exact H2|]. split; [|lia]. simpl.
      rewrite (hi_len _ _ _ _ H), Nat.eqb_refl. exact Ro.
  - (* FactoryOf *)
    simpl in A. destruct A as [Li Anext]. cbn [run_ops] in R. cbn [spec_ops] in S.
    destruct (nth_error st i) as [c0|] eqn:E0; [|discriminate].
    destruct (run_ops ext_wiring (set_isfac st i) fs rest) as [[st2 ks]|] eqn:R2; [|discriminate].
    injection R as <- <-.
    destruct (spec_ops (mark_fac infos i) rest) as [inf rs] eqn:S2. injection S as <- <-.
    destruct (IH _ _ st2 ks inf rs (hinv_fac n fs st infos i H Li) Anext R2 S2) as [H2 [Ro Le]].
    split; [exact H2|]. split; [|rewrite length_set_isfac in Le; exact Le].
    simpl. rewrite Nat.eqb_refl. exact Ro.
Qed.

(* ---- the executable admissibility implies the one in model terms *)
Lemma nth_kinds st i c : nth_error st i = Some c -> nth i (kinds_of st) false = cell_kind c.
Proof.
  intros E. unfold kinds_of. apply nth_error_nth. rewrite nth_error_map, E. reflexivity.
Qed.

Lemma length_kinds st : length (kinds_of st) = length st.
Proof. unfold kinds_of. apply map_length. Qed.

Lemma chain_okk_sound st v : chain_okk (kinds_of st) v = chain_ok st v.
Proof.
  induction v as [|i|i|t c p u IH]; simpl; auto.
  - rewrite length_kinds. destruct (nth_error st i) eqn:E.
    + apply Nat.ltb_lt. apply nth_error_Some. congruence.
    + apply Nat.ltb_ge. apply nth_error_None. exact E.
  - rewrite length_kinds. destruct (nth_error st i) as [c|] eqn:E.
    + assert (L : i < length st) by (apply nth_error_Some; congruence).
      apply Nat.ltb_lt in L. rewrite L, (nth_kinds st i c E). simpl.
      unfold cell_kind. destruct (c_x c); reflexivity.
    + apply nth_error_None in E. apply Nat.ltb_ge in E. rewrite E. reflexivity.
Qed.

Lemma kinds0_st0 roots : kinds_of (map root_cell_of roots) = kinds0 roots.
Proof. unfold kinds_of, kinds0. rewrite map_map. reflexivity. Qed.

Lemma ref_admb_sound st fs r :
  ref_admb (kinds_of st) fs r = true -> admissible st (resolve st fs r).
Proof.
  intros H. destruct r as [|j|j|k]; simpl in *.
  - left; reflexivity.
  - right; left. exists j. apply gv_val_of_lt. apply Nat.ltb_lt in H.
    rewrite length_kinds in H. exact H.
  - right; left. exists j. apply gv_VG. apply Nat.ltb_lt in H.
    rewrite length_kinds in H. exact H.
  - destruct (nth k fs VNil) as [| | |t c p u]; try discriminate; [left; reflexivity|].
    right; right. exists t, c, p, u. split; [reflexivity|]. rewrite <- chain_okk_sound. exact H.
Qed.

Lemma new_kind_sound st fs r i ci : ref_cell r = Some i -> nth_error st i = Some ci ->
  (match resolve st fs r with VX _ => true | _ => false end) = new_kind (kinds_of st) r.
Proof.
  destruct r; simpl; try discriminate; intros H E; injection H as ->; [|reflexivity].
  rewrite (nth_kinds st i ci E). unfold val_of. rewrite E. unfold cell_kind.
  destruct (c_x ci); reflexivity.
Qed.

Theorem ops_admb_sound fs : fs_vf fs = true -> forall ops st,
  ops_admb (kinds_of st) fs ops = true -> ops_adm_at st fs ops.
Proof.
  intros V. induction ops as [|[o|i] rest IH]; intros st H; simpl in H |- *.
  - exact I.
  - apply andb_true_iff in H as [H Hn]. apply andb_true_iff in H as [Hr He].
    assert (Rc : exists i, ref_cell (o_recv o) = Some i /\ i < length st).
    { destruct (o_recv o) as [|j|j|j]; simpl in Hr; try discriminate;
        apply Nat.ltb_lt in Hr; rewrite length_kinds in Hr;
        (exists j; split; [reflexivity|exact Hr]). }
    destruct Rc as [i [Rc Li]].
    pose proof (resolve_cell_gv st fs (o_recv o) i Rc Li) as Gv.
    split; [eauto|]. split; [apply ref_admb_sound; exact He|].
    destruct (call ext_wiring st (resolve st fs (o_recv o)) (o_m o) (op_args st fs o))
      as [[st1 v1]|] eqn:C; [|exact I].
    pose proof (is_gerr_resolve st fs (o_err o) V) as Ig.
    destruct (gv_cell _ _ _ Gv) as [ci [Ei _]].
    destruct (is_convert (o_m o) && is_some (ref_cell (o_err o))) eqn:Gd.
    + apply andb_true_iff in Gd as [Cm Sj].
      assert (Ge : is_gerr_val (a_err (op_args st fs o)) = true) by (simpl; rewrite Ig; exact Sj).
      assert (Gw : w_guard (wt_of ext_wiring (resolve st fs (o_recv o)) (o_m o)) = true)
        by (rewrite wt_guard; exact Cm).
      rewrite (call_convert_idem ext_wiring st _ (o_m o) (op_args st fs o) i Gv Gw Ge) in C.
      injection C as <- _. apply IH. exact Hn.
    + assert (Gd' : is_convert (o_m o) && is_gerr_val (a_err (op_args st fs o)) = false)
        by (simpl; rewrite Ig; exact Gd).
      destruct (call_fresh st _ _ _ st1 v1 i ci Gv Ei Gd' C) as [c' [-> [_ [_ [_ [_ [_ Hk]]]]]]].
      apply IH. unfold kinds_of at 1. rewrite map_app. simpl map.
      rewrite Hk, (new_kind_sound st fs (o_recv o) i ci Rc Ei). exact Hn.
  - apply andb_true_iff in H as [Li Hn]. apply Nat.ltb_lt in Li. rewrite length_kinds in Li.
    split; [exact Li|]. apply IH. rewrite kinds_set_isfac. exact Hn.
Qed.

(* ---- 1. the invariant, for the judged setting: any pool, any foreign list, any history *)
Theorem c06_invariant roots fs ops st res infos exp :
  roots_ok roots = true -> fs_vf fs = true -> ops_adm roots fs ops = true ->
  run_ops ext_wiring (map root_cell_of roots) fs ops = Some (st, res) ->
  spec_ops (infos0 0 roots) ops = (infos, exp) ->
  hinv (length roots) fs st infos /\ res_ok exp res = true.
Proof.
  intros R V A Run Sp.
  assert (A' : ops_adm_at (map root_cell_of roots) fs ops).
  { apply (ops_admb_sound fs V). rewrite kinds0_st0. exact A. }
  destruct (hist_invariant (length roots) fs V ops _ _ st res infos exp (hinv_init roots fs R) A' Run Sp)
    as [H [Ro _]].
  split; assumption.
Qed.

(* ================================================================ judged references *)
(* the references the errors.Is matrix ranges over *)
Definition ref_in (st : store) (fs : list val) (x : vref) : Prop :=
  match x with RNil => True | RC i | RE i => i < length st | RF k => k < length fs end.

Lemma all_refs_in st fs embs x :
  (forall i, In i embs -> i < length st) ->
  In x (all_refs (length st) embs (length fs)) -> ref_in st fs x.
Proof.
  intros He Hx. unfold all_refs in Hx. rewrite !in_app_iff in Hx.
  destruct Hx as [Hx|[Hx|[Hx|Hx]]].
  - apply in_map_iff in Hx as [i [<- Hi]]. apply in_seq in Hi. simpl. lia.
  - apply in_map_iff in Hx as [i [<- Hi]]. simpl. apply He. exact Hi.
  - apply in_map_iff in Hx as [i [<- Hi]]. apply in_seq in Hi. simpl. lia.
  - destruct Hx as [<-|[]]. exact I.
Qed.

Lemma ref_in_cell st fs x a : ref_in st fs x -> ref_cell x = Some a -> a < length st.
Proof. destruct x; simpl; try discriminate; intros L H; injection H as <-; exact L. Qed.

Lemma ref_cell_none x : ref_cell x = None -> x = RNil \/ exists k, x = RF k.
Proof. destruct x; simpl; try discriminate; eauto. Qed.

Lemma fs_admb_vf st fs : fs_admb st fs = true -> fs_vf fs = true.
Proof.
  unfold fs_admb, fs_vf. rewrite !forallb_forall. intros H v Hv. specialize (H v Hv).
  destruct v; try discriminate; reflexivity.
Qed.

Lemma fs_adm_nth st fs k : fs_admb st fs = true -> k < length fs ->
  exists t c p u, nth k fs VNil = VF t c p u /\ chain_ok st u = true.
Proof.
  unfold fs_admb. rewrite forallb_forall. intros H L. specialize (H (nth k fs VNil) (nth_In _ _ L)).
  destruct (nth k fs VNil) as [| | |t c p u]; try discriminate. eauto 10.
Qed.

Lemma resolve_adm st fs x :
  fs_admb st fs = true -> ref_in st fs x -> admissible st (resolve st fs x).
Proof.
  intros FA R. destruct x as [|i|i|k]; simpl in *.
  - left; reflexivity.
  - right; left. exists i. apply gv_val_of_lt. exact R.
  - right; left. exists i. apply gv_VG. exact R.
  - destruct (fs_adm_nth st fs k FA R) as [t [c [p [u [-> P]]]]]. right; right. eauto 10.
Qed.

(* ================================================================ 2. spec_is is sound *)
Lemma spec_cells_sound n fs st infos a b r :
  hinv n fs st infos -> a < length st -> b < length st ->
  spec_cells infos a b = Some r -> Nat.eqb (origin st a) (origin st b) = r.
Proof.
  intros H La Lb S.
  destruct (nth_error st a) as [ca|] eqn:Ea; [|apply nth_error_None in Ea; lia].
  destruct (nth_error st b) as [cb|] eqn:Eb; [|apply nth_error_None in Eb; lia].
  destruct (hi_cells _ _ _ _ H a ca Ea) as [Ao _ _ _ _ _].
  destruct (hi_cells _ _ _ _ H b cb Eb) as [Bo _ Br Bf _ _].
  unfold spec_cells in S. rewrite Ao.
  destruct (b_root (nth b infos dummy_info)) eqn:Rb.
  - injection S as <-. rewrite <- Br in Bf.
    assert (Fb : g_fref (c_g cb) = VNil) by (destruct (g_fref (c_g cb)); try discriminate; reflexivity).
    rewrite (origin_root st b cb Eb Fb). reflexivity.
  - rewrite Bo. destruct (Nat.eqb (b_orig (nth a infos dummy_info)) (b_orig (nth b infos dummy_info)));
      [|discriminate]. injection S as <-. reflexivity.
Qed.

Lemma wrapped_inner st u w :
  chain_ok st u = true -> wrapped_cell u = Some w -> inner_gv st u = Some w.
Proof.
  induction u as [|i|i|t c p u IH]; simpl; try discriminate.
  - destruct (nth_error st i); [|discriminate]. intros _ H. exact H.
  - destruct (nth_error st i) as [c|]; [|discriminate]. destruct (c_x c); [|discriminate].
    intros _ H. exact H.
  - exact IH.
Qed.

Lemma inner_gv_lt st u w : inner_gv st u = Some w -> w < length st.
Proof.
  induction u as [|i|i|t c p u IH]; simpl; try discriminate.
  - apply (gv_lt st (VG i)).
  - apply (gv_lt st (VX i)).
  - exact IH.
Qed.

Lemma wrapped_none_pure u : wrapped_cell u = None -> pure u = true.
Proof. induction u; simpl; try discriminate; auto. Qed.

Theorem spec_is_sound n fs st infos x y b :
  hinv n fs st infos -> fs_admb st fs = true -> ref_in st fs x -> ref_in st fs y ->
  spec_is infos fs x y = Some b ->
  errors_is st (resolve st fs x) (resolve st fs y) = Ok b.
Proof.
  intros H FA Rx Ry S. pose proof (hinv_wf _ _ _ _ H) as W.
  unfold spec_is in S.
  destruct (ref_cell x) as [a|] eqn:Cx; destruct (ref_cell y) as [c|] eqn:Cy.
  - (* two cells, each as handed out or through its embedded pointer *)
    pose proof (ref_in_cell st fs x a Rx Cx) as La. pose proof (ref_in_cell st fs y c Ry Cy) as Lc.
    unfold errors_is.
    rewrite (errors_is_gg true st W _ _ a c (resolve_cell_gv st fs x a Cx La)
               (resolve_cell_gv st fs y c Cy Lc)).
    f_equal. exact (spec_cells_sound n fs st infos a c b H La Lc S).
  - (* a cell against the foreign error it converted *)
    pose proof (ref_in_cell st fs x a Rx Cx) as La.
    destruct (ref_cell_none y Cy) as [->|[k ->]]; [discriminate|].
    destruct (b_conv (nth a infos dummy_info)) as [k'|] eqn:Bc; [|discriminate].
    destruct (Nat.eqb k' k && comparable (nth k fs VNil)) eqn:Cnd; [|discriminate].
    injection S as <-. apply andb_true_iff in Cnd as [Ek Cm]. apply Nat.eqb_eq in Ek. subst k'.
    simpl in Ry. destruct (fs_adm_nth st fs k FA Ry) as [t [cm [p [u [Hn P]]]]].
    rewrite Hn in Cm. simpl in Cm. subst cm. simpl resolve at 2. rewrite Hn.
    destruct (nth_error st a) as [ca|] eqn:Ea; [|apply nth_error_None in Ea; lia].
    rewrite (errors_is_gf st W _ a ca t true p u (resolve_cell_gv st fs x a Cx La) Ea).
    f_equal. exact (ci_conv _ _ _ _ _ _ (hi_cells _ _ _ _ H a ca Ea) k t p u Bc Hn).
  - (* a foreign source against a cell *)
    pose proof (ref_in_cell st fs y c Ry Cy) as Lc.
    pose proof (resolve_cell_gv st fs y c Cy Lc) as Gy.
    destruct (ref_cell_none x Cx) as [->|[k ->]]; [discriminate|].
    simpl in Rx. destruct (fs_adm_nth st fs k FA Rx) as [t [cm [p [u [Hn P]]]]].
    rewrite Hn in S. simpl wrapped_cell in S. simpl resolve at 1. rewrite Hn.
    destruct (wrapped_cell u) as [w|] eqn:Wc.
    + (* a wrapper is matched through the gerror value it wraps *)
      pose proof (wrapped_inner st u w P Wc) as Iw.
      unfold errors_is.
      rewrite (errors_is_wrapped true st W (VF t cm p u) _ w c Iw Gy).
      f_equal. exact (spec_cells_sound n fs st infos w c b H (inner_gv_lt st u w Iw) Lc S).
    + (* the converted foreign error never matches the result *)
      destruct (b_conv (nth c infos dummy_info)) as [k'|]; [|discriminate].
      destruct (Nat.eqb k' k); [|discriminate]. injection S as <-.
      destruct (gv_cell _ _ _ Gy) as [_ [_ Ag]].
      assert (Gr : is_gerr_val (resolve st fs y) = true)
        by (destruct (resolve st fs y); simpl in Ag; try discriminate; reflexivity).
      destruct (errors_is_foreign_src true st t cm p u (resolve st fs y)
                  (wrapped_none_pure u Wc) (gerr_val_not_deep _ Gr)) as [b0 [E0 F0]].
      unfold errors_is. rewrite E0, (F0 Gr). reflexivity.
  - discriminate.
Qed.

(* ================================================================ 3. no panic *)
(* errors.Is with a cell on either side: always an answer *)
Theorem model_no_panic_cell fs st x y :
  wf st -> fs_admb st fs = true -> ref_in st fs x -> ref_in st fs y ->
  ref_cell x <> None \/ ref_cell y <> None ->
  exists b, errors_is st (resolve st fs x) (resolve st fs y) = Ok b.
Proof.
  intros W FA Rx Ry Hc. pose proof (fs_admb_vf st fs FA) as V.
  apply errors_is_total_gerr;
    [exact W|apply resolve_adm; assumption|apply resolve_adm; assumption|].
  rewrite !(is_gerr_resolve st fs _ V).
  destruct Hc as [Hc|Hc]; [left|right]; destruct (ref_cell _); try reflexivity; contradiction.
Qed.

(* every judged pair: the only pairs without an answer have two foreign sides, the target a
   deeply non-comparable value (there the stdlib's own `err == target` may panic) *)
Theorem model_no_panic fs st x y :
  wf st -> fs_admb st fs = true -> ref_in st fs x -> ref_in st fs y ->
  (ref_cell x = None -> ref_cell y = None -> deep (resolve st fs y) = false) ->
  exists b, errors_is st (resolve st fs x) (resolve st fs y) = Ok b.
Proof.
  intros W FA Rx Ry Hd. pose proof (fs_admb_vf st fs FA) as V.
  apply errors_is_total;
    [exact W|apply resolve_adm; assumption|apply resolve_adm; assumption|].
  intros Gx _. rewrite (is_gerr_resolve st fs x V) in Gx.
  destruct (ref_cell y) eqn:Cy.
  - apply gerr_val_not_deep. rewrite (is_gerr_resolve st fs y V), Cy. reflexivity.
  - apply Hd; [|reflexivity]. destruct (ref_cell x); [discriminate|reflexivity].
Qed.

(* ================================================================ 4. spec_extract is sound *)
Theorem spec_extract_sound n fs st infos k e :
  hinv n fs st infos -> k < length st ->
  spec_extract infos k = Some e -> model_extract st k = e.
Proof.
  intros H L S. pose proof (hinv_wf _ _ _ _ H) as W.
  destruct (nth_error st k) as [ck|] eqn:Ek; [|apply nth_error_None in Ek; lia].
  destruct (hi_cells _ _ _ _ H k ck Ek) as [Ao _ Ar Af Ai _].
  pose proof (extract_gerr st (val_of st k) k ck W (gv_val_of st k ck Ek) Ek) as X.
  unfold spec_extract in S. rewrite Ai in S.
  destruct (g_isfac (c_g ck)).
  - injection S as <-. unfold model_extract. rewrite X. reflexivity.
  - rewrite Af, <- Ar in X. destruct (b_root (nth k infos dummy_info)); [discriminate|].
    injection S as <-. unfold model_extract. rewrite X, Ao. reflexivity.
Qed.

(* ================================================================ 5. the judge on the model *)
(* ---- errors.Is on two foreign sides never runs out of fuel (it answers, or the stdlib's own
        comparison panics) *)
Lemma iface_eq_nofuel a b : iface_eq a b <> Fuel.
Proof.
  destruct a as [|i|i|t c p u], b as [|j|j|t' c' p' u']; simpl; try discriminate.
  destruct (N.eqb t t' && Bool.eqb c c'); [destruct c|]; discriminate.
Qed.

Lemma loop_pure_src_nofuel guard st vb tc : forall u t c p f,
  pure u = true -> val_depth u <= f ->
  errors_is_loop guard (S f) st (VF t c p u) vb tc <> Fuel.
Proof.
  induction u as [|i|i|t0 c0 p0 u0 IH]; intros t c p f P D; simpl in P; try discriminate.
  - rewrite loop_S. cbn [as_gerror unwrap_val].
    pose proof (iface_eq_nofuel (VF t c p VNil) vb) as N.
    destruct tc; [destruct (iface_eq (VF t c p VNil) vb) as [[|]| |]|]; cbn [bind_true];
      try discriminate. contradiction.
  - rewrite loop_S. cbn [as_gerror unwrap_val].
    pose proof (iface_eq_nofuel (VF t c p (VF t0 c0 p0 u0)) vb) as N.
    simpl in D. destruct f as [|f]; [lia|].
    assert (R : errors_is_loop guard (S f) st (VF t0 c0 p0 u0) vb tc <> Fuel)
      by (apply IH; [exact P|lia]).
    destruct tc; [destruct (iface_eq (VF t c p (VF t0 c0 p0 u0)) vb) as [[|]| |]|]; cbn [bind_true];
      try discriminate; try exact R. contradiction.
Qed.

Lemma errors_is_nil_l st v : errors_is st VNil v = Ok (is_nil v).
Proof. unfold errors_is, errors_is_gen. simpl. destruct v; reflexivity. Qed.

Lemma errors_is_foreign_nil st t c p u : errors_is st (VF t c p u) VNil = Ok false.
Proof. reflexivity. Qed.

Lemma errors_is_pure_src_nofuel st t c p u vb :
  pure u = true -> errors_is st (VF t c p u) vb <> Fuel.
Proof.
  intros P. unfold errors_is, errors_is_gen. simpl is_nil. simpl orb.
  destruct (is_nil vb) eqn:Nb.
  - apply iface_eq_nofuel.
  - unfold is_fuel.
    replace (4 + length st + val_depth (VF t c p u) + val_depth vb)
      with (S (4 + length st + val_depth u + val_depth vb)) by (simpl; lia).
    apply loop_pure_src_nofuel; [exact P|lia].
Qed.

(* ---- one entry of the matrix, as the judge checks it *)
Definition entry_ok (infos : list binfo) (fs : list val) (x y : vref) (o : nat) : bool :=
  if hostile_src fs x then Nat.eqb o 7
  else if no_gerror_side fs x y then Nat.leb o 2
  else is_ok (spec_is infos fs x y) o.

Lemma rows_ok_map infos fs x (f : vref -> nat) : forall ys,
  (forall y, In y ys -> entry_ok infos fs x y (f y) = true) ->
  rows_ok infos fs ys x (map f ys) = true.
Proof.
  induction ys as [|y ys IH]; intros H; simpl; [reflexivity|].
  pose proof (H y (or_introl eq_refl)) as Hy. unfold entry_ok in Hy. rewrite Hy. simpl.
  apply IH. intros y' Hy'. apply H. right. exact Hy'.
Qed.

Lemma matrix_ok_map infos fs refs (f : vref -> vref -> nat) : forall xs,
  (forall x y, In x xs -> In y refs -> entry_ok infos fs x y (f x y) = true) ->
  matrix_ok infos fs refs xs (map (fun x => map (f x) refs) xs) = true.
Proof.
  induction xs as [|x xs IH]; intros H; simpl; [reflexivity|].
  rewrite rows_ok_map by (intros y Hy; apply H; [left; reflexivity|exact Hy]). simpl.
  apply IH. intros x' y Hx Hy. apply H; [right; exact Hx|exact Hy].
Qed.

(* ---- a foreign source against a foreign target: the only panic is the stdlib's own
        `err == target` on two values of one non-comparable dynamic type *)
Definition same_dyn (a b : val) : bool :=
  match a, b with
  | VF t c _ _, VF t' c' _ _ => N.eqb t t' && Bool.eqb c c'
  | _, _ => false
  end.

(* some foreign error on the Unwrap chain of [v] has the dynamic type of [y] *)
Fixpoint chain_has_dyn (v y : val) : bool :=
  match v with
  | VF t c p u => same_dyn (VF t c p u) y || chain_has_dyn u y
  | _ => false
  end.

Lemma noclash_eq_test (tc : bool) t c p u t' c' p' u' :
  same_dyn (VF t c p u) (VF t' c' p' u') = false ->
  (if tc then iface_eq (VF t c p u) (VF t' c' p' u') else Ok false) = Ok false.
Proof. intros SD. destruct tc; [|reflexivity]. simpl in SD |- *. rewrite SD. reflexivity. Qed.

Lemma loop_foreign_noclash st (W : wf st) t' c' p' u' tc : forall u t c p f,
  chain_ok st u = true -> 4 + val_depth u <= f ->
  chain_has_dyn (VF t c p u) (VF t' c' p' u') = false ->
  exists b, errors_is_loop true (S f) st (VF t c p u) (VF t' c' p' u') tc = Ok b.
Proof.
  induction u as [|i|i|t0 c0 p0 u0 IH]; intros t c p f P D NC;
    rewrite loop_S; cbn [as_gerror unwrap_val];
    cbn [chain_has_dyn] in NC; apply orb_false_iff in NC as [SD NC];
    rewrite (noclash_eq_test tc _ _ _ _ _ _ _ _ SD); cbn [bind_true].
  - eauto.
  - destruct (chain_ok_gv st (VG i) eq_refl P) as [k Gk]. destruct (gv_cell _ _ _ Gk) as [ck [Ek _]].
    destruct f as [|[|f]]; simpl in D; try lia.
    rewrite (loop_gf st W (VG i) k ck t' c' p' u' f tc Gk Ek). eauto.
  - destruct (chain_ok_gv st (VX i) eq_refl P) as [k Gk]. destruct (gv_cell _ _ _ Gk) as [ck [Ek _]].
    destruct f as [|[|f]]; simpl in D; try lia.
    rewrite (loop_gf st W (VX i) k ck t' c' p' u' f tc Gk Ek). eauto.
  - simpl in P, D. destruct f as [|f]; [lia|]. apply (IH t0 c0 p0 f P); [lia|exact NC].
Qed.

Lemma errors_is_foreign_noclash st t c p u t' c' p' u' :
  wf st -> chain_ok st u = true -> chain_has_dyn (VF t c p u) (VF t' c' p' u') = false ->
  exists b, errors_is st (VF t c p u) (VF t' c' p' u') = Ok b.
Proof.
  intros W P NC. unfold errors_is, errors_is_gen. simpl is_nil. simpl orb. cbv iota.
  unfold is_fuel.
  replace (4 + length st + val_depth (VF t c p u) + val_depth (VF t' c' p' u'))
    with (S (4 + length st + val_depth u + val_depth (VF t' c' p' u'))) by (simpl; lia).
  apply (loop_foreign_noclash st W); [exact P|lia|exact NC].
Qed.

(* the pairs of two foreign errors the judge demands an answer for (a typed-nil gerror pointer
   on either side, or a source wrapping a gerror value): no foreign error on the source's Unwrap
   chain has the dynamic type of a deeply non-comparable target *)
Definition deep_pairs_ok (fs : list val) : bool :=
  forallb (fun k => forallb (fun k' => no_gerror_side fs (RF k) (RF k')
                                       || negb (deep (nth k' fs VNil))
                                       || negb (chain_has_dyn (nth k fs VNil) (nth k' fs VNil)))
                            (seq 0 (length fs)))
          (seq 0 (length fs)).

Definition hostile_free (fs : list val) : bool :=
  forallb (fun k => negb (hostile_src fs (RF k))) (seq 0 (length fs)).

Lemma hostile_free_src st fs x : hostile_free fs = true -> ref_in st fs x -> hostile_src fs x = false.
Proof.
  intros Hf R. destruct x as [|i|i|k]; try reflexivity.
  unfold hostile_free in Hf. rewrite forallb_forall in Hf.
  apply negb_true_iff. apply Hf. apply in_seq. simpl in R. lia.
Qed.

Lemma deep_pairs_ok_nth fs k k' : deep_pairs_ok fs = true -> k < length fs -> k' < length fs ->
  no_gerror_side fs (RF k) (RF k') = false ->
  deep (nth k' fs VNil) = false \/ chain_has_dyn (nth k fs VNil) (nth k' fs VNil) = false.
Proof.
  intros Hd L L' NG. unfold deep_pairs_ok in Hd. rewrite forallb_forall in Hd.
  specialize (Hd k). rewrite forallb_forall in Hd.
  assert (Ik : In k (seq 0 (length fs))) by (apply in_seq; lia).
  assert (Ik' : In k' (seq 0 (length fs))) by (apply in_seq; lia).
  specialize (Hd Ik k' Ik'). rewrite NG in Hd. simpl in Hd.
  apply orb_true_iff in Hd as [Hd|Hd]; apply negb_true_iff in Hd; auto.
Qed.

(* 3, in the judge's terms: every pair the judge demands an answer for has one *)
Theorem model_no_panic_judged n fs st infos x y :
  hinv n fs st infos -> fs_admb st fs = true -> deep_pairs_ok fs = true ->
  ref_in st fs x -> ref_in st fs y -> no_gerror_side fs x y = false ->
  exists b, errors_is st (resolve st fs x) (resolve st fs y) = Ok b.
Proof.
  intros H FA Hd Rx Ry NG. pose proof (hinv_wf _ _ _ _ H) as W.
  destruct (ref_cell x) eqn:Cx.
  { apply model_no_panic_cell; try assumption. left. congruence. }
  destruct (ref_cell y) eqn:Cy.
  { apply model_no_panic_cell; try assumption. right. congruence. }
  destruct (ref_cell_none x Cx) as [->|[k ->]].
  { simpl resolve at 1. rewrite errors_is_nil_l. eauto. }
  destruct (ref_cell_none y Cy) as [->|[k' ->]].
  { simpl in Rx. destruct (fs_adm_nth st fs k FA Rx) as [t [c [p [u [Hn _]]]]].
    simpl. rewrite Hn. exists false. reflexivity. }
  destruct (deep_pairs_ok_nth fs k k' Hd Rx Ry NG) as [Dp|NC].
  - apply model_no_panic; try assumption. intros _ _. exact Dp.
  - simpl in Rx, Ry |- *.
    destruct (fs_adm_nth st fs k FA Rx) as [t [c [p [u [Hn P]]]]].
    destruct (fs_adm_nth st fs k' FA Ry) as [t' [c' [p' [u' [Hn' _]]]]].
    rewrite Hn, Hn' in NC |- *. exact (errors_is_foreign_noclash st t c p u t' c' p' u' W P NC).
Qed.

Lemma model_entry_ok n fs st infos x y :
  hinv n fs st infos -> fs_admb st fs = true -> hostile_free fs = true -> deep_pairs_ok fs = true ->
  ref_in st fs x -> ref_in st fs y ->
  entry_ok infos fs x y (code_of (errors_is st (resolve st fs x) (resolve st fs y))) = true.
Proof.
  intros H FA Hh Hd Rx Ry. unfold entry_ok. rewrite (hostile_free_src st fs x Hh Rx).
  destruct (no_gerror_side fs x y) eqn:NG.
  - (* two foreign sides: answered or panicking, never out of fuel *)
    assert (NF : errors_is st (resolve st fs x) (resolve st fs y) <> Fuel).
    { unfold no_gerror_side in NG.
      destruct (ref_cell x) eqn:Cx; [discriminate|]. destruct (ref_cell y) eqn:Cy; [discriminate|].
      destruct (ref_cell_none x Cx) as [->|[k ->]].
      { simpl resolve at 1. rewrite errors_is_nil_l. discriminate. }
      apply andb_true_iff in NG as [_ NW]. apply negb_true_iff in NW.
      simpl in Rx. destruct (fs_adm_nth st fs k FA Rx) as [t [c [p [u [Hn _]]]]].
      unfold wraps_gerror in NW. rewrite Hn in NW. simpl wrapped_cell in NW.
      simpl resolve at 1. rewrite Hn. apply errors_is_pure_src_nofuel.
      apply wrapped_none_pure. destruct (wrapped_cell u); [discriminate|reflexivity]. }
    destruct (errors_is st (resolve st fs x) (resolve st fs y)) as [[|]| |]; try reflexivity.
    contradiction.
  - destruct (spec_is infos fs x y) as [b|] eqn:S.
    + rewrite (spec_is_sound n fs st infos x y b H FA Rx Ry S). destruct b; reflexivity.
    + destruct (model_no_panic_judged n fs st infos x y H FA Hd Rx Ry NG) as [b ->].
      destruct b; reflexivity.
Qed.

Lemma optnat_eqb_refl o : optnat_eqb o o = true.
Proof. destruct o; simpl; [apply Nat.eqb_refl|reflexivity]. Qed.

Lemma extract_ok_model n fs st infos : hinv n fs st infos -> forall len k,
  k + len <= length st -> extract_ok infos k (map (model_extract st) (seq k len)) = true.
Proof.
  intros H. induction len as [|len IH]; intros k L; simpl; [reflexivity|].
  rewrite IH by lia. rewrite andb_true_r.
  destruct (spec_extract infos k) as [e|] eqn:S; [|reflexivity].
  rewrite (spec_extract_sound n fs st infos k e H ltac:(lia) S). apply optnat_eqb_refl.
Qed.

(* the side conditions on the final store and the foreign list, executable *)
Definition c06_side (c : c06_case) : bool :=
  match run_ops ext_wiring (c06_st0 c) (q_foreign c) (q_ops c) with
  | None => false
  | Some (st, _) =>
      fs_admb st (q_foreign c) && forallb (fun i => Nat.ltb i (length st)) (q_embs c)
  end
  && hostile_free (q_foreign c) && deep_pairs_ok (q_foreign c).

(* the case with the model's own behaviour as the observation *)
Definition with_model_obs (c : c06_case) (res : list nat) (m : list (list nat))
           (ex : list (option nat)) : c06_case :=
  {| q_roots := q_roots c; q_foreign := q_foreign c; q_ops := q_ops c; q_embs := q_embs c;
     q_res := res; q_is := m; q_extract := ex;
     q_extract_f := repeat 0 (length (q_foreign c)) |}.

Lemma forallb_zero_repeat k : forallb (Nat.eqb 0) (repeat 0 k) = true.
Proof. induction k; simpl; auto. Qed.

Theorem c06_model_satisfies_spec c res m ex :
  c06_domain c = true -> ops_adm (q_roots c) (q_foreign c) (q_ops c) = true ->
  c06_side c = true ->
  c06_model c = Some (res, m, ex) ->
  c06_spec_ok (with_model_obs c res m ex) = true.
Proof.
  intros Dm A Sd M.
  unfold c06_domain in Dm. apply andb_true_iff in Dm as [Dm _]. apply andb_true_iff in Dm as [R V].
  fold (roots_ok (q_roots c)) in R. fold (fs_vf (q_foreign c)) in V.
  unfold c06_model in M. unfold c06_side in Sd.
  destruct (run_ops ext_wiring (c06_st0 c) (q_foreign c) (q_ops c)) as [[st rs]|] eqn:Run;
    [|discriminate].
  injection M as <- <- <-.
  apply andb_true_iff in Sd as [Sd Hd]. apply andb_true_iff in Sd as [Sd Hh].
  apply andb_true_iff in Sd as [FA He].
  assert (He' : forall i, In i (q_embs c) -> i < length st).
  { intros i Hi. rewrite forallb_forall in He. apply Nat.ltb_lt. apply He. exact Hi. }
  unfold c06_spec_ok, with_model_obs. simpl.
  destruct (spec_ops (infos0 0 (q_roots c)) (q_ops c)) as [infos exp] eqn:Sp.
  destruct (c06_invariant (q_roots c) (q_foreign c) (q_ops c) st rs infos exp R V A Run Sp)
    as [H Ro].
  rewrite (hi_len _ _ _ _ H).
  rewrite Ro. simpl.
  rewrite matrix_ok_map.
  2:{ intros x y Hx Hy. apply (model_entry_ok (length (q_roots c)) _ st infos x y H FA Hh Hd).
      - exact (all_refs_in st _ _ x He' Hx).
      - exact (all_refs_in st _ _ y He' Hy). }
  simpl. rewrite map_length, seq_length, Nat.eqb_refl. simpl.
  rewrite (extract_ok_model _ _ st infos H (length st) 0) by lia. simpl.
  rewrite repeat_length, Nat.eqb_refl. simpl. apply forallb_zero_repeat.
Qed.

(* ---- the judge's verdict on the model's own behaviour is 0 *)
Lemma run_ops_length xw fs : forall ops st st' res,
  run_ops xw st fs ops = Some (st', res) -> length res = length ops.
Proof.
  induction ops as [|[o|i] rest IH]; intros st st' res R; simpl in R.
  - injection R as <- <-. reflexivity.
  - destruct (call xw st _ _ _) as [[st1 v]|]; [|discriminate].
    destruct (as_gerror v); [|discriminate].
    destruct (run_ops xw st1 fs rest) as [[st2 ks]|] eqn:R2; [|discriminate].
    injection R as <- <-. simpl. rewrite (IH _ _ _ R2). reflexivity.
  - destruct (nth_error st i); [|discriminate].
    destruct (run_ops xw (set_isfac st i) fs rest) as [[st2 ks]|] eqn:R2; [|discriminate].
    injection R as <- <-. simpl. rewrite (IH _ _ _ R2). reflexivity.
Qed.

Lemma res_mis_self : forall exp res, res_ok exp res = true -> res_mis exp res res = false.
Proof.
  induction exp as [|e exp IH]; intros [|o res] H; simpl in *; try discriminate; try reflexivity.
  - destruct e; discriminate.
  - rewrite Nat.eqb_refl. simpl. rewrite andb_false_r. simpl. apply IH.
    destruct e; [apply andb_true_iff in H as [_ H]|]; exact H.
Qed.

Lemma rows_mis_self infos fs x (f : vref -> nat) : forall ys,
  rows_mis infos fs ys x (map f ys) (map f ys) = false.
Proof.
  induction ys as [|y ys IH]; simpl; [reflexivity|].
  rewrite Nat.eqb_refl. simpl. rewrite andb_false_r. simpl. exact IH.
Qed.

Lemma matrix_mis_self infos fs refs (f : vref -> vref -> nat) : forall xs,
  matrix_mis infos fs refs xs (map (fun x => map (f x) refs) xs)
             (map (fun x => map (f x) refs) xs) = false.
Proof.
  induction xs as [|x xs IH]; simpl; [reflexivity|]. rewrite rows_mis_self. simpl. exact IH.
Qed.

Lemma extract_mis_self infos : forall ex k, extract_mis infos k ex ex = false.
Proof.
  induction ex as [|o ex IH]; intros k; simpl; [reflexivity|].
  rewrite optnat_eqb_refl. simpl. rewrite andb_false_r. simpl. apply IH.
Qed.

Theorem c06_model_judged_ok c res m ex :
  c06_domain c = true -> ops_adm (q_roots c) (q_foreign c) (q_ops c) = true ->
  c06_side c = true ->
  c06_model c = Some (res, m, ex) ->
  c06_judge (with_model_obs c res m ex) = 0.
Proof.
  intros Dm A Sd M.
  pose proof (c06_model_satisfies_spec c res m ex Dm A Sd M) as Ok.
  unfold c06_judge. rewrite Ok.
  unfold c06_domain in Dm. apply andb_true_iff in Dm as [Dm _].
  pose proof Dm as Dm12. apply andb_true_iff in Dm as [R V].
  fold (roots_ok (q_roots c)) in R. fold (fs_vf (q_foreign c)) in V.
  unfold c06_model in M.
  destruct (run_ops ext_wiring (c06_st0 c) (q_foreign c) (q_ops c)) as [[st rs]|] eqn:Run;
    [|discriminate].
  injection M as <- <- <-.
  assert (D' : c06_domain (with_model_obs c rs
                 (map (fun x => map (fun y => code_of (errors_is st (resolve st (q_foreign c) x)
                                                                    (resolve st (q_foreign c) y)))
                                    (all_refs (length st) (q_embs c) (length (q_foreign c))))
                      (all_refs (length st) (q_embs c) (length (q_foreign c))))
                 (map (model_extract st) (seq 0 (length st)))) = true).
  { unfold c06_domain. simpl. rewrite Dm12. simpl.
    rewrite (run_ops_length _ _ _ _ _ _ Run). apply Nat.eqb_refl. }
  rewrite D'. simpl negb. cbv iota.
  match goal with |- context [c06_model_mis ?cc] =>
    assert (Mis : c06_model_mis cc = false) end.
  { unfold c06_model_mis.
    match goal with |- context [c06_model ?cc] => change (c06_model cc) with (c06_model c) end.
    unfold c06_model. rewrite Run. simpl.
    destruct (spec_ops (infos0 0 (q_roots c)) (q_ops c)) as [infos exp] eqn:Sp.
    destruct (c06_invariant (q_roots c) (q_foreign c) (q_ops c) st rs infos exp R V A Run Sp)
      as [H Ro].
    rewrite (hi_len _ _ _ _ H), (res_mis_self _ _ Ro), matrix_mis_self, extract_mis_self.
    reflexivity. }
  rewrite Mis. reflexivity.
Qed.

(* ================================================================ the invariant, spelled out *)
Theorem hinv_readable n fs st infos : hinv n fs st infos ->
  length infos = length st /\ n <= length st /\ wf st /\ reachable ext_wiring st /\
  forall k, k < length st -> exists c, nth_error st k = Some c /\
    let b := nth k infos dummy_info in
    origin st k = b_orig b /\ b_orig b < n
    /\ (b_root b = true <-> g_fref (c_g c) = VNil)
    /\ (b_root b = true <-> k < n)
    /\ b_isfac b = g_isfac (c_g c)
    (* Convert(S) of a comparable foreign error: errors.Is(result, e) *)
    /\ (forall f t p u, b_conv b = Some f -> nth f fs VNil = VF t true p u ->
        errors_is st (val_of st k) (VF t true p u) = Ok true)
    (* errors.Is(e, any gerror value) is false for every foreign error wrapping no gerror value *)
    /\ (forall t cm p u, pure u = true -> errors_is st (VF t cm p u) (val_of st k) = Ok false).
Proof.
  intros H. pose proof (hinv_wf _ _ _ _ H) as W. destruct H as [HL HR HRe HC].
  split; [exact HL|]. split; [exact HR|]. split; [exact W|]. split; [exact HRe|].
  intros k L. destruct (nth_error st k) as [c|] eqn:E; [|apply nth_error_None in E; lia].
  exists c. split; [reflexivity|]. destruct (HC k c E) as [H1 H2 H3 H4 H5 H6]. cbv zeta.
  split; [exact H1|]. split; [exact H2|]. split; [|split; [|split; [exact H5|split]]].
  - rewrite H3, <- H4. destruct (g_fref (c_g c)); simpl; split; intros X; try discriminate; reflexivity.
  - rewrite H3. apply Nat.ltb_lt.
  - intros f t p u Bc Hn.
    rewrite (errors_is_gf st W (val_of st k) k c t true p u (gv_val_of st k c E) E).
    f_equal. exact (H6 f t p u Bc Hn).
  - intros t cm p u P.
    assert (Gr : is_gerr_val (val_of st k) = true).
    { pose proof (as_gerror_val_of st k) as Ag.
      destruct (val_of st k); simpl in Ag; try discriminate; reflexivity. }
    destruct (errors_is_foreign_src true st t cm p u (val_of st k) P (gerr_val_not_deep _ Gr))
      as [b0 [E0 F0]].
    unfold errors_is. rewrite E0, (F0 Gr). reflexivity.
Qed.

(* ================================================================ siblings, end to end *)
(* two chains of derivations proper from the same value, run one after the other: the results
   match each other in both directions, and each matches the common ancestor *)
Theorem siblings_from_value xw st F ch1 ch2 st1 e1 st2 e2 :
  guarded_wiring xw -> wf st -> F < length st ->
  Forall (fun s => admissible st (a_err (snd s))) ch1 -> forallb no_shortcut ch1 = true ->
  derive xw st (val_of st F) ch1 = Some (st1, e1) ->
  Forall (fun s => admissible st1 (a_err (snd s))) ch2 -> forallb no_shortcut ch2 = true ->
  derive xw st1 (val_of st1 F) ch2 = Some (st2, e2) ->
  errors_is st2 e1 e2 = Ok true /\ errors_is st2 e2 e1 = Ok true
  /\ errors_is st2 e1 (val_of st2 F) = Ok true /\ errors_is st2 e2 (val_of st2 F) = Ok true.
Proof.
  intros GW W HF A1 N1 D1 A2 N2 D2.
  pose proof (gv_val_of_lt st F HF) as GF.
  destruct (derive_origin xw GW ch1 st _ st1 e1 F W GF A1 N1 D1) as [W1 [k1 [G1 [O1 [L1 _]]]]].
  destruct (derive_extends _ _ _ _ _ _ D1) as [x1 ->].
  assert (HF1 : F < length (st ++ x1)) by lia.
  pose proof (gv_val_of_lt _ F HF1) as GF1.
  destruct (derive_origin xw GW ch2 _ _ st2 e2 F W1 GF1 A2 N2 D2) as [W2 [k2 [G2 [O2 [L2 _]]]]].
  destruct (derive_extends _ _ _ _ _ _ D2) as [x2 ->].
  assert (HF2 : F < length ((st ++ x1) ++ x2)) by lia.
  pose proof (gv_val_of_lt _ F HF2) as GF2.
  pose proof (gv_extend _ x2 _ _ G1) as G1'.
  assert (Ok1 : origin ((st ++ x1) ++ x2) k1 = origin ((st ++ x1) ++ x2) F).
  { rewrite (origin_extend _ x2 k1 (gv_lt _ _ _ G1)), (origin_extend _ x2 F HF1).
    rewrite (origin_extend st x1 F HF). exact O1. }
  assert (Ok2 : origin ((st ++ x1) ++ x2) k2 = origin ((st ++ x1) ++ x2) F).
  { rewrite (origin_extend _ x2 F HF1). exact O2. }
  repeat split; eapply is_siblings; eauto; congruence.
Qed.

(* the property's clause: a pool, a factory F of it, two chains *)
Theorem siblings_end_to_end xw st F ch1 ch2 st1 e1 st2 e2 :
  guarded_wiring xw -> Forall root_cell st -> F < length st ->
  Forall (fun s => admissible st (a_err (snd s))) ch1 -> forallb no_shortcut ch1 = true ->
  derive xw st (val_of st F) ch1 = Some (st1, e1) ->
  Forall (fun s => admissible st1 (a_err (snd s))) ch2 -> forallb no_shortcut ch2 = true ->
  derive xw st1 (val_of st1 F) ch2 = Some (st2, e2) ->
  errors_is st2 e1 e2 = Ok true /\ errors_is st2 e2 e1 = Ok true
  /\ errors_is st2 e1 (val_of st2 F) = Ok true /\ errors_is st2 e2 (val_of st2 F) = Ok true.
Proof.
  intros GW P. exact (siblings_from_value xw st F ch1 ch2 st1 e1 st2 e2 GW (pool_wf st P)).
Qed.

(* the same over a judged history: any two cells with the same bookkeeping origin *)
Theorem siblings_in_history n fs st infos a b :
  hinv n fs st infos -> a < length st -> b < length st ->
  b_orig (nth a infos dummy_info) = b_orig (nth b infos dummy_info) ->
  errors_is st (val_of st a) (val_of st b) = Ok true.
Proof.
  intros H La Lb E. pose proof (hinv_wf _ _ _ _ H) as W.
  destruct (nth_error st a) as [ca|] eqn:Ea; [|apply nth_error_None in Ea; lia].
  destruct (nth_error st b) as [cb|] eqn:Eb; [|apply nth_error_None in Eb; lia].
  apply (is_siblings st _ _ a b W (gv_val_of st a ca Ea) (gv_val_of st b cb Eb)).
  rewrite (ci_orig _ _ _ _ _ _ (hi_cells _ _ _ _ H a ca Ea)),
          (ci_orig _ _ _ _ _ _ (hi_cells _ _ _ _ H b cb Eb)). exact E.
Qed.

(* ================================================================ non-vacuity *)
(* a pool with a FactoryOf factory, a bare factory and an extension factory; a history with a
   derivation, a Convert of a foreign error, FactoryOf on that derived value, a derivation from the
   extension factory and one through its embedded pointer, a ConvertS of a foreign wrapper of a
   gerror value, and a Convert of a value that already is a gerror error *)
Definition ex_roots : list c06_root :=
  [ mkRoot [70%N] [] [] true None; mkRoot [66%N] [] [] false None;
    mkRoot [88%N] [] [] true (Some (mkX 1 [])) ].
Definition ex_fs : list val :=
  [ VF 1 true 7 VNil; VF 2 true 9 (VX 5); VF 4 false 5 VNil; VF 200 false 3 VNil; VF 50 true 0 VNil ].
Definition ex_op (r : vref) (m : method) (e : vref) (site : N) : hstep :=
  HOp (mkOp r m [] [] [104%N] [111%N] site [109%N] e).
Definition ex_ops : list hstep :=
  [ ex_op (RC 0) MMsg RNil 0; ex_op (RC 3) MConvert (RF 0) 1; HFac 4; ex_op (RC 2) MDTag RNil 2;
    ex_op (RE 2) MStack RNil 3; ex_op (RC 4) MConvertS (RF 1) 4; ex_op (RC 0) MConvert (RC 5) 5;
    ex_op (RC 1) MConvert (RF 2) 6 ].
Definition ex_case : c06_case :=
  {| q_roots := ex_roots; q_foreign := ex_fs; q_ops := ex_ops; q_embs := [2];
     q_res := [3; 4; 4; 5; 6; 7; 5; 8]; q_is := []; q_extract := []; q_extract_f := [] |}.

Example c06_invariant_nonvacuous :
  c06_domain ex_case = true /\ ops_adm ex_roots ex_fs ex_ops = true /\ c06_side ex_case = true
  /\ match run_ops ext_wiring (map root_cell_of ex_roots) ex_fs ex_ops with
     | Some (st, res) =>
         length st = 9 /\ res = [3; 4; 4; 5; 6; 7; 5; 8]
         /\ map b_orig (fst (spec_ops (infos0 0 ex_roots) ex_ops)) = [0; 1; 2; 0; 0; 2; 2; 0; 1]
         /\ map b_conv (fst (spec_ops (infos0 0 ex_roots) ex_ops))
            = [None; None; None; None; Some 0; None; None; Some 1; Some 2]
     | None => False
     end.
Proof. vm_compute. repeat split; reflexivity. Qed.

Example c06_model_judged_ok_nonvacuous :
  match c06_model ex_case with
  | Some (res, m, ex) => c06_judge (with_model_obs ex_case res m ex) = 0
  | None => False
  end.
Proof.
  destruct (c06_model ex_case) as [[[res m] ex]|] eqn:M; [|vm_compute in M; discriminate].
  apply c06_model_judged_ok; [vm_compute; reflexivity..|exact M].
Qed.

(* ================================================================ what the hypotheses exclude *)
(* [c06_domain] constrains neither [q_embs] nor the history: with an embedded-pointer reference
   to a cell that does not exist the model's own behaviour (a nil dereference) does not satisfy
   [c06_spec_ok] — the judge relies on the harness to list existing extension factories only *)
Definition gap_embs_case : c06_case :=
  {| q_roots := [mkRoot [70%N] [] [] true None]; q_foreign := []; q_ops := []; q_embs := [5];
     q_res := []; q_is := []; q_extract := []; q_extract_f := [] |}.

Example judge_gap_embs :
  c06_domain gap_embs_case = true /\ ops_adm (q_roots gap_embs_case) [] [] = true
  /\ c06_side gap_embs_case = false
  /\ match c06_model gap_embs_case with
     | Some (res, m, ex) => c06_spec_ok (with_model_obs gap_embs_case res m ex) = false
     | None => False
     end.
Proof. vm_compute. repeat split; reflexivity. Qed.

(* a deeply non-comparable foreign error that WRAPS a gerror value, against a target of the same
   dynamic type: the stdlib's own `err == target` panics before any gerror code runs, yet
   [no_gerror_side] is false (the source wraps a gerror value), so the judge demands an answer *)
Definition gap_deep_case : c06_case :=
  {| q_roots := [mkRoot [70%N] [] [] true None];
     q_foreign := [VF 200 false 1 (VG 0); VF 200 false 2 VNil]; q_ops := []; q_embs := [];
     q_res := []; q_is := []; q_extract := []; q_extract_f := [] |}.

Example judge_gap_deep_wrapper :
  c06_domain gap_deep_case = true /\ ops_adm (q_roots gap_deep_case) (q_foreign gap_deep_case) [] = true
  /\ fs_admb (c06_st0 gap_deep_case) (q_foreign gap_deep_case) = true
  /\ deep_pairs_ok (q_foreign gap_deep_case) = false
  /\ no_gerror_side (q_foreign gap_deep_case) (RF 0) (RF 1) = false
  /\ errors_is (c06_st0 gap_deep_case) (VF 200 false 1 (VG 0)) (VF 200 false 2 VNil) = Panic
  /\ match c06_model gap_deep_case with
     | Some (res, m, ex) => c06_spec_ok (with_model_obs gap_deep_case res m ex) = false
     | None => False
     end.
Proof. vm_compute. repeat split; reflexivity. Qed.

Print Assumptions ops_admb_sound.
Print Assumptions hist_invariant.
Print Assumptions c06_invariant.
Print Assumptions hinv_readable.
Print Assumptions spec_is_sound.
Print Assumptions model_no_panic_cell.
Print Assumptions model_no_panic.
Print Assumptions model_no_panic_judged.
Print Assumptions spec_extract_sound.
Print Assumptions c06_model_satisfies_spec.
Print Assumptions c06_model_judged_ok.
Print Assumptions siblings_from_value.
Print Assumptions siblings_end_to_end.
Print Assumptions siblings_in_history.
Print Assumptions c06_invariant_nonvacuous.
Print Assumptions c06_model_judged_ok_nonvacuous.
Print Assumptions judge_gap_embs.
Print Assumptions judge_gap_deep_wrapper.

(* ================================================================ 6. spec_convs is sound *)
(* [spec_convs]: per cell, the foreign errors converted ALONG ITS CHAIN (history alone).  The
   model keeps every one of them matching: CloneBase hands the receiver's srcError and
   laterSrcErrors on, whatever method follows. *)
Record cinv (fs : list val) (st : store) (convs : list (list nat)) : Prop := mkCV {
  cv_len : length convs = length st;
  cv_match : forall a c k t p u, nth_error st a = Some c -> In k (nth a convs []) ->
             nth k fs VNil = VF t true p u -> conv_match (c_g c) (VF t true p u) = true }.

(* whatever is recorded keeps matching after any further CloneBase *)
Lemma conv_match_keeps s l x e :
  serr_match s e || existsb (fun y => serr_match y e) l = true ->
  serr_match (serr_after s x) e || existsb (fun y => serr_match y e) (later_after s l x) = true.
Proof.
  unfold serr_after, later_after. intros H. destruct (is_nil s) eqn:Ns; simpl.
  - destruct s; try discriminate. simpl in H.
    destruct (negb (is_nil x)); simpl; [rewrite H; apply orb_true_r|exact H].
  - destruct (negb (is_nil x)); [rewrite existsb_app|];
      apply orb_true_iff in H as [H|H]; rewrite H; simpl; rewrite ?orb_true_r; reflexivity.
Qed.

Lemma nth_map_nil {A} (l : list A) : forall a, nth a (map (fun _ => @nil nat) l) [] = [].
Proof. induction l as [|x l IH]; intros [|a]; simpl; auto. Qed.

Lemma cinv_init roots fs : cinv fs (map root_cell_of roots) (map (fun _ => []) roots).
Proof.
  split.
  - rewrite !map_length. reflexivity.
  - intros a c k t p u _ Hin. rewrite nth_map_nil in Hin. destruct Hin.
Qed.

Lemma convs_invariant fs : fs_vf fs = true -> forall ops st convs st' res,
  cinv fs st convs -> ops_adm_at st fs ops ->
  run_ops ext_wiring st fs ops = Some (st', res) ->
  cinv fs st' (spec_convs convs ops).
Proof.
  intros V. induction ops as [|[o|i] rest IH]; intros st convs st' res H A R.
  - simpl in R |- *. injection R as <- _. exact H.
  - simpl in A. destruct A as [[i [Rc Gv]] [Adm Anext]].
    cbn [run_ops] in R. cbn [spec_convs]. rewrite Rc.
    pose proof (is_gerr_resolve st fs (o_err o) V) as Ig.
    change (match ref_cell (o_err o) with Some _ => true | None => false end)
      with (is_some (ref_cell (o_err o))).
    destruct (gv_cell _ _ _ Gv) as [ci [Ei _]].
    destruct (is_convert (o_m o) && is_some (ref_cell (o_err o))) eqn:Gd.
    + apply andb_true_iff in Gd as [Cm Sj].
      assert (Ge : is_gerr_val (a_err (op_args st fs o)) = true) by (simpl; rewrite Ig; exact Sj).
      assert (Gw : w_guard (wt_of ext_wiring (resolve st fs (o_recv o)) (o_m o)) = true)
        by (rewrite wt_guard; exact Cm).
      rewrite (call_convert_idem ext_wiring st _ (o_m o) (op_args st fs o) i Gv Gw Ge) in R, Anext.
      destruct (as_gerror (a_err (op_args st fs o))); [|discriminate].
      destruct (run_ops ext_wiring st fs rest) as [[st2 ks]|] eqn:R2; [|discriminate].
      injection R as <- _. exact (IH st convs st2 ks H Anext R2).
    + assert (Gd' : is_convert (o_m o) && is_gerr_val (a_err (op_args st fs o)) = false)
        by (simpl; rewrite Ig; exact Gd).
      destruct (call ext_wiring st (resolve st fs (o_recv o)) (o_m o) (op_args st fs o))
        as [[st1 v1]|] eqn:C; [|discriminate].
      destruct (call_fresh st _ _ _ st1 v1 i ci Gv Ei Gd' C) as [c' [-> [Ar [_ [Hs [Hl _]]]]]].
      rewrite Ar in R.
      destruct (run_ops ext_wiring (st ++ [c']) fs rest) as [[st2 ks]|] eqn:R2; [|discriminate].
      injection R as <- _.
      refine (IH _ _ st2 ks _ Anext R2).
      destruct H as [HL HM]. split.
      * rewrite !app_length, HL. reflexivity.
      * intros a c k t p u Ea Hin Hn. apply nth_error_snoc_inv in Ea as [[La Ea]|[-> ->]].
        -- rewrite app_nth1 in Hin by (rewrite HL; exact La). exact (HM a c k t p u Ea Hin Hn).
        -- rewrite app_nth2 in Hin by (rewrite HL; lia). rewrite HL, Nat.sub_diag in Hin.
           simpl nth in Hin.
           assert (Hk : In k (nth i convs []) \/ (is_convert (o_m o) = true /\ o_err o = RF k)).
           { destruct (is_convert (o_m o)); [|left; exact Hin].
             destruct (o_err o); try (left; exact Hin).
             apply in_app_iff in Hin as [Hin|[<-|[]]]; [left; exact Hin|right; auto]. }
           unfold conv_match. rewrite Hs, Hl.
           destruct Hk as [Hk|[Cm Eo]].
           ++ apply conv_match_keeps. exact (HM i ci k t p u Ei Hk Hn).
           ++ rewrite Cm. simpl a_err. rewrite Eo. simpl resolve. rewrite Hn.
              exact (conv_after_comparable (g_serr (c_g ci)) (g_later (c_g ci)) t p u).
  - simpl in A. destruct A as [Li Anext]. cbn [run_ops] in R. cbn [spec_convs].
    destruct (nth_error st i) as [c0|] eqn:E0; [|discriminate].
    destruct (run_ops ext_wiring (set_isfac st i) fs rest) as [[st2 ks]|] eqn:R2; [|discriminate].
    injection R as <- _. refine (IH _ _ st2 ks _ Anext R2).
    destruct H as [HL HM]. split.
    + rewrite length_set_isfac. exact HL.
    + intros a c k t p u Ea Hin Hn. rewrite nth_error_set_isfac in Ea.
      destruct (Nat.eqb a i).
      * destruct (nth_error st a) as [ca|] eqn:Ea0; [|discriminate]. simpl in Ea. injection Ea as <-.
        exact (HM a ca k t p u Ea0 Hin Hn).
      * exact (HM a c k t p u Ea Hin Hn).
Qed.

Theorem spec_convs_sound : forall roots fs ops st res,
  roots_ok roots = true -> fs_vf fs = true -> ops_adm roots fs ops = true ->
  run_ops ext_wiring (map root_cell_of roots) fs ops = Some (st, res) ->
  let convs := spec_convs (map (fun _ => []) roots) ops in
  length convs = length st /\
  forall a k t p u, a < length st -> In k (nth a convs []) -> nth k fs VNil = VF t true p u ->
    errors_is st (val_of st a) (VF t true p u) = Ok true.
Proof.
  intros roots fs ops st res R V A Run convs.
  assert (A' : ops_adm_at (map root_cell_of roots) fs ops).
  { apply (ops_admb_sound fs V). rewrite kinds0_st0. exact A. }
  destruct (convs_invariant fs V ops _ _ st res (cinv_init roots fs) A' Run) as [HL HM].
  destruct (spec_ops (infos0 0 roots) ops) as [infos exp] eqn:Sp.
  destruct (c06_invariant roots fs ops st res infos exp R V A Run Sp) as [H _].
  pose proof (hinv_wf _ _ _ _ H) as W.
  split; [exact HL|].
  intros a k t p u La Hin Hn.
  destruct (nth_error st a) as [c|] eqn:Ea; [|apply nth_error_None in Ea; lia].
  rewrite (errors_is_gf st W (val_of st a) a c t true p u (gv_val_of st a c Ea) Ea).
  f_equal. exact (HM a c k t p u Ea Hin Hn).
Qed.

(* the same with the target written as the case's own foreign value *)
Corollary spec_convs_sound_comparable roots fs ops st res a k :
  roots_ok roots = true -> fs_vf fs = true -> ops_adm roots fs ops = true ->
  run_ops ext_wiring (map root_cell_of roots) fs ops = Some (st, res) ->
  a < length st -> k < length fs ->
  In k (nth a (spec_convs (map (fun _ => []) roots) ops) []) ->
  comparable (nth k fs VNil) = true ->
  errors_is st (val_of st a) (nth k fs VNil) = Ok true.
Proof.
  intros R V A Run La Lk Hin Cm.
  destruct (nth_fs_vf fs k V) as [E|[t [c [p [u E]]]]].
  - exfalso. unfold fs_vf in V. rewrite forallb_forall in V.
    specialize (V (nth k fs VNil) (nth_In _ _ Lk)). rewrite E in V. discriminate.
  - rewrite E in Cm |- *. simpl in Cm. subst c.
    exact (proj2 (spec_convs_sound roots fs ops st res R V A Run) a k t p u La Hin E).
Qed.

(* non-vacuity: one factory, three Converts of three different comparable foreign errors in a
   row, then Base() on the third result: the Base result still matches all three *)
Definition cv_roots : list c06_root := [ mkRoot [70%N] [] [] true None ].
Definition cv_fs : list val := [ VF 1 true 7 VNil; VF 1 true 8 VNil; VF 6 true 9 VNil ].
Definition cv_ops : list hstep :=
  [ ex_op (RC 0) MConvert (RF 0) 0; ex_op (RC 1) MConvert (RF 1) 1;
    ex_op (RC 2) MConvertS (RF 2) 2; ex_op (RC 3) MBase RNil 3 ].

Example spec_convs_nonvacuous :
  roots_ok cv_roots = true /\ fs_vf cv_fs = true /\ ops_adm cv_roots cv_fs cv_ops = true
  /\ spec_convs (map (fun _ => []) cv_roots) cv_ops = [[]; [0]; [0; 1]; [0; 1; 2]; [0; 1; 2]]
  /\ match run_ops ext_wiring (map root_cell_of cv_roots) cv_fs cv_ops with
     | Some (st, res) =>
         res = [1; 2; 3; 4]
         /\ errors_is st (val_of st 4) (nth 0 cv_fs VNil) = Ok true
         /\ errors_is st (val_of st 4) (nth 1 cv_fs VNil) = Ok true
         /\ errors_is st (val_of st 4) (nth 2 cv_fs VNil) = Ok true
         /\ errors_is st (val_of st 2) (nth 2 cv_fs VNil) = Ok false
     | None => False
     end.
Proof. vm_compute. repeat split; reflexivity. Qed.

Print Assumptions spec_convs_sound.
Print Assumptions spec_convs_sound_comparable.
Print Assumptions spec_convs_nonvacuous.
