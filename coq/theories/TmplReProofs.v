(* TmplReProofs.v — the language of the env-template pattern, taken as a regular expression
   (TmplReModel.hand_pattern, tied to the source text by the translator), is exactly the set
   of shaped strings of TmplProofs; hence the hand-written matcher match_env_l accepts exactly
   the strings the regular expression matches.                                              *)
From Coq Require Import List String Ascii Bool Arith Lia.
From GT Require Import GConfModel TmplModel TmplProofs TmplReModel.
Import ListNotations.

Lemma inv_cat : forall a c l, matches (RCat a c) l ->
  exists x y, l = x ++ y /\ matches a x /\ matches c y.
Proof. intros a c l H. inversion H; subst. eauto. Qed.

Lemma inv_lit : forall s l, matches (RLit s) l -> l = s.
Proof. intros s l H. inversion H; subst. reflexivity. Qed.

Lemma inv_cap : forall n a l, matches (RCap n a) l -> matches a l.
Proof. intros n a l H. inversion H; subst. assumption. Qed.

Lemma inv_cls : forall k l, matches (RCls k) l -> exists c, l = [c] /\ cls_in k c = true.
Proof. intros k l H. inversion H; subst. eauto. Qed.

Lemma inv_quest : forall a l, matches (RQuest a) l -> l = [] \/ matches a l.
Proof. intros a l H. inversion H; subst; [left; reflexivity| right; assumption]. Qed.

Lemma star_cls : forall k w,
  matches (RStar (RCls k)) w <-> Forall (fun c => cls_in k c = true) w.
Proof.
  intros k w. split.
  - intros H. remember (RStar (RCls k)) as r eqn:Er.
    induction H as [l|k' c Hc|a c x y Ha IHa Hb IHb|a|a x y Hx IHx Hy IHy|a x y Hx IHx Hy IHy|a|a x Hx IHx|n a x Hx IHx];
      try discriminate.
    + constructor.
    + inversion Er; subst. apply inv_cls in Hx. destruct Hx as [c [-> Hc]].
      cbn. constructor; [exact Hc| apply IHy; reflexivity].
  - induction w as [|c w IH]; intros H.
    + constructor.
    + inversion H; subst. change (c :: w) with ([c] ++ w). apply MStarS.
      * constructor. assumption.
      * apply IH. assumption.
Qed.

Lemma plus_cls : forall k n,
  matches (RPlus (RCls k)) n <-> n <> [] /\ Forall (fun c => cls_in k c = true) n.
Proof.
  intros k n. split.
  - intros H. inversion H as [| | | | |a' x y Hx Hy| | |]; subst.
    apply inv_cls in Hx. destruct Hx as [c [-> Hc]].
    apply star_cls in Hy. split; [discriminate| constructor; assumption].
  - intros [Hne H]. destruct n as [|c n]; [congruence|]. inversion H; subst.
    change (c :: n) with ([c] ++ n). apply MPlus; [constructor; assumption| apply star_cls; assumption].
Qed.

Lemma not_space_not_nl : forall c, is_space c = false -> is_nl c = false.
Proof.
  intros c H. destruct (is_nl c) eqn:E; [|reflexivity]. apply nl_is_space in E. congruence.
Qed.

Lemma existsb_app_false : forall (f : ascii -> bool) x y,
  existsb f x = false -> existsb f y = false -> existsb f (x ++ y) = false.
Proof. intros. rewrite existsb_app, H, H0. reflexivity. Qed.

Lemma forall_not_nl : forall x, Forall (fun c => negb (is_nl c) = true) x <-> existsb is_nl x = false.
Proof.
  induction x as [|c x IH]; cbn; split; intros H; try constructor; try reflexivity.
  - inversion H; subst. apply negb_true_iff in H2. rewrite H2. apply IH. assumption.
  - apply orb_false_iff in H. apply negb_true_iff. apply H.
  - apply orb_false_iff in H. apply IH. apply H.
Qed.

(* group 2: (.*\S)  =  non-empty, newline-free, ending in a non-space *)
Lemma default_group : forall d,
  matches (RCat (RStar (RCls CAnyNotNL)) (RCls CNotSpace)) d <-> (no_nl d /\ ends_nonspace d).
Proof.
  intros d. split.
  - intros H. apply inv_cat in H. destruct H as [x [y [-> [Hx Hy]]]].
    apply star_cls in Hx. apply inv_cls in Hy. destruct Hy as [c [-> Hc]]. cbn in Hc.
    apply negb_true_iff in Hc. split.
    + unfold no_nl. apply existsb_app_false.
      * apply forall_not_nl. exact Hx.
      * cbn. rewrite (not_space_not_nl c Hc). reflexivity.
    + exists x, c. split; [reflexivity| exact Hc].
  - intros [Hn [x [c [-> Hc]]]]. apply MCat.
    + apply star_cls. apply forall_not_nl. unfold no_nl in Hn. rewrite existsb_app in Hn.
      apply orb_false_iff in Hn. apply Hn.
    + constructor. cbn. rewrite Hc. reflexivity.
Qed.

Lemma sp_forall : forall w, Forall sp w <-> Forall (fun c => cls_in CSpace c = true) w.
Proof. intros w. split; intros H; exact H. Qed.
Lemma wd_forall : forall w, Forall wd w <-> Forall (fun c => cls_in CWord c = true) w.
Proof. intros w. split; intros H; exact H. Qed.

Theorem pattern_language : forall l, matches hand_pattern l <-> shaped l.
Proof.
  intros l. unfold hand_pattern. split.
  - intros H.
    apply inv_cat in H. destruct H as [x0 [r0 [-> [H0 H]]]]. apply inv_lit in H0. subst x0.
    apply inv_cat in H. destruct H as [a1 [r1 [-> [H1 H]]]]. apply star_cls in H1.
    apply inv_cat in H. destruct H as [x2 [r2 [-> [H2 H]]]]. apply inv_lit in H2. subst x2.
    apply inv_cat in H. destruct H as [a2 [r3 [-> [H3 H]]]]. apply star_cls in H3.
    apply inv_cat in H. destruct H as [n [r4 [-> [H4 H]]]]. apply inv_cap in H4. apply plus_cls in H4.
    destruct H4 as [Hne Hn].
    apply inv_cat in H. destruct H as [a3 [r5 [-> [H5 H]]]]. apply star_cls in H5.
    apply inv_cat in H. destruct H as [p [r6 [-> [H6 H]]]].
    apply inv_cat in H. destruct H as [a4 [r7 [-> [H7 H]]]]. apply star_cls in H7.
    apply inv_cat in H. destruct H as [d [r8 [-> [H8 H]]]].
    apply inv_cat in H. destruct H as [a5 [r9 [-> [H9 H]]]]. apply star_cls in H9.
    apply inv_lit in H. subst r9.
    assert (Hp : exists pb, p = pipe_s pb).
    { apply inv_quest in H6. destruct H6 as [->|H6]; [exists false; reflexivity|].
      apply inv_lit in H6. subst p. exists true. reflexivity. }
    destruct Hp as [pb ->].
    assert (Hd : d = [] \/ (no_nl d /\ ends_nonspace d)).
    { apply inv_quest in H8. destruct H8 as [->|H8]; [left; reflexivity|].
      right. apply inv_cap in H8. apply default_group. exact H8. }
    exists {| w1 := a1; w2 := a2; nm := n; w3 := a3; has_pipe := pb; w4 := a4; df := d; w5 := a5 |}.
    split; [|reflexivity].
    unfold shape_ok. cbn [w1 w2 nm w3 has_pipe w4 df w5]. repeat split; assumption.
  - intros [s [[H1 [H2 [H3 [H4 [H5 [Hn [Hne Hd]]]]]]] ->]]. unfold render.
    apply MCat; [apply MLit|].
    apply MCat; [apply star_cls; exact H1|].
    apply MCat; [apply MLit|].
    apply MCat; [apply star_cls; exact H2|].
    apply MCat; [apply MCap; apply plus_cls; split; assumption|].
    apply MCat; [apply star_cls; exact H3|].
    apply MCat; [destruct (has_pipe s); [apply MQuest1; apply MLit| apply MQuest0]|].
    apply MCat; [apply star_cls; exact H4|].
    apply MCat.
    { destruct Hd as [Hd|Hd]; [rewrite Hd; apply MQuest0|].
      apply MQuest1. apply MCap. apply default_group. exact Hd. }
    apply MCat; [apply star_cls; exact H5| apply MLit].
Qed.

(* the hand-written matcher accepts exactly what the regular expression matches *)
Theorem matcher_is_pattern : forall l, match_env_l l <> None <-> matches hand_pattern l.
Proof. intros l. rewrite pattern_language. apply match_none_iff. Qed.
