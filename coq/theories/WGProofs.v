(* WGProofs.v — the C01 / C02 facts about the pair-CAS machine, derived from the inductive
   invariant of WGInv.v.  Nothing here depends on the number of threads, the length of the
   client programs or the schedule.                                                        *)
From Coq Require Import List Arith ZArith Bool Lia String.
From GT Require Import Base.Conc.
From GT Require Import Base.ConcFacts.
From GT Require Import Base.ConcIR.
From GT Require Import WGModel WGSpec WGInv WGProg.
Import ListNotations.
Local Open Scope Z_scope.

Lemma reachable_inv : forall cf, wg_reachable cf -> Inv cf.
Proof. intros cf (progs & sched & ->). apply Inv_exec. Qed.

(* ---------------------------------------------------------------- C01 *)
Lemma c01_all : forall progs sched, c01_ok (tr (wg_exec progs sched)) = true.
Proof. intros. unfold c01_ok. apply (i_ok _ (Inv_exec progs sched)). Qed.

Lemma c01_wb : forall progs sched,
  well_behaved (tr (wg_exec progs sched)) = true -> c01_ok (tr (wg_exec progs sched)) = true.
Proof. intros. apply c01_all. Qed.

(* the conservative lower bound really is a lower bound of the count *)
Lemma lb_le_count : forall cf, Inv cf -> lb_of (tr cf) <= cnt (sh cf).
Proof.
  intros cf HI. rewrite (i_lb _ HI).
  pose proof (sumf_nonneg _ contrib contrib_nonneg (thr cf)). lia.
Qed.

(* state form of C01 (I6): a channel some Wait returned that is closed, or about to be closed,
   has its watch marked zero_seen *)
Lemma c01_state_form : forall progs sched w x,
  let cf := wg_exec progs sched in
  In w (m_ws (mon_of (tr cf))) -> w_ch w = Some x -> In x (closed (sh cf)) -> w_zero w = true.
Proof.
  intros progs sched w x cf Hw Hc Hx. eapply (i_mon _ (Inv_exec progs sched)); eauto.
Qed.

(* sentinel installed iff count zero; installed channel open otherwise *)
Lemma sentinel_iff_zero : forall cf, Inv cf ->
  (chn (sh cf) = 0%nat <-> cnt (sh cf) = 0) /\
  (cnt (sh cf) <> 0 -> ~ In (chn (sh cf)) (closed (sh cf))).
Proof.
  intros cf HI. split; [exact (i_sent _ HI)|].
  intros Hn. apply (i_open _ HI). intro E. apply Hn. apply (i_sent _ HI). exact E.
Qed.

(* ---------------------------------------------------------------- no call ever panics *)
Definition ev_no_panic (e : ev) : Prop := match e with ERet _ RPanic => False | _ => True end.

Lemma step_trace : forall cf tid, exists it, tr (wg_step cf tid) = it :: tr cf /\ it_tid it = tid.
Proof.
  intros cf tid. unfold wg_step, step. destruct (nth_error (thr cf) tid) as [t|].
  - destruct (tstep wg_begin wg_mstep wg_fatal (sh cf) t) as [[s' t'] e]. cbn. eauto.
  - cbn. eauto.
Qed.

Lemma step_no_panic : forall cf tid it, Inv cf ->
  tr (wg_step cf tid) = it :: tr cf -> ev_no_panic (it_ev it).
Proof.
  intros cf tid it HI. unfold wg_step, step.
  destruct (nth_error (thr cf) tid) as [t|] eqn:Hnth.
  2:{ cbn. intro H. inversion H. exact I. }
  pose proof (i_wf _ HI _ _ Hnth) as Hwf.
  destruct t as [[|c todo]|c l todo].
  - cbn. intro H. inversion H. exact I.
  - cbn. intro H. inversion H. exact I.
  - destruct c as [d| |]; destruct l as [|ov oc och|x n| |]; try destruct Hwf; cbn [tstep wg_mstep].
    + cbn. intro H. inversion H. exact I.
    + destruct (Nat.eqb (ver (sh cf)) ov); [|cbn; intro H; inversion H; exact I].
      destruct (Z.eqb (oc + d) 0); destruct (Nat.eqb och 0); cbn; intro H; inversion H; exact I.
    + pose proof (i_pend _ HI _ _ Hnth) as P. cbn in P. destruct P as (_ & _ & Pc & _).
      destruct (memb x (closed (sh cf))) eqn:M.
      * apply memb_In in M. contradiction.
      * cbn. intro H. inversion H. exact I.
    + cbn. intro H. inversion H. exact I.
    + cbn. intro H. inversion H. exact I.
Qed.

Lemma no_panic : forall progs sched it,
  In it (tr (wg_exec progs sched)) -> ev_no_panic (it_ev it).
Proof.
  intros progs sched. unfold wg_exec.
  apply (exec_invariant _ _ _ _ _ wg_begin wg_mstep wg_fatal wg_observe wg_site
           (fun cf => Inv cf /\ forall it, In it (tr cf) -> ev_no_panic (it_ev it))).
  - split; [apply Inv_init|]. intros it [].
  - intros cf t [HI Hall]. split; [apply Inv_step; exact HI|].
    destruct (step_trace cf t) as (it0 & E & _). fold wg_step. intros it Hin. rewrite E in Hin.
    destruct Hin as [<-|Hin]; [|auto]. eapply step_no_panic; eauto.
Qed.

(* ---------------------------------------------------------------- C02: at rest *)
Lemma rest_no_add : forall cf, Inv cf -> adds_in_flight (tr cf) = [] ->
  forall i t, nth_error (thr cf) i = Some t -> ~ in_add t.
Proof.
  intros cf HI Hrest i t Hi Ha. pose proof (i_infl _ HI _ _ Hi Ha) as H. rewrite Hrest in H.
  destruct H.
Qed.

Lemma rest_no_pending : forall cf, Inv cf -> adds_in_flight (tr cf) = [] ->
  forall x, ~ pending (thr cf) x.
Proof.
  intros cf HI Hrest x (i & t & Hi & Hh). apply (rest_no_add _ HI Hrest _ _ Hi).
  apply holds_inv in Hh. destruct Hh as (d & n & todo & ->). exact I.
Qed.

Lemma rest_count : forall cf, Inv cf -> adds_in_flight (tr cf) = [] ->
  cnt (sh cf) = sum_deltas (tr cf).
Proof.
  intros cf HI Hrest. rewrite (i_sum _ HI). rewrite sumf_zero; [lia|].
  intros i t Hi. pose proof (rest_no_add _ HI Hrest _ _ Hi) as Hn.
  destruct t as [todo|c l todo]; auto. destruct c; auto. exfalso. apply Hn. exact I.
Qed.

Lemma rest_zero_closed : forall cf, Inv cf -> adds_in_flight (tr cf) = [] ->
  sum_deltas (tr cf) = 0 -> forall x, In x (handed_out (tr cf)) -> In x (closed (sh cf)).
Proof.
  intros cf HI Hrest Hz x Hx. pose proof (rest_count _ HI Hrest) as Hc. rewrite Hz in Hc.
  destruct (i_hand _ HI _ Hx) as [->|[Hp|Hc']]; auto.
  - apply (i_sent _ HI) in Hc. rewrite Hc. exact (i_cl0 _ HI).
  - exfalso. exact (rest_no_pending _ HI Hrest _ Hp).
Qed.

(* a fresh Wait run solo: two steps (call, load) *)
Definition solo_wait_result (cf : wg_config) (tid : nat) : option nat :=
  match tr (wg_solo cf tid 2) with
  | it :: _ => match it_ev it with ERet CWait (RChan x) => Some x | _ => None end
  | [] => None
  end.

Lemma step_call : forall cf tid c todo,
  nth_error (thr cf) tid = Some (Idle (c :: todo)) ->
  wg_step cf tid = Config (sh cf) (upd (thr cf) tid (Run c (wg_begin c) todo))
                     (Item tid (ECall c) (wg_observe (sh cf)) (wg_site c (wg_begin c)) :: tr cf).
Proof. intros cf tid c todo H. unfold wg_step, step. rewrite H. reflexivity. Qed.

Lemma step_wait_ret : forall cf tid todo,
  nth_error (thr cf) tid = Some (Run CWait W0 todo) ->
  wg_step cf tid = Config (sh cf) (upd (thr cf) tid (Idle todo))
                     (Item tid (ERet CWait (RChan (chn (sh cf)))) (wg_observe (sh cf)) 0 :: tr cf).
Proof. intros cf tid todo H. unfold wg_step, step. rewrite H. reflexivity. Qed.

Lemma step_count_ret : forall cf tid todo,
  nth_error (thr cf) tid = Some (Run CCount C0 todo) ->
  wg_step cf tid = Config (sh cf) (upd (thr cf) tid (Idle todo))
                     (Item tid (ERet CCount (RInt (cnt (sh cf)))) (wg_observe (sh cf)) 0 :: tr cf).
Proof. intros cf tid todo H. unfold wg_step, step. rewrite H. reflexivity. Qed.

Lemma solo_two : forall cf tid, wg_solo cf tid 2 = wg_step (wg_step cf tid) tid.
Proof. reflexivity. Qed.

Lemma solo_wait_fresh : forall cf tid todo,
  nth_error (thr cf) tid = Some (Idle (CWait :: todo)) ->
  solo_wait_result cf tid = Some (chn (sh cf)) /\
  sh (wg_solo cf tid 2) = sh cf /\
  nth_error (thr (wg_solo cf tid 2)) tid = Some (Idle todo).
Proof.
  intros cf tid todo H. unfold solo_wait_result. rewrite solo_two.
  rewrite (step_call _ _ _ _ H).
  erewrite step_wait_ret; [|cbn; eapply nth_error_upd_same; eauto].
  cbn. repeat split; auto. eapply nth_error_upd_same. eapply nth_error_upd_same; eauto.
Qed.

Lemma rest_positive_open : forall cf, Inv cf -> adds_in_flight (tr cf) = [] ->
  0 < sum_deltas (tr cf) -> forall tid todo,
  nth_error (thr cf) tid = Some (Idle (CWait :: todo)) ->
  exists x, solo_wait_result cf tid = Some x /\ ~ In x (closed (sh (wg_solo cf tid 2))).
Proof.
  intros cf HI Hrest Hpos tid todo Hth. destruct (solo_wait_fresh _ _ _ Hth) as (R & S & _).
  exists (chn (sh cf)). split; auto. rewrite S.
  apply (sentinel_iff_zero _ HI). rewrite (rest_count _ HI Hrest). lia.
Qed.

(* Count() is one load of the count *)
Lemma solo_count : forall cf tid todo,
  nth_error (thr cf) tid = Some (Idle (CCount :: todo)) ->
  exists o st rest, tr (wg_solo cf tid 2)
    = Item tid (ERet CCount (RInt (cnt (sh cf)))) o st :: rest.
Proof.
  intros cf tid todo H. rewrite solo_two. rewrite (step_call _ _ _ _ H).
  erewrite step_count_ret; [|cbn; eapply nth_error_upd_same; eauto].
  cbn. eauto.
Qed.

(* ---------------------------------------------------------------- C02: Wait never waits *)
Lemma wait_one_step : forall cf tid todo,
  nth_error (thr cf) tid = Some (Run CWait W0 todo) ->
  exists o st, tr (wg_step cf tid) = Item tid (ERet CWait (RChan (chn (sh cf)))) o st :: tr cf
               /\ nth_error (thr (wg_step cf tid)) tid = Some (Idle todo).
Proof.
  intros cf tid todo H. rewrite (step_wait_ret _ _ _ H). cbn. do 2 eexists. split; eauto.
  eapply nth_error_upd_same; eauto.
Qed.

Lemma wait_bounded : forall cf, wg_reachable cf -> forall tid l todo,
  nth_error (thr cf) tid = Some (Run CWait l todo) ->
  exists x o st, tr (wg_solo cf tid 1) = Item tid (ERet CWait (RChan x)) o st :: tr cf.
Proof.
  intros cf Hr tid l todo H. pose proof (i_wf _ (reachable_inv _ Hr) _ _ H) as Hwf.
  destruct l; try destruct Hwf.
  destruct (wait_one_step _ _ _ H) as (o & st & E & _). unfold wg_solo, solo. cbn. eauto.
Qed.

(* ---------------------------------------------------------------- IR vs. machines: sites
   every site of the IR regenerated from the source is a program counter of the machine (via
   wg_site / wgo_site) and carries the operation the machine's micro-step performs; that the
   machines are the denotation of the IR is WGDenote.denote_current / denote_pinned *)
Lemma hand_prog_sites :
  hand_site_ops =
  [ (wg_site (CAdd 0) A0, [KAtomic ALoad "state"]);
    (wg_site (CAdd 0) (A1 0 0 0), [KAtomic ACAS "state"]);
    (wg_site (CAdd 0) (A2 0 0), [KClose]);
    (wg_site CWait W0, [KAtomic ALoad "state"]);
    (wg_site CCount C0, [KAtomic ALoad "state"]) ]%string.
Proof. reflexivity. Qed.

Lemma hand_prog_orig_sites :
  hand_site_ops_orig =
  [ (wgo_site (CAdd 0) OA0, [KAtomic AAdd "count"]);
    (wgo_site (CAdd 0) (OA1 0), [KAtomic ASwap "wChan"]);
    (wgo_site (CAdd 0) (OA2 0 0), [KClose]);
    (wgo_site (CAdd 0) (OA3 0), [KAtomic ACAS "wChan"]);
    (wgo_site (CAdd 0) (OA4 0), [KClose]);
    (wgo_site CWait OW0, [KAtomic ALoad "count"]);
    (wgo_site CWait (OW1 0), [KAtomic ALoad "wChan"]);
    (wgo_site CCount OC0, [KAtomic ALoad "count"]) ]%string.
Proof. reflexivity. Qed.
