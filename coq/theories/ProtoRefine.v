(* ProtoRefine.v — the string-level model (ProtoStrModel.s_argv, the one the translator tie
   Tie_C20.v equates with the regenerated source) computes the rendering of the structured model
   (ProtoModel.run, the one the theorems of Props/C20.v are about).

   [s_walk_sim]       the stateless string walk simulates walk_node when the callbacks correspond
                      on the visited paths and Join corresponds to pjoin there
   [s_find_protos_abs]  findProtos on an include path (absolute, clean): the rendered result of
                      ProtoModel.find_protos
   [s_find_protos_input] findProtos on the input directory as spelled (clean spelling, relative or
                      absolute)
   [s_file_args_sim], [s_include_args_sim]   the loop bodies of Run
   [s_argv_refines]   s_argv W g = rendering of run pkg_of cfg      (the whole of Run)
   [s_run_refines]    hence: s_run executes exactly the invocations of the structured model

   Representation hypotheses ([represents]): same tree; w_cwd = rendered c_cwd; the oracle of the
   world is pkg_of on segments; the input directory is spelled Clean (render_pspec of c_input —
   `protos`, `../protos`, `.`, `/abs/protos`, the $PWD default; '=' allowed since fix
   C20-input-dir-equals); each -include
   entry `dir[=prefix]` has  filepath.Abs dir = rendered to_abs of the structured include
   (any spelling of dir: that equation is all that is used); names in the tree hold no '/' and
   are proper names.  Unclean spellings of the input directory are covered by evaluation only
   (ProtoStrProofs.s_unclean_spellings, and every case of the correspondence run).            *)
From Coq Require Import String List Bool Arith Ascii Lia.
From GT Require Import ProtoModel ProtoProofs ProtoStrModel ProtoJudge ProtoParse ProtoScan ProtoStrProofs.
Import ListNotations.
Local Open Scope string_scope.
Local Open Scope list_scope.

Definition act_err (a : action) : gerror := match a with Continue => ENil | SkipDir => ESkipDir end.
Definition stop_err (b : bool) : gerror := if b then ESkipDir else ENil.

(* ------------------------------------------------------------------ the walk *)
Lemma s_walk_dir : forall cb p s ch,
  s_walk cb p (Dir s ch) =
  match fst (cb p (Dir s ch) ENil) with
  | ESkipDir => (snd (cb p (Dir s ch) ENil), ENil)
  | EFail => (snd (cb p (Dir s ch) ENil), EFail)
  | ENil => let '(l, e) := s_walk_list cb p ch in (snd (cb p (Dir s ch) ENil) ++ l, e)
  end.
Proof.
  intros cb p s ch. cbn [s_walk]. destruct (fst (cb p (Dir s ch) ENil)); try reflexivity.
  match goal with |- (let '(l, e) := ?X in _) = (let '(l, e) := ?Y in _) => assert (E : X = Y) end.
  { induction ch as [|c r IH]; [reflexivity|]. cbn [s_walk_list].
    destruct (s_walk cb (fp_join p (node_name c)) c) as [o e]. destruct e; try reflexivity.
    rewrite IH. reflexivity. }
  rewrite E. reflexivity.
Qed.

Section WalkSim.
  Variable cb : pspec -> node -> action * list pspec.
  Variable scb : string -> node -> gerror -> gerror * list string.
  Variable rp : pspec -> string.
  Variable P : pspec -> Prop.
  Variable Q : string -> Prop.
  Hypothesis Hcb : forall p d, P p ->
    scb (rp p) d ENil = (act_err (fst (cb p d)), map rp (snd (cb p d))).
  Hypothesis Hjoin : forall p n, P p -> Q n -> fp_join (rp p) n = rp (pjoin p n) /\ P (pjoin p n).

  Lemma s_walk_sim : forall n p, P p -> all_names Q n ->
    s_walk scb (rp p) n = (map rp (fst (walk_node cb p n)), stop_err (snd (walk_node cb p n))).
  Proof.
    induction n as [s c r|s ch IH] using node_ind'; intros p Hp Hn.
    - cbn [s_walk walk_node]. rewrite (Hcb p _ Hp). destruct (cb p (File s c r)) as [act out].
      destruct act; reflexivity.
    - rewrite s_walk_dir, walk_node_dir, (Hcb p _ Hp).
      destruct (cb p (Dir s ch)) as [act out]. destruct act; cbn [fst snd act_err]; [|reflexivity].
      apply all_names_dir in Hn. destruct Hn as [Hq Hsub].
      assert (HL : s_walk_list scb (rp p) ch = (map rp (walk_children cb p ch), ENil)).
      { clear -IH Hq Hsub Hp Hjoin. induction ch as [|c r IHl]; [reflexivity|].
        inversion IH as [|? ? IHc IHr]; subst. inversion Hq as [|? ? Hqc Hqr]; subst.
        inversion Hsub as [|? ? Hsc Hsr]; subst.
        cbn [s_walk_list walk_children].
        destruct (Hjoin p (node_name c) Hp Hqc) as [Ej Pj]. rewrite Ej, (IHc _ Pj Hsc).
        destruct (walk_node cb (pjoin p (node_name c)) c) as [o stop]. cbn [fst snd].
        destruct stop; cbn [stop_err]; [reflexivity|].
        rewrite (IHl IHr Hqr Hsr). rewrite map_app. reflexivity. }
      rewrite HL. rewrite map_app. reflexivity.
  Qed.
End WalkSim.

(* ------------------------------------------------------------------ paths *)
Definition okn (s : string) : Prop := seg_ok s /\ name_ok s.
Definition okp (q : path) : Prop := Forall seg_ok q /\ Forall name_ok q.

Lemma okp_app : forall a r, okp a -> Forall okn r -> okp (a ++ r).
Proof.
  intros a r [H1 H2] Hr. split; apply Forall_app; split; auto;
    apply Forall_forall; intros x Hx; rewrite Forall_forall in Hr; apply (Hr x Hx).
Qed.

Lemma okn_forall_split : forall r, Forall okn r -> Forall seg_ok r /\ Forall name_ok r.
Proof.
  intros r H. split; apply Forall_forall; intros x Hx; rewrite Forall_forall in H; apply (H x Hx).
Qed.

Lemma render_abs_inj : forall p q, okp p -> okp q -> render_abs p = render_abs q -> p = q.
Proof.
  intros p q [Hp1 Hp2] [Hq1 Hq2] E. apply (f_equal abs_segs) in E.
  rewrite !abs_segs_render in E by assumption. exact E.
Qed.

(* a relative clean spelling: segments without '/', not changed by Clean (".." only in front) *)
Definition rel_clean (s : path) : Prop := Forall seg_ok s /\ clean_segs false s = s.

Lemma clean_step_okn : forall acc n, name_ok n -> clean_step false acc n = acc ++ [n].
Proof.
  intros acc n (H1 & H2 & H3). unfold clean_step.
  destruct (String.eqb n "") eqn:E1; [apply String.eqb_eq in E1; contradiction|].
  destruct (String.eqb n ".") eqn:E2; [apply String.eqb_eq in E2; contradiction|].
  destruct (String.eqb n "..") eqn:E3; [apply String.eqb_eq in E3; contradiction|]. reflexivity.
Qed.

Lemma rel_clean_app : forall s r, rel_clean s -> Forall okn r -> rel_clean (s ++ r).
Proof.
  intros s r [Hs Hc] Hr. destruct (okn_forall_split r Hr) as [Hr1 Hr2]. split.
  - apply Forall_app. split; assumption.
  - unfold clean_segs in *. rewrite fold_left_app, Hc. clear Hc Hs.
    revert s. induction Hr2 as [|n r Hn Hr2 IH]; intros s; cbn [fold_left]; [rewrite app_nil_r; reflexivity|].
    rewrite clean_step_okn by exact Hn. inversion Hr as [|? ? _ Hr']; subst. inversion Hr1; subst.
    rewrite IH by assumption. rewrite <- app_assoc. reflexivity.
Qed.

Lemma concat_nonempty : forall s r, seg_ok s -> String.concat "/" (s :: r) <> "".
Proof.
  intros s r [Hs _]. destruct s; [contradiction|]. destruct r; simpl; discriminate.
Qed.

Lemma render_rel_rel : forall s, Forall seg_ok s -> is_abs_str (render_rel s) = false.
Proof.
  intros [|x s] H; [reflexivity|]. unfold render_rel, join_slash.
  pose proof (first_char_join (x :: s) ltac:(discriminate) H) as Hc.
  destruct (String.concat "/" (x :: s)) as [|c t]; [reflexivity|].
  cbn [is_abs_str]. destruct c as [[|] [|] [|] [|] [|] [|] [|] [|]]; try reflexivity. contradiction.
Qed.

Lemma render_rel_not_dot : forall s, rel_clean s -> s <> [] -> render_rel s <> ".".
Proof.
  intros s [Hs Hc] Hne E. destruct s as [|x s]; [contradiction|].
  unfold render_rel, join_slash in E.
  pose proof (split_concat (x :: s) ltac:(discriminate) Hs) as Sp. rewrite E in Sp.
  change (split_on "/" ".") with ["."] in Sp. inversion Sp; subst.
  unfold clean_segs in Hc. cbn in Hc. discriminate.
Qed.

Lemma render_rel_inj : forall s t, rel_clean s -> rel_clean t -> render_rel s = render_rel t -> s = t.
Proof.
  intros s t Hs Ht E. destruct s as [|x s], t as [|y t]; try reflexivity.
  - symmetry in E. exfalso. apply (render_rel_not_dot (y :: t) Ht ltac:(discriminate) E).
  - exfalso. apply (render_rel_not_dot (x :: s) Hs ltac:(discriminate) E).
  - unfold render_rel, join_slash in E. apply (f_equal (split_on "/")) in E.
    rewrite !split_concat in E by (try discriminate; apply Hs || apply Ht). exact E.
Qed.

Lemma render_rel_ne : forall s, Forall seg_ok s -> String.eqb (render_rel s) "" = false.
Proof.
  intros [|x s] H; [reflexivity|]. unfold render_rel, join_slash. inversion H; subst.
  destruct (String.eqb _ "") eqn:E; [|reflexivity]. apply String.eqb_eq in E.
  exfalso. eapply concat_nonempty; eauto.
Qed.

(* Join(path, name) on a rendered relative clean path *)
Lemma fp_join_rel_name : forall s n, rel_clean s -> okn n ->
  fp_join (render_rel s) n = render_rel (s ++ [n]).
Proof.
  intros s n Hs [Hn1 Hn2]. destruct Hs as [Hs Hc]. unfold fp_join.
  rewrite render_rel_ne by exact Hs. rewrite (name_ok_ne n Hn2).
  destruct s as [|x s].
  - change (render_rel [] ++ "/" ++ n)%string with ("./" ++ n)%string. unfold fp_clean.
    assert (is_abs_str ("./" ++ n) = false) as -> by reflexivity.
    change ("./" ++ n)%string with ("." ++ "/" ++ n)%string. rewrite split_app_slash by apply Hn1.
    change (split_on "/" ".") with ["."]. unfold clean_segs. cbn [app fold_left].
    unfold clean_step at 2. cbn [String.eqb orb Ascii.eqb]. rewrite clean_step_okn by exact Hn2. reflexivity.
  - unfold fp_clean.
    assert (Hr : is_abs_str (render_rel (x :: s) ++ "/" ++ n) = false).
    { pose proof (render_rel_rel (x :: s) Hs) as Hq. unfold render_rel, join_slash in *.
      destruct (String.concat "/" (x :: s)) as [|c t] eqn:Ec; [exfalso; inversion Hs; subst; eapply concat_nonempty; eauto|].
      exact Hq. }
    rewrite Hr. rewrite split_app_slash by apply Hn1.
    change (render_rel (x :: s)) with (String.concat "/" (x :: s)).
    rewrite split_concat by (try discriminate; exact Hs).
    unfold clean_segs in *. rewrite fold_left_app, Hc. cbn [fold_left].
    rewrite clean_step_okn by exact Hn2. reflexivity.
Qed.

(* ------------------------------------------------------------------ the world *)
Section World.
  Variable pkg_of : path -> result string.
  Variable W : world.
  Variable cfg : config.
  Hypothesis Hroot : w_root W = c_root cfg.
  Hypothesis Hcwd : exists cw, c_cwd cfg = cw /\ w_cwd W = render_abs cw.

  (* Lstat / Open of a rendered absolute path *)
  Lemma fs_resolve_abs : forall q, okp q -> fs_resolve W (render_abs q) = lookup (c_root cfg) q.
  Proof.
    intros q [H1 H2]. unfold fs_resolve. rewrite render_abs_ne, Hroot. unfold fp_abs.
    rewrite is_abs_render_abs, fp_clean_render_abs, abs_segs_render by assumption. reflexivity.
  Qed.

  Lemma fs_resolve_of_abs : forall s q, String.eqb s "" = false -> okp q ->
    fp_abs (w_cwd W) s = render_abs q -> fs_resolve W s = lookup (c_root cfg) q.
  Proof.
    intros s q Hs [H1 H2] E. unfold fs_resolve. rewrite Hs, Hroot, E, abs_segs_render by assumption.
    reflexivity.
  Qed.
End World.

(* ------------------------------------------------------------------ clean spellings *)
Definition clean_ok (p : pspec) : Prop :=
  match p with PAbs s => okp s | PRel s => rel_clean s end.

Lemma clean_ok_pjoin : forall p n, clean_ok p -> okn n -> clean_ok (pjoin p n).
Proof.
  intros [s|s] n H Hn; simpl.
  - apply rel_clean_app; [exact H|constructor; [exact Hn|constructor]].
  - apply okp_app; [exact H|constructor; [exact Hn|constructor]].
Qed.

Lemma rp_join : forall p n, clean_ok p -> okn n ->
  fp_join (render_pspec p) n = render_pspec (pjoin p n).
Proof.
  intros [s|s] n H Hn; simpl.
  - apply fp_join_rel_name; assumption.
  - destruct H as [H1 H2], Hn as [Hn1 Hn2]. apply fp_join_abs_name; assumption.
Qed.

Lemma rp_abs_rel_neq : forall q s, Forall seg_ok s -> String.eqb (render_abs q) (render_rel s) = false.
Proof.
  intros q s Hs. destruct (String.eqb (render_abs q) (render_rel s)) eqn:E; [|reflexivity].
  apply String.eqb_eq in E. pose proof (render_rel_rel s Hs) as Hr. rewrite <- E in Hr. discriminate.
Qed.

Lemma rp_eqb : forall p q, clean_ok p -> clean_ok q ->
  String.eqb (render_pspec p) (render_pspec q) = pspec_eqb p q.
Proof.
  intros [s|s] [t|t] Hp Hq; cbn [render_pspec pspec_eqb].
  - destruct (path_eqb s t) eqn:E.
    + apply path_eqb_eq in E. subst. apply String.eqb_refl.
    + destruct (String.eqb (render_rel s) (render_rel t)) eqn:E2; [|reflexivity].
      apply String.eqb_eq in E2. apply render_rel_inj in E2; try assumption. subst.
      rewrite path_eqb_refl in E. discriminate.
  - rewrite String.eqb_sym. apply rp_abs_rel_neq. apply Hp.
  - apply rp_abs_rel_neq. apply Hq.
  - destruct (path_eqb s t) eqn:E.
    + apply path_eqb_eq in E. subst. apply String.eqb_refl.
    + destruct (String.eqb (render_abs s) (render_abs t)) eqn:E2; [|reflexivity].
      apply String.eqb_eq in E2. apply render_abs_inj in E2; try assumption. subst.
      rewrite path_eqb_refl in E. discriminate.
Qed.

Lemma rp_dot : forall p, clean_ok p -> String.eqb (render_pspec p) "." = pspec_eqb p (PRel []).
Proof.
  intros p Hp. change "." with (render_pspec (PRel [])). apply rp_eqb; [exact Hp|].
  split; [constructor|reflexivity].
Qed.

Lemma rp_ne : forall p, clean_ok p -> String.eqb (render_pspec p) "" = false.
Proof. intros [s|s] H; simpl; [apply render_rel_ne; apply H|reflexivity]. Qed.

(* the two callbacks say the same on clean paths *)
Lemma s_cb_sim : forall cin rec p d, clean_ok cin -> clean_ok p ->
  s_cb (render_pspec cin) rec (render_pspec p) d ENil
  = (act_err (fst (callback cin rec p d)), map render_pspec (snd (callback cin rec p d))).
Proof.
  intros cin rec p d Hc Hp. unfold s_cb, callback. cbn [err_is_nil negb orb].
  rewrite (rp_dot p Hp), (rp_eqb p cin Hp Hc).
  destruct (pspec_eqb p (PRel []) || pspec_eqb p cin); [reflexivity|].
  destruct (is_dir d && negb rec); [reflexivity|]. unfold is_proto_name.
  destruct (is_regular d && String.eqb (fp_ext (node_name d)) ".proto"); reflexivity.
Qed.

Lemma callback_never_stops : forall cin rec p n,
  snd (walk_node (callback cin rec) p n) = false \/ is_dir n = false /\ fst (callback cin rec p n) = SkipDir.
Proof.
  intros cin rec p [s c r|s ch].
  - cbn [walk_node]. destruct (callback cin rec p (File s c r)) as [act out] eqn:E. destruct act; auto.
  - left. rewrite walk_node_dir. destruct (callback cin rec p (Dir s ch)) as [[|] out]; reflexivity.
Qed.

Lemma callback_file_continue : forall cin rec p s c r, fst (callback cin rec p (File s c r)) = Continue.
Proof.
  intros. unfold callback. destruct (pspec_eqb p (PRel []) || pspec_eqb p cin); [reflexivity|].
  cbn [is_dir andb]. destruct (is_regular (File s c r) && is_proto_name (node_name (File s c r))); reflexivity.
Qed.

Lemma walk_stop_false : forall cin rec p n, snd (walk_node (callback cin rec) p n) = false.
Proof.
  intros cin rec p n. destruct (callback_never_stops cin rec p n) as [H|[Hd Hs]]; [exact H|].
  destruct n as [s c r|s ch]; [|discriminate]. rewrite callback_file_continue in Hs. discriminate.
Qed.

Section Refine.
  Variable pkg_of : path -> result string.
  Variable W : world.
  Variable g : Generate.
  Variable cfg : config.
  Hypothesis Hroot : w_root W = c_root cfg.
  Hypothesis Hcwd : w_cwd W = render_abs (c_cwd cfg).
  Hypothesis Hnames : all_names okn (c_root cfg).
  Hypothesis Hinp : g_InputDir g = render_pspec (c_input cfg).
  Hypothesis Hcin : clean_ok (c_input cfg).

  (* findProtos, for any clean spelling of the directory that Lstat resolves as the model does *)
  Lemma s_find_protos_sim : forall d rec, clean_ok d ->
    fs_resolve W (render_pspec d) = lookup (c_root cfg) (to_abs (c_cwd cfg) d) ->
    s_find_protos W g (render_pspec d) rec
    = match find_protos cfg d rec with
      | Ok l => (map render_pspec l, ENil)
      | Err => ([], EFail)
      end.
  Proof.
    intros d rec Hd Hres. unfold s_find_protos, s_walk_root, find_protos. rewrite Hres, Hinp.
    destruct (lookup (c_root cfg) (to_abs (c_cwd cfg) d)) as [n|] eqn:El.
    - rewrite (s_walk_sim (callback (c_input cfg) rec) (s_cb (render_pspec (c_input cfg)) rec)
                 render_pspec clean_ok okn).
      + rewrite walk_stop_false. reflexivity.
      + intros p x Hp. apply s_cb_sim; assumption.
      + intros p x Hp Hx. split; [apply rp_join; assumption|apply clean_ok_pjoin; assumption].
      + exact Hd.
      + eapply all_names_lookup; eauto.
    - unfold s_cb. cbn [err_is_nil negb orb]. reflexivity.
  Qed.
End Refine.

(* ------------------------------------------------------------------ Run *)
Definition render_result (r : result (list arg)) : list string + gerror :=
  match r with Ok l => inl (map render_arg l) | Err => inr EFail end.

Section RefineRun.
  Variable pkg_of : path -> result string.
  Variable W : world.
  Variable g : Generate.
  Variable cfg : config.
  Hypothesis Hroot : w_root W = c_root cfg.
  Hypothesis Hcwd : w_cwd W = render_abs (c_cwd cfg).
  Hypothesis Hnames : all_names okn (c_root cfg).
  Hypothesis Hwf : wf_node (c_root cfg).
  Hypothesis Hdirs : dirs_ok cfg.
  Hypothesis Hinp : g_InputDir g = render_pspec (c_input cfg).
  Hypothesis Hcin : clean_ok (c_input cfg).
  Hypothesis Hpkg : forall s, w_pkg W s = pkg_of (abs_segs s).
  Hypothesis Hvt : g_VTProto g = c_vt cfg.
  Hypothesis Hgrpc : g_GRPC g = c_grpc cfg.
  Hypothesis Hrec : g_Recurse g = c_recurse cfg.

  Lemma s_mapping_args_sim : forall r k,
    s_mapping_args g (render_rel r ++ "=" ++ k) = map render_arg (mapping_args cfg r k).
  Proof.
    intros r k. unfold s_mapping_args, mapping_args. rewrite Hvt, Hgrpc.
    destruct (c_vt cfg), (c_grpc cfg); reflexivity.
  Qed.

  Lemma s_plugin_flags_sim : s_plugin_flags g = map render_arg (plugin_flags cfg).
  Proof.
    unfold s_plugin_flags, plugin_flags. rewrite Hvt, Hgrpc.
    destruct (c_vt cfg), (c_grpc cfg); reflexivity.
  Qed.

  Lemma s_has_gp_sim : forall q, okp q ->
    s_has_go_package W (render_abs q)
    = match lookup (c_root cfg) q with
      | Some (File _ c _) => (scan_go_package c, ENil)
      | Some (Dir _ _) => (false, EFail)      (* opens, reading fails *)
      | None => (false, EFail)
      end.
  Proof.
    intros q Hq. unfold s_has_go_package, fs_open.
    rewrite (fs_resolve_abs W cfg Hroot q Hq).
    destruct (lookup (c_root cfg) q) as [[s c r|s ch]|]; reflexivity.
  Qed.

  Lemma exists_last' : forall (r : path), r <> [] -> exists r' n, r = r' ++ [n].
  Proof. intros r H. destruct (exists_last H) as (r' & n & E). eauto. Qed.

  Definition below_path (a : path) (p : pspec) : Prop :=
    exists r, p = PAbs (a ++ r) /\ r <> [] /\ Forall okn r
              /\ (forall n, lookup (c_root cfg) (a ++ r) = Some n -> is_dir n = false).

  (* generate.go:68-110, the loop over the protos found below include path a *)
  Lemma s_collect_files_sim : forall a pre has ps, okp a -> a <> [] \/ True ->
    Forall (below_path a) ps ->
    s_collect (s_file_args W g (render_abs a) pre has) (map render_pspec ps)
    = render_result (include_files pkg_of cfg a (if has then Some pre else None) ps).
  Proof.
    intros a pre has ps Ha _ Hps. induction Hps as [|p ps (r & -> & Hne & Hr & Hfile) Hps IH].
    - reflexivity.
    - cbn [map s_collect include_files render_pspec].
      assert (Hq : okp (a ++ r)) by (apply okp_app; assumption).
      unfold s_file_args at 1. rewrite (s_has_gp_sim _ Hq).
      unfold file_has_go_package. cbn [to_abs]. rewrite (norm_ok_id (a ++ r)) by apply Hq.
      destruct (lookup (c_root cfg) (a ++ r)) as [[s0 c0 r0|s0 ch0]|]; cbn [err_is_nil negb];
        [|specialize (Hfile _ eq_refl); discriminate|reflexivity].
      cbn [has_go_package]. destruct (scan_go_package c0).
      + rewrite IH. destruct (include_files pkg_of cfg a _ ps); reflexivity.
      + unfold fp_rel_e. rewrite fp_rel_below by apply Hq. cbn [err_is_nil negb].
        rewrite rel_app.
        destruct (exists_last' r Hne) as (r' & nm & ->).
        assert (Hr' : okp (r' ++ [nm])).
        { destruct (okn_forall_split _ Hr). split; assumption. }
        rewrite (fp_dir_rel r' nm) by apply Hr'.
        assert (Ed : dir_of (r' ++ [nm]) = r') by (unfold dir_of; apply removelast_last).
        destruct has; cbn [mapping_pkg].
        * unfold join_pkg. rewrite Ed, s_mapping_args_sim, IH.
          destruct (include_files pkg_of cfg a (Some pre) ps); [|reflexivity].
          cbn [render_result]. rewrite map_app. reflexivity.
        * unfold pkg_name_from_path.
          replace (a ++ r' ++ [nm]) with ((a ++ r') ++ [nm]) in * by (rewrite app_assoc; reflexivity).
          rewrite (fp_dir_abs (a ++ r') nm) by apply Hq.
          assert (Eda : dir_of ((a ++ r') ++ [nm]) = a ++ r') by (unfold dir_of; apply removelast_last).
          rewrite Eda, Hpkg.
          assert (Hqa : okp (a ++ r')).
          { destruct Hq as [H1 H2]. apply Forall_app in H1. apply Forall_app in H2. split; tauto. }
          rewrite abs_segs_render by apply Hqa.
          destruct (pkg_of (a ++ r')) as [k|]; cbn [err_is_nil negb]; [|reflexivity].
          rewrite s_mapping_args_sim, IH.
          destruct (include_files pkg_of cfg a None ps); [|reflexivity].
          cbn [render_result]. rewrite map_app. reflexivity.
  Qed.

  (* how a directory spelling of the command line denotes a directory of the structured model *)
  Definition dir_rep (d : string) (p : pspec) : Prop :=
    String.eqb d "" = false
    /\ fp_abs (w_cwd W) d = render_abs (to_abs (c_cwd cfg) p)
    /\ Forall seg_ok (to_abs (c_cwd cfg) p).

  (* generate.go, one iteration of the loop over includePaths *)
  Lemma s_include_core_sim : forall d pre (has : bool) inc, In inc (include_paths cfg) ->
    dir_rep d (fst inc) -> snd inc = (if has then Some pre else None) ->
    s_include_core W g d pre has = render_result (include_args pkg_of cfg inc).
  Proof.
    intros d pre has inc Hin (Hd & Habs & Hseg) Hpre.
    unfold s_include_core, include_args. rewrite Habs.
    set (a := to_abs (c_cwd cfg) (fst inc)) in *.
    assert (Ha : okp a) by (split; [exact Hseg|apply to_abs_names]).
    destruct (Hdirs inc Hin) as (s & ch & Hl). fold a in Hl.
    change (render_abs a) with (render_pspec (PAbs a)).
    rewrite (s_find_protos_sim W g cfg Hnames Hinp Hcin (PAbs a) true Ha).
    2:{ cbn [render_pspec to_abs]. rewrite (norm_ok_id a) by apply Ha. apply fs_resolve_abs; assumption. }
    rewrite (find_protos_include cfg a s ch Hwf Hdirs (proj2 Ha) Hl). cbn [err_is_nil negb].
    set (L := filter (fun rx => is_proto_file (snd rx)) (below (Dir s ch))).
    cbn [render_pspec]. rewrite Hpre.
    rewrite (s_collect_files_sim a pre has _ Ha (or_intror I)).
    - destruct (include_files pkg_of cfg a _ _); reflexivity.
    - apply Forall_forall. intros p Hp. apply in_map_iff in Hp. destruct Hp as ([r x] & <- & Hrx).
      apply filter_In in Hrx. destruct Hrx as [Hrx Hpf]. exists r. cbn [fst snd] in *.
      split; [reflexivity|]. split; [|split].
      + eapply below_nonempty; eauto.
      + eapply below_all_names; [|exact Hrx]. eapply all_names_lookup; eauto.
      + intros n Hn. assert (Hwfn : wf_node (Dir s ch)) by (eapply wf_lookup; eauto).
        apply (below_lookup _ Hwfn) in Hrx. destruct Hrx as [_ Hlx].
        rewrite (lookup_app a (c_root cfg) r), Hl in Hn. rewrite Hlx in Hn. inversion Hn; subst.
        destruct n; [reflexivity|discriminate].
  Qed.

  (* an -include entry `dir[=prefix]` *)
  Definition entry_rep (e : string) (inc : pspec * option string) : Prop :=
    exists d pre has,
      str_cut e = (d, pre, has)
      /\ snd inc = (if has then Some pre else None)
      /\ dir_rep d (fst inc).

  Lemma s_include_args_sim : forall e inc, In inc (include_paths cfg) -> entry_rep e inc ->
    s_include_args W g e = render_result (include_args pkg_of cfg inc).
  Proof.
    intros e inc Hin (d & pre & has & Hcut & Hpre & Hd).
    unfold s_include_args. rewrite Hcut. apply s_include_core_sim; assumption.
  Qed.

  Lemma s_collect_includes_sim : forall es incs,
    (forall i, In i incs -> In i (include_paths cfg)) -> Forall2 entry_rep es incs ->
    s_collect (s_include_args W g) es = render_result (includes_args pkg_of cfg incs).
  Proof.
    intros es incs Hsub H. induction H as [|e i es incs Hr Hrest IH]; [reflexivity|].
    cbn [s_collect includes_args]. rewrite (s_include_args_sim e i) by (auto; apply Hsub; left; reflexivity).
    destruct (include_args pkg_of cfg i) as [x|]; [|reflexivity]. cbn [render_result].
    rewrite IH by (intros j Hj; apply Hsub; right; exact Hj).
    destruct (includes_args pkg_of cfg incs) as [y|]; [|reflexivity]. cbn [render_result].
    rewrite map_app. reflexivity.
  Qed.

  (* the input directory is taken as typed (no cut); the -include entries are cut at '=' *)
  Hypothesis Hinput : dir_rep (g_InputDir g) (c_input cfg).
  Hypothesis Hentries : Forall2 entry_rep (g_Include g) (c_includes cfg).
  Hypothesis Hres_in : fs_resolve W (g_InputDir g) = lookup (c_root cfg) (input_abs cfg).

  (* Generate.Run up to exec.Command: the argument vector is the rendering of the structured
     model's, an error there is an error here *)
  Theorem s_argv_refines : s_argv W g = render_result (run pkg_of cfg).
  Proof.
    unfold s_argv, run. rewrite Hrec.
    pose proof (s_find_protos_sim W g cfg Hnames Hinp Hcin (c_input cfg) (c_recurse cfg) Hcin) as Hf.
    rewrite <- Hinp in Hf. rewrite Hf by exact Hres_in. clear Hf.
    destruct (find_protos cfg (c_input cfg) (c_recurse cfg)) as [paths|]; cbn [err_is_nil negb]; [|reflexivity].
    unfold include_paths. cbn [includes_args].
    rewrite (s_include_core_sim (g_InputDir g) "" false (c_input cfg, None))
      by (try (left; reflexivity); try exact Hinput; reflexivity).
    destruct (include_args pkg_of cfg (c_input cfg, None)) as [first|]; [|reflexivity].
    cbn [render_result].
    rewrite (s_collect_includes_sim _ _ (fun i H => or_intror H) Hentries).
    destruct (includes_args pkg_of cfg (c_includes cfg)) as [incs|]; [|reflexivity].
    cbn [render_result]. rewrite s_plugin_flags_sim, !map_app, map_map. reflexivity.
  Qed.

  (* so: Run executes exactly the invocations of the structured model, rendered *)
  Theorem s_run_refines :
    snd (s_run W g) = map (fun argv => (s_protoc g, map render_arg argv)) (invocations pkg_of cfg).
  Proof.
    unfold s_run, invocations. rewrite s_argv_refines.
    destruct (run pkg_of cfg); reflexivity.
  Qed.
End RefineRun.

(* ------------------------------------------------------------------ the statement in one piece *)
(* the command line g in world W denotes the configuration cfg *)
Record represents (pkg_of : path -> result string) (W : world) (g : Generate) (cfg : config) : Prop := {
  rep_root : w_root W = c_root cfg;
  rep_cwd : w_cwd W = render_abs (c_cwd cfg);
  rep_names : all_names okn (c_root cfg);                 (* entry names: proper, without '/' *)
  rep_input : g_InputDir g = render_pspec (c_input cfg);  (* the input directory is spelled Clean *)
  rep_input_clean : clean_ok (c_input cfg);
  rep_pkg : forall s, w_pkg W s = pkg_of (abs_segs s);
  rep_vt : g_VTProto g = c_vt cfg;
  rep_grpc : g_GRPC g = c_grpc cfg;
  rep_rec : g_Recurse g = c_recurse cfg;
  (* the input directory as typed ('=' allowed), the -include entries cut into dir[=prefix]:
     filepath.Abs of the directory = the structured directory *)
  rep_input_dir : dir_rep W cfg (g_InputDir g) (c_input cfg);
  rep_entries : Forall2 (entry_rep W cfg) (g_Include g) (c_includes cfg);
  rep_input_resolves : fs_resolve W (g_InputDir g) = lookup (c_root cfg) (input_abs cfg)
}.

Theorem s_argv_refines_rep : forall pkg_of W g cfg,
  represents pkg_of W g cfg -> wf_node (c_root cfg) -> dirs_ok cfg ->
  s_argv W g = render_result (run pkg_of cfg).
Proof.
  intros pkg_of W g cfg [] Hwf Hd. apply s_argv_refines; assumption.
Qed.

Theorem s_run_refines_rep : forall pkg_of W g cfg,
  represents pkg_of W g cfg -> wf_node (c_root cfg) -> dirs_ok cfg ->
  snd (s_run W g) = map (fun argv => (s_protoc g, map render_arg argv)) (invocations pkg_of cfg).
Proof.
  intros pkg_of W g cfg [] Hwf Hd. apply s_run_refines; assumption.
Qed.

(* executable forms of the representation hypotheses about names *)
Fixpoint no_slash (s : string) : bool :=
  match s with
  | EmptyString => true
  | String c r => negb (Ascii.eqb c "/") && no_slash r
  end.
Definition oknb (s : string) : bool := name_okb s && no_slash s.

Lemma no_slash_has_char : forall s, no_slash s = true -> has_char "/" s = false.
Proof.
  induction s as [|c s IH]; intros H; [reflexivity|]. simpl in *.
  apply andb_true_iff in H. destruct H as [H1 H2]. rewrite (IH H2).
  destruct (Ascii.eqb c "/"); [discriminate|reflexivity].
Qed.

Lemma oknb_sound : forall s, oknb s = true -> okn s.
Proof.
  intros s H. unfold oknb in H. apply andb_true_iff in H. destruct H as [H1 H2].
  pose proof (name_okb_sound s H1) as Hn. split; [|exact Hn].
  split; [apply Hn|apply no_slash_has_char; exact H2].
Qed.

Fixpoint all_namesb (n : node) : bool :=
  match n with
  | File _ _ _ => true
  | Dir _ ch => forallb (fun c => oknb (node_name c)) ch && forallb all_namesb ch
  end.

Lemma all_namesb_sound : forall n, all_namesb n = true -> all_names okn n.
Proof.
  induction n as [s c r|s ch IH] using node_ind'; intros H; [exact I|].
  cbn [all_namesb] in H. apply andb_true_iff in H. destruct H as [H1 H2].
  apply all_names_dir. rewrite forallb_forall in H1, H2. split; apply Forall_forall; intros c Hc.
  - apply oknb_sound. apply H1. exact Hc.
  - rewrite Forall_forall in IH. apply IH; [exact Hc|]. apply H2. exact Hc.
Qed.
