(* GConfPermProofs.v — Go's map iteration order is irrelevant.

   In GConfModel a map is an association list whose order stands for the order in which
   `range` visits the entries.  [teq] identifies trees up to the order of the entries of every
   map (keys distinct, as in a Go map).  On well-formed documents resolution respects [teq]:
   whatever order each `range` happens to use, at every level, the resolved configuration is
   the same map, loading fails in the same cases, and Get reads equivalent values.          *)
From Coq Require Import List String Ascii Bool Arith Lia Permutation.
From GT Require Import GConfModel GConfProofs.
Import ListNotations.

Inductive teq : tree -> tree -> Prop :=
| TE_str : forall s, teq (Str s) (Str s)
| TE_atom : forall s, teq (Atom s) (Atom s)
| TE_null : teq Null Null
| TE_lst : forall l l', Forall2 teq l l' -> teq (Lst l) (Lst l')
| TE_mp : forall kv kv',
    NoDup (map fst kv) -> NoDup (map fst kv') ->
    (forall k c, In (k, c) kv -> exists c', In (k, c') kv' /\ teq c c') ->
    (forall k c', In (k, c') kv' -> exists c, In (k, c) kv /\ teq c c') ->
    teq (Mp kv) (Mp kv').

Definition req (r r' : res tree) : Prop :=
  match r, r' with
  | Ok a, Ok b => teq a b
  | Err, Err => True
  | _, _ => False
  end.

(* ------------------------------------------------------------------ keys of equivalent maps *)
Section Keys.
  Variables kv kv' : list (string * tree).
  Hypothesis H1 : forall k c, In (k, c) kv -> exists c', In (k, c') kv' /\ teq c c'.
  Hypothesis H2 : forall k c', In (k, c') kv' -> exists c, In (k, c) kv /\ teq c c'.

  Lemma keys_iff : forall k, In k (map fst kv) <-> In k (map fst kv').
  Proof.
    intros k. split; intros H; apply in_map_iff in H; destruct H as [[k' c] [E Hin]]; cbn in E; subst k'.
    - destruct (H1 k c Hin) as [c' [Hc' _]]. apply in_map_iff. exists (k, c'). split; [reflexivity| exact Hc'].
    - destruct (H2 k c Hin) as [c' [Hc' _]]. apply in_map_iff. exists (k, c'). split; [reflexivity| exact Hc'].
  Qed.

  Lemma nd_keys_iff : forall k, In k (nondefault_keys kv) <-> In k (nondefault_keys kv').
  Proof. intros k. rewrite !nondefault_keys_in, keys_iff. reflexivity. Qed.

  Lemma forallb_keys : forall (p : string -> bool),
    forallb p (nondefault_keys kv) = forallb p (nondefault_keys kv').
  Proof.
    intros p. destruct (forallb p (nondefault_keys kv)) eqn:E; symmetry.
    - rewrite forallb_forall in *. intros k Hk. apply E. apply nd_keys_iff. exact Hk.
    - destruct (forallb p (nondefault_keys kv')) eqn:E'; [|reflexivity].
      rewrite forallb_forall in E'. assert (forallb p (nondefault_keys kv) = true); [|congruence].
      apply forallb_forall. intros k Hk. apply E'. apply nd_keys_iff. exact Hk.
  Qed.

  Lemma nd_keys_nil : nondefault_keys kv = [] <-> nondefault_keys kv' = [].
  Proof.
    split; intros E.
    - destruct (nondefault_keys kv') as [|k r] eqn:E'; [reflexivity|].
      assert (In k (nondefault_keys kv)) by (apply nd_keys_iff; rewrite E'; left; reflexivity).
      rewrite E in H. contradiction.
    - destruct (nondefault_keys kv) as [|k r] eqn:E'; [reflexivity|].
      assert (In k (nondefault_keys kv')) by (apply nd_keys_iff; rewrite E'; left; reflexivity).
      rewrite E in H. contradiction.
  Qed.

  Lemma spec_switch_keys : forall dims, spec_switch dims kv = spec_switch dims kv'.
  Proof.
    intros dims. unfold spec_switch.
    destruct (nondefault_keys kv) as [|k r] eqn:E; destruct (nondefault_keys kv') as [|k' r'] eqn:E'.
    - reflexivity.
    - exfalso. apply nd_keys_nil in E. congruence.
    - exfalso. apply nd_keys_nil in E'. congruence.
    - rewrite <- E, <- E'. induction dims as [|d ds IH]; [reflexivity|].
      cbn [find]. rewrite (forallb_keys (parses d)). destruct (forallb (parses d) (nondefault_keys kv')); [reflexivity| exact IH].
  Qed.

  Lemma nd_keys_perm : NoDup (map fst kv) -> NoDup (map fst kv') ->
    Permutation (nondefault_keys kv) (nondefault_keys kv').
  Proof.
    intros N N'. apply NoDup_Permutation; [apply nodup_nondefault; exact N| apply nodup_nondefault; exact N'|].
    exact nd_keys_iff.
  Qed.
End Keys.

Lemma parsed_values_perm : forall d l l', Permutation l l' -> Permutation (parsed_values d l) (parsed_values d l').
Proof.
  intros d l l' H. unfold parsed_values. induction H.
  - constructor.
  - cbn. apply Permutation_app_head. exact IHPermutation.
  - cbn. rewrite !app_assoc. apply Permutation_app_tail. apply Permutation_app_comm.
  - eapply perm_trans; eassumption.
Qed.

(* ------------------------------------------------------------------ which WF case fixes spec_switch *)
Lemma plain_map_spec : forall dims kv, plain_map dims kv -> spec_switch dims kv = None.
Proof.
  intros dims kv [_ [Hkeys _]]. unfold spec_switch.
  destruct (nondefault_keys kv) as [|k r] eqn:E; [reflexivity|].
  assert (Hk : In k (nondefault_keys kv)) by (rewrite E; left; reflexivity).
  apply nondefault_keys_in in Hk. destruct Hk as [Hk _]. destruct (Hkeys k Hk) as [_ Hnone].
  rewrite <- E. clear E.
  assert (Hk' : In k (nondefault_keys kv)).
  { apply nondefault_keys_in. split; [exact Hk|]. apply is_default_false. apply (Hkeys k Hk). }
  clear Hkeys. induction dims as [|d ds IH]; [reflexivity|]. cbn [find].
  assert (Ef : forallb (parses d) (nondefault_keys kv) = false).
  { destruct (forallb (parses d) (nondefault_keys kv)) eqn:Ef; [|reflexivity].
    rewrite forallb_forall in Ef. specialize (Ef k Hk'). unfold parses in Ef.
    rewrite (Hnone d (or_introl eq_refl)) in Ef. discriminate. }
  rewrite Ef. apply IH. intros d' Hd'. apply Hnone. right. exact Hd'.
Qed.

Lemma switch_map_spec : forall dims p i d kv, switch_map dims p i d kv -> spec_switch dims kv = Some d.
Proof.
  intros dims p i d kv [_ [Hne [Hn [Hp [Hfirst _]]]]]. unfold spec_switch.
  destruct (nondefault_keys kv) as [|k0 r0] eqn:E; [congruence|]. rewrite <- E in *. clear E k0 r0 Hne.
  revert i Hn Hfirst. induction dims as [|d0 ds IH]; intros i Hn Hfirst; [destruct i; discriminate|].
  destruct i as [|i]; cbn in Hn.
  - inversion Hn; subst d0. cbn [find].
    assert (E : forallb (parses d) (nondefault_keys kv) = true).
    { apply forallb_forall. intros k Hk. specialize (Hp k Hk). unfold parses. destruct (d_parse d k); [reflexivity| congruence]. }
    rewrite E. reflexivity.
  - cbn [find]. destruct (Hfirst 0 d0 (Nat.lt_0_succ i) eq_refl) as [k [Hk Hpk]].
    assert (E : forallb (parses d0) (nondefault_keys kv) = false).
    { destruct (forallb (parses d0) (nondefault_keys kv)) eqn:Ef; [|reflexivity].
      rewrite forallb_forall in Ef. specialize (Ef k Hk). unfold parses in Ef. rewrite Hpk in Ef. discriminate. }
    rewrite E. apply (IH i Hn). intros j dj Hj Hnj. apply (Hfirst (S j) dj); [lia| exact Hnj].
Qed.

(* ------------------------------------------------------------------ sequences *)
Lemma seq_kv_ok : forall A (l : list (string * res A)) r,
  seq_kv l = Ok r ->
  map fst r = map fst l /\ (forall k a, In (k, a) r <-> In (k, Ok a) l).
Proof.
  intros A l. induction l as [|[k [a|]] l IH]; intros r H; cbn in H.
  - inversion H; subst. split; [reflexivity|]. intros; split; intros [].
  - destruct (seq_kv l) as [r0|]; [|discriminate]. inversion H; subst.
    destruct (IH r0 eq_refl) as [I1 I2]. split; [cbn; f_equal; exact I1|].
    intros k' a'. cbn. rewrite I2. split; intros [E|E]; try (right; exact E); left; inversion E; subst; reflexivity.
  - discriminate.
Qed.

Lemma in_rmap : forall (f : tree -> res tree) kv k r,
  In (k, r) (rmap f kv) <-> exists c, In (k, c) kv /\ f c = r.
Proof.
  intros f kv k r. unfold rmap. rewrite in_map_iff. split.
  - intros [[k' c] [E Hin]]. cbn in E. inversion E; subst. exists c. split; [exact Hin| reflexivity].
  - intros [c [Hin E]]. exists (k, c). split; [cbn; rewrite E; reflexivity| exact Hin].
Qed.

Lemma rmap_keys : forall (f : tree -> res tree) kv, map fst (rmap f kv) = map fst kv.
Proof. intros. unfold rmap. rewrite map_map. reflexivity. Qed.

Lemma teq_refl : forall t, (fix nd (t : tree) : Prop :=
                              match t with
                              | Lst l => (fix go l := match l with [] => True | c :: r => nd c /\ go r end) l
                              | Mp kv => NoDup (map fst kv) /\
                                         (fix go l := match l with [] => True | p :: r => nd (snd p) /\ go r end) kv
                              | _ => True
                              end) t -> teq t t.
Proof.
  induction t as [s|s| |l IH|kv IH] using tree_ind'; intros H; try constructor.
  - induction l as [|c l IHl]; [constructor|]. destruct H as [H1 H2]. inversion IH; subst.
    constructor; [apply H3; exact H1| apply IHl; assumption].
  - apply H.
  - apply H.
  - intros k c Hin. exists c. split; [exact Hin|]. destruct H as [_ H].
    induction kv as [|p kv IHkv]; [contradiction|]. destruct H as [H1 H2]. inversion IH; subst.
    destruct Hin as [->|Hin]; [apply H3; exact H1| apply IHkv; assumption].
  - intros k c Hin. exists c. split; [exact Hin|]. destruct H as [_ H].
    induction kv as [|p kv IHkv]; [contradiction|]. destruct H as [H1 H2]. inversion IH; subst.
    destruct Hin as [->|Hin]; [apply H3; exact H1| apply IHkv; assumption].
Qed.

(* ------------------------------------------------------------------ the main theorem *)
Lemma assoc_in : forall A (kv : list (string * A)) k c, assoc k kv = Some c -> In (k, c) kv.
Proof.
  intros A kv k c. induction kv as [|[k0 c0] kv IH]; [discriminate|]. cbn.
  destruct (String.eqb k k0) eqn:E; intros H.
  - apply String.eqb_eq in E. inversion H; subst. left. reflexivity.
  - right. apply IH. exact H.
Qed.


Lemma teq_Mp_inv : forall kv t', teq (Mp kv) t' ->
  exists kv', t' = Mp kv' /\ NoDup (map fst kv) /\ NoDup (map fst kv') /\
    (forall k c, In (k, c) kv -> exists c', In (k, c') kv' /\ teq c c') /\
    (forall k c', In (k, c') kv' -> exists c, In (k, c) kv /\ teq c c').
Proof. intros kv t' H. inversion H; subst. exists kv'. repeat split; assumption. Qed.

Lemma teq_Lst_inv : forall l t', teq (Lst l) t' -> exists l', t' = Lst l' /\ Forall2 teq l l'.
Proof. intros l t' H. inversion H; subst. exists l'. split; [reflexivity| assumption]. Qed.

Theorem resolve_teq : forall dims t p t',
  WF dims p t -> teq t t' -> req (resolve_spec dims t) (resolve_spec dims t').
Proof.
  intros dims t. induction t as [s|s| |l IH|kv IH] using tree_ind'; intros p t' HW HE.
  - inversion HE; subst. cbn. constructor.
  - inversion HE; subst. cbn. constructor.
  - inversion HE; subst. cbn. constructor.
  - (* lists *)
    apply teq_Lst_inv in HE. destruct HE as [l' [-> HF]]. apply WF_Lst_inv in HW.
    rewrite !resolve_Lst.
    assert (Hrel : match seq_list (map (resolve_spec dims) l), seq_list (map (resolve_spec dims) l') with
                   | Ok r, Ok r' => Forall2 teq r r'
                   | Err, Err => True
                   | _, _ => False
                   end).
    { induction HF as [|c c' l l' Hc HF IHF]; [cbn; constructor|].
      inversion IH as [|? ? IHc IHl]; subst. inversion HW as [|? ? HWc HWl]; subst.
      specialize (IHF IHl HWl). specialize (IHc None c' HWc Hc).
      cbn [map seq_list]. unfold req in IHc.
      destruct (resolve_spec dims c) as [a|]; destruct (resolve_spec dims c') as [a'|]; try contradiction.
      - destruct (seq_list (map (resolve_spec dims) l)); destruct (seq_list (map (resolve_spec dims) l'));
          try contradiction; [constructor; assumption| exact I].
      - exact I. }
    destruct (seq_list (map (resolve_spec dims) l)); destruct (seq_list (map (resolve_spec dims) l'));
      try contradiction; cbn; [constructor; exact Hrel| exact I].
  - (* maps *)
    apply teq_Mp_inv in HE. destruct HE as [kv' [-> [N [N' [H1 H2]]]]].
    rewrite Forall_forall in IH.
    pose proof (spec_switch_keys kv kv' H1 H2 dims) as ES.
    apply WF_Mp_inv in HW. destruct HW as [HP | [i [d HS]]].
    + (* plain map *)
      pose proof (plain_map_spec dims kv HP) as E. rewrite (resolve_plain dims kv E).
      rewrite ES in E. rewrite (resolve_plain dims kv' E).
      destruct HP as [_ [_ HWch]]. rewrite Forall_forall in HWch.
      set (f := resolve_spec dims).
      assert (Hfw : forall k c c', In (k, c) kv -> In (k, c') kv' -> teq c c' -> req (f c) (f c')).
      { intros k c c' Hin _ Hc. apply (IH (k, c) Hin None c'); [apply (HWch (k, c) Hin)| exact Hc]. }
      destruct (seq_kv (rmap f kv)) as [r|] eqn:Er; destruct (seq_kv (rmap f kv')) as [r'|] eqn:Er'; cbn [lift req].
      * destruct (seq_kv_ok _ _ _ Er) as [K M]. destruct (seq_kv_ok _ _ _ Er') as [K' M'].
        constructor.
        -- rewrite K, rmap_keys. exact N.
        -- rewrite K', rmap_keys. exact N'.
        -- intros k a Ha. apply M in Ha. apply in_rmap in Ha. destruct Ha as [c [Hin Efc]].
           destruct (H1 k c Hin) as [c' [Hin' Hc]]. pose proof (Hfw k c c' Hin Hin' Hc) as R.
           rewrite Efc in R. unfold req in R. destruct (f c') as [a'|] eqn:Efc'; [|contradiction].
           exists a'. split; [|exact R]. apply M'. apply in_rmap. exists c'. split; assumption.
        -- intros k a' Ha. apply M' in Ha. apply in_rmap in Ha. destruct Ha as [c' [Hin' Efc']].
           destruct (H2 k c' Hin') as [c [Hin Hc]]. pose proof (Hfw k c c' Hin Hin' Hc) as R.
           rewrite Efc' in R. unfold req in R. destruct (f c) as [a|] eqn:Efc; [|contradiction].
           exists a. split; [|exact R]. apply M. apply in_rmap. exists c. split; assumption.
      * exfalso. apply seq_kv_err in Er'. destruct Er' as [k Hk]. apply in_rmap in Hk.
        destruct Hk as [c' [Hin' Efc']]. destruct (H2 k c' Hin') as [c [Hin Hc]].
        pose proof (Hfw k c c' Hin Hin' Hc) as R. rewrite Efc' in R. unfold req in R.
        destruct (f c) as [a|] eqn:Efc; [contradiction|].
        assert (seq_kv (rmap f kv) = Err); [|congruence].
        apply seq_kv_err. exists k. apply in_rmap. exists c. split; assumption.
      * exfalso. apply seq_kv_err in Er. destruct Er as [k Hk]. apply in_rmap in Hk.
        destruct Hk as [c [Hin Efc]]. destruct (H1 k c Hin) as [c' [Hin' Hc]].
        pose proof (Hfw k c c' Hin Hin' Hc) as R. rewrite Efc in R. unfold req in R.
        destruct (f c') as [a'|] eqn:Efc'; [contradiction|].
        assert (seq_kv (rmap f kv') = Err); [|congruence].
        apply seq_kv_err. exists k. apply in_rmap. exists c'. split; assumption.
      * exact I.
    + (* switch *)
      pose proof (switch_map_spec dims p i d kv HS) as E. rewrite (resolve_switch dims kv d E).
      rewrite ES in E. rewrite (resolve_switch dims kv' d E).
      destruct HS as [_ [_ [_ [_ [_ [Hv [_ HWch]]]]]]]. rewrite Forall_forall in HWch.
      assert (Hv' : NoDup (parsed_values d (nondefault_keys kv'))).
      { eapply Permutation_NoDup; [|exact Hv]. apply parsed_values_perm. apply nd_keys_perm; assumption. }
      assert (Hfw : forall k c c', In (k, c) kv -> teq c c' -> req (resolve_spec dims c) (resolve_spec dims c')).
      { intros k c c' Hin Hc. apply (IH (k, c) Hin (Some i) c'); [apply (HWch (k, c) Hin)| exact Hc]. }
      destruct (find (fun q : string * tree => negb (is_default (fst q)) && is_sel d (fst q)) kv) as [[k c]|] eqn:Ef.
      * (* an entry for the selected value: it is the active entry on both sides *)
        apply find_some in Ef. destruct Ef as [Hin Hpred]. cbn [fst] in Hpred.
        apply andb_true_iff in Hpred. destruct Hpred as [Hd Hs]. apply negb_true_iff in Hd.
        assert (Hk : k <> default_key).
        { intros ->. unfold is_default in Hd. rewrite String.eqb_refl in Hd. discriminate. }
        assert (Hp : d_parse d k = Some (d_sel d)).
        { unfold is_sel in Hs. destruct (d_parse d k) as [v|]; [|discriminate]. apply Nat.eqb_eq in Hs. subst. reflexivity. }
        destruct (H1 k c Hin) as [c' [Hin' Hc]].
        rewrite (active_selected d kv k c N Hv Hin Hk Hp).
        rewrite (active_selected d kv' k c' N' Hv' Hin' Hk Hp).
        apply (Hfw k c c' Hin Hc).
      * (* none: the default entry, if any, on both sides *)
        assert (Hnone : forall k c, In (k, c) kv -> k <> default_key -> d_parse d k <> Some (d_sel d)).
        { intros k c Hin Hk Hp. apply (find_none _ _ Ef) in Hin. cbn [fst] in Hin.
          rewrite (is_default_false k Hk) in Hin. unfold is_sel in Hin. rewrite Hp, Nat.eqb_refl in Hin. discriminate. }
        assert (Hnone' : forall k c', In (k, c') kv' -> k <> default_key -> d_parse d k <> Some (d_sel d)).
        { intros k c' Hin' Hk. destruct (H2 k c' Hin') as [c [Hin _]]. apply (Hnone k c Hin Hk). }
        rewrite (active_default d kv Hnone), (active_default d kv' Hnone').
        destruct (assoc default_key kv) as [c|] eqn:Ea; destruct (assoc default_key kv') as [c'|] eqn:Ea'.
        -- assert (Hin : In (default_key, c) kv) by (apply assoc_in; exact Ea).
           destruct (H1 _ c Hin) as [c2 [Hin2 Hc]].
           rewrite (nodup_assoc _ kv' default_key c2 N' Hin2) in Ea'. inversion Ea'; subst c2.
           apply (Hfw default_key c c' Hin Hc).
        -- exfalso.
           assert (Hin : In (default_key, c) kv) by (apply assoc_in; exact Ea).
           destruct (H1 _ c Hin) as [c2 [Hin2 _]].
           rewrite (nodup_assoc _ kv' default_key c2 N' Hin2) in Ea'. discriminate.
        -- exfalso.
           assert (Hin' : In (default_key, c') kv') by (apply assoc_in; exact Ea').
           destruct (H2 _ c' Hin') as [c2 [Hin2 _]].
           rewrite (nodup_assoc _ kv default_key c2 N Hin2) in Ea. discriminate.
        -- exact I.
Qed.

(* Get on equivalent configurations reads equivalent values *)
Definition oeq (a b : option tree) : Prop :=
  match a, b with Some x, Some y => teq x y | None, None => True | _, _ => False end.

Theorem subtree_teq : forall path t t', teq t t' -> oeq (subtree_at t path) (subtree_at t' path).
Proof.
  induction path as [|k rest IH]; intros t t' H; [exact H|].
  cbn [subtree_at]. inversion H; subst; try exact I.
  destruct (assoc k kv) as [c|] eqn:Ea; destruct (assoc k kv') as [c'|] eqn:Ea'.
  - apply assoc_in in Ea. destruct (H2 k c Ea) as [c2 [Hin2 Hc]].
    rewrite (nodup_assoc _ kv' k c2 H1 Hin2) in Ea'. inversion Ea'; subst. apply IH. exact Hc.
  - exfalso. apply assoc_in in Ea. destruct (H2 k c Ea) as [c2 [Hin2 _]].
    rewrite (nodup_assoc _ kv' k c2 H1 Hin2) in Ea'. discriminate.
  - exfalso. apply assoc_in in Ea'. destruct (H3 k c' Ea') as [c2 [Hin2 _]].
    rewrite (nodup_assoc _ kv k c2 H0 Hin2) in Ea. discriminate.
  - exact I.
Qed.

(* the code: whatever order each range uses at each level, the resolution is the same map *)
Theorem reduce_teq : forall dims t p t' p',
  WF dims p t -> WF dims p' t' -> teq t t' -> req (reduce dims t) (reduce dims t').
Proof.
  intros dims t p t' p' HW HW' HE.
  rewrite (reduce_resolves dims t p HW), (reduce_resolves dims t' p' HW').
  eapply resolve_teq; eassumption.
Qed.
