(* WGTimed.v — WaitTimeout / WaitCTX as a model, and the property's last clause for them: they
   honour their deadline whatever the count is.

     Go source gsync/selectable_wait_group.go                       model
     ---------------------------------------------------------     ----------------------------
     WaitTimeout(d): timer := time.NewTimer(d); defer timer.Stop()  deadline source = timer.C
     WaitCTX(ctx):                                                  deadline source = ctx.Done()
        select {                                                    on entry the receive operands
        case <-deadline: return ErrWGTimeout.Base() / ctx.Err()     are evaluated once: wg.Wait()
        case <-wg.Wait(): return nil                                = one load of the state  (TW0)
        }                                                           then the goroutine sits in the
                                                                    select                  (TW1)

   Time is logical: the deadline has passed after [k] scheduling attempts of this goroutine at the
   select (any k: the theorems quantify over it).  An attempt finds the channel it loaded closed
   (-> nil), the deadline passed (-> the deadline's error), both (Go picks one: the oracle bit of
   the attempt), or neither (the goroutine stays in the select).  The shared memory seen by each
   attempt is ARBITRARY (a list of memories, one per attempt): what other goroutines do in
   between is not constrained at all - "whatever the count is".

   The shape of the two functions in the source is tied by the translator (xlate_conc -ir2 writes
   [gen_timed]: deadline source, the other operand is wg.Wait(), what each case returns, no other
   shared-memory operation; compared with [hand_timed] below on every run) and the real functions
   are called by the harness at rest points in the middle of schedules and at their end.     *)
From Coq Require Import List String Arith ZArith Bool Lia.
From GT Require Import Base.Conc.
From GT Require Import WGModel.
Import ListNotations.
Local Open Scope list_scope.

Inductive tloc :=
| TW0 (k : nat)                 (* before the load of wg.Wait(); k attempts until the deadline *)
| TW1 (x : nat) (k : nat).      (* in the select, receiving from channel x *)

Inductive tret := TNil | TDeadline.

(* one scheduling of the goroutine: memory it sees, oracle bit for a select with both cases ready *)
Definition tw_step (l : tloc) (s : shared) (pick : bool) : tloc + tret :=
  match l with
  | TW0 k => inl (TW1 (chn s) k)
  | TW1 x k =>
      match memb x (closed s), k with
      | true, O => inr (if pick then TNil else TDeadline)
      | true, S _ => inr TNil
      | false, O => inr TDeadline
      | false, S k' => inl (TW1 x k')
      end
  end.

(* run along a list of (memory, oracle bit): result and number of steps used *)
Fixpoint tw_run (l : tloc) (env : list (shared * bool)) : option (tret * nat) :=
  match env with
  | [] => None
  | (s, b) :: rest =>
      match tw_step l s b with
      | inr r => Some (r, 1)
      | inl l' => match tw_run l' rest with Some (r, n) => Some (r, S n) | None => None end
      end
  end.

(* ---- the deadline is honoured: k + 2 schedulings always suffice, whatever the memories are *)
Lemma tw_run_select : forall k x env, (k + 1 <= List.length env)%nat ->
  exists r n, tw_run (TW1 x k) env = Some (r, n) /\ (n <= k + 1)%nat.
Proof.
  induction k as [|k IH]; intros x env Hlen.
  - destruct env as [|[s b] rest]; [simpl in Hlen; lia|]. simpl.
    destruct (memb x (closed s)); eexists _, 1; split; try reflexivity; lia.
  - destruct env as [|[s b] rest]; [simpl in Hlen; lia|]. simpl.
    destruct (memb x (closed s)).
    + eexists _, 1. split; [reflexivity|lia].
    + destruct (IH x rest) as (r & n & E & Hn); [simpl in Hlen; lia|].
      rewrite E. exists r, (S n). split; [reflexivity|lia].
Qed.

Theorem tw_bounded : forall k env, (k + 2 <= List.length env)%nat ->
  exists r n, tw_run (TW0 k) env = Some (r, n) /\ (n <= k + 2)%nat.
Proof.
  intros k env Hlen. destruct env as [|[s b] rest]; [simpl in Hlen; lia|]. simpl.
  destruct (tw_run_select k (chn s) rest) as (r & n & E & Hn); [simpl in Hlen; lia|].
  rewrite E. exists r, (S n). split; [reflexivity|lia].
Qed.

(* ---- what the answers mean *)
(* nil: the channel loaded by the first step (the installed one) was closed at the attempt that
   returned *)
Lemma tw_select_nil : forall k x env n, tw_run (TW1 x k) env = Some (TNil, n) ->
  exists s b, nth_error env (n - 1) = Some (s, b) /\ memb x (closed s) = true.
Proof.
  induction k as [|k IH]; intros x env n H; destruct env as [|[s b] rest]; simpl in H; try discriminate.
  - destruct (memb x (closed s)) eqn:M.
    + inversion H; subst. exists s, b. split; [reflexivity|exact M].
    + discriminate H.
  - destruct (memb x (closed s)) eqn:M.
    + inversion H; subst. exists s, b. split; [reflexivity|exact M].
    + destruct (tw_run (TW1 x k) rest) as [[r m]|] eqn:E; [|discriminate H]. inversion H; subst.
      destruct (IH _ _ _ E) as (s' & b' & Hn & Hm). exists s', b'. split; [|exact Hm].
      destruct m; [destruct rest as [|[s0 b0] r0]; simpl in E; [discriminate E|];
                   destruct k; simpl in E;
                   repeat match type of E with
                          | context [memb ?a ?b] => destruct (memb a b)
                          | context [tw_run ?a ?b] => destruct (tw_run a b) as [[? ?]|]
                          end; inversion E|].
      simpl in *. rewrite Nat.sub_0_r in Hn. exact Hn.
Qed.

Theorem tw_nil_sound : forall k s0 b0 env n, tw_run (TW0 k) ((s0, b0) :: env) = Some (TNil, n) ->
  exists s b, nth_error env (n - 2) = Some (s, b) /\ memb (chn s0) (closed s) = true.
Proof.
  intros k s0 b0 env n H. simpl in H.
  destruct (tw_run (TW1 (chn s0) k) env) as [[r m]|] eqn:E; [|discriminate H]. inversion H; subst.
  destruct (tw_select_nil _ _ _ _ E) as (s & b & Hn & Hm). exists s, b. split; [|exact Hm].
  replace (S m - 2)%nat with (m - 1)%nat by lia. exact Hn.
Qed.

(* the deadline's error: only at the attempt at which the deadline has passed (attempt k + 1 of
   the select), never earlier *)
Lemma tw_select_deadline : forall k x env n, tw_run (TW1 x k) env = Some (TDeadline, n) -> n = S k.
Proof.
  induction k as [|k IH]; intros x env n H; destruct env as [|[s b] rest]; simpl in H; try discriminate.
  - destruct (memb x (closed s)); [destruct b|]; inversion H; reflexivity.
  - destruct (memb x (closed s)); [discriminate H|].
    destruct (tw_run (TW1 x k) rest) as [[r m]|] eqn:E; [|discriminate H]. inversion H; subst.
    f_equal. eapply IH; eauto.
Qed.

Theorem tw_deadline_sound : forall k env n, tw_run (TW0 k) env = Some (TDeadline, n) -> n = k + 2.
Proof.
  intros k env n H. destruct env as [|[s b] rest]; [discriminate H|]. simpl in H.
  destruct (tw_run (TW1 (chn s) k) rest) as [[r m]|] eqn:E; [|discriminate H]. inversion H; subst.
  apply tw_select_deadline in E. lia.
Qed.

(* ---- with a positive count and nobody moving: the installed channel is open (WGInv.i_open for
   every reachable configuration), so the call returns the deadline's error, exactly at the
   deadline; with count zero it returns nil at its first attempt (if the deadline is later) *)
Theorem tw_open_times_out : forall k s, ~ In (chn s) (closed s) ->
  forall bits, List.length bits = (k + 2)%nat ->
  tw_run (TW0 k) (map (fun b => (s, b)) bits) = Some (TDeadline, (k + 2)%nat).
Proof.
  intros k s Hopen bits Hlen.
  assert (M : memb (chn s) (closed s) = false).
  { destruct (memb (chn s) (closed s)) eqn:E; [|reflexivity]. exfalso. apply Hopen.
    unfold memb in E. apply existsb_exists in E. destruct E as (y & Hy & Ey).
    apply Nat.eqb_eq in Ey. subst. exact Hy. }
  destruct bits as [|b0 bits]; [simpl in Hlen; lia|]. simpl.
  assert (G : forall k bits, List.length bits = (k + 1)%nat ->
            tw_run (TW1 (chn s) k) (map (fun b => (s, b)) bits) = Some (TDeadline, (k + 1)%nat)).
  { induction k0 as [|k0 IH]; intros bs Hl; destruct bs as [|b bs]; simpl in Hl; try lia; simpl;
      rewrite M; [reflexivity|]. rewrite IH by lia. reflexivity. }
  rewrite G by (simpl in Hlen; lia). f_equal. f_equal. lia.
Qed.

Theorem tw_closed_returns_nil : forall k s b0 b1 rest, In (chn s) (closed s) ->
  tw_run (TW0 (S k)) ((s, b0) :: (s, b1) :: rest) = Some (TNil, 2%nat).
Proof.
  intros k s b0 b1 rest Hc.
  assert (M : memb (chn s) (closed s) = true).
  { unfold memb. apply existsb_exists. exists (chn s). split; [exact Hc|apply Nat.eqb_refl]. }
  simpl. rewrite M. reflexivity.
Qed.

(* ---- the deadline is ABSOLUTE: k only counts down.  An implementation that waits in a loop and
   starts a fresh timer whenever it is woken on a group that has been re-armed (a release followed
   by an Inc before its re-check) is a different automaton: the countdown restarts at k0 when the
   attempt finds its channel closed.  It has no bound: for every n there are n memories under
   which it gives no answer (release + re-arm every k0 attempts), whereas [tw_bounded] answers
   within k + 2 under ALL memories.  The deadline probe of the harness (-mode deadline, judged by
   WGJudge.dl_ok) drives the real code down this path. *)
Definition twr_step (k0 : nat) (l : tloc) (s : shared) : tloc + tret :=
  match l with
  | TW0 k => inl (TW1 (chn s) k)
  | TW1 x k =>
      if memb x (closed s) then
        (if Z.eqb (cnt s) 0 then inr TNil else inl (TW1 (chn s) k0))    (* re-check, fresh timer *)
      else match k with O => inr TDeadline | S k' => inl (TW1 x k') end
  end.

Fixpoint twr_run (k0 : nat) (l : tloc) (env : list shared) : option tret :=
  match env with
  | [] => None
  | s :: rest =>
      match twr_step k0 l s with
      | inr r => Some r
      | inl l' => twr_run k0 l' rest
      end
  end.

(* channel 1 has been released (closed) and the group re-armed with channel 2, and so on *)
Definition rearmed (i : nat) : shared :=
  Shared i 1 (S (S i)) (seq 0 (S (S i))) (S (S (S i))).

Lemma twr_no_answer : forall k0 n i,
  twr_run (S k0) (TW1 (S i) (S k0)) (map rearmed (seq i n)) = None.
Proof.
  intros k0 n. induction n as [|n IH]; intro i; [reflexivity|].
  cbn [seq map twr_run twr_step].
  assert (M : memb (S i) (closed (rearmed i)) = true).
  { unfold rearmed, memb. cbn [closed]. apply existsb_exists. exists (S i). split.
    - apply in_seq. lia.
    - apply Nat.eqb_refl. }
  rewrite M. cbn [rearmed cnt chn Z.eqb]. apply IH.
Qed.

Theorem twr_unbounded : forall k0 n, exists env,
  List.length env = n /\ twr_run (S k0) (TW1 1 (S k0)) env = None.
Proof.
  intros k0 n. exists (map rearmed (seq 0 n)). split.
  - rewrite map_length, seq_length. reflexivity.
  - apply twr_no_answer.
Qed.

(* ---------------------------------------------------------------- the shape of the source *)
Record timed_shape := TimedShape {
  ts_func : string;
  ts_deadline : string;       (* "timer.C" of time.NewTimer(arg) / "ctx.Done()" *)
  ts_wait : string;           (* the other receive operand: "wg.Wait()" *)
  ts_on_deadline : string;    (* what the deadline case returns *)
  ts_on_wait : string;        (* what the other case returns *)
  ts_other_ops : list string  (* any further shared-memory operation of the function: none *)
}.

Local Open Scope string_scope.
Definition hand_timed : list timed_shape :=
  [TimedShape "WaitCTX" "ctx.Done()" "wg.Wait()" "ctx.Err()" "nil" [];
   TimedShape "WaitTimeout" "time.NewTimer(timeout).C" "wg.Wait()" "ErrWGTimeout.Base()" "nil" []].
