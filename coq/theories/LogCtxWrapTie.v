(* LogCtxWrapTie.v — what the translator tie of log/custom_level.go establishes besides the
   extensional equality of the translated method bodies with the model (definitions only).

   Go promotes every method of the embedded zapcore.Core that the wrapper type does not declare
   itself.  The model (LogCtxModel.v) assumes: Enabled, Check and With are the wrapper's own -
   [enabled], [check], [core_with] on [Wrap] - while Write and Sync are NOT declared, so a log
   call reaches the innermost core's Write whatever thresholds lie in between ([write], [sink]).
   (The defect of the pinned tree was exactly a missing method: no With, so the promoted one
   dropped the wrapper.)                                                                       *)
From Coq Require Import List Bool String.
Import ListNotations.
Local Open Scope string_scope.

Definition str_mem (s : string) (l : list string) : bool := existsb (String.eqb s) l.

Definition wrapper_methods_ok (methods embeds : list string) : bool :=
  str_mem "Enabled" methods && str_mem "Check" methods && str_mem "With" methods
  && negb (str_mem "Write" methods) && negb (str_mem "Sync" methods)
  && str_mem "zapcore.Core" embeds.
