(* GSortTagModel.v — model of gsort's struct-tag parser (gsort/gen/sorter_desc.go), the step
   before GSortModel.v's `fieldT`.  No proofs here (GSortTagProofs.v).

   Go source                                             model
   ---------------------------------------------------------------------------------------
   the field's tag string, as reflect.StructTag reads      struct_tag = list of (key, value) pairs
     it: space separated key:"value" pairs (the quoting     in source order (reflect's own lexer
     conventions of reflect.StructTag are trusted)           and strconv.Unquote are not modelled)
   sortFieldDescFromTag: loop                              tag_loop (fuel = number of pairs):
       options, ok := remaining.Lookup("gsort")              lookup = first pair with key gsort;
       ... strings.Replace(remaining,                        remove_first_text = the first pair
             `gsort:"`+options+`"`, "", 1)                   whose text `key:"value"` ends with
                                                             `gsort:"<options>"` is hit: removed
                                                             when its key is gsort; a longer key
                                                             (xgsort) keeps its head `x`, a
                                                             fragment at which StructTag stops:
                                                             the tag is cut off from there (the
                                                             quoted-form retry and the "cannot
                                                             locate" error of the current code
                                                             concern values with escapes, which
                                                             this pair-level model does not have)
   sfdFromLine: strings.Split(options, ","),               split_comma, parse_options
       1..3 parts, strconv.Atoi of the second,
       third = accessor
   strconv.Atoi (base 10, optional sign, at least one      atoi (unbounded: Go additionally rejects
       digit, nothing else)                                  values outside int)
   one SortFieldDesc per parsed tag; the first error       parse_field / parse_fields (None = error,
       aborts generation                                     nothing is generated)

   Rendering (what a user writes for an intended (sorter, priority, accessor) triple; it is
   what the farm's harness writes): render_options, with the bare form `gsort:"Sorter"` for
   priority 0 without accessor; itoa = strconv.Itoa.                                         *)
From Coq Require Import List Bool ZArith NArith String Ascii Decimal.
From GT Require Import GSortModel.
Import ListNotations.
Local Open Scope string_scope.

(* ---- strings.Split(s, ",") : always at least one part *)
Fixpoint split_comma (s : string) : list string :=
  match s with
  | EmptyString => [EmptyString]
  | String c r =>
      if Ascii.eqb c "," then EmptyString :: split_comma r
      else match split_comma r with
           | [] => [String c EmptyString]
           | h :: t => String c h :: t
           end
  end.

(* ---- strconv.Atoi *)
Definition digit_val (c : ascii) : option N :=
  let n := N_of_ascii c in
  if (48 <=? n)%N && (n <=? 57)%N then Some (n - 48)%N else None.
Fixpoint digits_val (acc : N) (s : string) : option N :=
  match s with
  | EmptyString => Some acc
  | String c r => match digit_val c with
                  | Some d => digits_val (acc * 10 + d)%N r
                  | None => None
                  end
  end.
Definition unsigned_val (s : string) : option N :=
  match s with EmptyString => None | _ => digits_val 0%N s end.
Definition atoi (s : string) : option Z :=
  match s with
  | EmptyString => None
  | String c r =>
      if Ascii.eqb c "-" then option_map (fun n => (- Z.of_N n)%Z) (unsigned_val r)
      else if Ascii.eqb c "+" then option_map Z.of_N (unsigned_val r)
      else option_map Z.of_N (unsigned_val s)
  end.

(* ---- sfdFromLine *)
Definition parse_options (opts : string) : option tagT :=
  match split_comma opts with
  | [s] => Some {| tg_sorter := s; tg_prio := 0%Z; tg_acc := "" |}
  | [s; p] => match atoi p with
              | Some z => Some {| tg_sorter := s; tg_prio := z; tg_acc := "" |}
              | None => None
              end
  | [s; p; a] => match atoi p with
                 | Some z => Some {| tg_sorter := s; tg_prio := z; tg_acc := a |}
                 | None => None
                 end
  | _ => None                      (* more than three options *)
  end.

(* ---- the Lookup / Replace loop of sortFieldDescFromTag *)
Definition struct_tag := list (string * string).

Fixpoint lookup_key (k : string) (tl : struct_tag) : option string :=
  match tl with
  | [] => None
  | (k', v) :: r => if String.eqb k' k then Some v else lookup_key k r
  end.
Fixpoint has_suffix (suf s : string) : bool :=
  String.eqb suf s || match s with EmptyString => false | String _ r => has_suffix suf r end.
(* strings.Replace(remaining, `gsort:"`+v+`"`, "", 1) on the tag TEXT: the first pair whose text
   `key:"value"` ENDS with that pattern is hit.  When its key is exactly gsort the pair is gone.
   When the key is longer (`xgsort`) only the tail of the pair is cut away and the rest of the
   key (`x`) stays behind, followed by a blank: reflect.StructTag stops scanning at such a
   fragment, so every pair from there on has become invisible to Lookup. *)
Fixpoint remove_first_text (v : string) (tl : struct_tag) : struct_tag :=
  match tl with
  | [] => []
  | (k', v') :: r => if has_suffix "gsort" k' && String.eqb v' v
                     then (if String.eqb k' "gsort" then r else [])
                     else (k', v') :: remove_first_text v r
  end.
Fixpoint tag_loop (fuel : nat) (tl : struct_tag) : list string :=
  match fuel with
  | O => []
  | S f => match lookup_key "gsort" tl with
           | None => []
           | Some v => v :: tag_loop f (remove_first_text v tl)
           end
  end.
Definition gsort_options (tl : struct_tag) : list string := tag_loop (List.length tl) tl.

(* ---- one field, all fields *)
Record rfieldT := { rf_name : string; rf_isbool : bool; rf_tag : struct_tag }.

Fixpoint parse_all (opts : list string) : option (list tagT) :=
  match opts with
  | [] => Some []
  | o :: r => match parse_options o, parse_all r with
              | Some t, Some ts => Some (t :: ts)
              | _, _ => None
              end
  end.
Definition parse_field (f : rfieldT) : option fieldT :=
  match parse_all (gsort_options (rf_tag f)) with
  | Some ts => Some {| fd_name := rf_name f; fd_isbool := rf_isbool f; fd_tags := ts |}
  | None => None
  end.
Fixpoint parse_fields (fs : list rfieldT) : option (list fieldT) :=
  match fs with
  | [] => Some []
  | f :: r => match parse_field f, parse_fields r with
              | Some x, Some xs => Some (x :: xs)
              | _, _ => None
              end
  end.

(* the generator from source text to the meaning of the emitted Less *)
Definition gen_less_raw (ty : string) (rfs : list rfieldT) (name : string)
  : option (elem -> elem -> bool) :=
  match parse_fields rfs with
  | Some fs => gen_less ty fs name
  | None => None
  end.

(* ---- rendering an intended triple *)
Fixpoint uint_str (d : Decimal.uint) : string :=
  match d with
  | Nil => ""
  | D0 l => String "0" (uint_str l) | D1 l => String "1" (uint_str l)
  | D2 l => String "2" (uint_str l) | D3 l => String "3" (uint_str l)
  | D4 l => String "4" (uint_str l) | D5 l => String "5" (uint_str l)
  | D6 l => String "6" (uint_str l) | D7 l => String "7" (uint_str l)
  | D8 l => String "8" (uint_str l) | D9 l => String "9" (uint_str l)
  end.
(* strconv.Itoa *)
Definition itoa (z : Z) : string :=
  match Z.to_int z with
  | Decimal.Pos d => uint_str d
  | Decimal.Neg d => String "-" (uint_str d)
  end.
Definition render_options (bare : bool) (t : tagT) : string :=
  if bare then tg_sorter t
  else tg_sorter t ++ "," ++ itoa (tg_prio t)
       ++ (if String.eqb (tg_acc t) "" then "" else "," ++ tg_acc t).
Definition render_field (f : fieldT) : rfieldT :=
  {| rf_name := fd_name f; rf_isbool := fd_isbool f;
     rf_tag := map (fun t => ("gsort", render_options false t)) (fd_tags f) |}.

Fixpoint no_comma (s : string) : bool :=
  match s with
  | EmptyString => true
  | String c r => negb (Ascii.eqb c ",") && no_comma r
  end.
Definition tag_ok (t : tagT) : bool := no_comma (tg_sorter t) && no_comma (tg_acc t).

(* decidable equality of parsed definitions (used by the judge) *)
Definition tag_eqb (a b : tagT) : bool :=
  String.eqb (tg_sorter a) (tg_sorter b) && Z.eqb (tg_prio a) (tg_prio b)
  && String.eqb (tg_acc a) (tg_acc b).
Fixpoint tags_eqb (a b : list tagT) : bool :=
  match a, b with
  | [], [] => true
  | x :: a', y :: b' => tag_eqb x y && tags_eqb a' b'
  | _, _ => false
  end.
Definition field_eqb (a b : fieldT) : bool :=
  String.eqb (fd_name a) (fd_name b) && Bool.eqb (fd_isbool a) (fd_isbool b)
  && tags_eqb (fd_tags a) (fd_tags b).
Fixpoint fields_eqb (a b : list fieldT) : bool :=
  match a, b with
  | [], [] => true
  | x :: a', y :: b' => field_eqb x y && fields_eqb a' b'
  | _, _ => false
  end.
