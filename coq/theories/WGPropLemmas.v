(* WGPropLemmas.v — proofs of the property theorems of Props/C01.v and Props/C02.v that need more
   than one lemma (the Props files contain statements + `exact`). *)
From Coq Require Import List Arith ZArith Bool.
From GT Require Import Base.Conc.
From GT Require Import Base.ConcIR.
From GT Require Import WGModel WGSpec WGSpecProofs WGInv WGProofs WGInv2 WGWf WGRefute WGProg WGDenote.
Import ListNotations.
Local Open Scope Z_scope.

Lemma p_C01_denoted : forall progs sched,
  well_behaved (tr (dwg_exec hand_prog progs sched)) = true ->
  c01_ok (tr (dwg_exec hand_prog progs sched)) = true.
Proof.
  intros progs sched. destruct (denote_current progs sched) as [_ ->]. apply c01_wb.
Qed.

Lemma p_C01_declarative : forall progs sched,
  well_behaved (tr (wg_exec progs sched)) = true -> c01_spec (tr (wg_exec progs sched)).
Proof. intros progs sched H. apply c01_ok_spec. apply c01_wb. exact H. Qed.

Lemma p_C01_lb_le_count : forall progs sched,
  lb_of (tr (wg_exec progs sched)) <= cnt (sh (wg_exec progs sched)).
Proof. intros. apply lb_le_count. apply Inv_exec. Qed.

Lemma p_C01_sentinel_iff_zero : forall progs sched,
  let cf := wg_exec progs sched in
  (chn (sh cf) = 0%nat <-> cnt (sh cf) = 0) /\
  (cnt (sh cf) <> 0 -> ~ In (chn (sh cf)) (closed (sh cf))).
Proof. intros. apply sentinel_iff_zero. apply Inv_exec. Qed.

Lemma p_C02_rest : forall progs sched,
  let cf := wg_exec progs sched in
  adds_in_flight (tr cf) = [] ->
  cnt (sh cf) = sum_deltas (tr cf) /\
  (sum_deltas (tr cf) = 0 -> forall x, In x (handed_out (tr cf)) -> In x (closed (sh cf))) /\
  (0 < sum_deltas (tr cf) -> forall tid todo,
     nth_error (thr cf) tid = Some (Idle (CWait :: todo)) ->
     exists x, solo_wait_result cf tid = Some x /\ ~ In x (closed (sh (wg_solo cf tid 2)))).
Proof.
  intros progs sched cf Hrest. pose proof (Inv_exec progs sched) as HI. fold cf in HI.
  split; [apply rest_count; auto|]. split.
  - apply rest_zero_closed; auto.
  - apply rest_positive_open; auto.
Qed.

Lemma p_C02_declarative : forall progs sched, c02_spec (tr (wg_exec progs sched)).
Proof. intros. apply c02_ok_spec. apply c02_all. Qed.

Lemma p_C02_denoted : forall progs sched,
  c02_ok (tr (dwg_exec hand_prog progs sched)) = true /\
  (adds_in_flight (tr (dwg_exec hand_prog progs sched)) = [] ->
   cnt (sh (dwg_exec hand_prog progs sched)) = sum_deltas (tr (dwg_exec hand_prog progs sched))).
Proof.
  intros progs sched. destruct (denote_current progs sched) as [-> ->]. split.
  - apply c02_all.
  - intro H. apply rest_count; [apply Inv_exec|exact H].
Qed.

Lemma p_C02_orig_refuted : exists progs sched,
  let cf := wgo_exec progs sched in
  well_behaved (tr cf) = true /\ adds_in_flight (tr cf) = [] /\ sum_deltas (tr cf) = 1 /\
  exists tid, forall k, exists l todo,
    nth_error (thr (wgo_solo cf tid (S (S k)))) tid = Some (Run CWait l todo).
Proof.
  exists c02_witness_progs, c02_witness_sched.
  destruct c02_orig_witness_state as (H1 & H2 & H3 & _).
  repeat split; auto. exists 2%nat. exact c02_orig_wait_spins.
Qed.

Lemma p_C02_orig_refuted_monitor : exists progs sched,
  well_behaved (tr (wgo_exec progs sched)) = true /\ c02_ok (tr (wgo_exec progs sched)) = false.
Proof. eexists _, _. exact c02_orig_refuted_trace. Qed.

