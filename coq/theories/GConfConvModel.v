(* GConfConvModel.v — model of gconfig/config.go extractAndConvert[T] (no proofs): the conversion
   step that C10's memo stores the results of.

   Go (after fix C10-conversion-panic)                              model
   --------------------------------------------------------------   ----------------------------
   paths := strings.Split(key, "."); v, ok := extract(m, paths)      extract m (split_dots key)
   !ok -> error "not found"                                          Err
   bytes, err := yaml.Marshal(v)                                     marshal v       (oracle)
   err = yaml.Unmarshal(bytes, &result)                              unmarshal T bytes zero (oracle;
        decoding into an arbitrary Go type goes through reflection   None = it panics)
        and may PANIC (e.g. a struct field of interface type)
   defer recover(): a panic becomes an error                         None -> Err      (conv_model)
   before the fix the panic escaped, inside xsync's Compute          None -> CPanic   (conv3_model)

   Path lookup: dotted keys descend through maps only — a list on the way (or an index) is
   "not found"; a key that itself contains a dot cannot be addressed.                          *)
From Coq Require Import List String Bool.
Import ListNotations.
From GT Require Import GConfModel GConfCacheModel.

Inductive cres := COk (v : val) | CErr | CPanic.

Section Conv.
  Variable ybytes : Type.
  Variable ty : Type.
  Variable marshal : tree -> ybytes * bool.
  Variable unmarshal : ty -> ybytes -> val -> option (val * bool).

  (* the code of HEAD before the fix: the decoder's panic escapes *)
  Definition conv3_model (data : list (string * tree)) (zero : val) (key : string) (T : ty) : cres :=
    match extract data (split_dots key) with
    | None => CErr
    | Some v =>
        match marshal v with
        | (_, true) => CErr
        | (b, false) =>
            match unmarshal T b zero with
            | Some (r, false) => COk r
            | Some (_, true) => CErr
            | None => CPanic
            end
        end
    end.

  (* the repaired code: the deferred recover turns the panic into an error *)
  Definition conv_model (data : list (string * tree)) (zero : val) (key : string) (T : ty) : res val :=
    match conv3_model data zero key T with
    | COk r => Ok r
    | CErr | CPanic => Err
    end.

  (* getFromCache of HEAD before fix C10-conversion-panic: the decoder's panic escapes the compute
     function of the memo (and leaves xsync's bucket locked: later requests may hang — not modelled
     beyond the first panic) *)
  Variable ty_eqb : ty -> ty -> bool.
  Variable conv3 : string -> ty -> cres.
  Definition get_cached_head (c : cache ty) (key : string) (T : ty) : cache ty * outcome :=
    match lookup ty ty_eqb key T c with
    | Some v => (c, OVal v)
    | None =>
        match conv3 key T with
        | COk v => (((key, T), v) :: c, OVal v)
        | CErr => (c, OErr)
        | CPanic => (c, OPanic)
        end
    end.
  Definition run_op_head (c : cache ty) (o : op ty) : cache ty * outcome :=
    let (c', r) := get_cached_head c (op_key ty o) (op_ty ty o) in (c', finish ty o r).
  Definition fresh_head (o : op ty) : outcome := snd (run_op_head [] o).
End Conv.
