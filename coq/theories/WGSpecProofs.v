(* WGSpecProofs.v — what the streaming monitor means: c01_ok t = true -> c01_spec t, for EVERY
   trace t (not only traces of the machines).  c01_spec is the property's sentence over
   positions: for every Wait call (position s, thread tid) that returned channel x (position r)
   and every later position u at which x is observed closed, there is a position tau in
   [s, u] with lb <= 0.

   Proof: the watches of the monitor are annotated (ghost) with the position of the call that
   created them; the annotated list is sorted by decreasing start, every watch satisfies
   soundness of its zero_seen flag and of its returned channel, every call has its watch, and a
   completed call's watch carries the returned channel.                                       *)
From Coq Require Import List Arith ZArith Bool Lia Sorted.
From GT Require Import Base.Conc.
From GT Require Import WGModel WGSpec.
Import ListNotations.
Local Open Scope Z_scope.

(* ---------------------------------------------------------------- positions *)
Lemma item_at_cons : forall (it : witem) (t : trace) i,
  item_at (it :: t) i =
  if (i <? length t)%nat then item_at t i else if (i =? length t)%nat then Some it else None.
Proof.
  intros it t i. unfold item_at. simpl rev.
  destruct (Nat.ltb_spec i (length t)) as [L|L].
  - rewrite nth_error_app1; [reflexivity|]. rewrite rev_length. exact L.
  - rewrite nth_error_app2; [|rewrite rev_length; exact L]. rewrite rev_length.
    destruct (Nat.eqb_spec i (length t)) as [->|N].
    + rewrite Nat.sub_diag. reflexivity.
    + destruct (i - length t)%nat as [|k] eqn:E; [lia|]. simpl. destruct k; reflexivity.
Qed.

Lemma item_at_lt : forall (t : trace) i it, item_at t i = Some it -> (i < length t)%nat.
Proof.
  intros t i it H. unfold item_at in H. rewrite <- (rev_length t).
  apply nth_error_Some. congruence.
Qed.

Lemma prefix_upto_cons : forall (it : witem) (t : trace) i,
  prefix_upto (it :: t) i = if (i <? length t)%nat then prefix_upto t i else it :: t.
Proof.
  intros it t i. unfold prefix_upto. change (rev (it :: t)) with (rev t ++ [it]).
  destruct (Nat.ltb_spec i (length t)) as [L|L].
  - rewrite firstn_app. replace (S i - length (rev t))%nat with 0%nat by (rewrite rev_length; lia).
    simpl. rewrite app_nil_r. reflexivity.
  - rewrite firstn_all2; [|rewrite app_length, rev_length; simpl; lia].
    rewrite rev_app_distr. simpl. rewrite rev_involutive. reflexivity.
Qed.

(* ---------------------------------------------------------------- annotated watches *)
Definition awatch := (nat * watch)%type.

Definition amark (z : bool) (p : awatch) : awatch := (fst p, mark z (snd p)).

Fixpoint aset_ret (tid x : nat) (ws : list awatch) : list awatch :=
  match ws with
  | [] => []
  | p :: r =>
      match w_ch (snd p) with
      | None => if Nat.eqb (w_tid (snd p)) tid
                then (fst p, Watch (w_tid (snd p)) (Some x) (w_zero (snd p))) :: r
                else p :: aset_ret tid x r
      | Some _ => p :: aset_ret tid x r
      end
  end.

Fixpoint aws_of (t : trace) : list awatch :=
  match t with
  | [] => []
  | it :: older =>
      let z := lb_of t <=? 0 in
      let ws1 := map (amark z) (aws_of older) in
      match it_ev it with
      | ECall CWait => (length older, Watch (it_tid it) None z) :: ws1
      | ERet CWait (RChan x) => aset_ret (it_tid it) x ws1
      | _ => ws1
      end
  end.

Lemma aset_ret_erase : forall tid x ws,
  map snd (aset_ret tid x ws) = set_ret tid x (map snd ws).
Proof.
  induction ws as [|p r IH]; simpl; auto.
  destruct (w_ch (snd p)); simpl; [rewrite IH; reflexivity|].
  destruct (Nat.eqb (w_tid (snd p)) tid); simpl; [reflexivity|rewrite IH; reflexivity].
Qed.

Lemma aws_erase : forall t, map snd (aws_of t) = m_ws (mon_of t).
Proof.
  induction t as [|it t IH]; [reflexivity|].
  cbn [aws_of mon_of]. unfold mon_step. cbn [m_ws].
  assert (E : map snd (map (amark (lb_of (it :: t) <=? 0)) (aws_of t))
              = map (mark (lb_of (it :: t) <=? 0)) (m_ws (mon_of t))).
  { rewrite <- IH. rewrite !map_map. reflexivity. }
  destruct (it_ev it) as [c|c r| |]; try exact E.
  - destruct c; try exact E. cbn [map snd]. rewrite E. reflexivity.
  - destruct c; try exact E. destruct r; try exact E. rewrite aset_ret_erase, E. reflexivity.
Qed.

Definition starts (ws : list awatch) : list nat := map fst ws.

Lemma starts_amark : forall z ws, starts (map (amark z) ws) = starts ws.
Proof. intros. unfold starts. rewrite map_map. reflexivity. Qed.

Lemma starts_aset_ret : forall tid x ws, starts (aset_ret tid x ws) = starts ws.
Proof.
  induction ws as [|p r IH]; simpl; auto.
  destruct (w_ch (snd p)); simpl; [rewrite IH; reflexivity|].
  destruct (Nat.eqb (w_tid (snd p)) tid); simpl; [reflexivity|rewrite IH; reflexivity].
Qed.

(* what aset_ret does to the entries *)
Lemma in_aset_ret : forall tid x ws p,
  In p (aset_ret tid x ws) ->
  In p ws \/ exists w0, In (fst p, w0) ws /\ w_ch w0 = None /\ w_tid w0 = tid /\
                        snd p = Watch tid (Some x) (w_zero w0).
Proof.
  induction ws as [|q r IH]; intros p H; simpl in H; [destruct H|].
  destruct (w_ch (snd q)) eqn:Eq.
  - destruct H as [<-|H]; [left; left; auto|]. destruct (IH _ H) as [H1|(w0 & A & B & C & D)].
    + left; right; auto.
    + right. exists w0. repeat split; auto. right; auto.
  - destruct (Nat.eqb_spec (w_tid (snd q)) tid) as [Et|Nt].
    + destruct H as [<-|H]; [|left; right; auto]. right. exists (snd q). simpl.
      repeat split; auto; [left; destruct q; reflexivity|rewrite Et; reflexivity].
    + destruct H as [<-|H]; [left; left; auto|]. destruct (IH _ H) as [H1|(w0 & A & B & C & D)].
      * left; right; auto.
      * right. exists w0. repeat split; auto. right; auto.
Qed.

Lemma aset_ret_keeps_some : forall tid x ws s w y,
  In (s, w) ws -> w_ch w = Some y -> In (s, w) (aset_ret tid x ws).
Proof.
  induction ws as [|q r IH]; intros s w y H Hc; simpl in *; [destruct H|].
  destruct H as [->|H].
  - simpl. rewrite Hc. left; reflexivity.
  - destruct (w_ch (snd q)); [right; eauto|].
    destruct (Nat.eqb (w_tid (snd q)) tid); [right; auto|right; eauto].
Qed.

Lemma aset_ret_keeps_start : forall tid x ws s w,
  In (s, w) ws -> exists w', In (s, w') (aset_ret tid x ws).
Proof.
  induction ws as [|q r IH]; intros s w H; simpl in *; [destruct H|].
  destruct H as [->|H].
  - simpl. destruct (w_ch w); [eexists; left; reflexivity|].
    destruct (Nat.eqb (w_tid w) tid); eexists; left; reflexivity.
  - destruct (IH _ _ H) as (w' & Hw').
    destruct (w_ch (snd q)); [exists w'; right; auto|].
    destruct (Nat.eqb (w_tid (snd q)) tid); [exists w; right; auto|exists w'; right; auto].
Qed.

(* the first matching entry is the one that gets the channel *)
Lemma aset_ret_hits : forall tid x pre s w post,
  w_tid w = tid -> w_ch w = None ->
  (forall p, In p pre -> ~ (w_tid (snd p) = tid /\ w_ch (snd p) = None)) ->
  In (s, Watch tid (Some x) (w_zero w)) (aset_ret tid x (pre ++ (s, w) :: post)).
Proof.
  induction pre as [|q pre IH]; intros s w post Ht Hc Hpre; simpl.
  - rewrite Hc. rewrite Ht, Nat.eqb_refl. left; reflexivity.
  - destruct (w_ch (snd q)) eqn:Eq.
    + right. apply IH; auto. intros p Hp. apply Hpre. right; auto.
    + destruct (Nat.eqb_spec (w_tid (snd q)) tid) as [Et|Nt].
      * exfalso. apply (Hpre q); [left; auto|split; auto].
      * right. apply IH; auto. intros p Hp. apply Hpre. right; auto.
Qed.

Lemma sorted_split : forall l1 (a : nat) l2,
  StronglySorted gt (l1 ++ a :: l2) -> forall b, In b l1 -> (b > a)%nat.
Proof.
  induction l1 as [|c l1 IH]; intros a l2 H b Hb; [destruct Hb|].
  simpl in H. apply StronglySorted_inv in H. destruct H as [H1 H2].
  destruct Hb as [<-|Hb].
  - rewrite Forall_forall in H2. apply H2. apply in_or_app. right; left; auto.
  - eapply IH; eauto.
Qed.

(* ---------------------------------------------------------------- the invariant of aws_of *)
Definition zero_witness (t : trace) (s : nat) : Prop :=
  exists tau, (s <= tau < length t)%nat /\ lb_of (prefix_upto t tau) <= 0.

Record aws_inv (t : trace) : Prop := {
  a_sorted : StronglySorted gt (starts (aws_of t));
  a_start : forall s w, In (s, w) (aws_of t) ->
              (s < length t)%nat /\
              exists it, item_at t s = Some it /\ it_tid it = w_tid w /\ it_ev it = ECall CWait;
  a_zero : forall s w, In (s, w) (aws_of t) -> w_zero w = true -> zero_witness t s;
  a_ret : forall s w y, In (s, w) (aws_of t) -> w_ch w = Some y ->
            exists r it, (s < r < length t)%nat /\ item_at t r = Some it /\
                         it_tid it = w_tid w /\ it_ev it = ERet CWait (RChan y);
  a_all : forall s it, item_at t s = Some it -> it_ev it = ECall CWait ->
            exists w, In (s, w) (aws_of t);
  a_done : forall s r tid x, wait_call t s r tid x ->
             exists w, In (s, w) (aws_of t) /\ w_ch w = Some x
}.

Lemma zero_witness_cons : forall it t s, zero_witness t s -> zero_witness (it :: t) s.
Proof.
  intros it t s (tau & Hr & Hl). exists tau. split; [simpl; lia|].
  rewrite prefix_upto_cons. destruct (Nat.ltb_spec tau (length t)); [exact Hl|lia].
Qed.

Lemma zero_witness_now : forall it t s, (s <= length t)%nat -> lb_of (it :: t) <= 0 ->
  zero_witness (it :: t) s.
Proof.
  intros it t s Hs Hl. exists (length t). split; [simpl; lia|].
  rewrite prefix_upto_cons. rewrite Nat.ltb_irrefl. exact Hl.
Qed.

Lemma item_at_old : forall it (t : trace) i, (i < length t)%nat -> item_at (it :: t) i = item_at t i.
Proof.
  intros. rewrite item_at_cons. destruct (Nat.ltb_spec i (length t)); [reflexivity|lia].
Qed.

Lemma item_at_new : forall it (t : trace), item_at (it :: t) (length t) = Some it.
Proof. intros. rewrite item_at_cons. rewrite Nat.ltb_irrefl, Nat.eqb_refl. reflexivity. Qed.

Lemma wait_call_old : forall it t s r tid x, (r < length t)%nat ->
  wait_call (it :: t) s r tid x -> wait_call t s r tid x.
Proof.
  intros it t s r tid x Hr (Hsr & (o & p & Hs) & (o' & p' & Hrr) & Hmid).
  split; [exact Hsr|]. split; [|split].
  - exists o, p. rewrite item_at_old in Hs; [exact Hs|lia].
  - exists o', p'. rewrite item_at_old in Hrr; [exact Hrr|lia].
  - intros k it0 Hk Hit Ht. apply (Hmid k it0 Hk); auto. rewrite item_at_old; [exact Hit|lia].
Qed.

Lemma aws_inv_all : forall t, aws_inv t.
Proof.
  induction t as [|it t IH].
  - constructor; cbn.
    + constructor.
    + intros s w [].
    + intros s w [].
    + intros s w y [].
    + intros s it H. unfold item_at in H. simpl in H. destruct s; discriminate H.
    + intros s r tid x (_ & (o & p & H) & _). unfold item_at in H. simpl in H.
      destruct s; discriminate H.
  - set (z := lb_of (it :: t) <=? 0).
    set (A1 := map (amark z) (aws_of t)).
    (* facts about the marked old entries *)
    assert (HA1 : forall s w, In (s, w) A1 -> exists w0, In (s, w0) (aws_of t) /\ w = mark z w0).
    { intros s w H. apply in_map_iff in H. destruct H as ([s0 w0] & E & Hin).
      unfold amark in E. simpl in E. inversion E; subst. eauto. }
    assert (HA1' : forall s w0, In (s, w0) (aws_of t) -> In (s, mark z w0) A1).
    { intros s w0 H. apply in_map_iff. exists (s, w0). split; auto. }
    assert (Hstart1 : forall s w, In (s, w) A1 ->
              (s < length (it :: t))%nat /\
              exists it0, item_at (it :: t) s = Some it0 /\ it_tid it0 = w_tid w /\
                          it_ev it0 = ECall CWait).
    { intros s w H. destruct (HA1 _ _ H) as (w0 & Hin & ->).
      destruct (a_start _ IH _ _ Hin) as (Hs & it0 & H1 & H2 & H3).
      split; [simpl; lia|]. exists it0. rewrite item_at_old; auto. }
    assert (Hzero1 : forall s w, In (s, w) A1 -> w_zero w = true -> zero_witness (it :: t) s).
    { intros s w H Hz. destruct (HA1 _ _ H) as (w0 & Hin & ->). simpl in Hz.
      apply orb_true_iff in Hz. destruct Hz as [Hz|Hz].
      - apply zero_witness_cons. eapply (a_zero _ IH); eauto.
      - apply zero_witness_now; [destruct (a_start _ IH _ _ Hin); lia|].
        apply Z.leb_le. exact Hz. }
    assert (Hret1 : forall s w y, In (s, w) A1 -> w_ch w = Some y ->
              exists r it0, (s < r < length (it :: t))%nat /\ item_at (it :: t) r = Some it0 /\
                            it_tid it0 = w_tid w /\ it_ev it0 = ERet CWait (RChan y)).
    { intros s w y H Hc. destruct (HA1 _ _ H) as (w0 & Hin & ->). simpl in Hc.
      destruct (a_ret _ IH _ _ _ Hin Hc) as (r & it0 & Hr & H1 & H2 & H3).
      exists r, it0. split; [simpl; lia|]. rewrite item_at_old; [auto|lia]. }
    assert (Hsorted1 : StronglySorted gt (starts A1)).
    { unfold A1. rewrite starts_amark. exact (a_sorted _ IH). }
    assert (Hall1 : forall s it0, (s < length t)%nat -> item_at (it :: t) s = Some it0 ->
              it_ev it0 = ECall CWait -> exists w, In (s, w) A1).
    { intros s it0 Hs H He. rewrite item_at_old in H; auto.
      destruct (a_all _ IH _ _ H He) as (w0 & Hin). eauto. }
    assert (Hdone1 : forall s r tid x, (r < length t)%nat -> wait_call (it :: t) s r tid x ->
              exists w, In (s, w) A1 /\ w_ch w = Some x).
    { intros s r tid x Hr Hw. apply wait_call_old in Hw; auto.
      destruct (a_done _ IH _ _ _ _ Hw) as (w0 & Hin & Hc). exists (mark z w0). split; auto. }
    (* a wait_call ending at the new position *)
    assert (Hwc_bound : forall s r tid x, wait_call (it :: t) s r tid x -> (r <= length t)%nat).
    { intros s r tid x (_ & _ & (o & p & H) & _). apply item_at_lt in H. simpl in H. lia. }
    (* case analysis on the event *)
    assert (Hgen : forall A',
              (A' = A1 /\ (forall x, it_ev it <> ERet CWait (RChan x)) /\ it_ev it <> ECall CWait) ->
              aws_of (it :: t) = A' -> aws_inv (it :: t)).
    { intros A' (-> & Hnr & Hnc) HA. constructor; rewrite ?HA.
      - exact Hsorted1.
      - exact Hstart1.
      - exact Hzero1.
      - exact Hret1.
      - intros s it0 H He. destruct (Nat.lt_ge_cases s (length t)) as [L|L]; [eapply Hall1; eauto|].
        pose proof (item_at_lt _ _ _ H) as Hlt. simpl in Hlt. assert (Es : s = length t) by lia. subst s.
        rewrite item_at_new in H. inversion H; subst it0. contradiction.
      - intros s r tid x Hw. destruct (Nat.lt_ge_cases r (length t)) as [L|L]; [eapply Hdone1; eauto|].
        pose proof (Hwc_bound _ _ _ _ Hw) as Hb. assert (Er : r = length t) by lia. subst r.
        destruct Hw as (_ & _ & (o & p & H) & _). rewrite item_at_new in H. inversion H as [E].
        exfalso. apply (Hnr x). rewrite E. reflexivity. }
    destruct (it_ev it) as [c|c r| |] eqn:Ev.
    + destruct c as [d| |].
      * apply (Hgen A1); [repeat split; auto; congruence|]. cbn [aws_of]. rewrite Ev. reflexivity.
      * (* a new Wait call *)
        assert (HA : aws_of (it :: t) = (length t, Watch (it_tid it) None z) :: A1).
        { cbn [aws_of]. rewrite Ev. reflexivity. }
        constructor; rewrite ?HA.
        -- cbn [starts map fst]. constructor; [exact Hsorted1|]. apply Forall_forall.
           intros s Hs. unfold starts in Hs. apply in_map_iff in Hs. destruct Hs as ([s0 w] & E & Hin).
           simpl in E. subst s0. destruct (Hstart1 _ _ Hin) as (_ & it0 & H & _).
           destruct (HA1 _ _ Hin) as (w0 & Hin0 & _). destruct (a_start _ IH _ _ Hin0). lia.
        -- intros s w [E|Hin]; [|auto]. inversion E; subst. split; [simpl; lia|].
           exists it. rewrite item_at_new. auto.
        -- intros s w [E|Hin] Hz; [|eauto]. inversion E; subst. cbn in Hz.
           apply zero_witness_now; [lia|]. apply Z.leb_le. exact Hz.
        -- intros s w y [E|Hin] Hc; [|eauto]. inversion E; subst. discriminate Hc.
        -- intros s it0 H He. destruct (Nat.lt_ge_cases s (length t)) as [L|L].
           ++ destruct (Hall1 _ _ L H He) as (w & Hw). exists w. right; auto.
           ++ pose proof (item_at_lt _ _ _ H) as Hlt. simpl in Hlt. assert (Es : s = length t) by lia.
              subst s. eexists. left; reflexivity.
        -- intros s r tid x Hw. destruct (Nat.lt_ge_cases r (length t)) as [L|L].
           ++ destruct (Hdone1 _ _ _ _ L Hw) as (w & Hw1 & Hw2). exists w. split; [right|]; auto.
           ++ pose proof (Hwc_bound _ _ _ _ Hw) as Hb. assert (Er : r = length t) by lia. subst r.
              destruct Hw as (_ & _ & (o & p & H) & _). rewrite item_at_new in H.
              inversion H as [E]. rewrite E in Ev. discriminate Ev.
      * apply (Hgen A1); [repeat split; auto; congruence|]. cbn [aws_of]. rewrite Ev. reflexivity.
    + destruct c as [d| |].
      * apply (Hgen A1); [repeat split; auto; congruence|]. cbn [aws_of]. rewrite Ev. reflexivity.
      * destruct r as [n|x|].
        -- apply (Hgen A1); [repeat split; auto; congruence|]. cbn [aws_of]. rewrite Ev. reflexivity.
        -- (* a Wait return *)
           assert (HA : aws_of (it :: t) = aset_ret (it_tid it) x A1).
           { cbn [aws_of]. rewrite Ev. reflexivity. }
           assert (Hin' : forall s w, In (s, w) (aset_ret (it_tid it) x A1) ->
                     In (s, w) A1 \/
                     exists w0, In (s, w0) A1 /\ w_ch w0 = None /\ w_tid w0 = it_tid it /\
                                w = Watch (it_tid it) (Some x) (w_zero w0)).
           { intros s w H. destruct (in_aset_ret _ _ _ _ H) as [H1|(w0 & H1 & H2 & H3 & H4)]; auto.
             right. exists w0. simpl in *. auto. }
           constructor; rewrite ?HA.
           ++ rewrite starts_aset_ret. exact Hsorted1.
           ++ intros s w H. destruct (Hin' _ _ H) as [H1|(w0 & H1 & H2 & H3 & ->)]; [auto|].
              destruct (Hstart1 _ _ H1) as (Hs & it0 & E1 & E2 & E3). split; auto.
              exists it0. repeat split; auto. cbn. congruence.
           ++ intros s w H Hz. destruct (Hin' _ _ H) as [H1|(w0 & H1 & H2 & H3 & ->)]; [eauto|].
              cbn in Hz. eauto.
           ++ intros s w y H Hc. destruct (Hin' _ _ H) as [H1|(w0 & H1 & H2 & H3 & ->)]; [eauto|].
              cbn in Hc. inversion Hc; subst y. exists (length t), it.
              destruct (HA1 _ _ H1) as (w00 & Hin0 & _). destruct (a_start _ IH _ _ Hin0) as (Hs & _).
              split; [simpl; lia|]. rewrite item_at_new. repeat split; auto.
           ++ intros s it0 H He. destruct (Nat.lt_ge_cases s (length t)) as [L|L].
              ** destruct (Hall1 _ _ L H He) as (w & Hw). eapply aset_ret_keeps_start; eauto.
              ** pose proof (item_at_lt _ _ _ H) as Hlt. simpl in Hlt. assert (Es : s = length t) by lia.
                 subst s. rewrite item_at_new in H. inversion H; subst it0. congruence.
           ++ intros s r tid y Hw. destruct (Nat.lt_ge_cases r (length t)) as [L|L].
              ** destruct (Hdone1 _ _ _ _ L Hw) as (w & Hw1 & Hw2). exists w. split; auto.
                 eapply aset_ret_keeps_some; eauto.
              ** pose proof (Hwc_bound _ _ _ _ Hw) as Hb. assert (Er : r = length t) by lia. subst r.
                 destruct Hw as (Hsr & (o & p & Hs) & (o' & p' & Hr) & Hmid).
                 rewrite item_at_new in Hr. inversion Hr as [E]. rewrite E in Ev. cbn in Ev.
                 inversion Ev; subst y. assert (Etid : it_tid it = tid) by (rewrite E; reflexivity).
                 (* the watch of the call at s *)
                 destruct (Hall1 s _ Hsr Hs eq_refl) as (w & Hw).
                 destruct (Hstart1 _ _ Hw) as (_ & it0 & E1 & E2 & E3).
                 rewrite Hs in E1. inversion E1; subst it0. cbn in E2.
                 assert (Hnone : w_ch w = None).
                 { destruct (w_ch w) as [y|] eqn:Ec; auto. exfalso.
                   destruct (HA1 _ _ Hw) as (w0 & Hin0 & Ew). subst w. simpl in Ec, E2.
                   destruct (a_ret _ IH _ _ _ Hin0 Ec) as (r2 & it2 & Hr2 & G1 & G2 & G3).
                   assert (Ht2 : it_ev it2 = ETau).
                   { apply (Hmid r2 it2); [lia|rewrite item_at_old; [exact G1|lia]|].
                     rewrite G2. exact (eq_sym E2). }
                   congruence. }
                 (* split A1 at that watch: everything before it starts later *)
                 destruct (in_split _ _ Hw) as (pre & post & Esplit).
                 exists (Watch tid (Some x) (w_zero w)). split; [|reflexivity].
                 cbn [it_tid]. rewrite ?Etid. rewrite Esplit.
                 apply aset_ret_hits; auto.
                 intros q Hq [Hqt Hqc].
                 assert (Hqs : (fst q > s)%nat).
                 { apply (sorted_split (starts pre) s (starts post)).
                   - replace (starts pre ++ s :: starts post) with (starts A1); [exact Hsorted1|].
                     rewrite Esplit. unfold starts. rewrite map_app. reflexivity.
                   - unfold starts. apply in_map. exact Hq. }
                 assert (Hq1 : In (fst q, snd q) A1).
                 { rewrite Esplit. apply in_or_app. left. destruct q; exact Hq. }
                 destruct (Hstart1 _ _ Hq1) as (Hql & it1 & F1 & F2 & F3).
                 destruct (HA1 _ _ Hq1) as (w0 & Hin0 & _).
                 destruct (a_start _ IH _ _ Hin0) as (Hql' & _).
                 specialize (Hmid (fst q) it1).
                 assert (it_ev it1 = ETau).
                 { apply Hmid; [lia|exact F1|rewrite F2; exact Hqt]. }
                 congruence.
        -- apply (Hgen A1); [repeat split; auto; congruence|]. cbn [aws_of]. rewrite Ev. reflexivity.
      * apply (Hgen A1); [repeat split; auto; congruence|]. cbn [aws_of]. rewrite Ev. reflexivity.
    + apply (Hgen A1); [repeat split; auto; congruence|]. cbn [aws_of]. rewrite Ev. reflexivity.
    + apply (Hgen A1); [repeat split; auto; congruence|]. cbn [aws_of]. rewrite Ev. reflexivity.
Qed.

(* ---------------------------------------------------------------- monitor => specification *)
Lemma m_ok_older : forall it t, m_ok (mon_of (it :: t)) = true -> m_ok (mon_of t) = true.
Proof.
  intros it t H. cbn [mon_of] in H. unfold mon_step in H. cbn [m_ok] in H.
  apply andb_true_iff in H. tauto.
Qed.

Lemma m_ok_checks : forall it t, m_ok (mon_of (it :: t)) = true ->
  forall w x, In w (m_ws (mon_of (it :: t))) -> w_ch w = Some x ->
              In x (snd (it_obs it)) -> w_zero w = true.
Proof.
  intros it t H w x Hin Hc Hx.
  assert (F : forallb (watch_ok (snd (it_obs it))) (m_ws (mon_of (it :: t))) = true).
  { cbn [mon_of] in *. unfold mon_step in *. cbn [m_ok m_ws] in *.
    apply andb_true_iff in H. tauto. }
  rewrite forallb_forall in F. specialize (F _ Hin). unfold watch_ok in F. rewrite Hc in F.
  assert (M : memb x (snd (it_obs it)) = true).
  { unfold memb. apply existsb_exists. exists x. split; auto. apply Nat.eqb_refl. }
  rewrite M in F. simpl in F. exact F.
Qed.

Theorem c01_ok_spec : forall t, c01_ok t = true -> c01_spec t.
Proof.
  unfold c01_ok. induction t as [|it t IH]; intros Hok.
  - intros s r tid x u it0 _ _ H. unfold item_at in H. simpl in H. destruct u; discriminate H.
  - intros s r tid x u it0 Hw Hru Hu Hx.
    destruct (Nat.lt_ge_cases u (length t)) as [L|L].
    + (* an observation inside the older trace *)
      rewrite item_at_old in Hu; auto.
      destruct (IH (m_ok_older _ _ Hok) s r tid x u it0) as (tau & Ht & Hl); auto.
      { apply wait_call_old with (it := it); auto. lia. }
      exists tau. split; auto. rewrite prefix_upto_cons.
      destruct (Nat.ltb_spec tau (length t)); [exact Hl|lia].
    + (* the observation is the newest item *)
      pose proof (item_at_lt _ _ _ Hu) as Hlt. simpl in Hlt. assert (u = length t) by lia. subst u.
      rewrite item_at_new in Hu. inversion Hu; subst it0.
      pose proof (aws_inv_all (it :: t)) as AI.
      destruct (a_done _ AI _ _ _ _ Hw) as (w & Hin & Hc).
      assert (Hin' : In w (m_ws (mon_of (it :: t)))).
      { rewrite <- aws_erase. apply in_map_iff. exists (s, w). split; auto. }
      pose proof (m_ok_checks _ _ Hok _ _ Hin' Hc Hx) as Hz.
      destruct (a_zero _ AI _ _ Hin Hz) as (tau & Ht & Hl).
      exists tau. split; [simpl in Ht; lia|exact Hl].
Qed.

(* ================================================================ completeness of c01_ok
   For well-formed traces (WGSpec.trace_wf) the converse holds: if the sentence c01_spec is
   true of t then the monitor accepts t.  Needs the converses of the annotations: a watch
   without a returned channel belongs to the Wait call its thread is still inside; a watch
   whose zero_seen flag is unset has seen lb > 0 at every position since its call; a watch
   carrying channel x belongs to a completed call that returned x.                           *)
Definition since (t : trace) (tid s : nat) : Prop :=
  forall k it, (s < k < length t)%nat -> item_at t k = Some it -> it_tid it = tid ->
               it_ev it = ETau.

Record aws_inv2 (t : trace) : Prop := {
  b_none : forall s w, In (s, w) (aws_of t) -> w_ch w = None ->
             in_call t (w_tid w) = Some CWait /\ since t (w_tid w) s;
  b_zero : forall s w, In (s, w) (aws_of t) -> w_zero w = false ->
             forall tau, (s <= tau < length t)%nat -> 0 < lb_of (prefix_upto t tau);
  b_ret : forall s w x, In (s, w) (aws_of t) -> w_ch w = Some x ->
            exists r, wait_call t s r (w_tid w) x
}.

Lemma since_cons : forall it t tid s, (s < length t)%nat -> since t tid s ->
  (it_tid it = tid -> it_ev it = ETau) -> since (it :: t) tid s.
Proof.
  intros it t tid s Hs Hsince Hit k it0 Hk Hitem Htid. simpl in Hk.
  destruct (Nat.lt_ge_cases k (length t)) as [L|L].
  - rewrite item_at_old in Hitem; auto. eapply Hsince; eauto. lia.
  - assert (k = length t) by lia. subst k. rewrite item_at_new in Hitem. inversion Hitem; subst it0.
    auto.
Qed.

Lemma wait_call_cons : forall it t s r tid x, wait_call t s r tid x -> wait_call (it :: t) s r tid x.
Proof.
  intros it t s r tid x (Hsr & (o & p & Hs) & (o' & p' & Hr) & Hmid).
  pose proof (item_at_lt _ _ _ Hr) as Hlt.
  split; [exact Hsr|]. split; [|split].
  - exists o, p. rewrite item_at_old; [exact Hs|lia].
  - exists o', p'. rewrite item_at_old; [exact Hr|lia].
  - intros k it0 Hk Hit Ht. apply (Hmid k it0 Hk); auto. rewrite item_at_old in Hit; [exact Hit|lia].
Qed.

Lemma in_call_cons : forall (it : witem) t tid,
  in_call (it :: t) tid =
  if Nat.eqb (it_tid it) tid then
    match it_ev it with ECall c => Some c | ERet _ _ => None | _ => in_call t tid end
  else in_call t tid.
Proof. reflexivity. Qed.

Lemma sorted_tail_lt : forall (p : awatch) r, StronglySorted gt (starts (p :: r)) ->
  forall q, In q r -> (fst q < fst p)%nat.
Proof.
  intros p r H q Hq. simpl in H. apply StronglySorted_inv in H. destruct H as [_ H].
  rewrite Forall_forall in H. apply H. unfold starts. apply in_map. exact Hq.
Qed.

(* after a return of tid no watch of tid is left without a channel, provided all such watches
   had the same start before *)
Lemma aset_ret_clears : forall tid x ws,
  StronglySorted gt (starts ws) ->
  (forall p q, In p ws -> In q ws -> w_tid (snd p) = tid -> w_ch (snd p) = None ->
               w_tid (snd q) = tid -> w_ch (snd q) = None -> fst p = fst q) ->
  forall p, In p (aset_ret tid x ws) -> w_tid (snd p) = tid -> w_ch (snd p) = None -> False.
Proof.
  induction ws as [|q r IH]; intros Hs Hu p Hp Ht Hc; simpl in Hp; [destruct Hp|].
  assert (Hs' : StronglySorted gt (starts r)).
  { simpl in Hs. apply StronglySorted_inv in Hs. tauto. }
  assert (Hu' : forall p q, In p r -> In q r -> w_tid (snd p) = tid -> w_ch (snd p) = None ->
                            w_tid (snd q) = tid -> w_ch (snd q) = None -> fst p = fst q).
  { intros a b Ha Hb. apply Hu; right; auto. }
  destruct (w_ch (snd q)) eqn:Eq.
  - destruct Hp as [<-|Hp]; [congruence|]. eapply IH; eauto.
  - destruct (Nat.eqb_spec (w_tid (snd q)) tid) as [Et|Nt].
    + destruct Hp as [<-|Hp]; [discriminate Hc|].
      pose proof (sorted_tail_lt _ _ Hs _ Hp) as Hlt.
      assert (fst q = fst p). { apply Hu; auto; [left; auto|right; auto]. }
      lia.
    + destruct Hp as [<-|Hp]; [congruence|]. eapply IH; eauto.
Qed.

Lemma aws_inv2_all : forall t, trace_wf t = true -> aws_inv2 t.
Proof.
  induction t as [|it t IH]; intros Hwf.
  - constructor; cbn; intros; contradiction.
  - cbn [trace_wf] in Hwf. apply andb_true_iff in Hwf. destruct Hwf as [Hwf Hhead].
    specialize (IH Hwf). pose proof (aws_inv_all t) as AI. pose proof (aws_inv_all (it :: t)) as AI'.
    set (z := lb_of (it :: t) <=? 0).
    set (A1 := map (amark z) (aws_of t)).
    assert (HA1 : forall s w, In (s, w) A1 -> exists w0, In (s, w0) (aws_of t) /\ w = mark z w0).
    { intros s w H. apply in_map_iff in H. destruct H as ([s0 w0] & E & Hin).
      unfold amark in E. simpl in E. inversion E; subst. eauto. }
    (* uniqueness of the open watch of a thread *)
    assert (Huniq : forall p q, In p A1 -> In q A1 ->
              forall tid, w_tid (snd p) = tid -> w_ch (snd p) = None ->
              w_tid (snd q) = tid -> w_ch (snd q) = None -> fst p = fst q).
    { intros [s1 w1] [s2 w2] H1 H2 tid T1 C1 T2 C2. simpl in *.
      destruct (HA1 _ _ H1) as (u1 & I1 & ->). destruct (HA1 _ _ H2) as (u2 & I2 & ->).
      simpl in *.
      destruct (b_none _ IH _ _ I1 C1) as (_ & S1). destruct (b_none _ IH _ _ I2 C2) as (_ & S2).
      destruct (a_start _ AI _ _ I1) as (L1 & i1 & E1 & F1 & G1).
      destruct (a_start _ AI _ _ I2) as (L2 & i2 & E2 & F2 & G2).
      destruct (Nat.lt_trichotomy s1 s2) as [Hlt|[Heq|Hgt]]; auto; exfalso.
      - assert (it_ev i2 = ETau) by (apply (S1 s2 i2); [lia|exact E2|congruence]). congruence.
      - assert (it_ev i1 = ETau) by (apply (S2 s1 i1); [lia|exact E1|congruence]). congruence. }
    (* the three clauses for entries that come unchanged from A1 *)
    assert (Hzero1 : forall s w, In (s, w) A1 -> w_zero w = false ->
              forall tau, (s <= tau < length (it :: t))%nat -> 0 < lb_of (prefix_upto (it :: t) tau)).
    { intros s w H Hz tau Htau. destruct (HA1 _ _ H) as (w0 & Hin & ->). simpl in Hz.
      apply orb_false_iff in Hz. destruct Hz as [Hz0 Hzz].
      rewrite prefix_upto_cons. destruct (Nat.ltb_spec tau (length t)) as [L|L].
      - eapply (b_zero _ IH); eauto. lia.
      - unfold z in Hzz. apply Z.leb_gt in Hzz. exact Hzz. }
    assert (Hret1 : forall s w x, In (s, w) A1 -> w_ch w = Some x ->
              exists r, wait_call (it :: t) s r (w_tid w) x).
    { intros s w x H Hc. destruct (HA1 _ _ H) as (w0 & Hin & ->). simpl in Hc.
      destruct (b_ret _ IH _ _ _ Hin Hc) as (r & Hr). exists r. apply wait_call_cons. exact Hr. }
    assert (Hnone1 : forall s w, In (s, w) A1 -> w_ch w = None ->
              (it_tid it = w_tid w -> it_ev it = ETau) ->
              in_call (it :: t) (w_tid w) = Some CWait /\ since (it :: t) (w_tid w) s).
    { intros s w H Hc Hev. destruct (HA1 _ _ H) as (w0 & Hin & ->). simpl in Hc, Hev.
      unfold mark; cbn [w_tid].
      destruct (b_none _ IH _ _ Hin Hc) as (Hic & Hsi).
      destruct (a_start _ AI _ _ Hin) as (Ls & _).
      split.
      - rewrite in_call_cons. destruct (Nat.eqb_spec (it_tid it) (w_tid w0)) as [E|N]; auto.
        rewrite (Hev E). exact Hic.
      - apply since_cons; auto. }
    (* what well-formedness says about the new item when its thread has an open watch *)
    assert (Hwf_open : forall s w, In (s, w) A1 -> w_ch w = None -> it_tid it = w_tid w ->
              it_ev it = ETau \/ exists x, it_ev it = ERet CWait (RChan x)).
    { intros s w H Hc Ht. destruct (HA1 _ _ H) as (w0 & Hin & ->). simpl in Hc, Ht.
      destruct (b_none _ IH _ _ Hin Hc) as (Hic & _). rewrite Ht, Hic in Hhead.
      destruct (it_ev it) as [c|c r| |]; try discriminate; auto.
      apply andb_true_iff in Hhead. destruct Hhead as [Hs Hm].
      destruct c; try discriminate. destruct r; try discriminate. eauto. }
    destruct (it_ev it) as [c|c r| |] eqn:Ev.
    + (* call *)
      assert (Hcases : aws_of (it :: t) = A1 \/
                       (c = CWait /\ aws_of (it :: t) = (length t, Watch (it_tid it) None z) :: A1)).
      { cbn [aws_of]. rewrite Ev. destruct c; auto. }
      assert (Hold : forall s w, In (s, w) A1 -> w_ch w = None -> it_tid it <> w_tid w).
      { intros s w H Hc Ht. destruct (Hwf_open _ _ H Hc Ht) as [E|(x & E)]; discriminate E. }
      destruct Hcases as [HA|(-> & HA)]; constructor; rewrite HA.
      * intros s w H Hc. apply Hnone1; auto. intro E. exfalso. eapply Hold; eauto.
      * exact Hzero1.
      * exact Hret1.
      * intros s w [E|H] Hc.
        -- inversion E; subst. cbn [w_tid]. split.
           ++ rewrite in_call_cons, Nat.eqb_refl, Ev. reflexivity.
           ++ intros k it0 Hk. simpl in Hk. lia.
        -- apply Hnone1; auto. intro E. exfalso. eapply Hold; eauto.
      * intros s w [E|H] Hz; [|eauto]. inversion E; subst. cbn [w_zero] in Hz.
        intros tau Htau. simpl in Htau. assert (tau = length t) by lia. subst tau.
        rewrite prefix_upto_cons, Nat.ltb_irrefl. unfold z in Hz. apply Z.leb_gt in Hz. exact Hz.
      * intros s w x [E|H] Hc; [|eauto]. inversion E; subst. discriminate Hc.
    + (* return *)
      destruct (match c, r with CWait, RChan x => Some x | _, _ => None end) as [x|] eqn:Ewr.
      * (* a Wait returning channel x *)
        assert (c = CWait /\ r = RChan x) as [-> ->].
        { destruct c; try discriminate. destruct r; try discriminate. inversion Ewr. auto. }
        assert (HA : aws_of (it :: t) = aset_ret (it_tid it) x A1).
        { cbn [aws_of]. rewrite Ev. reflexivity. }
        assert (Hsorted1 : StronglySorted gt (starts A1)).
        { unfold A1. rewrite starts_amark. exact (a_sorted _ AI). }
        constructor; rewrite HA.
        -- intros s w H Hc.
           destruct (in_aset_ret _ _ _ _ H) as [H1|(w0 & H1 & H2 & H3 & H4)].
           ++ simpl in H1. apply Hnone1; auto. intro E. exfalso.
              refine (aset_ret_clears (it_tid it) x A1 Hsorted1 _ (s, w) H _ Hc);
                [intros p q Hp Hq T1 C1 T2 C2; eapply Huniq; eauto|simpl; auto].
           ++ simpl in H4. rewrite H4 in Hc. discriminate Hc.
        -- intros s w H Hz. destruct (in_aset_ret _ _ _ _ H) as [H1|(w0 & H1 & H2 & H3 & H4)].
           ++ eapply Hzero1; eauto.
           ++ simpl in H1, H4. subst w. cbn [w_zero] in Hz. eapply Hzero1; eauto.
        -- intros s w y H Hc. destruct (in_aset_ret _ _ _ _ H) as [H1|(w0 & H1 & H2 & H3 & H4)].
           ++ eapply Hret1; eauto.
           ++ simpl in H1, H4. subst w. cbn in Hc. inversion Hc; subst y. cbn [w_tid].
              exists (length t).
              destruct (HA1 _ _ H1) as (w00 & Hin0 & Ew). subst w0. simpl in H2, H3.
              destruct (a_start _ AI _ _ Hin0) as (Ls & i0 & E0 & F0 & G0).
              destruct (b_none _ IH _ _ Hin0 H2) as (_ & Hsi).
              split; [exact Ls|]. split; [|split].
              ** destruct i0 as [t0 e0 o0 p0]. simpl in F0, G0. subst. exists o0, p0.
                 rewrite item_at_old; auto. rewrite <- H3. exact E0.
              ** destruct it as [t1 e1 o1 p1]. simpl in Ev. subst e1. exists o1, p1.
                 rewrite item_at_new. reflexivity.
              ** intros k it0 Hk Hit Ht. rewrite item_at_old in Hit; [|lia].
                 apply (Hsi k it0); auto. congruence.
      * (* any other return *)
        assert (HA : aws_of (it :: t) = A1).
        { cbn [aws_of]. rewrite Ev. destruct c; auto. destruct r; auto. discriminate Ewr. }
        assert (Hold : forall s w, In (s, w) A1 -> w_ch w = None -> it_tid it <> w_tid w).
        { intros s w H Hc Ht. destruct (Hwf_open _ _ H Hc Ht) as [E|(y & E)]; [discriminate E|].
          inversion E; subst. discriminate Ewr. }
        constructor; rewrite HA.
        -- intros s w H Hc. apply Hnone1; auto. intro E. exfalso. eapply Hold; eauto.
        -- exact Hzero1.
        -- exact Hret1.
    + (* internal step *)
      assert (HA : aws_of (it :: t) = A1) by (cbn [aws_of]; rewrite Ev; reflexivity).
      constructor; rewrite HA.
      * intros s w H Hc. apply Hnone1; auto.
      * exact Hzero1.
      * exact Hret1.
    + (* stutter *)
      assert (HA : aws_of (it :: t) = A1) by (cbn [aws_of]; rewrite Ev; reflexivity).
      assert (Hold : forall s w, In (s, w) A1 -> w_ch w = None -> it_tid it <> w_tid w).
      { intros s w H Hc Ht. destruct (Hwf_open _ _ H Hc Ht) as [E|(y & E)]; discriminate E. }
      constructor; rewrite HA.
      * intros s w H Hc. apply Hnone1; auto. intro E. exfalso. eapply Hold; eauto.
      * exact Hzero1.
      * exact Hret1.
Qed.

(* the sentence restricted to the older part of the trace *)
Lemma c01_spec_older : forall it t, c01_spec (it :: t) -> c01_spec t.
Proof.
  intros it t H s r tid x u it0 Hw Hru Hu Hx.
  pose proof (item_at_lt _ _ _ Hu) as Hlt.
  destruct (H s r tid x u it0) as (tau & Ht & Hl); auto.
  - apply wait_call_cons. exact Hw.
  - rewrite item_at_old; auto.
  - exists tau. split; auto. rewrite prefix_upto_cons in Hl.
    destruct (Nat.ltb_spec tau (length t)); [exact Hl|lia].
Qed.

Theorem c01_spec_ok : forall t, trace_wf t = true -> c01_spec t -> c01_ok t = true.
Proof.
  unfold c01_ok. induction t as [|it t IH]; intros Hwf Hspec; [reflexivity|].
  assert (Hwf' : trace_wf t = true).
  { cbn [trace_wf] in Hwf. apply andb_true_iff in Hwf. tauto. }
  pose proof (IH Hwf' (c01_spec_older _ _ Hspec)) as Hok.
  cbn [mon_of]. unfold mon_step. cbn [m_ok]. rewrite Hok. cbn [andb].
  apply forallb_forall. intros w Hin. unfold watch_ok.
  destruct (w_ch w) as [x|] eqn:Ec; auto.
  destruct (memb x (snd (it_obs it))) eqn:M; auto. cbn [implb].
  destruct (w_zero w) eqn:Ez; auto. exfalso.
  (* w is a watch of the monitor after it: find its annotation *)
  change (In w (m_ws (mon_of (it :: t)))) in Hin. rewrite <- aws_erase in Hin.
  apply in_map_iff in Hin. destruct Hin as ([s w'] & E & Hin). simpl in E. subst w'.
  pose proof (aws_inv2_all (it :: t) Hwf) as BI.
  destruct (b_ret _ BI _ _ _ Hin Ec) as (r & Hw).
  assert (Hx : In x (snd (it_obs it))).
  { unfold memb in M. apply existsb_exists in M. destruct M as (y & Hy & E). apply Nat.eqb_eq in E.
    subst; auto. }
  assert (Hr : (r <= length t)%nat).
  { destruct Hw as (_ & _ & (o & p & H) & _). apply item_at_lt in H. simpl in H. lia. }
  destruct (Hspec s r (w_tid w) x (length t) it Hw Hr (item_at_new it t) Hx) as (tau & Ht & Hl).
  pose proof (b_zero _ BI _ _ Hin Ez tau) as Hpos. simpl in Hpos. specialize (Hpos ltac:(lia)). lia.
Qed.

Theorem c01_ok_iff_spec : forall t, trace_wf t = true -> (c01_ok t = true <-> c01_spec t).
Proof. intros t H. split; [apply c01_ok_spec|apply c01_spec_ok; exact H]. Qed.

(* ================================================================ what c02_ok means
   c02_ok t = true -> c02_spec t, for every trace.                                           *)
Lemma q_ok_unfold : forall (it : witem) t,
  q_ok (mon2_of (it :: t)) =
  (q_ok (mon2_of t)
   && match it_ev it with ERet _ RPanic => false | _ => true end
   && implb (is_nil (adds_in_flight (it :: t))) (Z.eqb (fst (it_obs it)) (sum_deltas (it :: t)))
   && implb (is_nil (adds_in_flight (it :: t)) && Z.eqb (sum_deltas (it :: t)) 0)
            (forallb (fun x => memb x (snd (it_obs it))) (handed_out (it :: t)))
   && match it_ev it with
      | ERet CWait (RChan x) =>
          implb (is_nil (adds_in_flight (it :: t)) && (0 <? sum_deltas (it :: t)))
                (negb (memb x (snd (it_obs it))))
      | _ => true
      end
   && forallb (fun p => Nat.ltb (snd p) K_WAIT) (q_waits (mon2_of (it :: t))))%bool.
Proof. intros. reflexivity. Qed.

Definition waits_after (tid : nat) (e : ev) (rest_before : bool) (ws : list (nat * nat))
  : list (nat * nat) :=
  let waits0 := map (wait_tick tid rest_before) ws in
  match e with
  | ECall CWait => (tid, O) :: waits0
  | ERet CWait _ => filter (fun p => negb (Nat.eqb (fst p) tid)) waits0
  | _ => waits0
  end.

Lemma q_waits_unfold : forall (it : witem) t,
  q_waits (mon2_of (it :: t))
  = waits_after (it_tid it) (it_ev it) (is_nil (adds_in_flight t)) (q_waits (mon2_of t)).
Proof. intros. reflexivity. Qed.

Lemma at_rest_is_nil : forall p, at_rest p <-> is_nil (adds_in_flight p) = true.
Proof.
  intro p. unfold at_rest. destruct (adds_in_flight p); simpl; split; intro H; auto; discriminate.
Qed.

Lemma wait_tick_fst : forall tid b p, fst (wait_tick tid b p) = fst p.
Proof.
  intros tid b p. unfold wait_tick. destruct b; [|reflexivity].
  destruct (Nat.eqb (fst p) tid); reflexivity.
Qed.

(* a thread inside Wait has an entry whose counter is at least the number of its own steps at
   rest (every trace) *)
Lemma waits_bound : forall t tid, in_call t tid = Some CWait ->
  exists n, In (tid, n) (q_waits (mon2_of t)) /\ (rest_steps t tid <= n)%nat.
Proof.
  induction t as [|it t IH]; intros tid Hin; [discriminate Hin|].
  rewrite q_waits_unfold. rewrite in_call_cons in Hin. cbn [rest_steps].
  set (b := is_nil (adds_in_flight t)).
  destruct (Nat.eqb_spec (it_tid it) tid) as [Et|Nt].
  - (* an item of the thread itself *)
    destruct (it_ev it) as [c|c r| |] eqn:Ev; try discriminate Hin.
    + inversion Hin; subst c. exists O. unfold waits_after. rewrite Et. split; [left; reflexivity|].
      destruct b; lia.
    + destruct (IH tid Hin) as (n & Hn & Hb).
      exists (snd (wait_tick (it_tid it) b (tid, n))). unfold waits_after. split.
      * apply in_map_iff. exists (tid, n). split; auto.
        rewrite (surjective_pairing (wait_tick (it_tid it) b (tid, n))) at 1.
        rewrite wait_tick_fst. reflexivity.
      * unfold wait_tick. cbn [fst snd]. destruct b; [|lia].
        destruct (Nat.eqb_spec tid (it_tid it)) as [_|N]; [|congruence]. cbn [snd]. lia.
    + destruct (IH tid Hin) as (n & Hn & Hb).
      exists (snd (wait_tick (it_tid it) b (tid, n))). unfold waits_after. split.
      * apply in_map_iff. exists (tid, n). split; auto.
        rewrite (surjective_pairing (wait_tick (it_tid it) b (tid, n))) at 1.
        rewrite wait_tick_fst. reflexivity.
      * destruct b; lia.
  - (* an item of another thread *)
    destruct (IH tid Hin) as (n & Hn & Hb).
    exists (snd (wait_tick (it_tid it) b (tid, n))). split.
    + assert (H0 : In (tid, snd (wait_tick (it_tid it) b (tid, n)))
                      (map (wait_tick (it_tid it) b) (q_waits (mon2_of t)))).
      { apply in_map_iff. exists (tid, n). split; auto.
        rewrite (surjective_pairing (wait_tick (it_tid it) b (tid, n))) at 1.
        rewrite wait_tick_fst. reflexivity. }
      unfold waits_after. destruct (it_ev it) as [c|c r| |]; auto.
      * destruct c; auto. right; auto.
      * destruct c; auto. apply filter_In. split; auto. cbn [fst].
        destruct (Nat.eqb_spec tid (it_tid it)) as [E|_]; [congruence|]. reflexivity.
    + unfold wait_tick. cbn [fst snd]. destruct b; [|lia].
      destruct (Nat.eqb_spec tid (it_tid it)) as [E|_]; [congruence|]. cbn [snd]. exact Hb.
Qed.

(* conversely, on a well-formed trace every entry belongs to a thread inside Wait and its
   counter is at most that thread's number of own steps at rest *)
Lemma waits_exact : forall t, trace_wf t = true ->
  forall tid n, In (tid, n) (q_waits (mon2_of t)) ->
    in_call t tid = Some CWait /\ (n <= rest_steps t tid)%nat.
Proof.
  induction t as [|it t IH]; intros Hwf tid n Hin; [destruct Hin|].
  cbn [trace_wf] in Hwf. apply andb_true_iff in Hwf. destruct Hwf as [Hwf Hit].
  specialize (IH Hwf).
  rewrite q_waits_unfold in Hin. rewrite in_call_cons. cbn [rest_steps].
  set (b := is_nil (adds_in_flight t)) in *.
  (* an entry that comes from an older entry *)
  assert (Hold : In (tid, n) (map (wait_tick (it_tid it) b) (q_waits (mon2_of t))) ->
                 (it_tid it = tid -> it_ev it = ETau) ->
                 (if Nat.eqb (it_tid it) tid
                  then match it_ev it with
                       | ECall c => Some c | ERet _ _ => None | _ => in_call t tid end
                  else in_call t tid) = Some CWait /\
                 (n <= (if b then
                          if Nat.eqb (it_tid it) tid
                          then match it_ev it with ETau => S (rest_steps t tid) | _ => O end
                          else rest_steps t tid
                        else O))%nat).
  { intros Hm Htau. apply in_map_iff in Hm. destruct Hm as ((tid0 & n0) & E & H0).
    destruct (IH _ _ H0) as (Hc & Hn).
    assert (tid0 = tid).
    { pose proof (wait_tick_fst (it_tid it) b (tid0, n0)) as F. rewrite E in F. cbn in F. auto. }
    subst tid0. unfold wait_tick in E. cbn [fst snd] in E.
    destruct (Nat.eqb_spec (it_tid it) tid) as [Et|Nt].
    - rewrite (Htau Et). split; [exact Hc|].
      destruct b; [|inversion E; lia].
      destruct (Nat.eqb_spec tid (it_tid it)) as [_|N]; [|congruence]. inversion E. lia.
    - split; [exact Hc|]. destruct b; [|inversion E; lia].
      destruct (Nat.eqb_spec tid (it_tid it)) as [E'|_]; [congruence|]. inversion E. subst. exact Hn. }
  (* what well-formedness says about an item of a thread that has an older entry *)
  assert (Hself : forall n0, In (tid, n0) (q_waits (mon2_of t)) -> it_tid it = tid ->
                  it_ev it = ETau \/ exists r, it_ev it = ERet CWait r).
  { intros n0 H0 Et. destruct (IH _ _ H0) as (Hc & _). rewrite Et, Hc in Hit.
    destruct (it_ev it) as [c|c r| |]; try discriminate Hit; auto.
    right. apply andb_true_iff in Hit. destruct Hit as [Hs _]. destruct c; try discriminate Hs.
    exists r. reflexivity. }
  unfold waits_after in Hin.
  destruct (it_ev it) as [c|c r| |] eqn:Ev.
  - destruct c.
    + apply Hold; auto. intro Et. exfalso.
      apply in_map_iff in Hin. destruct Hin as ((tid0 & n0) & E & H0).
      pose proof (wait_tick_fst (it_tid it) b (tid0, n0)) as F. rewrite E in F. cbn in F. subst tid0.
      destruct (Hself _ H0 Et) as [H|(r & H)]; discriminate H.
    + destruct Hin as [E|Hin].
      * inversion E; subst. rewrite Nat.eqb_refl. split; [reflexivity|lia].
      * apply Hold; auto. intro Et. exfalso.
        apply in_map_iff in Hin. destruct Hin as ((tid0 & n0) & E & H0).
        pose proof (wait_tick_fst (it_tid it) b (tid0, n0)) as F. rewrite E in F. cbn in F. subst tid0.
        destruct (Hself _ H0 Et) as [H|(r & H)]; discriminate H.
    + apply Hold; auto. intro Et. exfalso.
      apply in_map_iff in Hin. destruct Hin as ((tid0 & n0) & E & H0).
      pose proof (wait_tick_fst (it_tid it) b (tid0, n0)) as F. rewrite E in F. cbn in F. subst tid0.
      destruct (Hself _ H0 Et) as [H|(r & H)]; discriminate H.
  - destruct c.
    + apply Hold; auto. intro Et. exfalso.
      apply in_map_iff in Hin. destruct Hin as ((tid0 & n0) & E & H0).
      pose proof (wait_tick_fst (it_tid it) b (tid0, n0)) as F. rewrite E in F. cbn in F. subst tid0.
      destruct (Hself _ H0 Et) as [H|(r' & H)]; discriminate H.
    + apply filter_In in Hin. destruct Hin as [Hin Hf]. cbn [fst] in Hf.
      apply Hold; auto. intro Et. exfalso. rewrite Et, Nat.eqb_refl in Hf. discriminate Hf.
    + apply Hold; auto. intro Et. exfalso.
      apply in_map_iff in Hin. destruct Hin as ((tid0 & n0) & E & H0).
      pose proof (wait_tick_fst (it_tid it) b (tid0, n0)) as F. rewrite E in F. cbn in F. subst tid0.
      destruct (Hself _ H0 Et) as [H|(r' & H)]; discriminate H.
  - apply Hold; auto.
  - apply Hold; auto. intro Et. exfalso.
    apply in_map_iff in Hin. destruct Hin as ((tid0 & n0) & E & H0).
    pose proof (wait_tick_fst (it_tid it) b (tid0, n0)) as F. rewrite E in F. cbn in F. subst tid0.
    destruct (Hself _ H0 Et) as [H|(r & H)]; discriminate H.
Qed.

Lemma q_ok_older : forall it t, q_ok (mon2_of (it :: t)) = true -> q_ok (mon2_of t) = true.
Proof.
  intros it t H. rewrite q_ok_unfold in H. repeat (apply andb_true_iff in H; destruct H as [H ?]).
  exact H.
Qed.

Theorem c02_ok_spec : forall t, c02_ok t = true -> c02_spec t.
Proof.
  unfold c02_ok. induction t as [|it t IH]; intros Hok u it0 Hu.
  - unfold item_at in Hu. simpl in Hu. destruct u; discriminate Hu.
  - destruct (Nat.lt_ge_cases u (length t)) as [L|L].
    + rewrite item_at_old in Hu; auto. rewrite prefix_upto_cons.
      destruct (Nat.ltb_spec u (length t)); [|lia]. apply (IH (q_ok_older _ _ Hok) u it0 Hu).
    + pose proof (item_at_lt _ _ _ Hu) as Hlt. simpl in Hlt. assert (Eu : u = length t) by lia.
      subst u. rewrite item_at_new in Hu. inversion Hu; subst it0.
      rewrite prefix_upto_cons, Nat.ltb_irrefl. cbv zeta.
      rewrite q_ok_unfold in Hok.
      apply andb_true_iff in Hok. destruct Hok as [Hok Q4].
      apply andb_true_iff in Hok. destruct Hok as [Hok Q3].
      apply andb_true_iff in Hok. destruct Hok as [Hok Q2].
      apply andb_true_iff in Hok. destruct Hok as [Hok Q1].
      apply andb_true_iff in Hok. destruct Hok as [_ Qp].
      split; [|split].
      * intros c E. rewrite E in Qp. discriminate Qp.
      * intro Hr. apply at_rest_is_nil in Hr. rewrite Hr in Q1, Q2, Q3. cbn [implb andb] in *.
        split; [apply Z.eqb_eq; exact Q1|]. split.
        -- intros Hz x Hx. apply Z.eqb_eq in Hz. rewrite Hz in Q2. cbn [implb] in Q2.
           rewrite forallb_forall in Q2. specialize (Q2 _ Hx). unfold memb in Q2.
           apply existsb_exists in Q2. destruct Q2 as (y & Hy & E). apply Nat.eqb_eq in E.
           subst; auto.
        -- intros x E Hpos Hx. rewrite E in Q3. apply Z.ltb_lt in Hpos. rewrite Hpos in Q3.
           cbn [implb] in Q3. apply negb_true_iff in Q3. unfold memb in Q3.
           assert (existsb (Nat.eqb x) (snd (it_obs it)) = true).
           { apply existsb_exists. exists x. split; auto. apply Nat.eqb_refl. }
           congruence.
      * intros tid Hin. destruct (waits_bound _ _ Hin) as (n & Hn & Hb).
        rewrite forallb_forall in Q4. specialize (Q4 _ Hn). simpl in Q4. apply Nat.ltb_lt in Q4.
        lia.
Qed.

(* ================================================================ and conversely (exactness)
   for well-formed traces the declarative statement implies acceptance by the monitor *)
Lemma c02_spec_older : forall it t, c02_spec (it :: t) -> c02_spec t.
Proof.
  intros it t H u it0 Hu. pose proof (item_at_lt _ _ _ Hu) as L.
  specialize (H u it0). rewrite item_at_old in H by exact L. specialize (H Hu).
  rewrite prefix_upto_cons in H. destruct (Nat.ltb_spec u (length t)); [|lia]. exact H.
Qed.

Theorem c02_spec_ok : forall t, trace_wf t = true -> c02_spec t -> c02_ok t = true.
Proof.
  unfold c02_ok. induction t as [|it t IH]; intros Hwf Hs; [reflexivity|].
  pose proof Hwf as Hwf'. cbn [trace_wf] in Hwf'. apply andb_true_iff in Hwf'. destruct Hwf' as [Hwft _].
  specialize (IH Hwft (c02_spec_older _ _ Hs)).
  specialize (Hs (length t) it (item_at_new it t)).
  rewrite prefix_upto_cons, Nat.ltb_irrefl in Hs. cbv zeta in Hs.
  destruct Hs as (Hp & Hr & Hw).
  rewrite q_ok_unfold, IH. cbn [andb].
  replace (match it_ev it with ERet _ RPanic => false | _ => true end) with true.
  2:{ destruct (it_ev it) as [c|c r| |]; auto. destruct r; auto. exfalso. apply (Hp c). reflexivity. }
  cbn [andb].
  destruct (is_nil (adds_in_flight (it :: t))) eqn:R.
  - apply at_rest_is_nil in R. destruct (Hr R) as (H1 & H2 & H3).
    cbn [implb andb]. rewrite H1, Z.eqb_refl. cbn [andb].
    assert (Q2 : implb (sum_deltas (it :: t) =? 0)
                   (forallb (fun x => memb x (snd (it_obs it))) (handed_out (it :: t))) = true).
    { destruct (Z.eqb_spec (sum_deltas (it :: t)) 0) as [Z0|Z0]; [|reflexivity]. cbn [implb].
      apply forallb_forall. intros x Hx. unfold memb. apply existsb_exists. exists x.
      split; [apply H2; auto|apply Nat.eqb_refl]. }
    rewrite Q2. cbn [andb].
    assert (Q3 : match it_ev it with
                 | ERet CWait (RChan x) =>
                     implb (0 <? sum_deltas (it :: t)) (negb (memb x (snd (it_obs it))))
                 | _ => true
                 end = true).
    { destruct (it_ev it) as [c|c r| |] eqn:Ev; auto. destruct c; auto. destruct r as [n|x|]; auto.
      destruct (Z.ltb_spec 0 (sum_deltas (it :: t))) as [Z0|Z0]; [|reflexivity]. cbn [implb].
      apply negb_true_iff. destruct (memb x (snd (it_obs it))) eqn:M; [|reflexivity].
      exfalso. apply (H3 x eq_refl Z0). unfold memb in M. apply existsb_exists in M.
      destruct M as (y & Hy & E). apply Nat.eqb_eq in E. subst. exact Hy. }
    rewrite Q3. cbn [andb].
    apply forallb_forall. intros [tid n] Hin. cbn [snd]. apply Nat.ltb_lt.
    destruct (waits_exact _ Hwf _ _ Hin) as (Hc & Hn). specialize (Hw _ Hc). lia.
  - cbn [implb andb].
    replace (match it_ev it with ERet CWait (RChan _) => true | _ => true end) with true
      by (destruct (it_ev it) as [c|c r| |]; auto; destruct c; auto; destruct r; auto).
    cbn [andb].
    apply forallb_forall. intros [tid n] Hin. cbn [snd]. apply Nat.ltb_lt.
    destruct (waits_exact _ Hwf _ _ Hin) as (Hc & Hn). specialize (Hw _ Hc). lia.
Qed.

Theorem c02_ok_iff_spec : forall t, trace_wf t = true -> (c02_ok t = true <-> c02_spec t).
Proof. intros t H. split; [apply c02_ok_spec|apply c02_spec_ok; exact H]. Qed.
