(* WGSpecProofs.v — what the streaming monitor means: c01_ok t = true -> c01_spec t, for EVERY
   trace t (not only traces of the machines).  c01_spec is the property's sentence over
   positions: for every Wait call (position s, thread tid) that returned channel x (position r)
   and every later position u at which x is observed closed, there is a position tau in
   [s, u] with lb <= 0.

   Proof: the watches of the monitor are annotated (ghost) with the position of the call that
   created them; the annotated list is sorted by decreasing start, every watch satisfies
   soundness of its zero_seen flag and of its returned channel, every call has its watch, and a
   completed call's watch carries the returned channel.                                       *)
From Coq Require Import List Arith ZArith Bool Lia Sorted.
From GT Require Import Base.Conc.
From GT Require Import WGModel WGSpec.
Import ListNotations.
Local Open Scope Z_scope.

(* ---------------------------------------------------------------- positions *)
Lemma item_at_cons : forall (it : witem) (t : trace) i,
  item_at (it :: t) i =
  if (i <? length t)%nat then item_at t i else if (i =? length t)%nat then Some it else None.
Proof.
  intros it t i. unfold item_at. simpl rev.
  destruct (Nat.ltb_spec i (length t)) as [L|L].
  - rewrite nth_error_app1; [reflexivity|]. rewrite rev_length. exact L.
  - rewrite nth_error_app2; [|rewrite rev_length; exact L]. rewrite rev_length.
    destruct (Nat.eqb_spec i (length t)) as [->|N].
    + rewrite Nat.sub_diag. reflexivity.
    + destruct (i - length t)%nat as [|k] eqn:E; [lia|]. simpl. destruct k; reflexivity.
Qed.

Lemma item_at_lt : forall (t : trace) i it, item_at t i = Some it -> (i < length t)%nat.
Proof.
  intros t i it H. unfold item_at in H. rewrite <- (rev_length t).
  apply nth_error_Some. congruence.
Qed.

Lemma prefix_upto_cons : forall (it : witem) (t : trace) i,
  prefix_upto (it :: t) i = if (i <? length t)%nat then prefix_upto t i else it :: t.
Proof.
  intros it t i. unfold prefix_upto. change (rev (it :: t)) with (rev t ++ [it]).
  destruct (Nat.ltb_spec i (length t)) as [L|L].
  - rewrite firstn_app. replace (S i - length (rev t))%nat with 0%nat by (rewrite rev_length; lia).
    simpl. rewrite app_nil_r. reflexivity.
  - rewrite firstn_all2; [|rewrite app_length, rev_length; simpl; lia].
    rewrite rev_app_distr. simpl. rewrite rev_involutive. reflexivity.
Qed.

(* ---------------------------------------------------------------- annotated watches *)
Definition awatch := (nat * watch)%type.

Definition amark (z : bool) (p : awatch) : awatch := (fst p, mark z (snd p)).

Fixpoint aset_ret (tid x : nat) (ws : list awatch) : list awatch :=
  match ws with
  | [] => []
  | p :: r =>
      match w_ch (snd p) with
      | None => if Nat.eqb (w_tid (snd p)) tid
                then (fst p, Watch (w_tid (snd p)) (Some x) (w_zero (snd p))) :: r
                else p :: aset_ret tid x r
      | Some _ => p :: aset_ret tid x r
      end
  end.

Fixpoint aws_of (t : trace) : list awatch :=
  match t with
  | [] => []
  | it :: older =>
      let z := lb_of t <=? 0 in
      let ws1 := map (amark z) (aws_of older) in
      match it_ev it with
      | ECall CWait => (length older, Watch (it_tid it) None z) :: ws1
      | ERet CWait (RChan x) => aset_ret (it_tid it) x ws1
      | _ => ws1
      end
  end.

Lemma aset_ret_erase : forall tid x ws,
  map snd (aset_ret tid x ws) = set_ret tid x (map snd ws).
Proof.
  induction ws as [|p r IH]; simpl; auto.
  destruct (w_ch (snd p)); simpl; [rewrite IH; reflexivity|].
  destruct (Nat.eqb (w_tid (snd p)) tid); simpl; [reflexivity|rewrite IH; reflexivity].
Qed.

Lemma aws_erase : forall t, map snd (aws_of t) = m_ws (mon_of t).
Proof.
  induction t as [|it t IH]; [reflexivity|].
  cbn [aws_of mon_of]. unfold mon_step. cbn [m_ws].
  assert (E : map snd (map (amark (lb_of (it :: t) <=? 0)) (aws_of t))
              = map (mark (lb_of (it :: t) <=? 0)) (m_ws (mon_of t))).
  { rewrite <- IH. rewrite !map_map. reflexivity. }
  destruct (it_ev it) as [c|c r| |]; try exact E.
  - destruct c; try exact E. cbn [map snd]. rewrite E. reflexivity.
  - destruct c; try exact E. destruct r; try exact E. rewrite aset_ret_erase, E. reflexivity.
Qed.

Definition starts (ws : list awatch) : list nat := map fst ws.

Lemma starts_amark : forall z ws, starts (map (amark z) ws) = starts ws.
Proof. intros. unfold starts. rewrite map_map. reflexivity. Qed.

Lemma starts_aset_ret : forall tid x ws, starts (aset_ret tid x ws) = starts ws.
Proof.
  induction ws as [|p r IH]; simpl; auto.
  destruct (w_ch (snd p)); simpl; [rewrite IH; reflexivity|].
  destruct (Nat.eqb (w_tid (snd p)) tid); simpl; [reflexivity|rewrite IH; reflexivity].
Qed.

(* what aset_ret does to the entries *)
Lemma in_aset_ret : forall tid x ws p,
  In p (aset_ret tid x ws) ->
  In p ws \/ exists w0, In (fst p, w0) ws /\ w_ch w0 = None /\ w_tid w0 = tid /\
                        snd p = Watch tid (Some x) (w_zero w0).
Proof.
  induction ws as [|q r IH]; intros p H; simpl in H; [destruct H|].
  destruct (w_ch (snd q)) eqn:Eq.
  - destruct H as [<-|H]; [left; left; auto|]. destruct (IH _ H) as [H1|(w0 & A & B & C & D)].
    + left; right; auto.
    + right. exists w0. repeat split; auto. right; auto.
  - destruct (Nat.eqb_spec (w_tid (snd q)) tid) as [Et|Nt].
    + destruct H as [<-|H]; [|left; right; auto]. right. exists (snd q). simpl.
      repeat split; auto; [left; destruct q; reflexivity|rewrite Et; reflexivity].
    + destruct H as [<-|H]; [left; left; auto|]. destruct (IH _ H) as [H1|(w0 & A & B & C & D)].
      * left; right; auto.
      * right. exists w0. repeat split; auto. right; auto.
Qed.

Lemma aset_ret_keeps_some : forall tid x ws s w y,
  In (s, w) ws -> w_ch w = Some y -> In (s, w) (aset_ret tid x ws).
Proof.
  induction ws as [|q r IH]; intros s w y H Hc; simpl in *; [destruct H|].
  destruct H as [->|H].
  - simpl. rewrite Hc. left; reflexivity.
  - destruct (w_ch (snd q)); [right; eauto|].
    destruct (Nat.eqb (w_tid (snd q)) tid); [right; auto|right; eauto].
Qed.

Lemma aset_ret_keeps_start : forall tid x ws s w,
  In (s, w) ws -> exists w', In (s, w') (aset_ret tid x ws).
Proof.
  induction ws as [|q r IH]; intros s w H; simpl in *; [destruct H|].
  destruct H as [->|H].
  - simpl. destruct (w_ch w); [eexists; left; reflexivity|].
    destruct (Nat.eqb (w_tid w) tid); eexists; left; reflexivity.
  - destruct (IH _ _ H) as (w' & Hw').
    destruct (w_ch (snd q)); [exists w'; right; auto|].
    destruct (Nat.eqb (w_tid (snd q)) tid); [exists w; right; auto|exists w'; right; auto].
Qed.

(* the first matching entry is the one that gets the channel *)
Lemma aset_ret_hits : forall tid x pre s w post,
  w_tid w = tid -> w_ch w = None ->
  (forall p, In p pre -> ~ (w_tid (snd p) = tid /\ w_ch (snd p) = None)) ->
  In (s, Watch tid (Some x) (w_zero w)) (aset_ret tid x (pre ++ (s, w) :: post)).
Proof.
  induction pre as [|q pre IH]; intros s w post Ht Hc Hpre; simpl.
  - rewrite Hc. rewrite Ht, Nat.eqb_refl. left; reflexivity.
  - destruct (w_ch (snd q)) eqn:Eq.
    + right. apply IH; auto. intros p Hp. apply Hpre. right; auto.
    + destruct (Nat.eqb_spec (w_tid (snd q)) tid) as [Et|Nt].
      * exfalso. apply (Hpre q); [left; auto|split; auto].
      * right. apply IH; auto. intros p Hp. apply Hpre. right; auto.
Qed.

Lemma sorted_split : forall l1 (a : nat) l2,
  StronglySorted gt (l1 ++ a :: l2) -> forall b, In b l1 -> (b > a)%nat.
Proof.
  induction l1 as [|c l1 IH]; intros a l2 H b Hb; [destruct Hb|].
  simpl in H. apply StronglySorted_inv in H. destruct H as [H1 H2].
  destruct Hb as [<-|Hb].
  - rewrite Forall_forall in H2. apply H2. apply in_or_app. right; left; auto.
  - eapply IH; eauto.
Qed.

(* ---------------------------------------------------------------- the invariant of aws_of *)
Definition zero_witness (t : trace) (s : nat) : Prop :=
  exists tau, (s <= tau < length t)%nat /\ lb_of (prefix_upto t tau) <= 0.

Record aws_inv (t : trace) : Prop := {
  a_sorted : StronglySorted gt (starts (aws_of t));
  a_start : forall s w, In (s, w) (aws_of t) ->
              (s < length t)%nat /\
              exists it, item_at t s = Some it /\ it_tid it = w_tid w /\ it_ev it = ECall CWait;
  a_zero : forall s w, In (s, w) (aws_of t) -> w_zero w = true -> zero_witness t s;
  a_ret : forall s w y, In (s, w) (aws_of t) -> w_ch w = Some y ->
            exists r it, (s < r < length t)%nat /\ item_at t r = Some it /\
                         it_tid it = w_tid w /\ it_ev it = ERet CWait (RChan y);
  a_all : forall s it, item_at t s = Some it -> it_ev it = ECall CWait ->
            exists w, In (s, w) (aws_of t);
  a_done : forall s r tid x, wait_call t s r tid x ->
             exists w, In (s, w) (aws_of t) /\ w_ch w = Some x
}.

Lemma zero_witness_cons : forall it t s, zero_witness t s -> zero_witness (it :: t) s.
Proof.
  intros it t s (tau & Hr & Hl). exists tau. split; [simpl; lia|].
  rewrite prefix_upto_cons. destruct (Nat.ltb_spec tau (length t)); [exact Hl|lia].
Qed.

Lemma zero_witness_now : forall it t s, (s <= length t)%nat -> lb_of (it :: t) <= 0 ->
  zero_witness (it :: t) s.
Proof.
  intros it t s Hs Hl. exists (length t). split; [simpl; lia|].
  rewrite prefix_upto_cons. rewrite Nat.ltb_irrefl. exact Hl.
Qed.

Lemma item_at_old : forall it (t : trace) i, (i < length t)%nat -> item_at (it :: t) i = item_at t i.
Proof.
  intros. rewrite item_at_cons. destruct (Nat.ltb_spec i (length t)); [reflexivity|lia].
Qed.

Lemma item_at_new : forall it (t : trace), item_at (it :: t) (length t) = Some it.
Proof. intros. rewrite item_at_cons. rewrite Nat.ltb_irrefl, Nat.eqb_refl. reflexivity. Qed.

Lemma wait_call_old : forall it t s r tid x, (r < length t)%nat ->
  wait_call (it :: t) s r tid x -> wait_call t s r tid x.
Proof.
  intros it t s r tid x Hr (Hsr & (o & p & Hs) & (o' & p' & Hrr) & Hmid).
  split; [exact Hsr|]. split; [|split].
  - exists o, p. rewrite item_at_old in Hs; [exact Hs|lia].
  - exists o', p'. rewrite item_at_old in Hrr; [exact Hrr|lia].
  - intros k it0 Hk Hit Ht. apply (Hmid k it0 Hk); auto. rewrite item_at_old; [exact Hit|lia].
Qed.

Lemma aws_inv_all : forall t, aws_inv t.
Proof.
  induction t as [|it t IH].
  - constructor; cbn.
    + constructor.
    + intros s w [].
    + intros s w [].
    + intros s w y [].
    + intros s it H. unfold item_at in H. simpl in H. destruct s; discriminate H.
    + intros s r tid x (_ & (o & p & H) & _). unfold item_at in H. simpl in H.
      destruct s; discriminate H.
  - set (z := lb_of (it :: t) <=? 0).
    set (A1 := map (amark z) (aws_of t)).
    (* facts about the marked old entries *)
    assert (HA1 : forall s w, In (s, w) A1 -> exists w0, In (s, w0) (aws_of t) /\ w = mark z w0).
    { intros s w H. apply in_map_iff in H. destruct H as ([s0 w0] & E & Hin).
      unfold amark in E. simpl in E. inversion E; subst. eauto. }
    assert (HA1' : forall s w0, In (s, w0) (aws_of t) -> In (s, mark z w0) A1).
    { intros s w0 H. apply in_map_iff. exists (s, w0). split; auto. }
    assert (Hstart1 : forall s w, In (s, w) A1 ->
              (s < length (it :: t))%nat /\
              exists it0, item_at (it :: t) s = Some it0 /\ it_tid it0 = w_tid w /\
                          it_ev it0 = ECall CWait).
    { intros s w H. destruct (HA1 _ _ H) as (w0 & Hin & ->).
      destruct (a_start _ IH _ _ Hin) as (Hs & it0 & H1 & H2 & H3).
      split; [simpl; lia|]. exists it0. rewrite item_at_old; auto. }
    assert (Hzero1 : forall s w, In (s, w) A1 -> w_zero w = true -> zero_witness (it :: t) s).
    { intros s w H Hz. destruct (HA1 _ _ H) as (w0 & Hin & ->). simpl in Hz.
      apply orb_true_iff in Hz. destruct Hz as [Hz|Hz].
      - apply zero_witness_cons. eapply (a_zero _ IH); eauto.
      - apply zero_witness_now; [destruct (a_start _ IH _ _ Hin); lia|].
        apply Z.leb_le. exact Hz. }
    assert (Hret1 : forall s w y, In (s, w) A1 -> w_ch w = Some y ->
              exists r it0, (s < r < length (it :: t))%nat /\ item_at (it :: t) r = Some it0 /\
                            it_tid it0 = w_tid w /\ it_ev it0 = ERet CWait (RChan y)).
    { intros s w y H Hc. destruct (HA1 _ _ H) as (w0 & Hin & ->). simpl in Hc.
      destruct (a_ret _ IH _ _ _ Hin Hc) as (r & it0 & Hr & H1 & H2 & H3).
      exists r, it0. split; [simpl; lia|]. rewrite item_at_old; [auto|lia]. }
    assert (Hsorted1 : StronglySorted gt (starts A1)).
    { unfold A1. rewrite starts_amark. exact (a_sorted _ IH). }
    assert (Hall1 : forall s it0, (s < length t)%nat -> item_at (it :: t) s = Some it0 ->
              it_ev it0 = ECall CWait -> exists w, In (s, w) A1).
    { intros s it0 Hs H He. rewrite item_at_old in H; auto.
      destruct (a_all _ IH _ _ H He) as (w0 & Hin). eauto. }
    assert (Hdone1 : forall s r tid x, (r < length t)%nat -> wait_call (it :: t) s r tid x ->
              exists w, In (s, w) A1 /\ w_ch w = Some x).
    { intros s r tid x Hr Hw. apply wait_call_old in Hw; auto.
      destruct (a_done _ IH _ _ _ _ Hw) as (w0 & Hin & Hc). exists (mark z w0). split; auto. }
    (* a wait_call ending at the new position *)
    assert (Hwc_bound : forall s r tid x, wait_call (it :: t) s r tid x -> (r <= length t)%nat).
    { intros s r tid x (_ & _ & (o & p & H) & _). apply item_at_lt in H. simpl in H. lia. }
    (* case analysis on the event *)
    assert (Hgen : forall A',
              (A' = A1 /\ (forall x, it_ev it <> ERet CWait (RChan x)) /\ it_ev it <> ECall CWait) ->
              aws_of (it :: t) = A' -> aws_inv (it :: t)).
    { intros A' (-> & Hnr & Hnc) HA. constructor; rewrite ?HA.
      - exact Hsorted1.
      - exact Hstart1.
      - exact Hzero1.
      - exact Hret1.
      - intros s it0 H He. destruct (Nat.lt_ge_cases s (length t)) as [L|L]; [eapply Hall1; eauto|].
        pose proof (item_at_lt _ _ _ H) as Hlt. simpl in Hlt. assert (Es : s = length t) by lia. subst s.
        rewrite item_at_new in H. inversion H; subst it0. contradiction.
      - intros s r tid x Hw. destruct (Nat.lt_ge_cases r (length t)) as [L|L]; [eapply Hdone1; eauto|].
        pose proof (Hwc_bound _ _ _ _ Hw) as Hb. assert (Er : r = length t) by lia. subst r.
        destruct Hw as (_ & _ & (o & p & H) & _). rewrite item_at_new in H. inversion H as [E].
        exfalso. apply (Hnr x). rewrite E. reflexivity. }
    destruct (it_ev it) as [c|c r| |] eqn:Ev.
    + destruct c as [d| |].
      * apply (Hgen A1); [repeat split; auto; congruence|]. cbn [aws_of]. rewrite Ev. reflexivity.
      * (* a new Wait call *)
        assert (HA : aws_of (it :: t) = (length t, Watch (it_tid it) None z) :: A1).
        { cbn [aws_of]. rewrite Ev. reflexivity. }
        constructor; rewrite ?HA.
        -- cbn [starts map fst]. constructor; [exact Hsorted1|]. apply Forall_forall.
           intros s Hs. unfold starts in Hs. apply in_map_iff in Hs. destruct Hs as ([s0 w] & E & Hin).
           simpl in E. subst s0. destruct (Hstart1 _ _ Hin) as (_ & it0 & H & _).
           destruct (HA1 _ _ Hin) as (w0 & Hin0 & _). destruct (a_start _ IH _ _ Hin0). lia.
        -- intros s w [E|Hin]; [|auto]. inversion E; subst. split; [simpl; lia|].
           exists it. rewrite item_at_new. auto.
        -- intros s w [E|Hin] Hz; [|eauto]. inversion E; subst. cbn in Hz.
           apply zero_witness_now; [lia|]. apply Z.leb_le. exact Hz.
        -- intros s w y [E|Hin] Hc; [|eauto]. inversion E; subst. discriminate Hc.
        -- intros s it0 H He. destruct (Nat.lt_ge_cases s (length t)) as [L|L].
           ++ destruct (Hall1 _ _ L H He) as (w & Hw). exists w. right; auto.
           ++ pose proof (item_at_lt _ _ _ H) as Hlt. simpl in Hlt. assert (Es : s = length t) by lia.
              subst s. eexists. left; reflexivity.
        -- intros s r tid x Hw. destruct (Nat.lt_ge_cases r (length t)) as [L|L].
           ++ destruct (Hdone1 _ _ _ _ L Hw) as (w & Hw1 & Hw2). exists w. split; [right|]; auto.
           ++ pose proof (Hwc_bound _ _ _ _ Hw) as Hb. assert (Er : r = length t) by lia. subst r.
              destruct Hw as (_ & _ & (o & p & H) & _). rewrite item_at_new in H.
              inversion H as [E]. rewrite E in Ev. discriminate Ev.
      * apply (Hgen A1); [repeat split; auto; congruence|]. cbn [aws_of]. rewrite Ev. reflexivity.
    + destruct c as [d| |].
      * apply (Hgen A1); [repeat split; auto; congruence|]. cbn [aws_of]. rewrite Ev. reflexivity.
      * destruct r as [n|x|].
        -- apply (Hgen A1); [repeat split; auto; congruence|]. cbn [aws_of]. rewrite Ev. reflexivity.
        -- (* a Wait return *)
           assert (HA : aws_of (it :: t) = aset_ret (it_tid it) x A1).
           { cbn [aws_of]. rewrite Ev. reflexivity. }
           assert (Hin' : forall s w, In (s, w) (aset_ret (it_tid it) x A1) ->
                     In (s, w) A1 \/
                     exists w0, In (s, w0) A1 /\ w_ch w0 = None /\ w_tid w0 = it_tid it /\
                                w = Watch (it_tid it) (Some x) (w_zero w0)).
           { intros s w H. destruct (in_aset_ret _ _ _ _ H) as [H1|(w0 & H1 & H2 & H3 & H4)]; auto.
             right. exists w0. simpl in *. auto. }
           constructor; rewrite ?HA.
           ++ rewrite starts_aset_ret. exact Hsorted1.
           ++ intros s w H. destruct (Hin' _ _ H) as [H1|(w0 & H1 & H2 & H3 & ->)]; [auto|].
              destruct (Hstart1 _ _ H1) as (Hs & it0 & E1 & E2 & E3). split; auto.
              exists it0. repeat split; auto. cbn. congruence.
           ++ intros s w H Hz. destruct (Hin' _ _ H) as [H1|(w0 & H1 & H2 & H3 & ->)]; [eauto|].
              cbn in Hz. eauto.
           ++ intros s w y H Hc. destruct (Hin' _ _ H) as [H1|(w0 & H1 & H2 & H3 & ->)]; [eauto|].
              cbn in Hc. inversion Hc; subst y. exists (length t), it.
              destruct (HA1 _ _ H1) as (w00 & Hin0 & _). destruct (a_start _ IH _ _ Hin0) as (Hs & _).
              split; [simpl; lia|]. rewrite item_at_new. repeat split; auto.
           ++ intros s it0 H He. destruct (Nat.lt_ge_cases s (length t)) as [L|L].
              ** destruct (Hall1 _ _ L H He) as (w & Hw). eapply aset_ret_keeps_start; eauto.
              ** pose proof (item_at_lt _ _ _ H) as Hlt. simpl in Hlt. assert (Es : s = length t) by lia.
                 subst s. rewrite item_at_new in H. inversion H; subst it0. congruence.
           ++ intros s r tid y Hw. destruct (Nat.lt_ge_cases r (length t)) as [L|L].
              ** destruct (Hdone1 _ _ _ _ L Hw) as (w & Hw1 & Hw2). exists w. split; auto.
                 eapply aset_ret_keeps_some; eauto.
              ** pose proof (Hwc_bound _ _ _ _ Hw) as Hb. assert (Er : r = length t) by lia. subst r.
                 destruct Hw as (Hsr & (o & p & Hs) & (o' & p' & Hr) & Hmid).
                 rewrite item_at_new in Hr. inversion Hr as [E]. rewrite E in Ev. cbn in Ev.
                 inversion Ev; subst y. assert (Etid : it_tid it = tid) by (rewrite E; reflexivity).
                 (* the watch of the call at s *)
                 destruct (Hall1 s _ Hsr Hs eq_refl) as (w & Hw).
                 destruct (Hstart1 _ _ Hw) as (_ & it0 & E1 & E2 & E3).
                 rewrite Hs in E1. inversion E1; subst it0. cbn in E2.
                 assert (Hnone : w_ch w = None).
                 { destruct (w_ch w) as [y|] eqn:Ec; auto. exfalso.
                   destruct (HA1 _ _ Hw) as (w0 & Hin0 & Ew). subst w. simpl in Ec, E2.
                   destruct (a_ret _ IH _ _ _ Hin0 Ec) as (r2 & it2 & Hr2 & G1 & G2 & G3).
                   assert (Ht2 : it_ev it2 = ETau).
                   { apply (Hmid r2 it2); [lia|rewrite item_at_old; [exact G1|lia]|].
                     rewrite G2. exact (eq_sym E2). }
                   congruence. }
                 (* split A1 at that watch: everything before it starts later *)
                 destruct (in_split _ _ Hw) as (pre & post & Esplit).
                 exists (Watch tid (Some x) (w_zero w)). split; [|reflexivity].
                 cbn [it_tid]. rewrite ?Etid. rewrite Esplit.
                 apply aset_ret_hits; auto.
                 intros q Hq [Hqt Hqc].
                 assert (Hqs : (fst q > s)%nat).
                 { apply (sorted_split (starts pre) s (starts post)).
                   - replace (starts pre ++ s :: starts post) with (starts A1); [exact Hsorted1|].
                     rewrite Esplit. unfold starts. rewrite map_app. reflexivity.
                   - unfold starts. apply in_map. exact Hq. }
                 assert (Hq1 : In (fst q, snd q) A1).
                 { rewrite Esplit. apply in_or_app. left. destruct q; exact Hq. }
                 destruct (Hstart1 _ _ Hq1) as (Hql & it1 & F1 & F2 & F3).
                 destruct (HA1 _ _ Hq1) as (w0 & Hin0 & _).
                 destruct (a_start _ IH _ _ Hin0) as (Hql' & _).
                 specialize (Hmid (fst q) it1).
                 assert (it_ev it1 = ETau).
                 { apply Hmid; [lia|exact F1|rewrite F2; exact Hqt]. }
                 congruence.
        -- apply (Hgen A1); [repeat split; auto; congruence|]. cbn [aws_of]. rewrite Ev. reflexivity.
      * apply (Hgen A1); [repeat split; auto; congruence|]. cbn [aws_of]. rewrite Ev. reflexivity.
    + apply (Hgen A1); [repeat split; auto; congruence|]. cbn [aws_of]. rewrite Ev. reflexivity.
    + apply (Hgen A1); [repeat split; auto; congruence|]. cbn [aws_of]. rewrite Ev. reflexivity.
Qed.

(* ---------------------------------------------------------------- monitor => specification *)
Lemma m_ok_older : forall it t, m_ok (mon_of (it :: t)) = true -> m_ok (mon_of t) = true.
Proof.
  intros it t H. cbn [mon_of] in H. unfold mon_step in H. cbn [m_ok] in H.
  apply andb_true_iff in H. tauto.
Qed.

Lemma m_ok_checks : forall it t, m_ok (mon_of (it :: t)) = true ->
  forall w x, In w (m_ws (mon_of (it :: t))) -> w_ch w = Some x ->
              In x (snd (it_obs it)) -> w_zero w = true.
Proof.
  intros it t H w x Hin Hc Hx.
  assert (F : forallb (watch_ok (snd (it_obs it))) (m_ws (mon_of (it :: t))) = true).
  { cbn [mon_of] in *. unfold mon_step in *. cbn [m_ok m_ws] in *.
    apply andb_true_iff in H. tauto. }
  rewrite forallb_forall in F. specialize (F _ Hin). unfold watch_ok in F. rewrite Hc in F.
  assert (M : memb x (snd (it_obs it)) = true).
  { unfold memb. apply existsb_exists. exists x. split; auto. apply Nat.eqb_refl. }
  rewrite M in F. simpl in F. exact F.
Qed.

Theorem c01_ok_spec : forall t, c01_ok t = true -> c01_spec t.
Proof.
  unfold c01_ok. induction t as [|it t IH]; intros Hok.
  - intros s r tid x u it0 _ _ H. unfold item_at in H. simpl in H. destruct u; discriminate H.
  - intros s r tid x u it0 Hw Hru Hu Hx.
    destruct (Nat.lt_ge_cases u (length t)) as [L|L].
    + (* an observation inside the older trace *)
      rewrite item_at_old in Hu; auto.
      destruct (IH (m_ok_older _ _ Hok) s r tid x u it0) as (tau & Ht & Hl); auto.
      { apply wait_call_old with (it := it); auto. lia. }
      exists tau. split; auto. rewrite prefix_upto_cons.
      destruct (Nat.ltb_spec tau (length t)); [exact Hl|lia].
    + (* the observation is the newest item *)
      pose proof (item_at_lt _ _ _ Hu) as Hlt. simpl in Hlt. assert (u = length t) by lia. subst u.
      rewrite item_at_new in Hu. inversion Hu; subst it0.
      pose proof (aws_inv_all (it :: t)) as AI.
      destruct (a_done _ AI _ _ _ _ Hw) as (w & Hin & Hc).
      assert (Hin' : In w (m_ws (mon_of (it :: t)))).
      { rewrite <- aws_erase. apply in_map_iff. exists (s, w). split; auto. }
      pose proof (m_ok_checks _ _ Hok _ _ Hin' Hc Hx) as Hz.
      destruct (a_zero _ AI _ _ Hin Hz) as (tau & Ht & Hl).
      exists tau. split; [simpl in Ht; lia|exact Hl].
Qed.
