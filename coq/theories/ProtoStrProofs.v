(* ProtoStrProofs.v — facts about the string-level model (ProtoStrModel.v / ProtoPath.v) and its
   relation to the structured model (ProtoModel.v).

   Path algebra: the string functions that model path/filepath agree with the segment functions
   of the structured model on rendered paths —
     [clean_rooted_norm]   clean_segs true = norm                       (filepath.Clean below "/")
     [abs_segs_render]     abs_segs (render_abs p) = p                  (p normal, names without '/')
     [fp_clean_render_abs] fp_clean (render_abs p) = render_abs p       (rendered paths are Clean)
     [fp_join_abs_name]    fp_join (render_abs p) n = render_abs (p ++ [n])      (WalkDir's Join)
     [fp_rel_below]        fp_rel (render_abs a) (render_abs (a ++ r)) = Ok (render_rel r)
     [fp_dir_abs] / [fp_dir_rel]   filepath.Dir on rendered paths = dir_of
   so that on a well-formed world the include walk of s_run visits  render_abs (a ++ r)  for the
   nodes r below a, relativises them to  render_rel r  and asks the oracle for  a ++ dir_of r  —
   which is what ProtoModel.include_args does on segments.

   [s_input_equals_fixed]: the input directory is taken as typed; the behaviour before fix
   C20-input-dir-equals (cut at '=' like an -include entry) is kept as [s_argv_orig] with
   [s_input_equals_refuted_orig].

   The end-to-end equation  s_argv W g = rendering of ProtoModel.run cfg  is evaluated on every
   case of the correspondence run (coverage keys exact_argv_equal_to_structured_model /
   …_string_level_model of the same recorded vector); its ∀-form is not proved (see
   design_notes/C20.md, "Partial").                                                          *)
From Coq Require Import String List Bool Arith Ascii Lia.
From GT Require Import ProtoModel ProtoProofs ProtoStrModel ProtoJudge ProtoParse ProtoScan.
Import ListNotations.
Local Open Scope string_scope.
Local Open Scope list_scope.

(* ------------------------------------------------------------------ Clean on segments *)
Definition no_dotdot (p : path) : Prop := Forall (fun s => s <> "..") p.

Lemma rev_last_cases : forall (p : path), p = [] \/ exists q l, p = q ++ [l].
Proof.
  intros p. destruct (rev p) as [|l q] eqn:E.
  - left. apply (f_equal (@rev string)) in E. rewrite rev_involutive in E. exact E.
  - right. exists (rev q), l. apply (f_equal (@rev string)) in E. rewrite rev_involutive in E. exact E.
Qed.

Lemma clean_step_rooted : forall acc s, no_dotdot acc ->
  clean_step true acc s = norm_step acc s /\ no_dotdot (norm_step acc s).
Proof.
  intros acc s H. unfold clean_step, norm_step.
  destruct (String.eqb s "" || String.eqb s "."); [split; [reflexivity|exact H]|].
  destruct (String.eqb s "..") eqn:E.
  - destruct (rev_last_cases acc) as [->|(q & l & ->)].
    + split; [reflexivity|constructor].
    + rewrite rev_app_distr. cbn [rev app].
      assert (Hl : l <> "..").
      { unfold no_dotdot in H. rewrite Forall_forall in H. apply H. apply in_or_app. right. left. reflexivity. }
      destruct (String.eqb l "..") eqn:El; [apply String.eqb_eq in El; contradiction|].
      split; [reflexivity|]. rewrite removelast_last.
      unfold no_dotdot in *. apply Forall_app in H. apply H.
  - split; [reflexivity|]. unfold no_dotdot in *. apply Forall_app. split; [exact H|].
    constructor; [|constructor]. intros ->. discriminate.
Qed.

Lemma clean_fold_rooted : forall p acc, no_dotdot acc ->
  fold_left (clean_step true) p acc = fold_left norm_step p acc.
Proof.
  induction p as [|s p IH]; intros acc H; [reflexivity|].
  cbn [fold_left]. destruct (clean_step_rooted acc s H) as [E Hn]. rewrite E. apply IH. exact Hn.
Qed.

Theorem clean_rooted_norm : forall p, clean_segs true p = norm p.
Proof. intros p. apply clean_fold_rooted. constructor. Qed.

(* ------------------------------------------------------------------ split / render *)
Lemma split_on_app_sep : forall c s t,
  has_char c s = false -> split_on c (s ++ String c t) = s :: split_on c t.
Proof. exact split_on_sep. Qed.

Lemma split_render_abs : forall p, Forall seg_ok p ->
  split_on "/" (render_abs p) = "" :: match p with [] => [""] | _ => p end.
Proof.
  intros p H. unfold render_abs, join_slash.
  change ("/" ++ String.concat "/" p)%string with ("" ++ String "/" (String.concat "/" p))%string.
  rewrite split_on_sep by reflexivity. f_equal.
  destruct p as [|s p]; [reflexivity|]. apply split_concat; [discriminate|exact H].
Qed.

Lemma norm_cons_nil : forall p, norm ("" :: p) = norm p.
Proof. reflexivity. Qed.

(* the segments of a rendered absolute path *)
Theorem abs_segs_render : forall p, Forall seg_ok p -> Forall name_ok p -> abs_segs (render_abs p) = p.
Proof.
  intros p Hs Hn. unfold abs_segs. rewrite clean_rooted_norm, split_render_abs by exact Hs.
  rewrite norm_cons_nil. destruct p as [|s p]; [reflexivity|]. apply norm_ok_id. exact Hn.
Qed.

Lemma is_abs_render_abs : forall p, is_abs_str (render_abs p) = true.
Proof. reflexivity. Qed.

Theorem fp_clean_render_abs : forall p, Forall seg_ok p -> Forall name_ok p ->
  fp_clean (render_abs p) = render_abs p.
Proof.
  intros p Hs Hn. unfold fp_clean. rewrite is_abs_render_abs.
  change (clean_segs true (split_on "/" (render_abs p))) with (abs_segs (render_abs p)).
  rewrite abs_segs_render by assumption. reflexivity.
Qed.

Lemma render_abs_ne : forall p, String.eqb (render_abs p) "" = false.
Proof. reflexivity. Qed.

Lemma name_ok_ne : forall n, name_ok n -> String.eqb n "" = false.
Proof. intros n (H & _). destruct (String.eqb n "") eqn:E; [apply String.eqb_eq in E; contradiction|reflexivity]. Qed.

Lemma split_app_slash : forall a b, has_char "/" b = false ->
  split_on "/" (a ++ "/" ++ b) = split_on "/" a ++ [b].
Proof.
  induction a as [|c a IH]; intros b Hb.
  - cbn [append]. change ("/" ++ b)%string with (String "/" b). cbn [split_on].
    rewrite Ascii.eqb_refl. rewrite (split_on_none _ _ Hb). reflexivity.
  - change (String c a ++ "/" ++ b)%string with (String c (a ++ "/" ++ b))%string.
    cbn [split_on]. rewrite (IH b Hb). destruct (Ascii.eqb c "/"); [reflexivity|].
    destruct (split_on_cons "/"%char a) as (h & t & E). rewrite E. reflexivity.
Qed.

(* WalkDir's filepath.Join(path, name) on a rendered absolute path *)
Theorem fp_join_abs_name : forall p n, Forall seg_ok p -> Forall name_ok p -> seg_ok n -> name_ok n ->
  fp_join (render_abs p) n = render_abs (p ++ [n]).
Proof.
  intros p n Hs Hn Hsn Hnn. unfold fp_join. rewrite render_abs_ne, (name_ok_ne n Hnn).
  unfold fp_clean. assert (is_abs_str (render_abs p ++ "/" ++ n) = true) as -> by reflexivity.
  rewrite split_app_slash by apply Hsn. rewrite clean_rooted_norm.
  change (split_on "/" (render_abs p) ++ [n]) with (split_on "/" (render_abs p) ++ [n]).
  rewrite split_render_abs by exact Hs. rewrite <- app_comm_cons, norm_cons_nil.
  destruct p as [|s p].
  - cbn [app]. unfold norm. cbn [fold_left]. unfold norm_step at 2. cbn [String.eqb orb].
    rewrite (norm_step_ok [] n Hnn). reflexivity.
  - rewrite norm_app_ok by (constructor; [exact Hnn|constructor]).
    rewrite norm_ok_id by exact Hn. reflexivity.
Qed.

Lemma rel_segs_app : forall a r, rel_segs a (a ++ r) = r.
Proof.
  induction a as [|x a IH]; intros r; [reflexivity|].
  cbn [app rel_segs]. rewrite String.eqb_refl. apply IH.
Qed.

(* filepath.Rel(includePath, path) for a path below the include path *)
Theorem fp_rel_below : forall a r, Forall seg_ok (a ++ r) -> Forall name_ok (a ++ r) ->
  fp_rel (render_abs a) (render_abs (a ++ r)) = Ok (render_rel r).
Proof.
  intros a r Hs Hn. unfold fp_rel. rewrite !is_abs_render_abs. cbn [andb].
  apply Forall_app in Hs. apply Forall_app in Hn. destruct Hs as [Hsa Hsr], Hn as [Hna Hnr].
  rewrite abs_segs_render by assumption.
  rewrite abs_segs_render by (apply Forall_app; split; assumption).
  rewrite rel_segs_app. reflexivity.
Qed.

Lemma split_concat_ok : forall p, p <> [] -> Forall seg_ok p -> split_on "/" (String.concat "/" p) = p.
Proof. exact split_concat. Qed.

Lemma removelast_snoc : forall (A : Type) (l : list A) x, removelast (l ++ [x]) = l.
Proof. intros. apply removelast_last. Qed.

Lemma clean_rel_ok : forall p, Forall name_ok p -> clean_segs false p = p.
Proof.
  intros p H. unfold clean_segs.
  assert (G : forall acc, fold_left (clean_step false) p acc = acc ++ p).
  { induction H as [|s p Hs Hp IH]; intros acc; cbn [fold_left]; [rewrite app_nil_r; reflexivity|].
    assert (E : clean_step false acc s = acc ++ [s]).
    { unfold clean_step. destruct Hs as (H1 & H2 & H3).
      destruct (String.eqb s "") eqn:E1; [apply String.eqb_eq in E1; contradiction|].
      destruct (String.eqb s ".") eqn:E2; [apply String.eqb_eq in E2; contradiction|].
      destruct (String.eqb s "..") eqn:E3; [apply String.eqb_eq in E3; contradiction|]. reflexivity. }
    rewrite E, IH, <- app_assoc. reflexivity. }
  apply G.
Qed.

(* filepath.Dir of a rendered relative path: the directory part ("." for a bare name) *)
Theorem fp_dir_rel : forall r n, Forall seg_ok (r ++ [n]) -> Forall name_ok (r ++ [n]) ->
  fp_dir (render_rel (r ++ [n])) = render_rel r.
Proof.
  intros r n Hs Hn. unfold fp_dir.
  assert (Hne : r ++ [n] <> []) by (destruct r; discriminate).
  assert (E : render_rel (r ++ [n]) = String.concat "/" (r ++ [n])).
  { unfold render_rel, join_slash. destruct (r ++ [n]); [contradiction|reflexivity]. }
  rewrite E, split_concat_ok by assumption. rewrite removelast_snoc.
  apply Forall_app in Hs. apply Forall_app in Hn. destruct Hs as [Hsr _], Hn as [Hnr _].
  destruct r as [|s r]; [reflexivity|].
  unfold fp_clean, join_slash.
  assert (Hrel : is_abs_str (String.concat "/" (s :: r) ++ "/") = false).
  { pose proof (first_char_join (s :: r) ltac:(discriminate) Hsr) as Hc.
    destruct (String.concat "/" (s :: r)) as [|c t] eqn:Ec.
    - exfalso. inversion Hsr as [|? ? [Hs1 _] _]; subst. destruct s; [contradiction|].
      destruct r; discriminate Ec.
    - cbn [append is_abs_str]. destruct c as [[|] [|] [|] [|] [|] [|] [|] [|]]; try reflexivity. contradiction. }
  rewrite Hrel.
  change (String.concat "/" (s :: r) ++ "/")%string with (String.concat "/" (s :: r) ++ "/" ++ "")%string.
  rewrite split_app_slash by reflexivity. rewrite split_concat_ok by (try discriminate; exact Hsr).
  unfold clean_segs. rewrite fold_left_app. fold (clean_segs false (s :: r)).
  rewrite clean_rel_ok by exact Hnr. cbn [fold_left]. unfold clean_step. cbn [String.eqb orb].
  reflexivity.
Qed.

(* filepath.Dir of a rendered absolute path *)
Theorem fp_dir_abs : forall p n, Forall seg_ok (p ++ [n]) -> Forall name_ok (p ++ [n]) ->
  fp_dir (render_abs (p ++ [n])) = render_abs p.
Proof.
  intros p n Hs Hn. unfold fp_dir. rewrite split_render_abs by exact Hs.
  assert (E : match p ++ [n] with [] => [""] | _ => p ++ [n] end = p ++ [n]) by (destruct p; reflexivity).
  rewrite E. change ("" :: p ++ [n]) with (("" :: p) ++ [n]). rewrite removelast_snoc.
  apply Forall_app in Hs. apply Forall_app in Hn. destruct Hs as [Hsp _], Hn as [Hnp _].
  unfold join_slash.
  assert (Ej : (String.concat "/" ("" :: p) ++ "/")%string = (render_abs p ++ "/" ++ "")%string \/ p = []).
  { destruct p as [|s p]; [right; reflexivity|left]. reflexivity. }
  destruct Ej as [Ej| ->].
  - rewrite Ej. unfold fp_clean. assert (is_abs_str (render_abs p ++ "/" ++ "") = true) as -> by reflexivity.
    rewrite split_app_slash by reflexivity. rewrite clean_rooted_norm, split_render_abs by exact Hsp.
    rewrite <- app_comm_cons, norm_cons_nil.
    destruct p as [|s p]; [reflexivity|].
    unfold norm. rewrite fold_left_app. fold (norm (s :: p)). rewrite norm_ok_id by exact Hnp.
    reflexivity.
  - reflexivity.
Qed.

(* ------------------------------------------------------------------ '=' in the input directory *)
Definition eq_world : world :=
  {| w_root := Dir "" [Dir "m" [Dir "k=v" [File "a.proto" "syntax = ""proto3"";" true]]];
     w_cwd := "/m";
     w_pkg := fun _ => Ok "example.com/m/kv";
     w_exec := fun _ _ => ENil |}.
Definition eq_gen : Generate :=
  {| g_InputDir := "k=v"; g_ProtocPath := ""; g_Recurse := false; g_VTProto := false;
     g_GRPC := false; g_Include := [] |}.

(* Run before fix C20-input-dir-equals: strings.Cut was applied to the input directory as to
   every -include entry *)
Definition s_argv_orig (W : world) (g : Generate) : list string + gerror :=
  let '(paths, e) := s_find_protos W g (g_InputDir g) (g_Recurse g) in
  if negb (err_is_nil e) then inr e
  else match s_collect (s_include_args W g) (g_InputDir g :: g_Include g) with
       | inr e => inr e
       | inl incs => inl (s_plugin_flags g ++ incs ++ paths)
       end.

(* record of the defect: the input directory exists and holds a proto, yet the tool did not run
   protoc at all — the include path was computed for "k", which does not exist *)
Theorem s_input_equals_refuted_orig :
  fs_resolve eq_world (g_InputDir eq_gen) <> None
  /\ fst (s_find_protos eq_world eq_gen (g_InputDir eq_gen) false) = ["k=v/a.proto"]
  /\ s_argv_orig eq_world eq_gen = inr EFail.
Proof. vm_compute. repeat split. discriminate. Qed.

(* the repaired Run takes the input directory as typed *)
Theorem s_input_equals_fixed :
  snd (s_run eq_world eq_gen)
  = [("protoc", ["--go_out=."; "--go_opt=paths=source_relative"; "--fatal_warnings"; "-I=/m/k=v";
                 "--go_opt=Ma.proto=example.com/m/kv"; "k=v/a.proto"])].
Proof. vm_compute. reflexivity. Qed.

(* an -include entry is still cut at its first '=' *)
Example s_include_still_cut :
  s_include_args eq_world eq_gen "k=v=p/q" = s_include_core eq_world eq_gen "k" "v=p/q" true.
Proof. reflexivity. Qed.

(* unclean spellings of the input directory: the walk root keeps its spelling (and is the only
   path equal to g.InputDir), the entries below it are cleaned by Join *)
Example s_unclean_spellings :
  let W := {| w_root := Dir "" [Dir "m" [Dir "protos" [File "a.proto" "syntax = ""proto3"";" true;
                                                       Dir "sub" [File "b.proto" "" true]]]];
              w_cwd := "/m"; w_pkg := fun _ => Ok "p"; w_exec := fun _ _ => ENil |} in
  let run_with s := match snd (s_run W {| g_InputDir := s; g_ProtocPath := ""; g_Recurse := false;
                                          g_VTProto := false; g_GRPC := false; g_Include := [] |}) with
                    | [(_, args)] => args | _ => [] end in
  run_with "./protos" = run_with "protos"
  /\ run_with "protos/" = run_with "protos"
  /\ run_with "protos//." = run_with "protos"
  /\ run_with "x/../protos" = run_with "protos"
  /\ run_with "/m/protos/" = ["--go_out=."; "--go_opt=paths=source_relative"; "--fatal_warnings";
                              "-I=/m/protos"; "--go_opt=Ma.proto=p"; "--go_opt=Msub/b.proto=p";
                              "/m/protos/a.proto"].
Proof. vm_compute. repeat split. Qed.
