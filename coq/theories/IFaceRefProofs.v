(* IFaceRefProofs.v — type-reference rendering and import activation (imports.go:73-167,
   params.go:32-65): every rendered reference denotes the original type under the active
   imports, and every qualifier it uses is the alias of an active import. *)
From Coq Require Import List Bool String Ascii NArith Arith Lia.
From GT Require Import IFaceModel IFaceNamesProofs IFaceEmbProofs.
Import ListNotations.
Local Open Scope string_scope.

(* ------------------------------------------------------------------ induction on types *)
Lemma ty_ind' (P : ty -> Prop) :
  (forall s, P (TBasic s)) ->
  (forall pkg n targs, Forall P targs -> P (TNamed pkg n targs)) ->
  (forall x, P x -> P (TPtr x)) ->
  (forall x, P x -> P (TSlice x)) ->
  (forall n x, P x -> P (TArray n x)) ->
  (forall k v, P k -> P v -> P (TMap k v)) ->
  (forall ps v rs, Forall (fun p : pinfo * ty => P (snd p)) ps ->
                   Forall (fun p : pinfo * ty => P (snd p)) rs -> P (TFunc ps v rs)) ->
  forall t, P t.
Proof.
  intros Hb Hn Hp Hs Ha Hm Hf. fix IH 1. intros [s|pkg n targs|x|x|n x|k v|ps v rs].
  - apply Hb.
  - apply Hn. induction targs as [|y r IHr]; constructor; [apply IH|exact IHr].
  - apply Hp, IH.
  - apply Hs, IH.
  - apply Ha, IH.
  - apply Hm; apply IH.
  - apply Hf.
    + induction ps as [|[pi y] r IHr]; constructor; [apply IH|exact IHr].
    + induction rs as [|[pi y] r IHr]; constructor; [apply IH|exact IHr].
Qed.

(* ------------------------------------------------------------------ the import table *)
Lemma tget_path st p i : tget st p = Some i -> i_path i = p.
Proof.
  induction st as [|j r IH]; simpl; [discriminate|].
  destruct (String.eqb p (i_path j)) eqn:E; [|exact IH].
  intros H. injection H as <-. apply String.eqb_eq in E. auto.
Qed.

Lemma tget_In st p i : tget st p = Some i -> In i st.
Proof.
  induction st as [|j r IH]; simpl; [discriminate|].
  destruct (String.eqb p (i_path j)); [intros H; injection H as <-; auto|auto].
Qed.

Lemma tget_tset_same st i : tget (tset st i) (i_path i) = Some i.
Proof.
  induction st as [|j r IH]; simpl.
  - rewrite String.eqb_refl. reflexivity.
  - destruct (String.eqb (i_path i) (i_path j)) eqn:E; simpl.
    + rewrite String.eqb_refl. reflexivity.
    + rewrite E. exact IH.
Qed.

Lemma tget_tset_other st i p : p <> i_path i -> tget (tset st i) p = tget st p.
Proof.
  intros Hne. induction st as [|j r IH]; simpl.
  - apply String.eqb_neq in Hne. rewrite Hne. reflexivity.
  - destruct (String.eqb (i_path i) (i_path j)) eqn:E; simpl.
    + apply String.eqb_eq in E. rewrite <- E. apply String.eqb_neq in Hne. rewrite Hne. reflexivity.
    + destruct (String.eqb p (i_path j)); [reflexivity|exact IH].
Qed.

Lemma extends_refl st : extends st st.
Proof. intros p i H Hu. eauto. Qed.

Lemma extends_trans a b c : extends a b -> extends b c -> extends a c.
Proof.
  intros H1 H2 p i Hg Hu. destruct (H1 _ _ Hg Hu) as [i' [Hg' [Hu' Ha']]].
  destruct (H2 _ _ Hg' Hu') as [i'' [Hg'' [Hu'' Ha'']]]. exists i''. split; [assumption|].
  split; [assumption|congruence].
Qed.

Lemma extends_tset st i :
  i_in_use i = true ->
  (forall j, tget st (i_path i) = Some j -> i_alias i = i_alias j) ->
  extends st (tset st i).
Proof.
  intros Hu Hal p j Hg Huj. destruct (String.eqb p (i_path i)) eqn:E.
  - apply String.eqb_eq in E. subst p. exists i. rewrite tget_tset_same.
    split; [reflexivity|]. split; [assumption|]. apply Hal. assumption.
  - apply String.eqb_neq in E. exists j. rewrite tget_tset_other by assumption. auto.
Qed.

(* addNamed: the qualifier printed is the alias under which the package is (now) active *)
Definition qual_ok (e : env) (st' : table) (pkg : option (string * string)) (q : option string) : Prop :=
  match pkg with
  | None => q = None
  | Some (p, _) =>
      if String.eqb p (e_self e) then q = None
      else exists i, q = Some (i_alias i) /\ tget st' p = Some i /\ i_in_use i = true
  end.

Lemma add_named_spec e st pkg q st' :
  add_named e st pkg = (q, st') -> extends st st' /\ qual_ok e st' pkg q.
Proof.
  unfold add_named, qual_ok. destruct pkg as [[p pn]|].
  2:{ intros H. injection H as <- <-. split; [apply extends_refl|reflexivity]. }
  destruct (String.eqb p (e_self e)).
  { intros H. injection H as <- <-. split; [apply extends_refl|reflexivity]. }
  destruct (tget st p) as [i|] eqn:Eg.
  - intros H. injection H as <- <-.
    pose proof (tget_path _ _ _ Eg) as Hp.
    set (j := Imp p (i_alias i) (i_alias_is_pkg i) true).
    split.
    + apply (extends_tset st j); [reflexivity|]. simpl. intros k Hk. rewrite Eg in Hk.
      injection Hk as <-. reflexivity.
    + exists j. split; [reflexivity|]. split; [|reflexivity].
      change p with (i_path j). apply tget_tset_same.
  - destruct (match assoc (e_pkg_imports e) p with
              | Some n => if String.eqb pn "" then (n, true) else (pn, has_suffix p pn)
              | None => (pn, has_suffix p pn)
              end) as [al0 isp0].
    cbv zeta.
    set (al := if e_unique_alias e then unused_name (taken_names e st) al0 else al0).
    set (isp := if String.eqb al al0 then isp0 else false).
    intros H. injection H as <- <-.
    set (j := Imp p al isp true). split.
    + apply (extends_tset st j); [reflexivity|]. simpl. intros k Hk. rewrite Eg in Hk. discriminate.
    + exists j. split; [reflexivity|]. split; [|reflexivity].
      change p with (i_path j). apply tget_tset_same.
Qed.

(* ------------------------------------------------------------------ resolving a qualifier *)
Lemma filter_unique_alias act i :
  NoDup (map i_alias act) -> In i act ->
  filter (fun j => String.eqb (i_alias j) (i_alias i)) act = [i].
Proof.
  induction act as [|j r IH]; intros Hnd Hin; [contradiction|].
  simpl in Hnd. inversion Hnd as [|? ? Hnot Hnd']; subst. simpl.
  destruct Hin as [->|Hin].
  - rewrite String.eqb_refl. f_equal.
    assert (H : forall k, In k r -> String.eqb (i_alias k) (i_alias i) = false).
    { intros k Hk. apply String.eqb_neq. intros He. apply Hnot. rewrite <- He. apply in_map. assumption. }
    clear -H. induction r as [|k r IHr]; simpl; [reflexivity|].
    rewrite (H k) by (left; reflexivity). apply IHr. intros k' Hk'. apply H. right. assumption.
  - destruct (String.eqb (i_alias j) (i_alias i)) eqn:E.
    + exfalso. apply String.eqb_eq in E. apply Hnot. rewrite E. apply in_map. assumption.
    + apply IH; assumption.
Qed.

Lemma active_In st i : In i (active st) <-> In i st /\ i_in_use i = true.
Proof. apply filter_In. Qed.

Lemma resolve_active st p i :
  alias_injective (active st) -> tget st p = Some i -> i_in_use i = true ->
  resolve (active st) (i_alias i) = Some p.
Proof.
  intros Hinj Hg Hu. unfold resolve.
  rewrite (filter_unique_alias (active st) i Hinj).
  - f_equal. apply (tget_path _ _ _ Hg).
  - apply active_In. split; [apply (tget_In _ _ _ Hg)|assumption].
Qed.

(* ------------------------------------------------------------------ sequences *)
Lemma sequence_Forall2 {A B} (f : A -> option B) l l' :
  Forall2 (fun a b => f a = Some b) l l' -> sequence (map f l) = Some l'.
Proof. induction 1 as [|a b l l' H _ IH]; simpl; [reflexivity|]. rewrite H, IH. reflexivity. Qed.

Lemma Forall2_impl {A B} (P Q : A -> B -> Prop) l l' :
  (forall a b, P a b -> Q a b) -> Forall2 P l l' -> Forall2 Q l l'.
Proof. intros H. induction 1; constructor; auto. Qed.

Lemma Forall2_and3 {A B} (P Q : A -> B -> Prop) (R : A -> Prop) l l' :
  Forall2 P l l' -> Forall2 Q l l' -> Forall R l ->
  Forall2 (fun a b => P a b /\ R a /\ Q a b) l l'.
Proof.
  induction 1 as [|a b l l' Hp _ IH]; intros HQ HR; [constructor|].
  inversion HQ; subst. inversion HR; subst. constructor; auto.
Qed.

(* ------------------------------------------------------------------ the main invariant *)
Section Ref.
  Variable e : env.
  Variable local : string -> bool.

  Definition quals_in (st : table) (x : texpr) : Prop :=
    forall a, In a (qualifiers x) -> has_alias (active st) a.

  Definition den_ok (st : table) (t : ty) (x : texpr) : Prop :=
    wf_ty (e_self e) local t -> alias_injective (active st) ->
    denote (e_self e) local (active st) x = Some (erase t).

  Definition good (t : ty) : Prop :=
    forall st x st', extract e st t = (x, st') ->
      extends st st' /\
      forall st'', extends st' st'' -> quals_in st'' x /\ den_ok st'' t x.

  Lemma extract_named st pkg name targs :
    extract e st (TNamed pkg name targs) =
    let '(q, st1) := add_named e st pkg in
    let '(args, st2) := extract_list e st1 targs in (EName q name args, st2).
  Proof. reflexivity. Qed.

  Lemma extract_func st ps v rs :
    extract e st (TFunc ps v rs) =
    let '(xi, st1) := params_from_tuple e st v ps in
    let '(xo, st2) := params_from_tuple e st1 false rs in
    let '(ni, no) := ensure_param_names (map fst ps) (map fst rs) in
    (EFunc (zip_names ni xi) (zip_names no xo), st2).
  Proof. reflexivity. Qed.

  Lemma extract_list_good : forall targs, Forall good targs ->
    forall st xs st', extract_list e st targs = (xs, st') ->
      extends st st' /\
      forall st'', extends st' st'' ->
        (forall x, In x xs -> quals_in st'' x) /\
        (Forall (wf_ty (e_self e) local) targs -> alias_injective (active st'') ->
         Forall2 (fun x t => denote (e_self e) local (active st'') x = Some t) xs (map erase targs)).
  Proof.
    induction targs as [|t r IH]; intros Hg st xs st' H; simpl in H.
    - injection H as <- <-. split; [apply extends_refl|]. intros st'' _. split; [intros x []|].
      intros _ _. constructor.
    - inversion Hg as [|? ? Ht Hr]; subst.
      destruct (extract e st t) as [x s1] eqn:E1.
      destruct (extract_list e s1 r) as [xr s2] eqn:E2. injection H as <- <-.
      destruct (Ht _ _ _ E1) as [X1 G1]. destruct (IH Hr _ _ _ E2) as [X2 G2].
      split; [eapply extends_trans; eauto|]. intros st'' Hx.
      destruct (G1 st'' (extends_trans _ _ _ X2 Hx)) as [Q1 D1]. destruct (G2 st'' Hx) as [Q2 D2].
      split.
      + intros y [<-|Hy]; [assumption|auto].
      + intros Hwf Hinj. inversion Hwf as [|? ? Hw1 Hw2]; subst. simpl.
        constructor; [apply D1; assumption|apply D2; assumption].
  Qed.

  (* one parameter of a tuple: the (flag, reference) pair ParamsFromSignatureTuple builds *)
  Definition par_ok (st : table) (t : ty) (bx : bool * texpr) : Prop :=
    wf_ty (e_self e) local t -> alias_injective (active st) ->
    (fst bx = true -> exists y, t = TSlice y) ->
    exists t', denote (e_self e) local (active st) (snd bx) = Some t' /\
               (if fst bx then TSlice t' else t') = erase t.

  Lemma extract_slice st y : extract e st (TSlice y) =
    let '(r, st1) := extract e st y in (ESlice r, st1).
  Proof. reflexivity. Qed.

  Lemma tuple_good : forall l, Forall (fun p : pinfo * ty => good (snd p)) l ->
    forall st v xs st', params_from_tuple e st v l = (xs, st') ->
      extends st st' /\ List.length xs = List.length l /\
      existsb fst xs = (v && negb (Nat.eqb (List.length l) 0)) /\
      Forall2 (fun (p : pinfo * ty) (bx : bool * texpr) => fst bx = true -> v = true /\ exists l0, l = (l0 ++ [p])%list) l xs /\
      forall st'', extends st' st'' ->
        (forall bx, In bx xs -> quals_in st'' (snd bx)) /\
        Forall2 (fun (p : pinfo * ty) bx => par_ok st'' (snd p) bx) l xs.
  Proof.
    induction l as [|[pi t] r IH]; intros Hg st v xs st' H; simpl in H.
    - injection H as <- <-. split; [apply extends_refl|]. split; [reflexivity|].
      split; [simpl; rewrite andb_false_r; reflexivity|]. split; [constructor|].
      intros st'' _. split; [intros bx []|constructor].
    - inversion Hg as [|? ? Ht Hr]; subst. simpl in Ht.
      destruct (extract e st t) as [x s1] eqn:E1.
      destruct (params_from_tuple e s1 v r) as [xr s2] eqn:E2. injection H as <- <-.
      destruct (Ht _ _ _ E1) as [X1 G1].
      destruct (IH Hr _ _ _ _ E2) as [X2 [L2 [V2 [F2 G2]]]].
      split; [eapply extends_trans; eauto|]. split; [simpl; congruence|].
      split.
      { simpl. rewrite V2. destruct r, v; reflexivity. }
      split.
      { constructor.
        - simpl. intros Hb. apply andb_true_iff in Hb as [Hv Hr0]. split; [assumption|].
          destruct r; [|discriminate]. exists []. reflexivity.
        - eapply Forall2_impl; [|exact F2]. simpl. intros p bx Hp Hb. destruct (Hp Hb) as [Hv [l0 Hl0]].
          split; [assumption|]. exists ((pi, t) :: l0). rewrite Hl0. reflexivity. }
      intros st'' Hx.
      destruct (G1 st'' (extends_trans _ _ _ X2 Hx)) as [Q1 D1]. destruct (G2 st'' Hx) as [Q2 D2].
      split.
      + intros bx [<-|Hb]; [|auto]. simpl.
        destruct (v && match r with [] => true | _ => false end); [|assumption].
        intros a Ha. apply Q1. destruct x; simpl in *; assumption.
      + constructor; [|assumption]. unfold par_ok. simpl.
        intros Hwf Hinj Hsl.
        destruct (v && match r with [] => true | _ => false end) eqn:Eb.
        * destruct (Hsl eq_refl) as [y ->]. rewrite extract_slice in E1.
          destruct (extract e st y) as [ry sy] eqn:Ey. injection E1 as <- <-. simpl.
          specialize (D1 Hwf Hinj). simpl in D1.
          destruct (denote (e_self e) local (active st'') ry) as [ty'|]; [|discriminate].
          simpl in D1. injection D1 as D1. exists ty'. split; [reflexivity|]. simpl. congruence.
        * exists (erase t). split; [apply D1; assumption|reflexivity].
  Qed.

  Lemma ensure_param_names_length ins outs :
    List.length (fst (ensure_param_names ins outs)) = List.length ins /\
    List.length (snd (ensure_param_names ins outs)) = List.length outs.
  Proof.
    unfold ensure_param_names, ensure_names.
    destruct (keep_names [] ins) as [ins1 d1] eqn:E1.
    destruct (keep_names d1 outs) as [outs1 d2] eqn:E2.
    destruct (ensure_names_from d2 false (List.length ins1) 0 ins1) as [ins2 d3] eqn:E3.
    destruct (ensure_names_from d3 true (List.length outs1) 0 outs1) as [outs2 d4] eqn:E4.
    rewrite (keep_names_pass [] ins 0) in E1. rewrite (keep_names_pass d1 outs 0) in E2.
    rewrite ensure_names_pass in E3. rewrite ensure_names_pass in E4.
    apply pass_length in E1, E2, E3, E4. simpl. lia.
  Qed.

  Lemma zip_names_snd ns xs : List.length ns = List.length xs ->
    map (fun p : string * bool * texpr => (snd (fst p), snd p)) (zip_names ns xs) = xs.
  Proof.
    unfold zip_names. revert xs. induction ns as [|n r IH]; intros [|[b x] xr] H; simpl in *;
      try discriminate; [reflexivity|]. f_equal. apply IH. lia.
  Qed.

  Lemma zip_quals st ns xs :
    (forall bx, In bx xs -> quals_in st (snd bx)) ->
    forall a, In a (flat_map (fun p : string * bool * texpr => qualifiers (snd p)) (zip_names ns xs)) ->
    has_alias (active st) a.
  Proof.
    intros H a Ha. apply in_flat_map in Ha as [[[n b] x] [Hin Hq]]. simpl in Hq.
    unfold zip_names in Hin. apply in_map_iff in Hin as [[p [b' x']] [Heq Hin]].
    simpl in Heq. injection Heq as _ <- <-. apply in_combine_r in Hin. apply (H _ Hin a Hq).
  Qed.

  Lemma zip_denote st'' l ns xs :
    List.length ns = List.length xs ->
    Forall2 (fun (p : pinfo * ty) (bx : bool * texpr) =>
               exists t', denote (e_self e) local (active st'') (snd bx) = Some t' /\
                          (if fst bx then TSlice t' else t') = erase (snd p)) l xs ->
    sequence (map (fun p : string * bool * texpr =>
                     let '(_, v, y) := p in
                     option_map (fun t : ty => (blank, if v then TSlice t else t))
                                (denote (e_self e) local (active st'') y)) (zip_names ns xs))
    = Some (map (fun p : pinfo * ty => (blank, erase (snd p))) l).
  Proof.
    intros Hl HF. apply sequence_Forall2.
    revert ns Hl. induction HF as [|[pi t] [b x] l xs [t' [Hd He]] _ IH]; intros ns Hl.
    - destruct ns; [constructor|discriminate].
    - destruct ns as [|n ns]; [discriminate|]. unfold zip_names. simpl.
      constructor; [|apply IH; simpl in Hl; lia].
      simpl in *. rewrite Hd. simpl. rewrite He. reflexivity.
  Qed.

  Lemma zip_variadic ns xs : List.length ns = List.length xs ->
    existsb (fun p : string * bool * texpr => snd (fst p)) (zip_names ns xs) = existsb fst xs.
  Proof.
    unfold zip_names. revert xs. induction ns as [|n r IH]; intros [|[b x] xr] H; simpl in *;
      try discriminate; [reflexivity|]. f_equal. apply IH. lia.
  Qed.

  Lemma wf_variadic_tail (ps : list (pinfo * ty)) p l0 :
    ps = (l0 ++ [p])%list -> (exists ps0 pi x, ps = (ps0 ++ [(pi, TSlice x)])%list) ->
    exists y, snd p = TSlice y.
  Proof.
    intros -> [ps0 [pi [x H]]]. apply app_inj_tail in H as [_ ->]. exists x. reflexivity.
  Qed.

  Theorem all_good : forall t, good t.
  Proof.
    induction t as [s|pkg n targs IH|y IH|y IH|k y IH|k v IHk IHv|ps v rs IHp IHr] using ty_ind';
      intros st x st' H.
    - (* basic *)
      simpl in H. injection H as <- <-. split; [apply extends_refl|]. intros st'' _.
      split; [intros a []|]. intros Hwf _. inversion Hwf; subst. simpl. unfold trim_prefix.
      rewrite H0. reflexivity.
    - (* named *)
      rewrite extract_named in H.
      destruct (add_named e st pkg) as [q st1] eqn:Ea.
      destruct (extract_list e st1 targs) as [args st2] eqn:El. injection H as <- <-.
      destruct (add_named_spec _ _ _ _ _ Ea) as [X1 Q].
      destruct (extract_list_good _ IH _ _ _ El) as [X2 G].
      split; [eapply extends_trans; eauto|]. intros st'' Hx.
      destruct (G st'' Hx) as [QA DA].
      assert (Hq : forall a, q = Some a -> exists p pn i, pkg = Some (p, pn) /\ String.eqb p (e_self e) = false /\
                   tget st'' p = Some i /\ i_in_use i = true /\ i_alias i = a).
      { intros a ->. unfold qual_ok in Q. destruct pkg as [[p pn]|]; [|discriminate].
        destruct (String.eqb p (e_self e)) eqn:Es; [discriminate|].
        destruct Q as [i [Hi [Hg Hu]]]. injection Hi as ->.
        destruct (extends_trans _ _ _ X2 Hx _ _ Hg Hu) as [i' [Hg' [Hu' Ha']]].
        exists p, pn, i'. auto. }
      split.
      + intros a Ha. simpl in Ha. apply in_app_or in Ha as [Ha|Ha].
        * destruct q as [a'|]; [|contradiction]. destruct Ha as [<-|[]].
          destruct (Hq _ eq_refl) as [p [pn [i [_ [_ [Hg [Hu Hal]]]]]]].
          exists i. split; [|assumption]. apply active_In. split; [apply (tget_In _ _ _ Hg)|assumption].
        * apply in_flat_map in Ha as [y [Hy Hay]]. apply (QA y Hy a Hay).
      + intros Hwf Hinj. inversion Hwf as [|? ? ? Hloc Hargs| | | | |]; subst.
        simpl. rewrite (sequence_Forall2 _ _ _ (DA Hargs Hinj)).
        destruct q as [a|].
        * destruct (Hq _ eq_refl) as [p [pn [i [-> [Es [Hg [Hu Hal]]]]]]].
          rewrite <- Hal. rewrite (resolve_active _ _ _ Hinj Hg Hu). reflexivity.
        * unfold qual_ok in Q. destruct pkg as [[p pn]|].
          -- destruct (String.eqb p (e_self e)) eqn:Es.
             ++ rewrite (Hloc eq_refl). apply String.eqb_eq in Es. subst p. reflexivity.
             ++ destruct Q as [i [Hi _]]. discriminate.
          -- rewrite Hloc. reflexivity.
    - (* pointer *)
      simpl in H. destruct (extract e st y) as [r s1] eqn:E1. injection H as <- <-.
      destruct (IH _ _ _ E1) as [X G]. split; [assumption|]. intros st'' Hx.
      destruct (G st'' Hx) as [Q D]. split; [exact Q|]. intros Hwf Hinj. inversion Hwf; subst.
      simpl. rewrite D by assumption. reflexivity.
    - (* slice *)
      simpl in H. destruct (extract e st y) as [r s1] eqn:E1. injection H as <- <-.
      destruct (IH _ _ _ E1) as [X G]. split; [assumption|]. intros st'' Hx.
      destruct (G st'' Hx) as [Q D]. split; [exact Q|]. intros Hwf Hinj. inversion Hwf; subst.
      simpl. rewrite D by assumption. reflexivity.
    - (* array *)
      simpl in H. destruct (extract e st y) as [r s1] eqn:E1. injection H as <- <-.
      destruct (IH _ _ _ E1) as [X G]. split; [assumption|]. intros st'' Hx.
      destruct (G st'' Hx) as [Q D]. split; [exact Q|]. intros Hwf Hinj. inversion Hwf; subst.
      simpl. rewrite D by assumption. reflexivity.
    - (* map *)
      simpl in H. destruct (extract e st k) as [rk s1] eqn:E1.
      destruct (extract e s1 v) as [rv s2] eqn:E2. injection H as <- <-.
      destruct (IHk _ _ _ E1) as [X1 G1]. destruct (IHv _ _ _ E2) as [X2 G2].
      split; [eapply extends_trans; eauto|]. intros st'' Hx.
      destruct (G1 st'' (extends_trans _ _ _ X2 Hx)) as [Q1 D1]. destruct (G2 st'' Hx) as [Q2 D2].
      split.
      + intros a Ha. simpl in Ha. apply in_app_or in Ha as [Ha|Ha]; auto.
      + intros Hwf Hinj. inversion Hwf; subst. simpl. rewrite D1, D2 by assumption. reflexivity.
    - (* func *)
      rewrite extract_func in H.
      destruct (params_from_tuple e st v ps) as [xi s1] eqn:E1.
      destruct (params_from_tuple e s1 false rs) as [xo s2] eqn:E2.
      destruct (ensure_param_names (map fst ps) (map fst rs)) as [ni no] eqn:En.
      injection H as <- <-.
      destruct (tuple_good _ IHp _ _ _ _ E1) as [X1 [L1 [V1 [F1 G1]]]].
      destruct (tuple_good _ IHr _ _ _ _ E2) as [X2 [L2 [V2 [F2 G2]]]].
      pose proof (ensure_param_names_length (map fst ps) (map fst rs)) as [Li Lo].
      rewrite En in Li, Lo. simpl in Li, Lo. rewrite map_length in Li, Lo.
      split; [eapply extends_trans; eauto|]. intros st'' Hx.
      destruct (G1 st'' (extends_trans _ _ _ X2 Hx)) as [Q1 D1]. destruct (G2 st'' Hx) as [Q2 D2].
      split.
      + intros a Ha. simpl in Ha. apply in_app_or in Ha as [Ha|Ha].
        * apply (zip_quals st'' ni xi Q1 a Ha).
        * apply (zip_quals st'' no xo Q2 a Ha).
      + intros Hwf Hinj. inversion Hwf as [| | | | | |? ? ? Hwp Hwr Hvar]; subst.
        assert (A1 : Forall2 (fun (p : pinfo * ty) (bx : bool * texpr) =>
                     exists t', denote (e_self e) local (active st'') (snd bx) = Some t' /\
                                (if fst bx then TSlice t' else t') = erase (snd p)) ps xi).
        { pose proof (Forall2_and3 _ _ _ _ _ D1 F1 Hwp) as HH.
          eapply Forall2_impl; [|exact HH]. simpl. intros p bx [Hp [Hw Hb]].
          apply Hp; [assumption|assumption|]. intros Hbx. destruct (Hb Hbx) as [Hv [l0 Hl0]].
          apply (wf_variadic_tail ps p l0 Hl0 (Hvar Hv)). }
        assert (A2 : Forall2 (fun (p : pinfo * ty) (bx : bool * texpr) =>
                     exists t', denote (e_self e) local (active st'') (snd bx) = Some t' /\
                                (if fst bx then TSlice t' else t') = erase (snd p)) rs xo).
        { pose proof (Forall2_and3 _ _ _ _ _ D2 F2 Hwr) as HH.
          eapply Forall2_impl; [|exact HH]. simpl. intros p bx [Hp [Hw Hb]].
          apply Hp; [assumption|assumption|]. intros Hbx. destruct (Hb Hbx) as [Hv _]. discriminate. }
        cbn [denote].
        rewrite (zip_denote st'' ps ni xi) by (assumption || lia).
        rewrite (zip_denote st'' rs no xo) by (assumption || lia).
        rewrite zip_variadic by lia. rewrite V1. cbn [erase].
        assert (Hv : v && negb (Nat.eqb (List.length ps) 0) = v).
        { destruct v; [|reflexivity]. destruct (Hvar eq_refl) as [ps0 [pi [x0 ->]]].
          rewrite app_length. simpl. replace (List.length ps0 + 1) with (S (List.length ps0)) by lia.
          reflexivity. }
        rewrite Hv. reflexivity.
  Qed.
End Ref.

(* ------------------------------------------------------------------ methods and the interface *)
Definition meth_ty (m : meth) : ty := TFunc (m_ps m) (m_variadic m) (m_rs m).
Definition rmeth_expr (m : rmeth) : texpr := EFunc (rm_in m) (rm_out m).

Fixpoint all_meths (t : tree) : list meth :=
  match t with Tr _ own embs => (own ++ flat_map all_meths embs)%list end.

Section Iface.
  Variable e : env.
  Variable local : string -> bool.

  (* m is the rendering of the declared method m0, good in every later state of the handler *)
  Definition rendered_from (st : table) (m0 : meth) (m : rmeth) : Prop :=
    rm_name m = m_name m0 /\
    forall st'', extends st st'' ->
      quals_in st'' (rmeth_expr m) /\ den_ok e local st'' (meth_ty m0) (rmeth_expr m).

  Lemma rendered_from_mono st st' m0 m :
    extends st st' -> rendered_from st m0 m -> rendered_from st' m0 m.
  Proof.
    intros Hx [Hn H]. split; [assumption|]. intros st'' Hx'. apply H. eapply extends_trans; eauto.
  Qed.

  Lemma render_method_func st m :
    render_method e st m =
    let '(x, st') := extract e st (meth_ty m) in
    (match x with EFunc i o => RM (m_name m) i o | _ => RM (m_name m) [] [] end, st').
  Proof.
    unfold render_method, meth_ty. rewrite extract_func.
    destruct (params_from_tuple e st (m_variadic m) (m_ps m)) as [xi s1].
    destruct (params_from_tuple e s1 false (m_rs m)) as [xo s2].
    destruct (ensure_param_names (map fst (m_ps m)) (map fst (m_rs m))) as [ni no]. reflexivity.
  Qed.

  Lemma render_method_ok st m0 m st' :
    render_method e st m0 = (m, st') -> extends st st' /\ rendered_from st' m0 m.
  Proof.
    rewrite render_method_func. destruct (extract e st (meth_ty m0)) as [x s1] eqn:E.
    intros H. injection H as <- <-.
    destruct (all_good e local (meth_ty m0) _ _ _ E) as [X G]. split; [assumption|].
    assert (Hx : exists i o, x = EFunc i o).
    { unfold meth_ty in E. rewrite extract_func in E.
      destruct (params_from_tuple e st (m_variadic m0) (m_ps m0)) as [xi t1].
      destruct (params_from_tuple e t1 false (m_rs m0)) as [xo t2].
      destruct (ensure_param_names (map fst (m_ps m0)) (map fst (m_rs m0))) as [ni no].
      injection E as <- _. eauto. }
    destruct Hx as [i [o ->]]. split; [reflexivity|]. intros st'' Hx. apply (G st'' Hx).
  Qed.

  Lemma render_methods_ok : forall ms st rs st',
    render_methods e st ms = (rs, st') ->
    extends st st' /\ Forall2 (rendered_from st') ms rs.
  Proof.
    induction ms as [|m r IH]; intros st rs st' H; simpl in H.
    - injection H as <- <-. split; [apply extends_refl|constructor].
    - destruct (render_method e st m) as [x s1] eqn:E1.
      destruct (render_methods e s1 r) as [xs s2] eqn:E2. injection H as <- <-.
      destruct (render_method_ok _ _ _ _ E1) as [X1 R1]. destruct (IH _ _ _ E2) as [X2 R2].
      split; [eapply extends_trans; eauto|]. constructor; [|assumption].
      eapply rendered_from_mono; eauto.
  Qed.

  Lemma Forall2_names st ms rs : Forall2 (rendered_from st) ms rs -> map rm_name rs = map m_name ms.
  Proof. induction 1 as [|m r ms rs [Hn _] _ IH]; simpl; [reflexivity|]. rewrite Hn, IH. reflexivity. Qed.

  (* ---- the merge on rendered methods projects to the merge on names ---- *)
  Lemma existsb_map_name nm (l : list rmeth) :
    existsb (fun x => String.eqb (rm_name x) nm) l = existsb (fun x => String.eqb x nm) (map rm_name l).
  Proof. induction l; simpl; [reflexivity|]. rewrite IHl. reflexivity. Qed.

  Lemma filter_map_name nm (l : list rmeth) :
    map rm_name (filter (fun x => negb (String.eqb (rm_name x) nm)) l) =
    filter (fun x => negb (String.eqb x nm)) (map rm_name l).
  Proof.
    induction l as [|x r IH]; simpl; [reflexivity|].
    destruct (String.eqb (rm_name x) nm); simpl; [assumption|]. rewrite IH. reflexivity.
  Qed.

  Definition proj (acc : list rmeth * list string) : list string * list string :=
    (map rm_name (fst acc), snd acc).

  Lemma merge_one_proj acc m :
    proj (merge_one rm_name acc m) = merge_one (fun n : string => n) (proj acc) (rm_name m).
  Proof.
    destruct acc as [toadd ign]. unfold merge_one, proj. cbn [fst snd].
    destruct (mem (rm_name m) ign); [reflexivity|].
    rewrite existsb_map_name.
    destruct (existsb (fun x => String.eqb x (rm_name m)) (map rm_name toadd)); cbn [fst snd].
    - rewrite filter_map_name. reflexivity.
    - rewrite map_app. reflexivity.
  Qed.

  Lemma merge_proj : forall ms acc,
    proj (merge rm_name acc ms) = merge (fun n : string => n) (proj acc) (map rm_name ms).
  Proof.
    unfold merge. induction ms as [|m r IH]; intros acc; simpl; [reflexivity|].
    rewrite IH, merge_one_proj. reflexivity.
  Qed.

  Lemma merge_one_sub acc (m x : rmeth) :
    In x (fst (merge_one rm_name acc m)) -> In x (fst acc) \/ x = m.
  Proof.
    destruct acc as [toadd ign]. unfold merge_one. cbn [fst snd].
    destruct (mem (rm_name m) ign); cbn [fst]; [auto|].
    destruct (existsb _ toadd); cbn [fst].
    - intros H. apply filter_In in H. tauto.
    - intros H. apply in_app_or in H as [H|[H|[]]]; auto.
  Qed.

  Lemma merge_sub : forall ms acc x,
    In x (fst (merge rm_name acc ms)) -> In x (fst acc) \/ In x ms.
  Proof.
    unfold merge. induction ms as [|m r IH]; intros acc x H; simpl in H; [auto|].
    apply IH in H as [H|H]; [|right; right; assumption].
    apply merge_one_sub in H as [H| ->]; [auto|right; left; reflexivity].
  Qed.

  Variables priv emb flt : bool.

  Definition sourced (st : table) (t : tree) (m : rmeth) : Prop :=
    exists m0, picks priv emb flt t m0 /\ rendered_from st m0 m.

  Definition emb_loop :=
    fix go (acc : list rmeth * list string) (st : table) (l : list tree) {struct l} :=
      match l with
      | [] => (acc, st)
      | f0 :: r => let '(ms, s1) := to_iface_gen e priv emb flt st f0 in
                   go (merge rm_name acc ms) s1 r
      end.

  Lemma to_iface_unfold st self own embs :
    to_iface_gen e priv emb flt st (Tr self own embs) =
    let '(_, st1) := extract e st self in
    let '(own', st2) := render_methods e st1 (filter (visible priv) own) in
    if negb emb then (own', st2) else
    let '(acc, st3) := emb_loop ([], map rm_name own') st2 embs in
    ((own' ++ filter (fun m => negb flt || go_ms (Tr self own embs) (rm_name m)) (fst acc))%list, st3).
  Proof. reflexivity. Qed.

  Definition tree_ok (t : tree) : Prop :=
    forall st rs st', to_iface_gen e priv emb flt st t = (rs, st') ->
      extends st st' /\ Forall (sourced st' t) rs /\
      map rm_name rs = iface_names_gen priv emb flt t.

  Lemma emb_loop_ok : forall embs, Forall tree_ok embs ->
    forall acc st acc' st' (src : rmeth -> Prop),
    emb_loop acc st embs = (acc', st') ->
    extends st st' /\
    (forall x, In x (fst acc') ->
       In x (fst acc) \/ exists f, In f embs /\ sourced st' f x /\
                                   In (rm_name x) (iface_names_gen priv emb flt f)) /\
    proj acc' = fold_left (fun a f => merge (fun n : string => n) a (iface_names_gen priv emb flt f))
                          embs (proj acc).
  Proof.
    induction embs as [|f r IH]; intros Hok acc st acc' st' src H; simpl in H.
    - injection H as <- <-. split; [apply extends_refl|]. split; [auto|reflexivity].
    - inversion Hok as [|? ? Hf Hr]; subst.
      destruct (to_iface_gen e priv emb flt st f) as [ms s1] eqn:E1.
      destruct (Hf _ _ _ E1) as [X1 [S1 N1]].
      destruct (IH Hr _ _ _ _ src H) as [X2 [S2 N2]].
      split; [eapply extends_trans; eauto|]. split.
      + intros x Hx. apply S2 in Hx as [Hx|[g [Hg Hs]]].
        * apply merge_sub in Hx as [Hx|Hx]; [auto|]. right. exists f. split; [left; reflexivity|].
          split.
          -- rewrite Forall_forall in S1. destruct (S1 _ Hx) as [m0 [Hm0 Hr0]].
             exists m0. split; [assumption|]. eapply rendered_from_mono; eauto.
          -- rewrite <- N1. apply in_map. assumption.
        * right. exists g. split; [right; assumption|assumption].
      + rewrite N2. simpl. rewrite merge_proj, N1. reflexivity.
  Qed.

  Lemma visible_names own :
    map m_name (filter (visible priv) own) =
    filter (fun n => priv || exported n) (map m_name (filter is_meth own)).
  Proof.
    induction own as [|m r IH]; simpl; [reflexivity|]. unfold visible at 1.
    destruct (is_meth m); simpl; [|exact IH].
    destruct (priv || exported (m_name m)); simpl; rewrite IH; reflexivity.
  Qed.

  Lemma filter_map_rm (p : string -> bool) (l : list rmeth) :
    map rm_name (filter (fun m => p (rm_name m)) l) = filter p (map rm_name l).
  Proof.
    induction l as [|x r IH]; simpl; [reflexivity|]. destruct (p (rm_name x)); simpl; rewrite IH; reflexivity.
  Qed.

  Theorem to_iface_ok : forall t, tree_ok t.
  Proof.
    induction t as [self own embs IH] using IFaceEmbProofs.tree_ind'. intros st rs st' H.
    rewrite to_iface_unfold in H.
    destruct (extract e st self) as [xs st1] eqn:E0.
    destruct (render_methods e st1 (filter (visible priv) own)) as [own' st2] eqn:E1.
    destruct (all_good e local self _ _ _ E0) as [X0 _].
    destruct (render_methods_ok _ _ _ _ E1) as [X1 R1].
    pose proof (Forall2_names _ _ _ R1) as Hnames. rewrite visible_names in Hnames.
    assert (Hsrc : forall st'', extends st2 st'' -> Forall (sourced st'' (Tr self own embs)) own').
    { intros st'' Hx. clear -R1 Hx. apply Forall_forall. intros x Hx'.
      assert (H : exists m0, In m0 (filter (visible priv) own) /\ rendered_from st2 m0 x).
      { induction R1 as [|m0 y ms ys Hr _ IHR]; [contradiction|].
        destruct Hx' as [<-|Hx']; [exists m0; split; [left; reflexivity|assumption]|].
        destruct (IHR Hx') as [m1 [H1 H2]]. exists m1. split; [right; assumption|assumption]. }
      destruct H as [m0 [Hin Hr]]. exists m0. apply filter_In in Hin as [Hin Hv]. split.
      - apply P_own; assumption.
      - eapply rendered_from_mono; eauto. }
    destruct (negb emb) eqn:Eemb.
    - injection H as <- <-. split; [eapply extends_trans; eauto|]. split; [apply Hsrc, extends_refl|].
      cbn [iface_names_gen]. rewrite Eemb. assumption.
    - destruct (emb_loop ([], map rm_name own') st2 embs) as [acc st3] eqn:E2. injection H as <- <-.
      destruct (emb_loop_ok embs IH _ _ _ _ (fun _ => True) E2) as [X2 [S2 N2]].
      assert (Hp : fst (proj acc) = map rm_name (fst acc)) by reflexivity.
      assert (Hfold : fold_left (fun a f => merge (fun n : string => n) a (iface_names_gen priv emb flt f))
                                embs (proj ([], map rm_name own'))
                      = fold_left merge_one_n (flat_map (iface_names_gen priv emb flt) embs)
                                  ([], map rm_name own')).
      { unfold merge. rewrite fold_left_flat_map. reflexivity. }
      split; [eapply extends_trans; [eassumption|]; eapply extends_trans; eauto|]. split.
      + apply Forall_app. split; [apply Hsrc; assumption|].
        apply Forall_forall. intros x Hx. apply filter_In in Hx as [Hx _].
        assert (Hnot : ~ In (rm_name x) (map rm_name own')).
        { apply (merge_not_ignored (flat_map (iface_names_gen priv emb flt) embs)).
          rewrite <- Hfold, <- N2, Hp. apply in_map. assumption. }
        apply S2 in Hx as [[]|[f [Hf [[m0 [Hm0 Hr]] Hif]]]].
        exists m0. split; [|assumption]. destruct Hr as [Hn Hr'].
        apply P_emb with (f := f); [apply negb_false_iff; assumption|assumption|assumption| |].
        * rewrite <- Hn. assumption.
        * rewrite <- Hn. rewrite Hnames in Hnot. exact Hnot.
      + rewrite map_app, (filter_map_rm (fun n => negb flt || go_ms (Tr self own embs) n)), Hnames.
        cbn [iface_names_gen]. rewrite Eemb. cbv zeta. f_equal. f_equal.
        rewrite <- Hp, N2. unfold proj. cbn [fst snd]. rewrite Hnames. reflexivity.
  Qed.
End Iface.

(* ------------------------------------------------------------------ the statements of Props/C19.v *)
Lemma typeref_denotes e local t st x st' :
  extract e st t = (x, st') ->
  forall st'', extends st' st'' ->
  wf_ty (e_self e) local t -> alias_injective (active st'') ->
  denote (e_self e) local (active st'') x = Some (erase t).
Proof. intros H st'' Hx. exact (proj2 (proj2 (all_good e local t st x st' H) st'' Hx)). Qed.

Lemma typeref_imports e (local : string -> bool) t st x st' :
  extract e st t = (x, st') ->
  forall st'', extends st' st'' ->
  forall a, In a (qualifiers x) -> has_alias (active st'') a.
Proof. intros H st'' Hx. exact (proj1 (proj2 (all_good e local t st x st' H) st'' Hx)). Qed.

Lemma interface_ok e local priv emb st t rs st' :
  to_iface e priv emb st t = (rs, st') ->
  map rm_name rs = iface_names priv emb t /\
  Forall (fun m => exists m0, In m0 (all_meths t) /\ rm_name m = m_name m0 /\
            (forall a, In a (qualifiers (rmeth_expr m)) -> has_alias (active st') a) /\
            (wf_ty (e_self e) local (meth_ty m0) -> alias_injective (active st') ->
             denote (e_self e) local (active st') (rmeth_expr m) = Some (erase (meth_ty m0)))) rs.
Proof.
  intros H.
  destruct (to_iface_ok e local priv emb true t st rs st' H) as [_ [S N]].
  split; [exact N|]. apply Forall_forall. intros m Hm. rewrite Forall_forall in S.
  destruct (S m Hm) as [m0 [Hin [Hn Hr]]]. exists m0. split; [exact (picks_all _ _ _ _ _ Hin)|].
  split; [assumption|]. exact (Hr st' (extends_refl st')).
Qed.

(* embedding at most two levels deep: every method of the result is the rendering of the
   declaration Go selects for its name (the unique shallowest one), so its signature denotes the
   signature of the method *T really has *)
Lemma interface_selects e local priv emb st t rs st' :
  height t <= 2 -> wf_tree t ->
  to_iface e priv emb st t = (rs, st') ->
  Forall (fun m => exists m0, find_decl t (rm_name m) = Some m0 /\ is_meth m0 = true /\
            rm_name m = m_name m0 /\
            (wf_ty (e_self e) local (meth_ty m0) -> alias_injective (active st') ->
             denote (e_self e) local (active st') (rmeth_expr m) = Some (erase (meth_ty m0)))) rs.
Proof.
  intros Hh Hwf H.
  destruct (to_iface_ok e local priv emb true t st rs st' H) as [_ [S N]].
  apply Forall_forall. intros m Hm. rewrite Forall_forall in S.
  destruct (S m Hm) as [m0 [Hp [Hn Hr]]]. exists m0.
  split; [|split; [exact (picks_is_meth _ _ _ _ _ Hp)|split; [assumption|]]].
  - rewrite Hn. apply (picks_find_decl priv emb t m0 Hp Hh Hwf).
    rewrite <- Hn. unfold iface_names. rewrite <- N. apply in_map. assumption.
  - exact (proj2 (Hr st' (extends_refl st'))).
Qed.

(* ------------------------------------------------------------------ ImportString binds the alias *)
Section Binding.
  Variable real : string -> string.
  Variable e : env.
  (* packages.Package.Imports and go/types report the declared package names *)
  Hypothesis env_truthful : forall p n, assoc (e_pkg_imports e) p = Some n -> n = real p.

  Definition binding_ok (st : table) : Prop := forall i, In i st -> bound_name real i = i_alias i.
  Definition pkgs_truthful (t : ty) : Prop := forall pp, In pp (ty_pkgs t) -> snd pp = real (fst pp).

  Lemma tset_In st j i : In i (tset st j) -> i = j \/ In i st.
  Proof.
    induction st as [|k r IH]; simpl; [intros [H|[]]; auto|].
    destruct (String.eqb (i_path j) (i_path k)); simpl.
    - intros [H|H]; auto.
    - intros [H|H]; [auto|]. destruct (IH H); auto.
  Qed.

  Lemma binding_tset st j : binding_ok st -> bound_name real j = i_alias j -> binding_ok (tset st j).
  Proof. intros H Hj i Hi. apply tset_In in Hi as [->|Hi]; auto. Qed.

  Lemma calc_imports_binding specs :
    (forall p, In (p, None) specs -> assoc (e_pkg_imports e) p <> None) ->
    binding_ok (calc_imports e specs).
  Proof.
    unfold calc_imports. intros Hk.
    assert (G : forall l st, (forall p, In (p, None) l -> assoc (e_pkg_imports e) p <> None) ->
                binding_ok st -> binding_ok (fold_left (fun t s => tset t (calc_import e s)) l st)).
    { induction l as [|[p rn] r IH]; intros st Hl Hst; simpl; [assumption|].
      apply IH; [intros q Hq; apply Hl; right; assumption|].
      apply binding_tset; [assumption|]. unfold calc_import, bound_name.
      destruct rn as [n|]; [reflexivity|].
      destruct (assoc (e_pkg_imports e) p) as [n|] eqn:Ea; simpl.
      - symmetry. apply env_truthful. assumption.
      - exfalso. apply (Hl p); [left; reflexivity|assumption]. }
    apply G; [assumption|]. intros i [].
  Qed.

  Lemma add_named_binding st pkg :
    binding_ok st -> (forall pp, pkg = Some pp -> snd pp = real (fst pp)) ->
    binding_ok (snd (add_named e st pkg)).
  Proof.
    intros Hst Hp. unfold add_named. destruct pkg as [[p pn]|]; [|assumption].
    destruct (String.eqb p (e_self e)); [assumption|].
    specialize (Hp _ eq_refl). simpl in Hp.
    destruct (tget st p) as [i|] eqn:Eg; cbn [snd].
    - apply binding_tset; [assumption|]. unfold bound_name. simpl.
      pose proof (Hst i (tget_In _ _ _ Eg)) as Hi. unfold bound_name in Hi.
      rewrite (tget_path _ _ _ Eg) in Hi. exact Hi.
    - assert (Hal0 : forall al0 isp0,
                (match assoc (e_pkg_imports e) p with
                 | Some n => if String.eqb pn "" then (n, true) else (pn, has_suffix p pn)
                 | None => (pn, has_suffix p pn)
                 end) = (al0, isp0) -> isp0 = true -> real p = al0).
      { intros al0 isp0 Em Hi. destruct (assoc (e_pkg_imports e) p) as [n|] eqn:Ea.
        - destruct (String.eqb pn "") eqn:En; injection Em as <- <-; [symmetry; auto|symmetry; assumption].
        - injection Em as <- <-. symmetry. assumption. }
      destruct (match assoc (e_pkg_imports e) p with
                | Some n => if String.eqb pn "" then (n, true) else (pn, has_suffix p pn)
                | None => (pn, has_suffix p pn)
                end) as [al0 isp0] eqn:Em.
      cbv zeta.
      set (al := if e_unique_alias e then unused_name (taken_names e st) al0 else al0).
      destruct (String.eqb al al0) eqn:Eal; cbn [snd].
      + apply String.eqb_eq in Eal. apply binding_tset; [assumption|]. unfold bound_name. simpl.
        destruct isp0 eqn:Ei; [|reflexivity]. rewrite Eal. apply (Hal0 _ _ eq_refl eq_refl).
      + apply binding_tset; [assumption|]. unfold bound_name. simpl. reflexivity.
  Qed.

  Definition keeps_binding (t : ty) : Prop :=
    forall st, binding_ok st -> pkgs_truthful t -> binding_ok (snd (extract e st t)).

  Lemma extract_list_binding : forall l, Forall keeps_binding l ->
    forall st, binding_ok st -> (forall t, In t l -> pkgs_truthful t) ->
    binding_ok (snd (extract_list e st l)).
  Proof.
    induction l as [|t r IH]; intros Hk st Hst Hp; simpl; [assumption|].
    inversion Hk as [|? ? Ht Hr]; subst.
    destruct (extract e st t) as [x s1] eqn:E1. destruct (extract_list e s1 r) as [xr s2] eqn:E2.
    simpl. pose proof (Ht st Hst (Hp t (or_introl eq_refl))) as H1. rewrite E1 in H1.
    pose proof (IH Hr s1 H1 (fun u Hu => Hp u (or_intror Hu))) as H2. rewrite E2 in H2. exact H2.
  Qed.

  Lemma tuple_binding : forall l, Forall (fun p : pinfo * ty => keeps_binding (snd p)) l ->
    forall st v, binding_ok st -> (forall p, In p l -> pkgs_truthful (snd p)) ->
    binding_ok (snd (params_from_tuple e st v l)).
  Proof.
    induction l as [|[pi t] r IH]; intros Hk st v Hst Hp; simpl; [assumption|].
    inversion Hk as [|? ? Ht Hr]; subst. simpl in Ht.
    destruct (extract e st t) as [x s1] eqn:E1. destruct (params_from_tuple e s1 v r) as [xr s2] eqn:E2.
    simpl. pose proof (Ht st Hst (Hp _ (or_introl eq_refl))) as H1. rewrite E1 in H1.
    pose proof (IH Hr s1 v H1 (fun u Hu => Hp u (or_intror Hu))) as H2. rewrite E2 in H2. exact H2.
  Qed.

  Lemma extract_binding : forall t, keeps_binding t.
  Proof.
    induction t as [s|pkg n targs IH|y IH|y IH|k y IH|k v IHk IHv|ps v rs IHp IHr] using ty_ind';
      intros st Hst Hp.
    - assumption.
    - rewrite extract_named. destruct (add_named e st pkg) as [q st1] eqn:Ea.
      destruct (extract_list e st1 targs) as [args st2] eqn:El. simpl.
      assert (H1 : binding_ok st1).
      { pose proof (add_named_binding st pkg Hst) as H. rewrite Ea in H. apply H.
        intros pp ->. apply Hp. simpl. left. reflexivity. }
      pose proof (extract_list_binding targs IH st1 H1) as H2. rewrite El in H2. apply H2.
      intros t Ht pp Hpp. apply Hp. simpl. apply in_or_app. right. apply in_flat_map. eauto.
    - simpl. specialize (IH st Hst Hp). destruct (extract e st y). exact IH.
    - simpl. specialize (IH st Hst Hp). destruct (extract e st y). exact IH.
    - simpl. specialize (IH st Hst Hp). destruct (extract e st y). exact IH.
    - simpl. assert (Hk : pkgs_truthful k) by (intros pp H; apply Hp; simpl; apply in_or_app; auto).
      assert (Hv : pkgs_truthful v) by (intros pp H; apply Hp; simpl; apply in_or_app; auto).
      specialize (IHk st Hst Hk). destruct (extract e st k) as [rk s1].
      specialize (IHv s1 IHk Hv). destruct (extract e s1 v) as [rv s2]. exact IHv.
    - rewrite extract_func.
      destruct (params_from_tuple e st v ps) as [xi s1] eqn:E1.
      destruct (params_from_tuple e s1 false rs) as [xo s2] eqn:E2.
      destruct (ensure_param_names (map fst ps) (map fst rs)) as [ni no]. simpl.
      pose proof (tuple_binding ps IHp st v Hst) as H1. rewrite E1 in H1.
      pose proof (tuple_binding rs IHr s1 false) as H2. rewrite E2 in H2. apply H2.
      + apply H1. intros p Hin pp Hpp. apply Hp. simpl. apply in_or_app. left. apply in_flat_map. eauto.
      + intros p Hin pp Hpp. apply Hp. simpl. apply in_or_app. right. apply in_flat_map. eauto.
  Qed.

  (* through the whole traversal of FindInterface *)
  Variables priv emb flt : bool.

  Lemma render_methods_binding : forall ms st,
    binding_ok st -> (forall m, In m ms -> pkgs_truthful (meth_ty m)) ->
    binding_ok (snd (render_methods e st ms)).
  Proof.
    induction ms as [|m r IH]; intros st Hst Hp; simpl; [assumption|].
    destruct (render_method e st m) as [x s1] eqn:E1.
    destruct (render_methods e s1 r) as [xs s2] eqn:E2. simpl.
    assert (H1 : binding_ok s1).
    { pose proof (extract_binding (meth_ty m) st Hst (Hp m (or_introl eq_refl))) as H.
      rewrite render_method_func in E1. destruct (extract e st (meth_ty m)) as [y sy].
      injection E1 as _ <-. exact H. }
    pose proof (IH s1 H1 (fun u Hu => Hp u (or_intror Hu))) as H2. rewrite E2 in H2. exact H2.
  Qed.

  Definition tree_truthful (t : tree) : Prop := forall u, In u (tree_types t) -> pkgs_truthful u.

  Lemma to_iface_binding : forall t st,
    binding_ok st -> tree_truthful t -> binding_ok (snd (to_iface_gen e priv emb flt st t)).
  Proof.
    induction t as [self own embs IH] using IFaceEmbProofs.tree_ind'. intros st Hst Ht.
    rewrite to_iface_unfold.
    destruct (extract e st self) as [xs st1] eqn:E0.
    destruct (render_methods e st1 (filter (visible priv) own)) as [own' st2] eqn:E1.
    assert (H1 : binding_ok st1).
    { pose proof (extract_binding self st Hst (Ht self (or_introl eq_refl))) as H. rewrite E0 in H. exact H. }
    assert (H2 : binding_ok st2).
    { pose proof (render_methods_binding (filter (visible priv) own) st1 H1) as H. rewrite E1 in H.
      apply H. intros m Hm. apply filter_In in Hm as [Hm _]. apply Ht. simpl. right.
      apply in_or_app. left. apply in_map_iff. exists m. auto. }
    destruct (negb emb); [exact H2|].
    assert (G : forall l acc st0, (forall f, In f l -> In f embs) -> binding_ok st0 ->
                binding_ok (snd (emb_loop e priv emb flt acc st0 l))).
    { induction l as [|f r IHl]; intros acc st0 Hsub Hst0; simpl; [assumption|].
      destruct (to_iface_gen e priv emb flt st0 f) as [ms s1] eqn:Ef.
      apply IHl; [intros g Hg; apply Hsub; right; assumption|].
      rewrite Forall_forall in IH.
      pose proof (IH f (Hsub f (or_introl eq_refl)) st0 Hst0) as H. rewrite Ef in H. apply H.
      intros u Hu. apply Ht. simpl. right. apply in_or_app. right. apply in_flat_map.
      exists f. split; [apply Hsub; left; reflexivity|assumption]. }
    specialize (G embs ([], map rm_name own') st2 (fun f H => H) H2).
    destruct (emb_loop e priv emb flt ([], map rm_name own') st2 embs) as [acc st3]. exact G.
  Qed.
End Binding.

(* every import line GetActive/ImportString produces binds exactly the alias used in the text *)
Lemma import_binding real e specs priv emb t :
  (forall p n, assoc (e_pkg_imports e) p = Some n -> n = real p) ->
  (forall p, In (p, None) specs -> assoc (e_pkg_imports e) p <> None) ->
  tree_truthful real t ->
  forall i, In i (snd (find_interface e specs priv emb t)) -> bound_name real i = i_alias i.
Proof.
  intros He Hs Ht i Hi. unfold find_interface, to_iface in Hi.
  set (e' := handler_env e specs) in *.
  assert (He' : forall p n, assoc (e_pkg_imports e') p = Some n -> n = real p) by exact He.
  assert (Hc : calc_imports e specs = calc_imports e' specs) by reflexivity.
  rewrite Hc in Hi.
  pose proof (to_iface_binding real e' He' priv emb true t (calc_imports e' specs)
                (calc_imports_binding real e' He' specs Hs) Ht) as H.
  destruct (to_iface_gen e' priv emb true (calc_imports e' specs) t) as [ms st]. simpl in *.
  apply active_In in Hi as [Hi _]. apply H. assumption.
Qed.
