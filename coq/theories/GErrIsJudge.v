(* GErrIsJudge.v — judgement of observed errors.Is / ExtractFactoryReference / Convert behaviour
   for C06 (no proofs).  A case is a pool of factories, a list of foreign errors, a history of
   method calls, and what the implementation was observed to do: the cell of every result, the
   whole errors.Is matrix over all values (cells, foreign errors, nil) and
   ExtractFactoryReference of every cell.
   Codes: 0 ok; 1 observation violates the specification (GErrHist spec_is, spec_ops, spec_extract); 2 observation
   satisfies the specification but differs from the model; 3 case outside the domain.        *)
From Coq Require Import NArith List Bool.
From GT Require Import Base.Verdict.
From GT Require Import Base.GErrStr.
From GT Require Import GErrModel GErrHist.
Import ListNotations.

Record c06_root := mkRoot {
  r_name : str; r_msg : str; r_src : str; r_isfac : bool; r_ext : option xinfo }.

Record c06_case := {
  q_roots : list c06_root;
  q_foreign : list val;
  q_ops : list hstep;
  q_embs : list nat;              (* extension factories whose embedded pointer joins the matrix *)
  q_res : list nat;               (* observed: cell index of each operation's result *)
  q_is : list (list nat);         (* observed errors.Is matrix: 0 false, 1 true, 2 panic *)
  q_extract : list (option nat);  (* observed ExtractFactoryReference per cell (None = nil) *)
  q_extract_f : list nat }.       (* ... of every foreign value: 0 nil, 1 non-nil, 2 panic, 3 no return *)

Definition root_cell_of (r : c06_root) : cell :=
  mkC (mkG (r_name r) (r_msg r) (r_src r) [] None VNil VNil [] (r_isfac r)) (r_ext r).

Definition c06_st0 (c : c06_case) : store := map root_cell_of (q_roots c).

Fixpoint infos0 (k : nat) (rs : list c06_root) : list binfo :=
  match rs with
  | [] => []
  | r :: rest => mkB k true (r_isfac r) None false :: infos0 (S k) rest
  end.

Definition all_refs (ncells : nat) (embs : list nat) (nforeign : nat) : list vref :=
  map RC (seq 0 ncells) ++ map RE embs ++ map RF (seq 0 nforeign) ++ [RNil].

Definition code_of (r : res bool) : nat :=
  match r with Ok false => 0 | Ok true => 1 | Panic => 2 | Fuel => 3 end.

Fixpoint nat_list_eqb (a b : list nat) : bool :=
  match a, b with
  | [], [] => true
  | x :: a', y :: b' => Nat.eqb x y && nat_list_eqb a' b'
  | _, _ => false
  end.

Fixpoint matrix_eqb (a b : list (list nat)) : bool :=
  match a, b with
  | [], [] => true
  | x :: a', y :: b' => nat_list_eqb x y && matrix_eqb a' b'
  | _, _ => false
  end.

Definition optnat_eqb (a b : option nat) : bool :=
  match a, b with
  | None, None => true
  | Some x, Some y => Nat.eqb x y
  | _, _ => false
  end.

Fixpoint optnat_list_eqb (a b : list (option nat)) : bool :=
  match a, b with
  | [], [] => true
  | x :: a', y :: b' => optnat_eqb x y && optnat_list_eqb a' b'
  | _, _ => false
  end.

(* ---- model ---- *)
Definition model_extract (st : store) (i : nat) : option nat :=
  match extract_fref st (val_of st i) with
  | VNil => None
  | VG j => Some j
  | _ => Some 4998
  end.

Definition c06_model (c : c06_case) : option (list nat * list (list nat) * list (option nat)) :=
  match run_ops ext_wiring (c06_st0 c) (q_foreign c) (q_ops c) with
  | None => None
  | Some (st, res) =>
      let refs := all_refs (length st) (q_embs c) (length (q_foreign c)) in
      let v := resolve st (q_foreign c) in
      Some (res,
            map (fun x => map (fun y => code_of (errors_is st (v x) (v y))) refs) refs,
            map (model_extract st) (seq 0 (length st)))
  end.

(* ---- spec ---- *)
(* foreign errors whose own Is / Unwrap methods panic, loop or answer arbitrarily (dynamic type ids
   100..199): errors.Is with such a SOURCE runs those methods before gerror is involved at all,
   so the harness does not evaluate these rows (observation 7).  As Convert arguments and as
   errors.Is targets they are ordinary foreign errors: nothing may call their methods. *)
Definition hostile_src (fs : list val) (x : vref) : bool :=
  match x with
  | RF k => match nth k fs VNil with VF t _ _ _ => N.leb 100 t && N.ltb t 200 | _ => false end
  | _ => false
  end.

(* both sides foreign (or nil): errors.Is runs no gerror code at all; whatever the stdlib does
   there (it panics on two values of one deeply non-comparable dynamic type) is not one of "these
   calls" — only the agreement with the model is checked *)
(* typed-nil pointers of gerror types (dynamic type ids 50, 104) and values embedding a nil *GError (51) are foreign VALUES in the model
   but their methods are gerror code *)
Definition typed_nil_gerror (fs : list val) (x : vref) : bool :=
  match x with
  | RF k => match nth k fs VNil with VF t _ _ _ => N.eqb t 50 || N.eqb t 51 || N.eqb t 104 | _ => false end
  | _ => false
  end.

(* a foreign SOURCE that wraps a gerror value reaches that value's Is method through Unwrap *)
Definition wraps_gerror (fs : list val) (x : vref) : bool :=
  match x with
  | RF k => match wrapped_cell (nth k fs VNil) with Some _ => true | None => false end
  | _ => false
  end.

Definition no_gerror_side (fs : list val) (x y : vref) : bool :=
  match ref_cell x, ref_cell y with
  | None, None => negb (typed_nil_gerror fs x) && negb (typed_nil_gerror fs y) && negb (wraps_gerror fs x)
  | _, _ => false
  end.

Definition is_ok (spec : option bool) (obs : nat) : bool :=
  match obs with
  | 0 => match spec with Some true => false | _ => true end
  | 1 => match spec with Some false => false | _ => true end
  | _ => false                                (* a panic is never acceptable *)
  end.

Fixpoint rows_ok (infos : list binfo) (fs : list val) (refs : list vref) (x : vref)
         (row : list nat) : bool :=
  match refs, row with
  | [], [] => true
  | y :: refs', o :: row' =>
      (if hostile_src fs x then Nat.eqb o 7
       else if no_gerror_side fs x y then Nat.leb o 2
       else is_ok (spec_is infos fs x y) o)
      && rows_ok infos fs refs' x row'
  | _, _ => false
  end.

Fixpoint matrix_ok (infos : list binfo) (fs : list val) (refs xs : list vref)
         (m : list (list nat)) : bool :=
  match xs, m with
  | [], [] => true
  | x :: xs', row :: m' => rows_ok infos fs refs x row && matrix_ok infos fs refs xs' m'
  | _, _ => false
  end.

Fixpoint res_ok (exp : list (option nat)) (obs : list nat) : bool :=
  match exp, obs with
  | [], [] => true
  | Some k :: e', o :: o' => Nat.eqb k o && res_ok e' o'
  | None :: e', _ :: o' => res_ok e' o'
  | _, _ => false
  end.

Fixpoint extract_ok (infos : list binfo) (k : nat) (obs : list (option nat)) : bool :=
  match obs with
  | [] => true
  | o :: rest =>
      (match spec_extract infos k with Some e => optnat_eqb e o | None => true end)
      && extract_ok infos (S k) rest
  end.

Definition c06_spec_ok (c : c06_case) : bool :=
  let '(infos, exp) := spec_ops (infos0 0 (q_roots c)) (q_ops c) in
  let refs := all_refs (length infos) (q_embs c) (length (q_foreign c)) in
  res_ok exp (q_res c)
  && matrix_ok infos (q_foreign c) refs refs (q_is c)
  && Nat.eqb (length (q_extract c)) (length infos)
  && extract_ok infos 0 (q_extract c)
  (* ExtractFactoryReference of a value that is no gerror error: nil, no panic *)
  && Nat.eqb (length (q_extract_f c)) (length (q_foreign c))
  && forallb (Nat.eqb 0) (q_extract_f c).

Definition c06_domain (c : c06_case) : bool :=
  forallb (fun r => match r_ext r with Some _ => r_isfac r | None => true end) (q_roots c)
  && forallb (fun v => match v with VF _ _ _ _ => true | _ => false end) (q_foreign c)
  && Nat.eqb (length (q_res c)) (length (q_ops c)).

(* entries that satisfy the specification (or on which it is silent) but differ from the model *)
Fixpoint rows_mis (infos : list binfo) (fs : list val) (refs : list vref) (x : vref)
         (row mrow : list nat) : bool :=
  match refs, row, mrow with
  | [], [], [] => false
  | y :: refs', o :: row', m :: mrow' =>
      (negb (hostile_src fs x) && (no_gerror_side fs x y || is_ok (spec_is infos fs x y) o) && negb (Nat.eqb o m))
      || rows_mis infos fs refs' x row' mrow'
  | _, _, _ => true
  end.

Fixpoint matrix_mis (infos : list binfo) (fs : list val) (refs xs : list vref)
         (m mm : list (list nat)) : bool :=
  match xs, m, mm with
  | [], [], [] => false
  | x :: xs', row :: m', mrow :: mm' =>
      rows_mis infos fs refs x row mrow || matrix_mis infos fs refs xs' m' mm'
  | _, _, _ => true
  end.

Fixpoint res_mis (exp : list (option nat)) (obs mdl : list nat) : bool :=
  match exp, obs, mdl with
  | [], [], [] => false
  | e :: e', o :: o', m :: m' =>
      ((match e with Some k => Nat.eqb k o | None => true end) && negb (Nat.eqb o m)) || res_mis e' o' m'
  | _, _, _ => true
  end.

Fixpoint extract_mis (infos : list binfo) (k : nat) (obs mdl : list (option nat)) : bool :=
  match obs, mdl with
  | [], [] => false
  | o :: o', m :: m' =>
      ((match spec_extract infos k with Some e => optnat_eqb e o | None => true end)
       && negb (optnat_eqb o m)) || extract_mis infos (S k) o' m'
  | _, _ => true
  end.

Definition c06_model_mis (c : c06_case) : bool :=
  match c06_model c with
  | None => true
  | Some (res, m, ex) =>
      let '(infos, exp) := spec_ops (infos0 0 (q_roots c)) (q_ops c) in
      let refs := all_refs (length infos) (q_embs c) (length (q_foreign c)) in
      res_mis exp (q_res c) res
      || matrix_mis infos (q_foreign c) refs refs (q_is c) m
      || extract_mis infos 0 (q_extract c) ex
  end.

(* 0 ok; 1 some entry violates the specification; 2 some entry satisfies the specification (or
   the specification is silent on it) but differs from the model; 4 both kinds occur *)
Definition c06_judge (c : c06_case) : nat :=
  if negb (c06_domain c) then 3
  else match c06_spec_ok c, c06_model_mis c with
       | true, false => 0
       | false, false => 1
       | true, true => 2
       | false, true => 4
       end.

(* non-trivial: the history derives from at least two different factories or converts a
   foreign error *)
Definition c06_nontrivial (c : c06_case) : bool :=
  existsb (fun s => match s with HOp o => is_convert (o_m o) | HFac _ => true end) (q_ops c)
  || Nat.ltb 1 (length (q_roots c)).
