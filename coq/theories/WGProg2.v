(* WGProg2.v — hand copy of the second IR (Base/ConcIR2.v) of Add / Wait / Count of the current
   gsync/selectable_wait_group.go, as harness/cmd/xlate_conc -ir2 prints it, and its canonical
   site table.  WGSimHand.v proves the check-list of WGSim.v for it (so the tactic that the check
   runs on the regenerated term is exercised by every build); the check itself does not compare
   the regenerated term with this one - it proves the check-list for the regenerated term.   *)
From Coq Require Import List String ZArith.
From GT Require Import Base.ConcIR.
From GT Require Import Base.ConcIR2.
Import ListNotations.
Local Open Scope string_scope.

Definition hand_prog2 : prog2 :=
[Func2 "Add" ["recv"; "v1"] []
 [TFor None None
 ([])
 ([TSet (Some 100) [DDefine "v2"] [(EAtomic ALoad "state" [])];
 TSet None [DDefine "v3"] [(ENew "wgState" [("count", (EBin BAdd (EField (EVar "v2") "count") (EVar "v1"))); ("wChan", (EField (EVar "v2") "wChan"))])];
 TIf None (EBin BEq (EField (EVar "v3") "count") (EInt 0%Z))
 ([TSet None [DAssign (LField "v3" "wChan")] [(EGlobal "closedChan")]])
 ([TIf None (EBin BEq (EField (EVar "v2") "wChan") (EGlobal "closedChan"))
 ([TSet None [DAssign (LField "v3" "wChan")] [EMake]])
 ([])]);
 TIf (Some 101) (EAtomic ACAS "state" [(EVar "v2"); (EVar "v3")])
 ([TIf None (EBin BAnd (EBin BEq (EField (EVar "v3") "count") (EInt 0%Z)) (EBin BNe (EField (EVar "v2") "wChan") (EGlobal "closedChan")))
 ([TClose (Some 102) (EField (EVar "v2") "wChan")])
 ([]);
 TReturn None [(EField (EVar "v3") "count")]])
 ([])])];
Func2 "Wait" ["recv"] []
 [TReturn (Some 200) [(EField (EAtomic ALoad "state" []) "wChan")]];
Func2 "Count" ["recv"] []
 [TReturn (Some 300) [(EField (EAtomic ALoad "state" []) "count")]]].

Definition hand_sitemap : sitemap :=
[("Add", [(100, 100); (101, 101); (102, 102)]%nat);
 ("Wait", [(200, 200)]%nat);
 ("Count", [(300, 300)]%nat)].

(* Inc() / Dec(): one-line wrappers of Add; the check compares the regenerated wrappers with this
   term (the client calls of the harness go through the real Inc / Dec for deltas +1 / -1) *)
Definition hand_wrappers : prog2 :=
[Func2 "Inc" ["recv"] []
 [TCall None [DDefine "t1"] "Add" [(EVar "recv"); (EInt 1%Z)];
 TReturn None [(EVar "t1")]];
Func2 "Dec" ["recv"] []
 [TCall None [DDefine "t1"] "Add" [(EVar "recv"); (EInt (-1)%Z)];
 TReturn None [(EVar "t1")]]].

(* the exported surface of package gsync (functions with their result types, methods with their
   receiver type): a wrapper type around the core, API methods on another type, an extra exported
   entry point change this list; so does any function besides init() that assigns to or takes the
   address of closedChan, the sentinel the model treats as a constant closed channel *)
Definition hand_api : list string :=
["SelectableWaitGroup.Add";
 "SelectableWaitGroup.Count";
 "SelectableWaitGroup.Dec";
 "SelectableWaitGroup.Inc";
 "SelectableWaitGroup.Wait";
 "SelectableWaitGroup.WaitCTX";
 "SelectableWaitGroup.WaitTimeout";
 "func NewSelectableWaitGroup -> *SelectableWaitGroup";
 "writes closedChan: init"].
