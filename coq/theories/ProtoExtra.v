(* ProtoExtra.v — the "exactly once" clauses of C20 beyond the file arguments, and the shape of
   the argument vector (proofs about ProtoModel.run).

   [run_shape]            argv = plugin flags ++ (-I / M options) ++ files, nothing else
   [flag_count]           each plugin's output flag occurs once if requested, never otherwise
   [includes_count]       a directory occurs among the -I options as often as the include paths
                          (input directory first, then the -include entries) name it; hence
   [includes_nodup]       no -I is repeated iff the include paths are pairwise different
   [mapping_count_one]    per include path every relative proto name is mapped at most once
   [dup_include_example]  a repeated -include repeats its -I and its mappings (what the property
                          allows: "an include path … for each -include directory")            *)
From Coq Require Import String List Bool Arith Lia.
From GT Require Import ProtoModel ProtoProofs ProtoScan.
Import ListNotations.
Local Open Scope string_scope.
Local Open Scope list_scope.

Definition is_inc_or_map (a : arg) : Prop :=
  match a with AInc _ | AMap _ _ _ => True | _ => False end.

Section Extra.
  Variable pkg_of : path -> result string.

  Lemma include_args_shape : forall cfg i l,
    include_args pkg_of cfg i = Ok l -> Forall is_inc_or_map l.
  Proof.
    intros cfg i l H. unfold include_args in H.
    destruct (find_protos cfg (PAbs (to_abs (c_cwd cfg) (fst i))) true) as [ps|]; try discriminate.
    destruct (include_files pkg_of cfg (to_abs (c_cwd cfg) (fst i)) (snd i) ps) as [m|] eqn:Em;
      try discriminate.
    assert (l = AInc (to_abs (c_cwd cfg) (fst i)) :: m) by congruence. subst l.
    constructor; [exact I|].
    pose proof (include_files_shape pkg_of cfg _ _ _ _ Em) as Hm.
    apply Forall_forall. intros a Ha. rewrite Forall_forall in Hm. specialize (Hm a Ha).
    destruct a; simpl in *; auto.
  Qed.

  Lemma includes_args_shape : forall cfg incs l,
    includes_args pkg_of cfg incs = Ok l -> Forall is_inc_or_map l.
  Proof.
    intros cfg. induction incs as [|i incs IH]; intros l H; cbn [includes_args] in H.
    - assert (l = []) by congruence. subst. constructor.
    - destruct (include_args pkg_of cfg i) as [x|] eqn:Ex; try discriminate.
      destruct (includes_args pkg_of cfg incs) as [y|]; try discriminate.
      assert (l = x ++ y) by congruence. subst l. apply Forall_app. split.
      + eapply include_args_shape; eauto.
      + apply IH. reflexivity.
  Qed.

  (* the argument vector is: plugin flags, then -I / M options, then the files *)
  Theorem run_shape : forall cfg argv, run pkg_of cfg = Ok argv ->
    exists incs paths,
      argv = plugin_flags cfg ++ incs ++ map AFile paths /\ Forall is_inc_or_map incs.
  Proof.
    intros cfg argv H. unfold run in H.
    destruct (find_protos cfg (c_input cfg) (c_recurse cfg)) as [paths|]; try discriminate.
    destruct (includes_args pkg_of cfg (include_paths cfg)) as [incs|] eqn:Ei; try discriminate.
    exists incs, paths. split; [congruence|]. eapply includes_args_shape; eauto.
  Qed.

  (* how often the output flag of a plugin occurs *)
  Definition out_flag_count (pl : plugin) (argv : list arg) : nat :=
    length (filter (fun a => match a with AFlag s => prefix (out_prefix pl) s | _ => false end) argv).

  Lemma out_flag_count_app : forall pl a b,
    out_flag_count pl (a ++ b) = out_flag_count pl a + out_flag_count pl b.
  Proof. intros. unfold out_flag_count. rewrite filter_app, app_length. reflexivity. Qed.

  Lemma out_flag_count_none : forall pl l,
    Forall (fun a => match a with AFlag _ => False | _ => True end) l -> out_flag_count pl l = 0.
  Proof.
    intros pl. induction l as [|a l IH]; intros H; [reflexivity|].
    inversion H; subst. unfold out_flag_count in *. cbn [filter].
    destruct a; try contradiction; apply IH; assumption.
  Qed.

  Theorem flag_count : forall cfg argv pl, run pkg_of cfg = Ok argv ->
    out_flag_count pl argv = if requested cfg pl then 1 else 0.
  Proof.
    intros cfg argv pl H. destruct (run_shape cfg argv H) as (incs & paths & -> & Hi).
    rewrite !out_flag_count_app.
    rewrite (out_flag_count_none pl incs), (out_flag_count_none pl (map AFile paths)).
    - unfold plugin_flags, requested. destruct pl, (c_vt cfg), (c_grpc cfg); reflexivity.
    - apply Forall_forall. intros a Ha. apply in_map_iff in Ha. destruct Ha as (p & <- & _). exact I.
    - apply Forall_forall. intros a Ha. rewrite Forall_forall in Hi. specialize (Hi a Ha).
      destruct a; simpl in *; auto.
  Qed.

  (* -I options: as often as the include paths name the directory *)
  Theorem includes_count : forall cfg argv, wf_node (c_root cfg) -> dirs_ok cfg ->
    run pkg_of cfg = Ok argv ->
    forall a, count_occ path_eq_dec (includes_of argv) a
              = count_occ path_eq_dec (map (fun i => to_abs (c_cwd cfg) (fst i)) (include_paths cfg)) a.
  Proof.
    intros cfg argv Hwf Hd H a. rewrite (run_includes pkg_of cfg argv Hwf Hd H). reflexivity.
  Qed.

  Theorem includes_nodup : forall cfg argv, wf_node (c_root cfg) -> dirs_ok cfg ->
    run pkg_of cfg = Ok argv ->
    (NoDup (includes_of argv)
     <-> NoDup (map (fun i => to_abs (c_cwd cfg) (fst i)) (include_paths cfg))).
  Proof.
    intros cfg argv Hwf Hd H. rewrite (run_includes pkg_of cfg argv Hwf Hd H). reflexivity.
  Qed.

  (* within one include path a relative name is mapped once *)
  Theorem mapping_count_one : forall cfg inc r k, wf_node (c_root cfg) ->
    In (r, k) (scan_mappings_of pkg_of cfg inc) ->
    count_occ path_eq_dec (map fst (scan_mappings_of pkg_of cfg inc)) r = 1.
  Proof.
    intros cfg inc r k Hwf Hin.
    destruct (scan_mappings_of_char pkg_of cfg inc Hwf) as [Hnd _].
    apply (proj1 (NoDup_count_occ' path_eq_dec _) Hnd).
    apply in_map_iff. exists (r, k). split; [reflexivity|exact Hin].
  Qed.
End Extra.

(* ------------------------------------------------------------------ the mapping clause, unconditionally *)
(* after fix C20-go-package-scan the code's decider is right about every content
   (ProtoScan.scan_correct), so every tree is in the domain of the mapping clause *)
Lemma tree_agrees_all : forall n, tree_agreesb n = true.
Proof.
  induction n as [s c r|s ch IH] using node_ind'.
  - cbn [tree_agreesb]. rewrite scan_agrees_all. apply orb_true_r.
  - cbn [tree_agreesb]. apply forallb_forall. intros c Hc. rewrite Forall_forall in IH. apply IH. exact Hc.
Qed.

Theorem run_mappings_full : forall pkg_of cfg argv,
  wf_node (c_root cfg) -> dirs_ok cfg -> run pkg_of cfg = Ok argv ->
  forall pl, mappings_of pl argv = spec_mappings pkg_of cfg pl.
Proof.
  intros pkg_of cfg argv H1 H2 H3. apply run_mappings_spec; auto. apply tree_agrees_all.
Qed.

Theorem spec_mappings_of_char_full : forall pkg_of cfg inc, wf_node (c_root cfg) ->
  NoDup (map fst (spec_mappings_of pkg_of cfg inc))
  /\ (forall r k, In (r, k) (spec_mappings_of pkg_of cfg inc) <-> mapping_wanted pkg_of cfg inc r k).
Proof. intros. apply spec_mappings_of_char; auto. apply tree_agrees_all. Qed.

(* a repeated -include repeats its -I and its mappings; overlapping include paths map the same
   file under two relative names *)
Definition dup_root : node :=
  Dir "" [Dir "m" [Dir "inc" [File "x.proto" "syntax = ""proto3"";" true];
                   Dir "protos" [File "a.proto" "syntax = ""proto3"";" true]]].
Definition dup_cfg : config :=
  {| c_root := dup_root; c_cwd := ["m"]; c_input := PRel ["protos"]; c_recurse := false;
     c_vt := false; c_grpc := false;
     c_includes := [(PRel ["inc"], None); (PRel ["inc"], Some "p"); (PRel ["."], None)] |}.

Example dup_include_example :
  (match run (fun d => Ok (String.concat "/" ("example.com" :: d))) dup_cfg with
   | Ok a => map render_arg a | Err => [] end)
  = ["--go_out=."; "--go_opt=paths=source_relative"; "--fatal_warnings";
     "-I=/m/protos"; "--go_opt=Ma.proto=example.com/m/protos";
     "-I=/m/inc"; "--go_opt=Mx.proto=example.com/m/inc";
     "-I=/m/inc"; "--go_opt=Mx.proto=p";
     "-I=/m"; "--go_opt=Minc/x.proto=example.com/m/inc"; "--go_opt=Mprotos/a.proto=example.com/m/protos";
     "protos/a.proto"].
Proof. vm_compute. reflexivity. Qed.
