(* C08 — gsort: generated Less is the lexicographic strict weak order.
   Property theorems only; every proof is `exact <lemma>` (GSortProofs.v, Base/SortU.v).
   The model (GSortModel.v) mirrors gsort/gen/sorter_desc.go + gsort.gotmpl of the current tree;
   it is tied to the code by the generator farm of ./check C08 (real CLI, compiled output,
   observations judged by GSortJudge.v).

   Reading guide.  `fs` is a struct definition (fields with their parsed gsort tags), `name` a
   sorter name as written in the tags (a leading * = pointer form), `gen_less ty fs name` the
   meaning of the Less method the generator emits for it (None: the generator refuses).
   `spec_keys name fs` are the fields tagged for `name` in ascending priority; `lex_lt` is
   lexicographic "strictly less" with false < true on bool keys.  Elements of the generated
   slice type are abstracted to the values of their fields (`elem`); an arbitrary carrier `A`
   with a projection `el : A -> elem` covers value and pointer forms and elements that carry
   more than their keys (identity, untagged fields).                                          *)
From Coq Require Import List Bool ZArith String Permutation Sorted.
From GT Require Import GSortModel GSortProofs GSortTagModel GSortTagProofs Base.SortU.
Import ListNotations.

(* --- Less = lexicographic comparison ------------------------------------------------- *)

(* the template's nested if/return chain over any list of compare lines *)
Theorem C08_lex : forall cs a b, less cs a b = lex_lt (keys_of cs) a b.
Proof. exact less_lex. Qed.

(* end to end: whatever Less the generator emits for sorter `name` of definition `fs` is the
   lexicographic comparison of the fields tagged for `name`, in ascending priority *)
Theorem C08_generated_less : forall ty fs name f,
  gen_less ty fs name = Some f -> forall a b, f a b = lex_lt (spec_keys name fs) a b.
Proof. exact gen_less_spec. Qed.

(* `spec_keys` is what it is called: a rearrangement of the tagged fields ... *)
Theorem C08_keys_perm : forall name fs,
  Permutation (fold_right ins_pk [] (tagged name fs)) (tagged name fs).
Proof. intros. exact (sort_pk_perm _). Qed.
(* ... in ascending priority *)
Theorem C08_keys_ascending : forall name fs,
  StronglySorted (fun a b => (fst a <= fst b)%Z) (fold_right ins_pk [] (tagged name fs)).
Proof. intros. exact (sort_pk_sorted _). Qed.

(* the generator accepts exactly the definitions of the property's quantifier (priorities of
   every sorter pairwise distinct) and then emits a Less for every sorter name *)
Theorem C08_generation_accepts_iff : forall ty fs,
  create ty fs <> None <-> (forall name, prios_distinct name fs = true).
Proof. exact create_some_iff. Qed.
Theorem C08_generation_defined : forall ty fs name,
  (forall n, prios_distinct n fs = true) -> In name (sorter_names fs) ->
  exists f, gen_less ty fs name = Some f.
Proof. exact gen_less_defined. Qed.

Local Open Scope string_scope.
(* --- from the tag text ------------------------------------------------------------------ *)
(* GSortTagModel.v models the step before: the struct tag of a field (key/value pairs), the
   Lookup/Replace loop that collects the gsort option strings, strings.Split on ",", strconv.Atoi.
   `render_options` is what one writes for an intended (sorter, priority, accessor) triple. *)

(* strconv.Atoi reads back strconv.Itoa, for every integer *)
Theorem C08_atoi_itoa : forall z, atoi (itoa z) = Some z.
Proof. exact atoi_itoa. Qed.

(* parsing the rendered tag of a triple yields that triple (sorter and accessor free of commas) *)
Theorem C08_tag_roundtrip : forall t,
  tag_ok t = true -> parse_options (render_options false t) = Some t.
Proof. exact parse_render. Qed.
(* the bare form `gsort:"Sorter"` means priority 0, no accessor *)
Theorem C08_tag_roundtrip_bare : forall s,
  no_comma s = true ->
  parse_options (render_options true {| tg_sorter := s; tg_prio := 0; tg_acc := "" |})
  = Some {| tg_sorter := s; tg_prio := 0; tg_acc := "" |}.
Proof. exact parse_render_bare. Qed.

(* the Lookup/Replace loop of sortFieldDescFromTag collects exactly the values of the gsort keys,
   in source order, whatever other keys the struct tag has (provided no other key ends in
   "gsort", which the textual Replace would also hit) *)
Theorem C08_tag_loop : forall tl,
  only_gsort_keys tl -> gsort_options tl = gsort_values tl.
Proof. exact gsort_options_values. Qed.

(* a whole definition: generating from the written tags = generating from the intended triples *)
Theorem C08_definition_roundtrip : forall ty fs name,
  forallb (fun f => forallb tag_ok (fd_tags f)) fs = true ->
  gen_less_raw ty (map render_field fs) name = gen_less ty fs name.
Proof. exact gen_less_raw_render. Qed.

(* and whatever text is given: if a Less is generated, the tags parsed to some definition and
   the Less is the lexicographic comparison that definition's tags ask for *)
Theorem C08_generated_less_from_text : forall ty rfs name f,
  gen_less_raw ty rfs name = Some f ->
  exists fs, parse_fields rfs = Some fs /\ forall a b, f a b = lex_lt (spec_keys name fs) a b.
Proof.
  intros ty rfs name f H. unfold gen_less_raw in H.
  destruct (parse_fields rfs) as [fs|]; [|discriminate].
  exists fs. split; [reflexivity|]. exact (gen_less_spec ty fs name f H).
Qed.

Example C08_example_tags :
  parse_options "Sortables,1,String()"
    = Some {| tg_sorter := "Sortables"; tg_prio := 1; tg_acc := "String()" |}
  /\ parse_options "*ByFlag" = Some {| tg_sorter := "*ByFlag"; tg_prio := 0; tg_acc := "" |}
  /\ parse_options "S,-03" = Some {| tg_sorter := "S"; tg_prio := -3; tg_acc := "" |}
  /\ parse_options "S,1,String(),x" = None /\ parse_options "S,one" = None
  /\ parse_options "S," = None /\ parse_options "S,1 " = None
  /\ gsort_options [("json", "a,omitempty"); ("gsort", "A,1"); ("yaml", "b"); ("gsort", "*B,2")]
     = ["A,1"; "*B,2"]
  /\ itoa (-120) = "-120".
Proof. vm_compute. repeat split. Qed.

(* --- strict weak order ---------------------------------------------------------------- *)

Theorem C08_irrefl : forall cs a, less cs a a = false.
Proof. intros cs. exact (swo_irrefl _ (less_swo cs)). Qed.
Theorem C08_asym : forall cs a b, less cs a b = true -> less cs b a = false.
Proof. intros cs. exact (swo_asym _ (less_swo cs)). Qed.
Theorem C08_trans : forall cs a b c,
  less cs a b = true -> less cs b c = true -> less cs a c = true.
Proof. intros cs. exact (swo_trans _ (less_swo cs)). Qed.
(* incomparability (neither less than the other) is transitive *)
Theorem C08_equiv_trans : forall cs a b c,
  eqv (less cs) a b = true -> eqv (less cs) b c = true -> eqv (less cs) a c = true.
Proof. intros cs. exact (swo_eqv_trans _ (less_swo cs)). Qed.
(* ties are exactly "all keys equal" *)
Theorem C08_tie_iff : forall ks a b,
  eqv (lex_lt ks) a b = true <-> map (fun k => key_rank k a) ks = map (fun k => key_rank k b) ks.
Proof. exact lex_eqv_iff. Qed.

(* --- sorting -------------------------------------------------------------------------- *)
Section Sorting.
  Context {A : Type}.
  Variable el : A -> elem.          (* the fields of a slice element *)
  Variable cs : list cmpline.       (* any generated chain *)
  Let lt (x y : A) : bool := less cs (el x) (el y).

  (* the reference (insertion) sort returns an ascending permutation of its input ... *)
  Theorem C08_sorted_perm : forall l, Permutation (isort lt l) l /\ sorted lt (isort lt l).
  Proof.
    intros l. split; [exact (isort_perm lt l)|].
    exact (isort_sorted lt (swo_proj el (less cs) (less_swo cs)) l).
  Qed.
  (* ... and keeps ties in input order *)
  Theorem C08_stable : forall l, stable_wrt lt (isort lt l) l.
  Proof. exact (isort_stable lt (swo_proj el (less cs) (less_swo cs))). Qed.

  (* ANY algorithm whose result is an ascending permutation of the input (what sort.Sort
     promises) agrees with the reference sort position by position up to ties *)
  Theorem C08_any_sort : forall l l',
    Permutation l' l -> sorted lt l' -> Forall2 (fun a b => eqv lt a b = true) l' (isort lt l).
  Proof. exact (any_sort_eqv lt (swo_proj el (less cs) (less_swo cs))). Qed.
  (* and any that moreover keeps ties in input order (sort.Stable) returns exactly the
     reference result *)
  Theorem C08_any_stable_sort : forall l l',
    sorted lt l' -> stable_wrt lt l' l -> l' = isort lt l.
  Proof. exact (any_stable_sort_eq lt (swo_proj el (less cs) (less_swo cs))). Qed.
End Sorting.

(* --- non-vacuity ---------------------------------------------------------------------- *)
Local Open Scope string_scope.
Definition ex_fields : list fieldT :=
  [ {| fd_name := "Category"; fd_isbool := false;
       fd_tags := [ {| tg_sorter := "Sortables"; tg_prio := 1; tg_acc := "String()" |} ] |};
    {| fd_name := "Flag"; fd_isbool := true;
       fd_tags := [ {| tg_sorter := "Sortables"; tg_prio := 3; tg_acc := "" |};
                    {| tg_sorter := "*ByFlag"; tg_prio := 0; tg_acc := "" |} ] |};
    {| fd_name := "Property2"; fd_isbool := false;
       fd_tags := [ {| tg_sorter := "Sortables"; tg_prio := 2; tg_acc := "" |} ] |} ].

Example C08_example_domain :
  (forall n, In n (sorter_names ex_fields) -> prios_distinct n ex_fields = true)
  /\ spec_keys "Sortables" ex_fields = [KOrd 0; KOrd 2; KBool 1].
Proof. split; [|reflexivity]. intros n H. cbn in H. intuition (subst; reflexivity). Qed.

Example C08_example_less :
  match gen_less "Sortable" ex_fields "Sortables" with
  | Some f => f [VZ 1; VB false; VZ 5] [VZ 1; VB true; VZ 5] = true   (* tie, tie, false < true *)
              /\ f [VZ 1; VB true; VZ 5] [VZ 1; VB true; VZ 5] = false  (* irreflexive on true *)
              /\ f [VZ 1; VB true; VZ 4] [VZ 1; VB false; VZ 5] = true  (* priority 2 before 3 *)
  | None => False
  end
  /\ match create "Sortable" ex_fields with
     | Some ds => map (render_sorter cl_string) (filter sd_pointer ds) =
         [[ "// ByFlag implements a sort.Sort interface for Sortable.";
            "type ByFlag []*Sortable";
            "func (s ByFlag) Len() int {"; "return len(s)"; "}";
            "func (s ByFlag) Swap(i, j int) {"; "s[i], s[j] = s[j], s[i]"; "}";
            "func (s ByFlag) Less(i, j int) bool {";
            "return !s[i].Flag && s[j].Flag"; "}" ]]
     | None => False
     end.
Proof. vm_compute. repeat split. Qed.

(* a definition outside the quantifier (two fields of one sorter share a priority) is refused *)
Example C08_example_refused :
  create "T" [ {| fd_name := "A"; fd_isbool := false;
                  fd_tags := [ {| tg_sorter := "S"; tg_prio := 1; tg_acc := "" |} ] |};
               {| fd_name := "B"; fd_isbool := false;
                  fd_tags := [ {| tg_sorter := "S"; tg_prio := 1; tg_acc := "" |} ] |} ] = None.
Proof. reflexivity. Qed.

(* --- the pinned code (before the fix) ------------------------------------------------- *)
(* `CompareLine.String` rendered a bool key as `s[j].X`; as the last key that makes
   Less(i,i) = s[i].X: not irreflexive.  Kept as a record (model: less_orig). *)
Theorem C08_irrefl_orig_refuted :
  exists ty fs name f a, gen_less_orig ty fs name = Some f /\ f a a = true.
Proof.
  destruct orig_witness as [f [H1 H2]].
  exists "OnlyFlag", witness_fields, "ByFlag", f, [VB true]. split; assumption.
Qed.

Print Assumptions C08_lex.
Print Assumptions C08_generated_less.
Print Assumptions C08_keys_perm.
Print Assumptions C08_keys_ascending.
Print Assumptions C08_generation_accepts_iff.
Print Assumptions C08_generation_defined.
Print Assumptions C08_atoi_itoa.
Print Assumptions C08_tag_roundtrip.
Print Assumptions C08_tag_roundtrip_bare.
Print Assumptions C08_tag_loop.
Print Assumptions C08_definition_roundtrip.
Print Assumptions C08_generated_less_from_text.
Print Assumptions C08_irrefl.
Print Assumptions C08_asym.
Print Assumptions C08_trans.
Print Assumptions C08_equiv_trans.
Print Assumptions C08_tie_iff.
Print Assumptions C08_sorted_perm.
Print Assumptions C08_stable.
Print Assumptions C08_any_sort.
Print Assumptions C08_any_stable_sort.
Print Assumptions C08_irrefl_orig_refuted.
