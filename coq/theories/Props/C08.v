(* C08 — gsort: generated Less is the lexicographic strict weak order.
   Property theorems only; every proof is `exact <lemma>` (GSortProofs.v, Base/SortU.v).
   The model (GSortModel.v) mirrors gsort/gen/sorter_desc.go + gsort.gotmpl of the current tree;
   it is tied to the code by the generator farm of ./check C08 (real CLI, compiled output,
   observations judged by GSortJudge.v).

   Reading guide.  `fs` is a struct definition (fields with their parsed gsort tags), `name` a
   sorter name as written in the tags (a leading * = pointer form), `gen_less ty fs name` the
   meaning of the Less method the generator emits for it (None: the generator refuses).
   `spec_keys name fs` are the fields tagged for `name` in ascending priority; `lex_lt` is
   lexicographic "strictly less" with false < true on bool keys.  Elements of the generated
   slice type are abstracted to the values of their fields (`elem`); an arbitrary carrier `A`
   with a projection `el : A -> elem` covers value and pointer forms and elements that carry
   more than their keys (identity, untagged fields).                                          *)
From Coq Require Import List Bool ZArith String Permutation Sorted.
From GT Require Import GSortModel GSortProofs GSortTagModel GSortTagProofs Base.SortU.
From GT Require Import GSortTextModel GSortTextProofs.
Import ListNotations.

(* --- Less = lexicographic comparison ------------------------------------------------- *)

(* the template's nested if/return chain over any list of compare lines *)
Theorem C08_lex : forall cs a b, less cs a b = lex_lt (keys_of cs) a b.
Proof. exact less_lex. Qed.

(* end to end: whatever Less the generator emits for sorter `name` of definition `fs` is the
   lexicographic comparison of the fields tagged for `name`, in ascending priority *)
Theorem C08_generated_less : forall ty fs name f,
  gen_less ty fs name = Some f -> forall a b, f a b = lex_lt (spec_keys name fs) a b.
Proof. exact gen_less_spec. Qed.

(* `spec_keys` is what it is called: a rearrangement of the tagged fields ... *)
Theorem C08_keys_perm : forall name fs,
  Permutation (fold_right ins_pk [] (tagged name fs)) (tagged name fs).
Proof. intros. exact (sort_pk_perm _). Qed.
(* ... in ascending priority *)
(* every key is the view its OWN tag names: field idx read plainly (slot 2*idx) when the tag has
   no accessor, through the accessor (slot 2*idx+1) when it has one - per tag, not per field *)
Theorem C08_keys_are_tag_views : forall name fs p k,
  In (p, k) (tagged name fs) <->
  exists idx f t, nth_error fs idx = Some f /\ In t (fd_tags f) /\ tg_sorter t = name
                  /\ p = tg_prio t
                  /\ k = (if fd_isbool f then KBool else KOrd) (slot idx (tg_acc t)).
Proof. exact tagged_iff. Qed.
(* the tag parser has no memory: the options of one gsort tag are parsed without regard to the
   tags before it *)
Theorem C08_tags_parsed_independently : forall o1 o2,
  parse_all (o1 ++ o2) = match parse_all o1, parse_all o2 with
                         | Some a, Some b => Some (a ++ b)%list
                         | _, _ => None
                         end.
Proof. exact parse_all_app. Qed.
Theorem C08_keys_ascending : forall name fs,
  StronglySorted (fun a b => (fst a <= fst b)%Z) (fold_right ins_pk [] (tagged name fs)).
Proof. intros. exact (sort_pk_sorted _). Qed.

(* the generator accepts exactly the definitions of the property's quantifier — priorities of
   every sorter pairwise distinct, and no sorter name used both as `S` and as `*S` (forms_ok: the
   two would be one type name in the output; refused since ac707f2) — and then emits a Less for
   every sorter name *)
Theorem C08_generation_accepts_iff : forall ty fs,
  create ty fs <> None <->
  ((forall name, prios_distinct name fs = true) /\ forms_ok (collect ty fs) = true).
Proof. exact create_some_iff. Qed.
Theorem C08_generation_defined : forall ty fs name,
  (forall n, prios_distinct n fs = true) -> forms_ok (collect ty fs) = true ->
  In name (sorter_names fs) ->
  exists f, gen_less ty fs name = Some f.
Proof. exact gen_less_defined. Qed.
(* the generator up to 50aeaa4 accepted `S` next to `*S` (and wrote a file that does not compile:
   C13's finding C13-gsort-both-forms) *)
Theorem C08_generation_accepts_orig_iff : forall ty fs,
  create_orig2 ty fs <> None <-> (forall name, prios_distinct name fs = true).
Proof. exact create_orig2_some_iff. Qed.

(* --- the emitted text and its meaning ----------------------------------------------------- *)
(* `render_block` is the TEXT the template's PriorityBlock writes for a chain (one gofmt-ed line
   per entry), `less` its intended meaning.  GSortTextModel.v connects the two through the
   emitted Go itself: `parse_lines` reads such lines back into statements (`if a == b { ... }`,
   `return a < b`, `return !a && b`), `eval_stmts` runs them the way Go does, operands read from
   the two elements through the chain's accessors.  The rendered text of every chain, so read
   and run, computes `less` — hence the lexicographic order.  (The judge applies the same parser
   and evaluator to the text the REAL template wrote, see GSortJudge.text_sem.) *)
Theorem C08_text_is_printed_syntax : forall cs,
  render_block cl_string cs = print_stmts (block_ast cs).
Proof. exact render_block_print. Qed.
Theorem C08_text_denotes : forall cs,
  cs <> [] -> chain_consistent cs -> forallb (fun c => nospace (cl_acc c)) cs = true ->
  exists ss, parse_lines (render_block cl_string cs) = Some ss
             /\ forall a b, eval_stmts (env_of cs) ss a b = Some (less cs a b).
Proof. exact text_denotes. Qed.
Theorem C08_text_denotes_lex : forall cs,
  cs <> [] -> chain_consistent cs -> forallb (fun c => nospace (cl_acc c)) cs = true ->
  exists ss, parse_lines (render_block cl_string cs) = Some ss
             /\ forall a b, eval_stmts (env_of cs) ss a b = Some (lex_lt (keys_of cs) a b).
Proof. exact text_denotes_lex. Qed.
(* the parser inverts the printer on every statement list whose accessors are single words *)
Theorem C08_parse_print : forall ss, forallb stmt_ok ss = true ->
  parse_lines (print_stmts ss) = Some ss.
Proof. exact parse_print. Qed.

Local Open Scope string_scope.
(* --- from the tag text ------------------------------------------------------------------ *)
(* GSortTagModel.v models the step before: the struct tag of a field (key/value pairs), the
   Lookup/Replace loop that collects the gsort option strings, strings.Split on ",", strconv.Atoi.
   `render_options` is what one writes for an intended (sorter, priority, accessor) triple. *)

(* strconv.Atoi reads back strconv.Itoa, for every integer *)
Theorem C08_atoi_itoa : forall z, atoi (itoa z) = Some z.
Proof. exact atoi_itoa. Qed.

(* parsing the rendered tag of a triple yields that triple (sorter and accessor free of commas) *)
Theorem C08_tag_roundtrip : forall t,
  tag_ok t = true -> parse_options (render_options false t) = Some t.
Proof. exact parse_render. Qed.
(* the bare form `gsort:"Sorter"` means priority 0, no accessor *)
Theorem C08_tag_roundtrip_bare : forall s,
  no_comma s = true ->
  parse_options (render_options true {| tg_sorter := s; tg_prio := 0; tg_acc := "" |})
  = Some {| tg_sorter := s; tg_prio := 0; tg_acc := "" |}.
Proof. exact parse_render_bare. Qed.

(* the Lookup/Replace loop of sortFieldDescFromTag collects exactly the values of the gsort keys,
   in source order, whatever other keys the struct tag has (provided no other key ends in
   "gsort", which the textual Replace would also hit) *)
Theorem C08_tag_loop : forall tl,
  only_gsort_keys tl -> gsort_options tl = gsort_values tl.
Proof. exact gsort_options_values. Qed.

(* a whole definition: generating from the written tags = generating from the intended triples *)
Theorem C08_definition_roundtrip : forall ty fs name,
  forallb (fun f => forallb tag_ok (fd_tags f)) fs = true ->
  gen_less_raw ty (map render_field fs) name = gen_less ty fs name.
Proof. exact gen_less_raw_render. Qed.

(* and whatever text is given: if a Less is generated, the tags parsed to some definition and
   the Less is the lexicographic comparison that definition's tags ask for *)
Theorem C08_generated_less_from_text : forall ty rfs name f,
  gen_less_raw ty rfs name = Some f ->
  exists fs, parse_fields rfs = Some fs /\ forall a b, f a b = lex_lt (spec_keys name fs) a b.
Proof.
  intros ty rfs name f H. unfold gen_less_raw in H.
  destruct (parse_fields rfs) as [fs|]; [|discriminate].
  exists fs. split; [reflexivity|]. exact (gen_less_spec ty fs name f H).
Qed.

Example C08_example_tags :
  parse_options "Sortables,1,String()"
    = Some {| tg_sorter := "Sortables"; tg_prio := 1; tg_acc := "String()" |}
  /\ parse_options "*ByFlag" = Some {| tg_sorter := "*ByFlag"; tg_prio := 0; tg_acc := "" |}
  /\ parse_options "S,-03" = Some {| tg_sorter := "S"; tg_prio := -3; tg_acc := "" |}
  /\ parse_options "S,1,String(),x" = None /\ parse_options "S,one" = None
  /\ parse_options "S," = None /\ parse_options "S,1 " = None
  /\ gsort_options [("json", "a,omitempty"); ("gsort", "A,1"); ("yaml", "b"); ("gsort", "*B,2")]
     = ["A,1"; "*B,2"]
  /\ itoa (-120) = "-120"
  (* a key that merely ENDS in gsort and carries the same value is hit first by the textual
     Replace; its head `x` stays behind and hides the rest of the tag from Lookup *)
  /\ gsort_options [("xgsort", "A,1"); ("gsort", "A,1"); ("gsort", "B,2")] = ["A,1"]
  /\ gsort_options [("xgsort", "B,2"); ("gsort", "A,1"); ("gsort", "B,2")] = ["A,1"; "B,2"].
Proof. vm_compute. repeat split. Qed.

(* the rendered text of a two-key chain, parsed and run *)
Example C08_example_text :
  let cs := [ {| cl_isbool := false; cl_acc := "Name"; cl_idx := 0 |};
              {| cl_isbool := true; cl_acc := "Flag"; cl_idx := 2 |} ] in
  render_block cl_string cs
  = ["if s[i].Name == s[j].Name {"; "return !s[i].Flag && s[j].Flag"; "}";
     "return s[i].Name < s[j].Name"]
  /\ parse_lines (render_block cl_string cs)
     = Some [SIf (EEq "Name") [SReturn (ENotAnd "Flag")]; SReturn (ELt "Name")]
  /\ option_map (fun ss => eval_stmts (env_of cs) ss [VZ 1; VZ 0; VB false] [VZ 1; VZ 0; VB true])
                (parse_lines (render_block cl_string cs)) = Some (Some true)
  (* a re-spelled comparison is not read (no meaning is claimed for it) *)
  /\ parse_lines ["return s[j].Name > s[i].Name"] = None
  (* an ill-typed operand has no meaning: `<` on a bool view *)
  /\ eval_stmts (env_of cs) [SReturn (ELt "Flag")] [] [] = None.
Proof. vm_compute. repeat split. Qed.

(* --- strict weak order ---------------------------------------------------------------- *)
(* whatever Less the generator emits is a strict weak order *)
Theorem C08_generated_swo : forall ty fs name f, gen_less ty fs name = Some f -> swo f.
Proof. exact gen_less_swo. Qed.

Theorem C08_irrefl : forall cs a, less cs a a = false.
Proof. intros cs. exact (swo_irrefl _ (less_swo cs)). Qed.
Theorem C08_asym : forall cs a b, less cs a b = true -> less cs b a = false.
Proof. intros cs. exact (swo_asym _ (less_swo cs)). Qed.
Theorem C08_trans : forall cs a b c,
  less cs a b = true -> less cs b c = true -> less cs a c = true.
Proof. intros cs. exact (swo_trans _ (less_swo cs)). Qed.
(* incomparability (neither less than the other) is transitive *)
Theorem C08_equiv_trans : forall cs a b c,
  eqv (less cs) a b = true -> eqv (less cs) b c = true -> eqv (less cs) a c = true.
Proof. intros cs. exact (swo_eqv_trans _ (less_swo cs)). Qed.
(* ties are exactly "all keys equal" *)
Theorem C08_tie_iff : forall ks a b,
  eqv (lex_lt ks) a b = true <-> map (fun k => key_rank k a) ks = map (fun k => key_rank k b) ks.
Proof. exact lex_eqv_iff. Qed.

(* --- sorting -------------------------------------------------------------------------- *)
Section Sorting.
  Context {A : Type}.
  Variable el : A -> elem.          (* the fields of a slice element *)
  Variable cs : list cmpline.       (* any generated chain *)
  Let lt (x y : A) : bool := less cs (el x) (el y).

  (* the reference (insertion) sort returns an ascending permutation of its input ... *)
  Theorem C08_sorted_perm : forall l, Permutation (isort lt l) l /\ sorted lt (isort lt l).
  Proof.
    intros l. split; [exact (isort_perm lt l)|].
    exact (isort_sorted lt (swo_proj el (less cs) (less_swo cs)) l).
  Qed.
  (* ... and keeps ties in input order *)
  Theorem C08_stable : forall l, stable_wrt lt (isort lt l) l.
  Proof. exact (isort_stable lt (swo_proj el (less cs) (less_swo cs))). Qed.

  (* ANY algorithm whose result is an ascending permutation of the input (what sort.Sort
     promises) agrees with the reference sort position by position up to ties *)
  Theorem C08_any_sort : forall l l',
    Permutation l' l -> sorted lt l' -> Forall2 (fun a b => eqv lt a b = true) l' (isort lt l).
  Proof. exact (any_sort_eqv lt (swo_proj el (less cs) (less_swo cs))). Qed.
  (* and any that moreover keeps ties in input order (sort.Stable) returns exactly the
     reference result *)
  Theorem C08_any_stable_sort : forall l l',
    sorted lt l' -> stable_wrt lt l' l -> l' = isort lt l.
  Proof. exact (any_stable_sort_eq lt (swo_proj el (less cs) (less_swo cs))). Qed.
End Sorting.

(* --- non-vacuity ---------------------------------------------------------------------- *)
Local Open Scope string_scope.
Definition ex_fields : list fieldT :=
  [ {| fd_name := "Category"; fd_isbool := false;
       fd_tags := [ {| tg_sorter := "Sortables"; tg_prio := 1; tg_acc := "String()" |} ] |};
    {| fd_name := "Flag"; fd_isbool := true;
       fd_tags := [ {| tg_sorter := "Sortables"; tg_prio := 3; tg_acc := "" |};
                    {| tg_sorter := "*ByFlag"; tg_prio := 0; tg_acc := "" |} ] |};
    {| fd_name := "Property2"; fd_isbool := false;
       fd_tags := [ {| tg_sorter := "Sortables"; tg_prio := 2; tg_acc := "" |} ] |} ].

(* an element: two slots per field (read plainly; read through the accessor) *)
Definition ex_elem (cat_string : Z) (flag : bool) (p2 : Z) : elem :=
  [VZ 0; VZ cat_string; VB flag; VZ 0; VZ p2; VZ 0].

Example C08_example_domain :
  (forall n, In n (sorter_names ex_fields) -> prios_distinct n ex_fields = true)
  /\ spec_keys "Sortables" ex_fields = [KOrd 1; KOrd 4; KBool 2].   (* slots: Category.String(), Property2, Flag *)
Proof. split; [|reflexivity]. intros n H. cbn in H. intuition (subst; reflexivity). Qed.

Example C08_example_less :
  match gen_less "Sortable" ex_fields "Sortables" with
  | Some f => f (ex_elem 1 false 5) (ex_elem 1 true 5) = true   (* tie, tie, false < true *)
              /\ f (ex_elem 1 true 5) (ex_elem 1 true 5) = false  (* irreflexive on true *)
              /\ f (ex_elem 1 true 4) (ex_elem 1 false 5) = true  (* priority 2 before 3 *)
  | None => False
  end
  /\ match create "Sortable" ex_fields with
     | Some ds => map (render_sorter cl_string) (filter sd_pointer ds) =
         [[ "// ByFlag implements a sort.Sort interface for Sortable.";
            "type ByFlag []*Sortable";
            "func (s ByFlag) Len() int {"; "return len(s)"; "}";
            "func (s ByFlag) Swap(i, j int) {"; "s[i], s[j] = s[j], s[i]"; "}";
            "func (s ByFlag) Less(i, j int) bool {";
            "return !s[i].Flag && s[j].Flag"; "}" ]]
     | None => False
     end.
Proof. vm_compute. repeat split. Qed.

(* one field read through String() by one sorter and plainly by another (two gsort tags on the
   field, the accessor in the FIRST one only): each sorter reads the view its own tag names.
   Values: Cat 1 prints "b", Cat 2 prints "a" - the two orders disagree. *)
Definition ex_two_views : list fieldT :=
  [ {| fd_name := "Cat"; fd_isbool := false;
       fd_tags := [ {| tg_sorter := "ByCatName"; tg_prio := 1; tg_acc := "String()" |};
                    {| tg_sorter := "ByCat"; tg_prio := 1; tg_acc := "" |} ] |} ].
Example C08_example_two_views :
  spec_keys "ByCatName" ex_two_views = [KOrd 1] /\ spec_keys "ByCat" ex_two_views = [KOrd 0]
  /\ match gen_less "T" ex_two_views "ByCat", gen_less "T" ex_two_views "ByCatName" with
     | Some raw, Some str =>
         raw [VZ 1; VZ 1] [VZ 2; VZ 0] = true /\ str [VZ 1; VZ 1] [VZ 2; VZ 0] = false
         /\ str [VZ 2; VZ 0] [VZ 1; VZ 1] = true
     | _, _ => False
     end
  /\ gen_less_raw "T" [ {| rf_name := "Cat"; rf_isbool := false;
                           rf_tag := [("gsort", "ByCatName,1,String()"); ("gsort", "ByCat,1")] |} ] "ByCat"
     = gen_less "T" ex_two_views "ByCat".
Proof. vm_compute. repeat split. Qed.

(* a definition outside the quantifier (two fields of one sorter share a priority) is refused *)
Example C08_example_refused :
  create "T" [ {| fd_name := "A"; fd_isbool := false;
                  fd_tags := [ {| tg_sorter := "S"; tg_prio := 1; tg_acc := "" |} ] |};
               {| fd_name := "B"; fd_isbool := false;
                  fd_tags := [ {| tg_sorter := "S"; tg_prio := 1; tg_acc := "" |} ] |} ] = None.
Proof. reflexivity. Qed.

(* --- the pinned code (before the fix) ------------------------------------------------- *)
(* `CompareLine.String` rendered a bool key as `s[j].X`; as the last key that makes
   Less(i,i) = s[i].X: not irreflexive.  Kept as a record (model: less_orig). *)
Theorem C08_irrefl_orig_refuted :
  exists ty fs name f a, gen_less_orig ty fs name = Some f /\ f a a = true.
Proof.
  destruct orig_witness as [f [H1 H2]].
  exists "OnlyFlag", witness_fields, "ByFlag", f, [VB true]. split; assumption.
Qed.

Print Assumptions C08_lex.
Print Assumptions C08_generated_less.
Print Assumptions C08_keys_perm.
Print Assumptions C08_keys_ascending.
Print Assumptions C08_keys_are_tag_views.
Print Assumptions C08_tags_parsed_independently.
Print Assumptions C08_generation_accepts_iff.
Print Assumptions C08_generation_accepts_orig_iff.
Print Assumptions C08_generation_defined.
Print Assumptions C08_atoi_itoa.
Print Assumptions C08_tag_roundtrip.
Print Assumptions C08_tag_roundtrip_bare.
Print Assumptions C08_tag_loop.
Print Assumptions C08_definition_roundtrip.
Print Assumptions C08_generated_less_from_text.
Print Assumptions C08_text_is_printed_syntax.
Print Assumptions C08_text_denotes.
Print Assumptions C08_text_denotes_lex.
Print Assumptions C08_parse_print.
Print Assumptions C08_generated_swo.
Print Assumptions C08_irrefl.
Print Assumptions C08_asym.
Print Assumptions C08_trans.
Print Assumptions C08_equiv_trans.
Print Assumptions C08_tie_iff.
Print Assumptions C08_sorted_perm.
Print Assumptions C08_stable.
Print Assumptions C08_any_sort.
Print Assumptions C08_any_stable_sort.
Print Assumptions C08_irrefl_orig_refuted.
