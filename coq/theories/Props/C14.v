(* C14 — generator output never depends on map iteration order.
   Property theorems only; every proof is `exact <lemma>` (GenDetProofs.v, Base/SortU.v).
   The model (GenDetModel.v) lists, per generator, the steps whose result could depend on a
   choice the Go runtime makes, with the choice made an explicit argument:
     * `pi`  — the order in which one `for ... range someMap` statement visits the entries; any
               function with `iter_ok pi` (pi m is a permutation of m);
     * `srt` — what one call of the unstable sort.Sort / sort.Slice returns; any function with
               `sort_ok lt srt` (srt l is a permutation of l in which no later element is Less
               than an earlier one).
   Every theorem has the shape "for all choices pi, pi', srt, srt' the table handed to the
   template is the same".  Hypotheses other than iter_ok / sort_ok state what the generator's
   input guarantees (names of one enum / one struct / one import set are pairwise distinct, a
   type name denotes one struct); they are the facts that make ties of Less impossible between
   different elements.

   `sort_ok value_lt` cannot be satisfied by any function (Value.Less is cyclic on values of
   mixed signedness, C14_value_less_mixed_cycle / C14_value_less_no_global_sort), so for the
   two genum sorts that use Value.Less (C14_genum_values, C14_genum_insts) the statement speaks
   about two sorted arrangements of the list at hand instead of two sort functions.  For lists
   of one signedness — the values of one enum type — such arrangements exist
   (C14_genum_values_sortable); mixed signedness cannot occur inside one Go type.            *)
From Coq Require Import List Bool ZArith String Permutation Sorted.
From GT Require Import GSortModel GSortProofs GenDetModel GenDetProofs Base.SortU.
From GT Require Import GenDetStateModel GenDetStateProofs.
From GT Require Import GenDetWholeModel GenDetWholeProofs.
Import ListNotations.

(* --- the two generic facts ------------------------------------------------------------ *)

(* two correct sorts of two arrangements of one multiset agree as soon as Less ties only equal
   elements: the outcome of an unstable sort is then unique *)
Theorem C14_sort_choice_unique : forall A (lt : A -> A -> bool) srt srt' l l',
  sort_ok lt srt -> sort_ok lt srt' -> Permutation l l' ->
  (forall a b, In a l -> In b l -> lt a b = false -> lt b a = false -> a = b) ->
  srt l = srt' l'.
Proof. exact sort_choice_unique. Qed.

(* a map range that returns at the first entry matching `p` (gencommon/comments.go,
   interface.go) finds the same entry in every order when at most one entry matches *)
Theorem C14_lookup_first : forall A (p : A -> bool) m pi pi',
  iter_ok pi -> iter_ok pi' ->
  (forall x y, In x m -> In y m -> p x = true -> p y = true -> x = y) ->
  lookup_first pi p m = lookup_first pi' p m.
Proof. exact lookup_first_indep. Qed.

(* --- gsort ----------------------------------------------------------------------------- *)

(* the sorter table (g.SorterDescs after sort.Sort) for a -types list in which a type name
   denotes one struct: independent of the order of every createSorterDesc result loop (pis n:
   the n-th call) and of the sort's treatment of ties; in particular both runs fail together *)
Theorem C14_gsort : forall types,
  (forall t f1 f2, In (t, f1) types -> In (t, f2) types -> f1 = f2) ->
  forall pis pis' srt srt',
  (forall n, iter_ok (pis n)) -> (forall n, iter_ok (pis' n)) ->
  sort_ok desc_lt srt -> sort_ok desc_lt srt' ->
  gsort_tables pis srt types = gsort_tables pis' srt' types.
Proof. exact gsort_indep. Qed.

(* --- genum ----------------------------------------------------------------------------- *)

(* processDuplicates with one deterministic sort routine `srt` (no assumption on it at all):
   the order in which the duplicate groups are visited does not matter *)
Theorem C14_genum_dups_any_order : forall pi pi' srt vals traits,
  iter_ok pi -> iter_ok pi' ->
  process_dups pi srt vals traits = process_dups pi' srt vals traits.
Proof. exact process_dups_fixed_sort. Qed.

(* ... and with trait names pairwise distinct neither does the sort's treatment of ties *)
Theorem C14_genum_dups : forall pi pi' srt srt' vals traits,
  iter_ok pi -> iter_ok pi' -> sort_ok trait_lt srt -> sort_ok trait_lt srt' ->
  NoDup (map td_name traits) ->
  process_dups pi srt vals traits = process_dups pi' srt' vals traits.
Proof. exact process_dups_indep. Qed.

(* sort.Sort(values), value names pairwise distinct: two sorted arrangements of the values are
   equal *)
Theorem C14_genum_values : forall vals out out',
  NoDup (map ev_name vals) ->
  Permutation out vals -> sorted value_lt out ->
  Permutation out' vals -> sorted value_lt out' -> out = out'.
Proof.
  intros vals out out' ND P1 S1 P2 S2.
  exact (genum_values_indep_local vals out out' ND (conj P1 S1) (conj P2 S2)).
Qed.
(* the instances of one trait (one per value) *)
Theorem C14_genum_insts : forall insts out out',
  NoDup (map (fun t => ev_name (ti_owner t)) insts) ->
  Permutation out insts -> sorted inst_lt out ->
  Permutation out' insts -> sorted inst_lt out' -> out = out'.
Proof.
  intros insts out out' ND P1 S1 P2 S2.
  exact (genum_insts_indep_local insts out out' ND (conj P1 S1) (conj P2 S2)).
Qed.
(* Value.Less on values of mixed signedness: B < A < C < B *)
Theorem C14_value_less_mixed_cycle :
  value_lt mx_b mx_a = true /\ value_lt mx_a mx_c = true /\ value_lt mx_c mx_b = true.
Proof. exact value_lt_mixed_cycle. Qed.
Theorem C14_value_less_no_global_sort : forall srt, ~ sort_ok value_lt srt.
Proof. exact sort_ok_value_lt_unsat. Qed.
(* values of one signedness (one enum type): insertion sort by Value.Less yields a sorted
   arrangement, so C14_genum_values / _insts are not about nothing *)
Theorem C14_genum_values_sortable : forall sg vals,
  (forall v, In v vals -> ev_signed v = sg) ->
  Permutation (isort value_lt vals) vals /\ sorted value_lt (isort value_lt vals).
Proof. exact value_lt_sorts_uniform. Qed.
Theorem C14_genum_insts_sortable : forall sg insts,
  (forall t, In t insts -> ev_signed (ti_owner t) = sg) ->
  Permutation (isort inst_lt insts) insts /\ sorted inst_lt (isort inst_lt insts).
Proof. exact inst_lt_sorts_uniform. Qed.

(* informational: the duplicate warnings on stderr (not part of the generated file) are printed
   in iteration order, and that order is observable *)
Theorem C14_warning_order_is_choice :
  exists pi pi' vals, iter_ok pi /\ iter_ok pi' /\ dup_warnings pi vals <> dup_warnings pi' vals.
Proof. exact warning_order_is_choice. Qed.

(* --- gencommon imports ------------------------------------------------------------------ *)

(* the invariant of the imports map: keys pairwise distinct (it is a map) and every entry is
   filed under its own PkgPath *)
Theorem C14_imap_inv_def : forall m,
  imap_inv m <-> (NoDup (map fst m) /\ forall k v, In (k, v) m -> im_path v = k).
Proof. exact imap_inv_unfold. Qed.
(* calcImports (the map part of the handler; overwritten entries go to the `shadowed` slice) *)
Theorem C14_calc_imports_inv : forall specs, imap_inv (ih_imports (calc_handler specs)).
Proof. exact calc_handler_inv. Qed.
Theorem C14_add_named_inv : forall path name ispkg m,
  imap_inv m -> imap_inv (add_named path name ispkg m).
Proof. exact add_named_inv. Qed.

(* UseName ranges over the map and sets inUse on every entry whose alias matches: each write
   goes to its own entry, so the handler afterwards is the same in every order ... *)
Theorem C14_use_name : forall pi pi' name h, imap_inv (ih_imports h) -> iter_ok pi ->
  iter_ok pi' -> use_name pi name h = use_name pi' name h.
Proof. exact use_name_indep. Qed.
(* ... and still a map filed by PkgPath *)
Theorem C14_use_name_inv : forall pi name h, imap_inv (ih_imports h) -> iter_ok pi ->
  imap_inv (ih_imports (use_name pi name h)).
Proof. exact use_name_inv. Qed.

(* unusedName (fix 0af0409): `bound` ranges over the map and stops at the first entry whose alias
   is the candidate — an existsb: the answer, and with it the name chosen for an on-demand
   import, is the same in every order *)
Theorem C14_name_bound : forall pi pi' scope cand h, iter_ok pi -> iter_ok pi' ->
  name_bound pi scope cand h = name_bound pi' scope cand h.
Proof. exact name_bound_indep. Qed.
Theorem C14_unused_name : forall itoa pis pis' scope name h fuel,
  (forall n, iter_ok (pis n)) -> (forall n, iter_ok (pis' n)) ->
  unused_name itoa pis scope name h fuel = unused_name itoa pis' scope name h fuel.
Proof. exact unused_name_indep. Qed.

(* GetActive: the in-use entries of the map (map order), then the in-use shadowed ones (slice
   order), sort.Slice by (PkgPath, Alias).  Assumed: entries with equal (path, alias) are
   equal — an alias names one import spec of a Go file; the only repeatable name is `_`, and
   two `_ "p"` specs of one path give equal entries *)
Theorem C14_imports : forall h,
  (forall a b, In a (map snd (ih_imports h) ++ ih_shadowed h) ->
               In b (map snd (ih_imports h) ++ ih_shadowed h) ->
               im_path a = im_path b -> im_alias a = im_alias b -> a = b) ->
  forall pi pi' srt srt', iter_ok pi -> iter_ok pi' ->
  sort_ok import_lt srt -> sort_ok import_lt srt' ->
  get_active pi srt h = get_active pi' srt' h.
Proof. exact get_active_indep. Qed.
(* the same under the simpler, stronger hypothesis that the (path, alias) pairs are distinct *)
Theorem C14_imports_nodup : forall h,
  NoDup (map (fun d => (im_path d, im_alias d)) (map snd (ih_imports h) ++ ih_shadowed h)) ->
  forall pi pi' srt srt', iter_ok pi -> iter_ok pi' ->
  sort_ok import_lt srt -> sort_ok import_lt srt' ->
  get_active pi srt h = get_active pi' srt' h.
Proof. exact get_active_indep_nodup. Qed.

(* --- gerror ----------------------------------------------------------------------------- *)

(* sort.Sort(fields) by Name, field names of one struct pairwise distinct *)
Theorem C14_gerror : forall srt srt' fs,
  NoDup (map ef_name fs) -> sort_ok efield_lt srt -> sort_ok efield_lt srt' ->
  gerror_fields srt fs = gerror_fields srt' fs.
Proof. exact gerror_fields_indep. Qed.
(* FieldsToPrint / FieldsToClone: filter the sorted fields and sort again *)
Theorem C14_gerror_print : forall srt srt' srt2 srt2' fs,
  NoDup (map ef_name fs) ->
  sort_ok efield_lt srt -> sort_ok efield_lt srt' ->
  sort_ok efield_lt srt2 -> sort_ok efield_lt srt2' ->
  fields_to_print srt srt2 fs = fields_to_print srt' srt2' fs.
Proof. exact fields_to_print_indep. Qed.
Theorem C14_gerror_clone : forall srt srt' srt2 srt2' fs,
  NoDup (map ef_name fs) ->
  sort_ok efield_lt srt -> sort_ok efield_lt srt' ->
  sort_ok efield_lt srt2 -> sort_ok efield_lt srt2' ->
  fields_to_clone srt srt2 fs = fields_to_clone srt' srt2' fs.
Proof. exact fields_to_clone_indep. Qed.

(* --- gencommon Interface.Methods --------------------------------------------------------- *)

(* namedTypeToInterface appends the promoted embedded methods in the iteration order of the
   methodsToAdd map; the consumers (Methods.Exported / Private) sort by the generated
   Methods.Less (IsExported, Name).  With method names of one interface pairwise distinct the
   sorted list does not depend on that order nor on the sort's treatment of ties *)
Theorem C14_iface_methods_sorted : forall pi pi' srt srt' promoted own to_add,
  iter_ok pi -> iter_ok pi' -> sort_ok method_lt srt -> sort_ok method_lt srt' ->
  NoDup (map gm_name (own ++ map snd to_add)) ->
  srt (iface_methods pi promoted own to_add) = srt' (iface_methods pi' promoted own to_add).
Proof. exact iface_methods_sorted_indep. Qed.
(* gerror files the factory comments under the method name and the template looks them up by
   name: the comment found does not depend on the order either *)
Theorem C14_iface_comment_lookup : forall name pi pi' promoted own to_add,
  iter_ok pi -> iter_ok pi' -> NoDup (map gm_name (own ++ map snd to_add)) ->
  comment_of name (iface_methods pi promoted own to_add) =
  comment_of name (iface_methods pi' promoted own to_add).
Proof. exact iface_comment_indep. Qed.

(* --- whole invocations -------------------------------------------------------------------- *)
(* The theorems above are per step.  Composed per generator (GenDetWholeModel.v) — gsort's
   composition is C14_gsort itself — with the key-distinctness hypotheses collected into one
   well-formedness predicate of the INPUT, which states what Go's type checker guarantees of a
   package that compiles (names of a struct's fields / of a package's constants are distinct). *)

(* gerror: the rows handed to the template (fields, FieldsToPrint, FieldsToClone per type, in
   -types order) are the same for all outcomes of the three sorts *)
Theorem C14_gerror_whole : forall types srt srtp srtc srt' srtp' srtc',
  wf_gerror_in types ->
  sort_ok efield_lt srt -> sort_ok efield_lt srtp -> sort_ok efield_lt srtc ->
  sort_ok efield_lt srt' -> sort_ok efield_lt srtp' -> sort_ok efield_lt srtc' ->
  gerror_table srt srtp srtc types = gerror_table srt' srtp' srtc' types.
Proof. exact gerror_table_indep. Qed.
(* genum, one enum type: sort of the values, sort of every trait column, processDuplicates, sort of
   the traits.  Value.Less admits no sort FUNCTION on arbitrary values (C14_value_less_no_global_sort),
   so a run is a relation `genum_run input output`; it is functional: whatever the runtime
   chooses, two runs hand the same values and traits to the template *)
Theorem C14_genum_whole : forall i o o',
  wf_genum_in i -> genum_run i o -> genum_run i o' -> o = o'.
Proof. exact genum_run_functional. Qed.
(* ... and total on inputs of one signedness (the constants of one Go type) *)
Theorem C14_genum_whole_exists : forall i sg,
  (forall v, In v (gi_consts i) -> ev_signed v = sg) ->
  (forall t x, In t (gi_traits i) -> In x (td_insts t) -> ev_signed (ti_owner x) = sg) ->
  exists o, genum_run i o.
Proof. exact genum_run_exists. Qed.

(* --- the package state before the run ---------------------------------------------------- *)
(* "runs made while a previous output file already sits in the package all write byte-identical
   files".  GenDetStateModel.v makes the state of the package directory an input of a
   generation: LoadPackages type-checks every file of the package, the file at the output path
   included; the one thing the generators read from it that a previous output can change is
   genum's "does the type of this parsable trait implement json/yaml/text Unmarshaler", which
   picks the decoding strategy (`decode_plan`); everything else in the output is drawn from
   the definition file alone.                                                                  *)

(* CURRENT code (fix ac1d647: genum loads the package with the file at the output path overlaid
   by a bare package clause — the previous content of that file is no input of the generation
   any more; fix d8826bb: a trait type that is an enum of this invocation is described by what
   the invocation generates).  Whatever sits at the output path — nothing, the previous output,
   the output of another -types list or of other switches, a foreign file — the plan is the
   same: no hypothesis on the definition or on the state. *)
Theorem C14_prev_output : forall iv src st st' ts,
  genum_plan iv src st ts = genum_plan iv src st' ts.
Proof. exact plan_any_state. Qed.
(* ... namely what the previous stage (d8826bb) produced on a fresh package *)
Theorem C14_prev_output_is_fresh : forall iv src st ts,
  genum_plan iv src st ts = genum_plan_d8826bb iv src PFresh ts.
Proof. exact plan_is_fresh_d8826bb. Qed.

(* record of the stage d8826bb .. ac707f2 (trait types of the invocation described by the
   invocation, but the package still loaded with whatever sat at the output path): any previous
   output of the SAME -types list was harmless ... *)
Theorem C14_prev_output_d8826bb : forall iv src json yaml text ts,
  genum_plan_d8826bb iv src (PPrev (genum_declares (iv_types iv) json yaml text)) ts
  = genum_plan_d8826bb iv src PFresh ts.
Proof. exact plan_own_output_d8826bb. Qed.
Theorem C14_state_blind_d8826bb : forall iv src st ts,
  state_blind iv st ts -> genum_plan_d8826bb iv src st ts = genum_plan_d8826bb iv src PFresh ts.
Proof. exact plan_state_blind_d8826bb. Qed.
(* ... stale outputs of OTHER -types lists only when every parsable trait typed by a type of the
   old list is typed by a type of the new list ... *)
Theorem C14_stale_output_d8826bb_partial : forall iv src types' json yaml text ts,
  covers (iv_types iv) types' ts ->
  genum_plan_d8826bb iv src (PPrev (genum_declares types' json yaml text)) ts
  = genum_plan_d8826bb iv src PFresh ts.
Proof. exact plan_stale_output_d8826bb. Qed.
(* ... and not in general (finding C14-genum-stale-dropped-type, found by the farm's stale-output
   history on the feedback stream; repaired by ac1d647) *)
Theorem C14_stale_output_d8826bb_refuted :
  exists iv src types' json yaml text ts,
    genum_plan_d8826bb iv src (PPrev (genum_declares types' json yaml text)) ts
    <> genum_plan_d8826bb iv src PFresh ts.
Proof. exact stale_superset_refuted. Qed.

(* the code up to c36dccd asked go/types about every trait type: kept as a record *)
Theorem C14_prev_output_orig_refuted :
  exists src types json yaml text ts,
    genum_plan_orig src (PPrev (genum_declares types json yaml text)) ts
    <> genum_plan_orig src PFresh ts.
Proof. exact prev_output_orig_refuted. Qed.
Theorem C14_prev_output_orig_partial : forall src types json yaml text ts,
  no_selfref types ts ->
  genum_plan_orig src (PPrev (genum_declares types json yaml text)) ts = genum_plan_orig src PFresh ts.
Proof. exact plan_own_output_orig. Qed.

(* the audit's counterexample (`Red, _Kind = Color(iota), KA`, -types Kind,Color,
   -parsableByTraits=Kind): violates no_selfref; the old code decodes Kind by the integer cast when
   fresh and natively over its previous output; the current code natively both times; the residual
   (-types Color alone over the old output) is outside `covers` *)
Example C14_ex_selfref_counterexample :
  ~ no_selfref cx_types cx_traits
  /\ map fst (genum_plan_orig [] PFresh cx_traits) = [[]; []; []]
  /\ map fst (genum_plan_orig [] (PPrev (genum_declares cx_types true true true)) cx_traits)
     = [cx_traits; cx_traits; []]
  /\ map fst (genum_plan cx_inv [] PFresh cx_traits) = [cx_traits; cx_traits; []]
  /\ genum_plan cx_inv [] (PPrev (genum_declares cx_types true true true)) cx_traits
     = genum_plan cx_inv [] PFresh cx_traits
  /\ genum_plan cx_inv_dropped [] (PPrev (genum_declares cx_types true true true)) cx_traits
     = genum_plan cx_inv_dropped [] PFresh cx_traits
  /\ ~ covers (iv_types cx_inv_dropped) cx_types cx_traits.
Proof.
  split; [exact cx_selfref|]. repeat split; try (vm_compute; reflexivity).
  exact cx_dropped_not_covered.
Qed.

(* --- the hypotheses can be met ----------------------------------------------------------- *)

(* Go's string `<` is a strict weak (indeed total) order ... *)
Theorem C14_str_lt_swo : swo str_lt.
Proof. exact str_lt_swo. Qed.
(* ... insertion sort is a correct sort for every strict weak order ... *)
Theorem C14_isort_sort_ok : forall A (lt : A -> A -> bool), swo lt -> sort_ok lt (isort lt).
Proof. exact isort_sort_ok. Qed.
(* ... so the sort_ok hypotheses of C14_gsort, C14_genum_dups, C14_imports, C14_gerror* have
   instances *)
Theorem C14_sort_ok_desc : sort_ok desc_lt (isort desc_lt).
Proof. exact sort_ok_desc. Qed.
Theorem C14_sort_ok_trait : sort_ok trait_lt (isort trait_lt).
Proof. exact sort_ok_trait. Qed.
Theorem C14_sort_ok_import : sort_ok import_lt (isort import_lt).
Proof. exact sort_ok_import. Qed.
Theorem C14_sort_ok_efield : sort_ok efield_lt (isort efield_lt).
Proof. exact sort_ok_efield. Qed.

Theorem C14_sort_ok_method : sort_ok method_lt (isort method_lt).
Proof. exact sort_ok_method. Qed.

(* --- non-vacuity: concrete instances ------------------------------------------------------ *)

Example C14_ex_iter_id : iter_ok (fun l : list nat => l).
Proof. exact (iter_ok_id nat). Qed.
Example C14_ex_iter_rev : iter_ok (@rev nat).
Proof. exact (iter_ok_rev nat). Qed.

Local Open Scope string_scope.

(* gsort -types=U,T with
     type T struct { Name string `gsort:"ByName,1" gsort:"ByAge,2"`; Age int `gsort:"ByAge,1"` }
     type U struct { X bool `gsort:"*ByX,1"` }                                              *)
Definition ex_T : list fieldT :=
  [ {| fd_name := "Name"; fd_isbool := false;
       fd_tags := [ {| tg_sorter := "ByName"; tg_prio := 1; tg_acc := "" |};
                    {| tg_sorter := "ByAge"; tg_prio := 2; tg_acc := "" |} ] |};
    {| fd_name := "Age"; fd_isbool := false;
       fd_tags := [ {| tg_sorter := "ByAge"; tg_prio := 1; tg_acc := "" |} ] |} ].
Definition ex_U : list fieldT :=
  [ {| fd_name := "X"; fd_isbool := true;
       fd_tags := [ {| tg_sorter := "*ByX"; tg_prio := 1; tg_acc := "" |} ] |} ].
Definition ex_types : list (string * list fieldT) := [("U", ex_U); ("T", ex_T)].
(* the table sorted by (type, sorter): T/ByAge, T/ByName, U/*ByX *)
Definition ex_table : list sdesc :=
  [ {| sd_type := "T"; sd_sorter := "ByAge";
       sd_fields := [ {| sf_idx := 1; sf_name := "Age"; sf_isbool := false; sf_acc := "";
                         sf_sorter := "ByAge"; sf_prio := 1 |};
                      {| sf_idx := 0; sf_name := "Name"; sf_isbool := false; sf_acc := "";
                         sf_sorter := "ByAge"; sf_prio := 2 |} ] |};
    {| sd_type := "T"; sd_sorter := "ByName";
       sd_fields := [ {| sf_idx := 0; sf_name := "Name"; sf_isbool := false; sf_acc := "";
                         sf_sorter := "ByName"; sf_prio := 1 |} ] |};
    {| sd_type := "U"; sd_sorter := "*ByX";
       sd_fields := [ {| sf_idx := 0; sf_name := "X"; sf_isbool := true; sf_acc := "";
                         sf_sorter := "*ByX"; sf_prio := 1 |} ] |} ].

(* in collection order (U first; ByName before ByAge) and in reversed map order the unsorted
   tables differ ... *)
Example C14_ex_gsort_collect_differs :
  gsort_collect (fun _ l => l) 0 ex_types <> gsort_collect (fun _ => @rev _) 0 ex_types.
Proof. vm_compute. discriminate. Qed.
(* ... the sorted one is the expected table *)
Example C14_ex_gsort_rev :
  gsort_tables (fun _ => @rev _) (isort desc_lt) ex_types = Some ex_table.
Proof. vm_compute. reflexivity. Qed.
Example C14_ex_types_functional : forall t f1 f2,
  In (t, f1) ex_types -> In (t, f2) ex_types -> f1 = f2.
Proof.
  intros t f1 f2 H1 H2. cbn [ex_types In] in H1, H2.
  destruct H1 as [E1|[E1|[]]], H2 as [E2|[E2|[]]]; congruence.
Qed.
(* and, by the theorem, so it is for every choice of orders and every correct sort *)
Example C14_ex_gsort_all : forall pis srt,
  (forall n, iter_ok (pis n)) -> sort_ok desc_lt srt ->
  gsort_tables pis srt ex_types = Some ex_table.
Proof.
  intros pis srt Hp Hs.
  rewrite (C14_gsort ex_types C14_ex_types_functional pis (fun _ => @rev _) srt (isort desc_lt)
             Hp (fun _ => iter_ok_rev sdesc) Hs C14_sort_ok_desc).
  exact C14_ex_gsort_rev.
Qed.

(* imports: `import tm "time"; import "fmt"; import "time"` — the first spec of path "time" is
   overwritten in the map and kept in the shadowed slice; then UseName("tm") (marks the
   shadowed entry) and addNamed for a type of package fmt *)
Definition ex_specs : list (string * string * bool) :=
  [("time", "tm", false); ("fmt", "fmt", true); ("time", "time", true)].
Definition ex_handler (pi0 : imap -> imap) : ihandler :=
  add_named_h "fmt" "fmt" true (use_name pi0 "tm" (calc_handler ex_specs)).
Example C14_ex_shadowed :
  ih_shadowed (calc_handler ex_specs) =
  [ {| im_alias := "tm"; im_path := "time"; im_alias_is_pkg := false; im_inuse := false |} ]
  /\ map fst (ih_imports (calc_handler ex_specs)) = ["time"; "fmt"]
  /\ use_name_found "tm" (calc_handler ex_specs) = true.
Proof. vm_compute. repeat split. Qed.
Example C14_ex_imap_inv : imap_inv (ih_imports (ex_handler (@rev _))).
Proof.
  exact (C14_add_named_inv "fmt" "fmt" true _
           (C14_use_name_inv (@rev _) "tm" _ (C14_calc_imports_inv ex_specs) (iter_ok_rev _))).
Qed.
Example C14_ex_handler_value :
  ex_handler (@rev _) =
  {| ih_imports :=
       [ ("time", {| im_alias := "time"; im_path := "time"; im_alias_is_pkg := true;
                     im_inuse := false |});
         ("fmt", {| im_alias := "fmt"; im_path := "fmt"; im_alias_is_pkg := true;
                    im_inuse := true |}) ];
     ih_shadowed :=
       [ {| im_alias := "tm"; im_path := "time"; im_alias_is_pkg := false; im_inuse := true |} ] |}.
Proof. vm_compute. reflexivity. Qed.
Example C14_ex_active_rev :
  get_active (@rev _) (isort import_lt) (ex_handler (@rev _)) =
  [ {| im_alias := "fmt"; im_path := "fmt"; im_alias_is_pkg := true; im_inuse := true |};
    {| im_alias := "tm"; im_path := "time"; im_alias_is_pkg := false; im_inuse := true |} ].
Proof. vm_compute. reflexivity. Qed.
(* and, by the theorems, the same for every order of both map ranges and every correct sort *)
Example C14_ex_active_all : forall pi0 pi srt, iter_ok pi0 -> iter_ok pi ->
  sort_ok import_lt srt ->
  get_active pi srt (ex_handler pi0) =
  [ {| im_alias := "fmt"; im_path := "fmt"; im_alias_is_pkg := true; im_inuse := true |};
    {| im_alias := "tm"; im_path := "time"; im_alias_is_pkg := false; im_inuse := true |} ].
Proof.
  intros pi0 pi srt Hp0 Hp Hs. unfold ex_handler.
  rewrite (C14_use_name pi0 (@rev _) "tm" (calc_handler ex_specs)
             (C14_calc_imports_inv ex_specs) Hp0 (iter_ok_rev _)).
  fold (ex_handler (@rev _)).
  rewrite (C14_imports_nodup (ex_handler (@rev _))) with (pi' := @rev _)
                                                         (srt' := isort import_lt).
  - exact C14_ex_active_rev.
  - vm_compute. repeat constructor; cbn [In]; intros K; repeat destruct K as [K|K];
      try discriminate K; exact K.
  - exact Hp.
  - apply iter_ok_rev.
  - exact Hs.
  - exact C14_sort_ok_import.
Qed.

(* genum: two unsafe duplicate groups; stripping commutes, the traits come out the same in both
   orders *)
Definition ex_traits : list tdesc :=
  [ {| td_name := "Zeta"; td_typeref := "string"; td_parsable := true;
       td_insts := map (fun v => {| ti_owner := v; ti_value := ev_name v |}) warn_vals |};
    {| td_name := "Alpha"; td_typeref := "int"; td_parsable := false;
       td_insts := map (fun v => {| ti_owner := v; ti_value := "x" |}) (rev warn_vals) |} ].
Example C14_ex_dups :
  process_dups (fun l => l) (isort trait_lt) warn_vals ex_traits =
  process_dups (@rev _) (isort trait_lt) warn_vals ex_traits
  /\ map td_name (process_dups (@rev _) (isort trait_lt) warn_vals ex_traits) = ["Alpha"; "Zeta"]
  /\ map (fun t => map (fun i => ev_name (ti_owner i)) (td_insts t))
         (process_dups (@rev _) (isort trait_lt) warn_vals ex_traits)
     = [["B1"; "A1"]; ["A1"; "B1"]].
Proof. vm_compute. repeat split. Qed.
(* a sorted arrangement of these values exists and is the expected one *)
Example C14_ex_values :
  isort value_lt (rev warn_vals) = warn_vals /\ sorted value_lt warn_vals.
Proof.
  split; [vm_compute; reflexivity|].
  replace warn_vals with (isort value_lt (rev warn_vals)) by (vm_compute; reflexivity).
  apply (C14_genum_values_sortable false).
  intros v Hin. cbn in Hin. repeat destruct Hin as [<-|Hin]; try reflexivity. destruct Hin.
Qed.

(* Interface.Methods: one own method, two promoted embedded ones and one shadowed (not
   promoted); the unsorted lists differ between the two map orders, the sorted ones and the
   comment lookups do not *)
Definition ex_own : list gmethod :=
  [ {| gm_name := "String"; gm_exported := true; gm_comment := "own" |} ].
Definition ex_to_add : list (string * gmethod) :=
  [ ("Swap", {| gm_name := "Swap"; gm_exported := true; gm_comment := "swap" |});
    ("less", {| gm_name := "less"; gm_exported := false; gm_comment := "less" |});
    ("Hidden", {| gm_name := "Hidden"; gm_exported := true; gm_comment := "hidden" |}) ].
Definition ex_promoted (n : string) : bool := negb (String.eqb n "Hidden").
Example C14_ex_iface :
  iface_methods (fun l => l) ex_promoted ex_own ex_to_add
    <> iface_methods (@rev _) ex_promoted ex_own ex_to_add
  /\ isort method_lt (iface_methods (fun l => l) ex_promoted ex_own ex_to_add)
     = isort method_lt (iface_methods (@rev _) ex_promoted ex_own ex_to_add)
  /\ map gm_name (isort method_lt (iface_methods (@rev _) ex_promoted ex_own ex_to_add))
     = ["less"; "String"; "Swap"]
  /\ comment_of "Swap" (iface_methods (fun l => l) ex_promoted ex_own ex_to_add) = Some "swap"
  /\ comment_of "Swap" (iface_methods (@rev _) ex_promoted ex_own ex_to_add) = Some "swap".
Proof. vm_compute. repeat split. discriminate. Qed.
Example C14_ex_iface_all : forall pi srt, iter_ok pi -> sort_ok method_lt srt ->
  map gm_name (srt (iface_methods pi ex_promoted ex_own ex_to_add)) = ["less"; "String"; "Swap"].
Proof.
  intros pi srt Hp Hs.
  rewrite (C14_iface_methods_sorted pi (@rev _) srt (isort method_lt) ex_promoted ex_own
             ex_to_add Hp (iter_ok_rev _) Hs C14_sort_ok_method).
  - vm_compute. reflexivity.
  - vm_compute. repeat constructor; cbn [In]; intros K; repeat destruct K as [K|K];
      try discriminate K; exact K.
Qed.

Print Assumptions C14_sort_choice_unique.
Print Assumptions C14_lookup_first.
Print Assumptions C14_gsort.
Print Assumptions C14_genum_dups_any_order.
Print Assumptions C14_genum_dups.
Print Assumptions C14_genum_values.
Print Assumptions C14_genum_insts.
Print Assumptions C14_value_less_mixed_cycle.
Print Assumptions C14_value_less_no_global_sort.
Print Assumptions C14_genum_values_sortable.
Print Assumptions C14_genum_insts_sortable.
Print Assumptions C14_warning_order_is_choice.
Print Assumptions C14_imap_inv_def.
Print Assumptions C14_calc_imports_inv.
Print Assumptions C14_add_named_inv.
Print Assumptions C14_use_name.
Print Assumptions C14_use_name_inv.
Print Assumptions C14_imports.
Print Assumptions C14_imports_nodup.
Print Assumptions C14_gerror.
Print Assumptions C14_gerror_print.
Print Assumptions C14_gerror_clone.
Print Assumptions C14_str_lt_swo.
Print Assumptions C14_isort_sort_ok.
Print Assumptions C14_sort_ok_desc.
Print Assumptions C14_sort_ok_trait.
Print Assumptions C14_sort_ok_import.
Print Assumptions C14_sort_ok_efield.
Print Assumptions C14_iface_methods_sorted.
Print Assumptions C14_iface_comment_lookup.
Print Assumptions C14_sort_ok_method.
Print Assumptions C14_prev_output.
Print Assumptions C14_prev_output_is_fresh.
Print Assumptions C14_prev_output_d8826bb.
Print Assumptions C14_state_blind_d8826bb.
Print Assumptions C14_stale_output_d8826bb_partial.
Print Assumptions C14_stale_output_d8826bb_refuted.
Print Assumptions C14_prev_output_orig_refuted.
Print Assumptions C14_prev_output_orig_partial.
Print Assumptions C14_name_bound.
Print Assumptions C14_unused_name.
Print Assumptions C14_gerror_whole.
Print Assumptions C14_genum_whole.
Print Assumptions C14_genum_whole_exists.
