(* C06 — gerror: errors.Is identifies exactly the originating factory, never panics.
   Property theorems only; every proof is `exact <lemma>`.

   Model: GErrModel.v (store of GError records and extension structs, interface equality with
   Go's panic rule, GError.Is / Unwrap / ExtractFactoryReference, the stdlib errors.Is loop,
   CloneBase and the 19 methods of both GError and generated extension types).
   Quantification: every store reachable from any pool of factories (base factories made with
   FactoryOf or bare, extension factories made with FactoryOf — [root_cell]) by any history of
   any length of the 19 methods with any arguments ([reachable]); errors.Is between any two
   values that are nil, a gerror value of the store, or a foreign error (any dynamic type,
   comparable or not) whose Unwrap chain holds no gerror value ([admissible]).

   Current tree = repaired code ([errors_is], comparability guard in front of
   `e.srcError == err`).  Records of the pinned code: [errors_is_orig] panics
   (C06_no_panic_orig_refuted).

   Second repair (finding C06-second-convert, now fixed): Convert/ConvertS applied to an error that
   already carries a converted error used to drop the new one; CloneBase now appends it to
   laterSrcErrors ([g_later]) and Is also walks that list, so [C06_convert_fwd] holds for every
   receiver.  Record of the old code: [C06_convert_fwd_orig_refuted].                          *)
From Coq Require Import NArith List Bool.
From GT Require Import Base.GErrStr.
From GT Require Import GErrModel GErrSpec GErrHist GErrIsProofs GErrHistProofs.
From GT Require Import GErrIsJudge GErrIsJudgeProofs.
Import ListNotations.

(* ---- every reachable store is well formed ---- *)
Theorem C06_reachable_wf : forall xw st, guarded_wiring xw -> reachable xw st -> wf st.
Proof. exact reachable_wf. Qed.

Theorem C06_wirings_guarded : guarded_wiring base_wiring /\ guarded_wiring ext_wiring.
Proof. exact (conj base_wiring_guarded ext_wiring_guarded). Qed.

(* ---- a chain of derivations never changes the originating factory ---- *)
Theorem C06_chain_keeps_factory : forall xw, guarded_wiring xw -> forall ch st v st' r i,
  wf st -> gv st v = Some i ->
  Forall (fun s => admissible st (a_err (snd s))) ch ->
  forallb no_shortcut ch = true ->
  derive xw st v ch = Some (st', r) ->
  wf st' /\ exists k, gv st' r = Some k /\ origin st' k = origin st i /\ length st <= length st'
     /\ (ch = [] \/ (length st <= k /\ exists ck, nth_error st' k = Some ck /\ g_isfac (c_g ck) = false)).
Proof. exact derive_origin. Qed.

(* ---- the property's first sentence in one statement: for any pool, any factory F of it, any
        chain of any length with any admissible arguments ---- *)
Theorem C06_derived_errors_identify_their_factory : forall xw st F ch st' e,
  guarded_wiring xw -> Forall root_cell st -> F < length st ->
  Forall (fun s => admissible st (a_err (snd s))) ch -> forallb no_shortcut ch = true ->
  derive xw st (val_of st F) ch = Some (st', e) ->
  errors_is st' e (val_of st' F) = Ok true
  /\ (forall G, G < length st -> G <> F -> errors_is st' e (val_of st' G) = Ok false)
  /\ (ch <> [] -> extract_fref st' e = VG F).
Proof. exact headline. Qed.

(* ---- errors.Is between any two gerror values decides "same originating factory" ---- *)
Theorem C06_is_origin : forall st va vb i j,
  wf st -> gv st va = Some i -> gv st vb = Some j ->
  errors_is st va vb = Ok (Nat.eqb (origin st i) (origin st j)).
Proof. exact is_origin. Qed.

(* a foreign error that wraps a gerror value (fmt.Errorf("...%w", err), any depth) is matched
   exactly as the value it wraps *)
Theorem C06_wrapped_source : forall st va vb i j,
  wf st -> inner_gv st va = Some i -> gv st vb = Some j ->
  errors_is st va vb = Ok (Nat.eqb (origin st i) (origin st j)).
Proof. exact (fun st va vb i j W => errors_is_wrapped true st W va vb i j). Qed.

(* errors.Is(err, F) holds for the factory F the error was derived from *)
Theorem C06_is_own : forall st e i vf F cF,
  wf st -> gv st e = Some i -> gv st vf = Some F -> nth_error st F = Some cF ->
  g_fref (c_g cF) = VNil -> origin st i = F -> errors_is st e vf = Ok true.
Proof. exact is_own. Qed.

(* errors.Is(err, G) is false for every other factory G *)
Theorem C06_not_other : forall st e i vg G cG,
  wf st -> gv st e = Some i -> gv st vg = Some G -> nth_error st G = Some cG ->
  g_fref (c_g cG) = VNil -> origin st i <> G -> errors_is st e vg = Ok false.
Proof. exact is_not_other. Qed.

(* errors.Is holds between any two errors derived from the same factory (either direction,
   the factory itself included) *)
Theorem C06_siblings : forall st e1 e2 i j,
  wf st -> gv st e1 = Some i -> gv st e2 = Some j -> origin st i = origin st j ->
  errors_is st e1 e2 = Ok true.
Proof. exact is_siblings. Qed.

(* ---- ExtractFactoryReference: the value itself for anything made a factory with FactoryOf
        (a pool factory or a sub-factory), else the originating factory's record for a derived
        error, nil for a bare *GError used directly ---- *)
Theorem C06_extract : forall st v j cj,
  wf st -> gv st v = Some j -> nth_error st j = Some cj ->
  extract_fref st v =
  if g_isfac (c_g cj) then VG j
  else if is_nil (g_fref (c_g cj)) then VNil else VG (origin st j).
Proof. exact extract_gerr. Qed.

(* ---- Convert / ConvertS ---- *)
(* the clause as the property states it: for every receiver (also one that already carries
   converted errors), every comparable foreign error e: errors.Is(result, e) *)
Definition C06_convert_fwd_full_statement : Prop :=
  forall xw st v m a st' r i t p u,
    guarded_wiring xw -> wf st -> gv st v = Some i ->
    w_serr (wt_of xw v m) = EErr -> a_err a = VF t true p u -> chain_ok st u = true ->
    call xw st v m a = Some (st', r) ->
    errors_is st' r (VF t true p u) = Ok true.

Theorem C06_convert_fwd : C06_convert_fwd_full_statement.
Proof. exact convert_fwd_full. Qed.

(* exactly Convert and ConvertS pass the error on *)
Theorem C06_convert_methods : forall m, w_serr (base_wiring m) = EErr <-> is_convert m = true.
Proof. exact convert_wiring. Qed.

(* in general: the first converted error of the chain stays srcError, later ones are appended;
   the result matches exactly the recorded ones, and never panics *)
Theorem C06_convert_fwd_general : forall xw st v m a st' r i ci t c p u,
  guarded_wiring xw -> wf st -> gv st v = Some i -> nth_error st i = Some ci ->
  w_serr (wt_of xw v m) = EErr -> a_err a = VF t c p u -> chain_ok st u = true ->
  call xw st v m a = Some (st', r) ->
  errors_is st' r (VF t c p u)
  = Ok (conv_after (g_serr (c_g ci)) (g_later (c_g ci)) (VF t c p u)).
Proof. exact convert_is_fwd. Qed.

(* errors.Is(gerror value, foreign value) in any well-formed store: some recorded error matches *)
Theorem C06_is_foreign_target : forall st va i ci t c p u,
  wf st -> gv st va = Some i -> nth_error st i = Some ci ->
  errors_is st va (VF t c p u) = Ok (conv_match (c_g ci) (VF t c p u)).
Proof. exact (fun st va i ci t c p u W => errors_is_gf st W va i ci t c p u). Qed.

(* a non-comparable converted error can never compare equal: false, without panic *)
Theorem C06_convert_fwd_noncomparable : forall xw st v m a st' r i ci t p u,
  guarded_wiring xw -> wf st -> gv st v = Some i -> nth_error st i = Some ci ->
  w_serr (wt_of xw v m) = EErr -> a_err a = VF t false p u -> chain_ok st u = true ->
  call xw st v m a = Some (st', r) ->
  errors_is st' r (VF t false p u) = Ok false.
Proof. exact convert_fwd_noncomparable. Qed.

(* errors.Is(e, result) stays false *)
Theorem C06_convert_bwd : forall xw st v m a st' r t c p u,
  guarded_wiring xw -> wf st -> (exists i, gv st v = Some i) ->
  a_err a = VF t c p u -> pure u = true ->
  call xw st v m a = Some (st', r) ->
  errors_is st' (VF t c p u) r = Ok false.
Proof. exact convert_is_bwd. Qed.

(* errors that already are gerror errors are returned unchanged, nothing is allocated *)
Theorem C06_convert_idem : forall xw st v m a i,
  gv st v = Some i -> w_guard (wt_of xw v m) = true -> is_gerr_val (a_err a) = true ->
  call xw st v m a = Some (st, a_err a).
Proof. exact call_convert_idem. Qed.

(* two Converts in a row: both foreign errors match the result, the sibling does not see the
   later one; and the record of the code before the repair, where the second one was lost *)
Theorem C06_second_convert_example :
  match call base_wiring panic_store (VG 0) MConvert (mkA [] [] [] e_one [] 0 [109%N]) with
  | Some (st1, r1) =>
      match call base_wiring st1 r1 MConvert (mkA [] [] [] e_two [] 1 [109%N]) with
      | Some (st2, r2) =>
          errors_is st2 r2 e_two = Ok true /\ errors_is st2 r2 e_one = Ok true
          /\ errors_is st2 r1 e_two = Ok false
      | None => False
      end
  | None => False
  end.
Proof. exact double_convert_recorded. Qed.

Theorem C06_convert_fwd_orig_refuted :
  match call base_wiring panic_store (VG 0) MConvert (mkA [] [] [] e_one [] 0 [109%N]) with
  | Some (st1, r1) =>
      match call base_wiring st1 r1 MConvert (mkA [] [] [] e_two [] 1 [109%N]) with
      | Some (st2, r2) =>
          errors_is (map orig_cell st2) r2 e_two = Ok false
          /\ errors_is (map orig_cell st2) r2 e_one = Ok true
      | None => False
      end
  | None => False
  end.
Proof. exact double_convert_orig_not_recorded. Qed.

(* ---- none of these calls panics, for any source and any target ---- *)
(* whenever a gerror value is the source or the target: every admissible other side (nil, a valid
   gerror value, a foreign error of ANY dynamic type — non-comparable, or of a comparable type
   whose value is not comparable — wrapping nothing or, through %w, a gerror value) *)
Theorem C06_no_panic : forall st va vb,
  wf st -> admissible st va -> admissible st vb ->
  is_gerr_val va = true \/ is_gerr_val vb = true ->
  exists b, errors_is st va vb = Ok b.
Proof. exact errors_is_total_gerr. Qed.

(* the general form: the only panicking pair left is the stdlib's own `err == target` on two
   FOREIGN errors of one deeply non-comparable dynamic type, where no gerror code runs *)
Theorem C06_no_panic_general : forall st va vb,
  wf st -> admissible st va -> admissible st vb ->
  (is_gerr_val va = false -> va <> VNil -> deep vb = false) ->
  exists b, errors_is st va vb = Ok b.
Proof. exact errors_is_total. Qed.

(* the code before the value-level comparability repair (guard = reflect.TypeOf(e).Comparable()):
   Convert of struct{v any}{[]int{..}}, then result.Is(that error) panics; repaired: false *)
Theorem C06_no_panic_type_guard_refuted :
  match call base_wiring panic_store (VG 0) MConvert deep_args with
  | Some (st', r) =>
      type_comparable deep_err = true /\ comparable deep_err = false
      /\ gerr_is_ty 4 st' 1 deep_err = Panic /\ r = VG 1
      /\ errors_is st' r deep_err = Ok false
  | None => False
  end.
Proof. exact type_guard_panics. Qed.

(* the pinned code did: Convert of a slice-typed error, then errors.Is(result, that error) *)
Theorem C06_no_panic_orig_refuted :
  exists st va vb, wf st /\ admissible st va /\ admissible st vb /\ errors_is_orig st va vb = Panic.
Proof. exact no_panic_orig_refuted. Qed.

(* observation outside the quantified pool: an extension factory used bare (no FactoryOf) is
   not matched by its own derivations *)
Theorem C06_bare_extension_observation :
  match call ext_wiring bare_ext_store (VX 0) MMsg (mkA [] [] [104%N] VNil [] 0 [109%N]) with
  | Some (st', r) => errors_is st' r (VX 0) = Ok false /\ errors_is st' (VX 0) r = Ok true
  | None => False
  end.
Proof. exact bare_ext_not_matched. Qed.

(* ---- the judge's executable specification (GErrHist.spec_ops / spec_is / spec_extract, the
        bookkeeping computed from the HISTORY alone that GErrIsJudge.c06_judge applies to every
        observed case) is sound for the model: for any pool, any admissible history of any
        length and any foreign list, [hinv] relates the bookkeeping to the store the model
        computes (origin, root, FactoryOf mark, converted error), and every claim the
        specification makes is a theorem about errors_is / ExtractFactoryReference ---- *)
Theorem C06_spec_invariant : forall roots fs ops st res infos exp,
  roots_ok roots = true -> fs_vf fs = true -> ops_adm roots fs ops = true ->
  run_ops ext_wiring (map root_cell_of roots) fs ops = Some (st, res) ->
  spec_ops (infos0 0 roots) ops = (infos, exp) ->
  hinv (length roots) fs st infos /\ res_ok exp res = true.
Proof. exact c06_invariant. Qed.

Theorem C06_spec_is_sound : forall n fs st infos x y b,
  hinv n fs st infos -> fs_admb st fs = true -> ref_in st fs x -> ref_in st fs y ->
  spec_is infos fs x y = Some b ->
  errors_is st (resolve st fs x) (resolve st fs y) = Ok b.
Proof. exact spec_is_sound. Qed.

Theorem C06_spec_extract_sound : forall n fs st infos k e,
  hinv n fs st infos -> k < length st ->
  spec_extract infos k = Some e -> model_extract st k = e.
Proof. exact spec_extract_sound. Qed.

(* no panic on every pair the judge holds the code responsible for *)
Theorem C06_spec_no_panic : forall n fs st infos x y,
  hinv n fs st infos -> fs_admb st fs = true -> deep_pairs_ok fs = true ->
  ref_in st fs x -> ref_in st fs y -> no_gerror_side fs x y = false ->
  exists b, errors_is st (resolve st fs x) (resolve st fs y) = Ok b.
Proof. exact model_no_panic_judged. Qed.

(* every method after k Converts keeps all k converted errors: for any pool and admissible history,
   every cell matches every comparable foreign error converted ALONG ITS CHAIN (spec_convs, computed
   from the history alone) — Base(), DTag, Msg, Stack, a further Convert, ... after two or more
   Converts forget none of them *)
Theorem C06_converted_errors_inherited : forall roots fs ops st res,
  roots_ok roots = true -> fs_vf fs = true -> ops_adm roots fs ops = true ->
  run_ops ext_wiring (map root_cell_of roots) fs ops = Some (st, res) ->
  let convs := spec_convs (map (fun _ => []) roots) ops in
  length convs = length st /\
  forall a k t p u, a < length st -> In k (nth a convs []) -> nth k fs VNil = VF t true p u ->
    errors_is st (val_of st a) (VF t true p u) = Ok true.
Proof. exact spec_convs_sound. Qed.

(* the model never contradicts the judge's specification: judged on its own observations a case
   gets verdict 0 *)
Theorem C06_model_satisfies_spec : forall c res m ex,
  c06_domain c = true -> ops_adm (q_roots c) (q_foreign c) (q_ops c) = true ->
  c06_side c = true -> c06_model c = Some (res, m, ex) ->
  c06_judge (with_model_obs c res m ex) = 0.
Proof. exact c06_model_judged_ok. Qed.

(* "errors.Is holds between any two errors derived from F", end to end over two chains run one
   after the other from the same pool factory (both directions, and each against F) *)
Theorem C06_siblings_end_to_end : forall xw st F ch1 ch2 st1 e1 st2 e2,
  guarded_wiring xw -> Forall root_cell st -> F < length st ->
  Forall (fun s => admissible st (a_err (snd s))) ch1 -> forallb no_shortcut ch1 = true ->
  derive xw st (val_of st F) ch1 = Some (st1, e1) ->
  Forall (fun s => admissible st1 (a_err (snd s))) ch2 -> forallb no_shortcut ch2 = true ->
  derive xw st1 (val_of st1 F) ch2 = Some (st2, e2) ->
  errors_is st2 e1 e2 = Ok true /\ errors_is st2 e2 e1 = Ok true
  /\ errors_is st2 e1 (val_of st2 F) = Ok true /\ errors_is st2 e2 (val_of st2 F) = Ok true.
Proof. exact siblings_end_to_end. Qed.

Theorem C06_siblings_in_history : forall n fs st infos a b,
  hinv n fs st infos -> a < length st -> b < length st ->
  b_orig (nth a infos dummy_info) = b_orig (nth b infos dummy_info) ->
  errors_is st (val_of st a) (val_of st b) = Ok true.
Proof. exact siblings_in_history. Qed.

(* ---- non-vacuity: a pool with a FactoryOf factory, a bare factory and an extension factory;
        derived errors of each; the hypotheses hold and the verdicts are as stated ---- *)
Definition ex_pool : store :=
  [ mkC (factory_of (new_gerr [70%N] [] [] false)) None;
    mkC (new_gerr [66%N] [] [] false) None;
    mkC (factory_of (new_gerr [88%N] [] [] false)) (Some (mkX 1 [])) ].
Definition ex_msg (site : N) : margs := mkA [] [] [104%N] VNil [] site [109%N].

Example C06_example_pool :
  Forall root_cell ex_pool /\
  match derive ext_wiring ex_pool (VG 0) [(MMsg, ex_msg 0); (MStack, ex_msg 1)] with
  | Some (st1, e1) =>
      match derive ext_wiring st1 (VX 2) [(MDTag, ex_msg 2)] with
      | Some (st2, e2) =>
          errors_is st2 e1 (VG 0) = Ok true /\ errors_is st2 e1 (VG 1) = Ok false
          /\ errors_is st2 e1 (VX 2) = Ok false /\ errors_is st2 e2 (VX 2) = Ok true
          /\ errors_is st2 (VX 2) e2 = Ok true /\ errors_is st2 e2 e1 = Ok false
          /\ extract_fref st2 e2 = VG 2 /\ extract_fref st2 (VG 1) = VNil
      | None => False
      end
  | None => False
  end.
Proof.
  split.
  - repeat constructor; simpl; try reflexivity; intros x Hx; try discriminate; reflexivity.
  - vm_compute. repeat split; reflexivity.
Qed.

Print Assumptions C06_reachable_wf.
Print Assumptions C06_wirings_guarded.
Print Assumptions C06_chain_keeps_factory.
Print Assumptions C06_is_origin.
Print Assumptions C06_wrapped_source.
Print Assumptions C06_is_own.
Print Assumptions C06_not_other.
Print Assumptions C06_siblings.
Print Assumptions C06_extract.
Print Assumptions C06_convert_fwd.
Print Assumptions C06_is_foreign_target.
Print Assumptions C06_second_convert_example.
Print Assumptions C06_convert_fwd_orig_refuted.
Print Assumptions C06_convert_methods.
Print Assumptions C06_convert_fwd_general.
Print Assumptions C06_convert_fwd_noncomparable.
Print Assumptions C06_convert_bwd.
Print Assumptions C06_convert_idem.
Print Assumptions C06_no_panic.
Print Assumptions C06_no_panic_general.
Print Assumptions C06_no_panic_type_guard_refuted.
Print Assumptions C06_no_panic_orig_refuted.
Print Assumptions C06_bare_extension_observation.
Print Assumptions C06_derived_errors_identify_their_factory.
Print Assumptions C06_spec_invariant.
Print Assumptions C06_spec_is_sound.
Print Assumptions C06_spec_extract_sound.
Print Assumptions C06_spec_no_panic.
Print Assumptions C06_model_satisfies_spec.
Print Assumptions C06_siblings_end_to_end.
Print Assumptions C06_siblings_in_history.
Print Assumptions C06_converted_errors_inherited.
