(* C06 — gerror: errors.Is identifies exactly the originating factory, never panics.
   Property theorems only; every proof is `exact <lemma>`.

   Model: GErrModel.v (store of GError records and extension structs, interface equality with
   Go's panic rule, GError.Is / Unwrap / ExtractFactoryReference, the stdlib errors.Is loop,
   CloneBase and the 19 methods of both GError and generated extension types).
   Quantification: every store reachable from any pool of factories (base factories made with
   FactoryOf or bare, extension factories made with FactoryOf — [root_cell]) by any history of
   any length of the 19 methods with any arguments ([reachable]); errors.Is between any two
   values that are nil, a gerror value of the store, or a foreign error (any dynamic type,
   comparable or not) whose Unwrap chain holds no gerror value ([admissible]).

   Current tree = repaired code ([errors_is], comparability guard in front of
   `e.srcError == err`).  Records of the pinned code: [errors_is_orig] panics
   (C06_no_panic_orig_refuted).

   Second repair (finding C06-second-convert, now fixed): Convert/ConvertS applied to an error that
   already carries a converted error used to drop the new one; CloneBase now appends it to
   laterSrcErrors ([g_later]) and Is also walks that list, so [C06_convert_fwd] holds for every
   receiver.  Record of the old code: [C06_convert_fwd_orig_refuted].                          *)
From Coq Require Import NArith List Bool.
From GT Require Import Base.GErrStr.
From GT Require Import GErrModel GErrSpec GErrHist GErrIsProofs GErrHistProofs.
Import ListNotations.

(* ---- every reachable store is well formed ---- *)
Theorem C06_reachable_wf : forall xw st, guarded_wiring xw -> reachable xw st -> wf st.
Proof. exact reachable_wf. Qed.

Theorem C06_wirings_guarded : guarded_wiring base_wiring /\ guarded_wiring ext_wiring.
Proof. exact (conj base_wiring_guarded ext_wiring_guarded). Qed.

(* ---- a chain of derivations never changes the originating factory ---- *)
Theorem C06_chain_keeps_factory : forall xw, guarded_wiring xw -> forall ch st v st' r i,
  wf st -> gv st v = Some i ->
  Forall (fun s => admissible st (a_err (snd s))) ch ->
  forallb no_shortcut ch = true ->
  derive xw st v ch = Some (st', r) ->
  wf st' /\ exists k, gv st' r = Some k /\ origin st' k = origin st i /\ length st <= length st'
     /\ (ch = [] \/ (length st <= k /\ exists ck, nth_error st' k = Some ck /\ g_isfac (c_g ck) = false)).
Proof. exact derive_origin. Qed.

(* ---- the property's first sentence in one statement: for any pool, any factory F of it, any
        chain of any length with any admissible arguments ---- *)
Theorem C06_derived_errors_identify_their_factory : forall xw st F ch st' e,
  guarded_wiring xw -> Forall root_cell st -> F < length st ->
  Forall (fun s => admissible st (a_err (snd s))) ch -> forallb no_shortcut ch = true ->
  derive xw st (val_of st F) ch = Some (st', e) ->
  errors_is st' e (val_of st' F) = Ok true
  /\ (forall G, G < length st -> G <> F -> errors_is st' e (val_of st' G) = Ok false)
  /\ (ch <> [] -> extract_fref st' e = VG F).
Proof. exact headline. Qed.

(* ---- errors.Is between any two gerror values decides "same originating factory" ---- *)
Theorem C06_is_origin : forall st va vb i j,
  wf st -> gv st va = Some i -> gv st vb = Some j ->
  errors_is st va vb = Ok (Nat.eqb (origin st i) (origin st j)).
Proof. exact is_origin. Qed.

(* a foreign error that wraps a gerror value (fmt.Errorf("...%w", err), any depth) is matched
   exactly as the value it wraps *)
Theorem C06_wrapped_source : forall st va vb i j,
  wf st -> inner_gv st va = Some i -> gv st vb = Some j ->
  errors_is st va vb = Ok (Nat.eqb (origin st i) (origin st j)).
Proof. exact (fun st va vb i j W => errors_is_wrapped true st W va vb i j). Qed.

(* errors.Is(err, F) holds for the factory F the error was derived from *)
Theorem C06_is_own : forall st e i vf F cF,
  wf st -> gv st e = Some i -> gv st vf = Some F -> nth_error st F = Some cF ->
  g_fref (c_g cF) = VNil -> origin st i = F -> errors_is st e vf = Ok true.
Proof. exact is_own. Qed.

(* errors.Is(err, G) is false for every other factory G *)
Theorem C06_not_other : forall st e i vg G cG,
  wf st -> gv st e = Some i -> gv st vg = Some G -> nth_error st G = Some cG ->
  g_fref (c_g cG) = VNil -> origin st i <> G -> errors_is st e vg = Ok false.
Proof. exact is_not_other. Qed.

(* errors.Is holds between any two errors derived from the same factory (either direction,
   the factory itself included) *)
Theorem C06_siblings : forall st e1 e2 i j,
  wf st -> gv st e1 = Some i -> gv st e2 = Some j -> origin st i = origin st j ->
  errors_is st e1 e2 = Ok true.
Proof. exact is_siblings. Qed.

(* ---- ExtractFactoryReference: the value itself for anything made a factory with FactoryOf
        (a pool factory or a sub-factory), else the originating factory's record for a derived
        error, nil for a bare *GError used directly ---- *)
Theorem C06_extract : forall st v j cj,
  wf st -> gv st v = Some j -> nth_error st j = Some cj ->
  extract_fref st v =
  if g_isfac (c_g cj) then VG j
  else if is_nil (g_fref (c_g cj)) then VNil else VG (origin st j).
Proof. exact extract_gerr. Qed.

(* ---- Convert / ConvertS ---- *)
(* the clause as the property states it: for every receiver (also one that already carries
   converted errors), every comparable foreign error e: errors.Is(result, e) *)
Definition C06_convert_fwd_full_statement : Prop :=
  forall xw st v m a st' r i t p u,
    guarded_wiring xw -> wf st -> gv st v = Some i ->
    w_serr (wt_of xw v m) = EErr -> a_err a = VF t true p u -> pure u = true ->
    call xw st v m a = Some (st', r) ->
    errors_is st' r (VF t true p u) = Ok true.

Theorem C06_convert_fwd : C06_convert_fwd_full_statement.
Proof. exact convert_fwd_full. Qed.

(* exactly Convert and ConvertS pass the error on *)
Theorem C06_convert_methods : forall m, w_serr (base_wiring m) = EErr <-> is_convert m = true.
Proof. exact convert_wiring. Qed.

(* in general: the first converted error of the chain stays srcError, later ones are appended;
   the result matches exactly the recorded ones, and never panics *)
Theorem C06_convert_fwd_general : forall xw st v m a st' r i ci t c p u,
  guarded_wiring xw -> wf st -> gv st v = Some i -> nth_error st i = Some ci ->
  w_serr (wt_of xw v m) = EErr -> a_err a = VF t c p u -> pure u = true ->
  call xw st v m a = Some (st', r) ->
  errors_is st' r (VF t c p u)
  = Ok (conv_after (g_serr (c_g ci)) (g_later (c_g ci)) (VF t c p u)).
Proof. exact convert_is_fwd. Qed.

(* errors.Is(gerror value, foreign value) in any well-formed store: some recorded error matches *)
Theorem C06_is_foreign_target : forall st va i ci t c p u,
  wf st -> gv st va = Some i -> nth_error st i = Some ci ->
  errors_is st va (VF t c p u) = Ok (conv_match (c_g ci) (VF t c p u)).
Proof. exact (fun st va i ci t c p u W => errors_is_gf st W va i ci t c p u). Qed.

(* a non-comparable converted error can never compare equal: false, without panic *)
Theorem C06_convert_fwd_noncomparable : forall xw st v m a st' r i ci t p u,
  guarded_wiring xw -> wf st -> gv st v = Some i -> nth_error st i = Some ci ->
  w_serr (wt_of xw v m) = EErr -> a_err a = VF t false p u -> pure u = true ->
  call xw st v m a = Some (st', r) ->
  errors_is st' r (VF t false p u) = Ok false.
Proof. exact convert_fwd_noncomparable. Qed.

(* errors.Is(e, result) stays false *)
Theorem C06_convert_bwd : forall xw st v m a st' r t c p u,
  guarded_wiring xw -> wf st -> (exists i, gv st v = Some i) ->
  a_err a = VF t c p u -> pure u = true ->
  call xw st v m a = Some (st', r) ->
  errors_is st' (VF t c p u) r = Ok false.
Proof. exact convert_is_bwd. Qed.

(* errors that already are gerror errors are returned unchanged, nothing is allocated *)
Theorem C06_convert_idem : forall xw st v m a i,
  gv st v = Some i -> w_guard (wt_of xw v m) = true -> is_gerr_val (a_err a) = true ->
  call xw st v m a = Some (st, a_err a).
Proof. exact call_convert_idem. Qed.

(* two Converts in a row: both foreign errors match the result, the sibling does not see the
   later one; and the record of the code before the repair, where the second one was lost *)
Theorem C06_second_convert_example :
  match call base_wiring panic_store (VG 0) MConvert (mkA [] [] [] e_one [] 0 [109%N]) with
  | Some (st1, r1) =>
      match call base_wiring st1 r1 MConvert (mkA [] [] [] e_two [] 1 [109%N]) with
      | Some (st2, r2) =>
          errors_is st2 r2 e_two = Ok true /\ errors_is st2 r2 e_one = Ok true
          /\ errors_is st2 r1 e_two = Ok false
      | None => False
      end
  | None => False
  end.
Proof. exact double_convert_recorded. Qed.

Theorem C06_convert_fwd_orig_refuted :
  match call base_wiring panic_store (VG 0) MConvert (mkA [] [] [] e_one [] 0 [109%N]) with
  | Some (st1, r1) =>
      match call base_wiring st1 r1 MConvert (mkA [] [] [] e_two [] 1 [109%N]) with
      | Some (st2, r2) =>
          errors_is (map orig_cell st2) r2 e_two = Ok false
          /\ errors_is (map orig_cell st2) r2 e_one = Ok true
      | None => False
      end
  | None => False
  end.
Proof. exact double_convert_orig_not_recorded. Qed.

(* ---- none of these calls panics, for any source and any target ---- *)
Theorem C06_no_panic : forall st va vb,
  wf st -> admissible st va -> admissible st vb -> exists b, errors_is st va vb = Ok b.
Proof. exact errors_is_total. Qed.

(* the pinned code did: Convert of a slice-typed error, then errors.Is(result, that error) *)
Theorem C06_no_panic_orig_refuted :
  exists st va vb, wf st /\ admissible st va /\ admissible st vb /\ errors_is_orig st va vb = Panic.
Proof. exact no_panic_orig_refuted. Qed.

(* observation outside the quantified pool: an extension factory used bare (no FactoryOf) is
   not matched by its own derivations *)
Theorem C06_bare_extension_observation :
  match call ext_wiring bare_ext_store (VX 0) MMsg (mkA [] [] [104%N] VNil [] 0 [109%N]) with
  | Some (st', r) => errors_is st' r (VX 0) = Ok false /\ errors_is st' (VX 0) r = Ok true
  | None => False
  end.
Proof. exact bare_ext_not_matched. Qed.

(* ---- non-vacuity: a pool with a FactoryOf factory, a bare factory and an extension factory;
        derived errors of each; the hypotheses hold and the verdicts are as stated ---- *)
Definition ex_pool : store :=
  [ mkC (factory_of (new_gerr [70%N] [] [] false)) None;
    mkC (new_gerr [66%N] [] [] false) None;
    mkC (factory_of (new_gerr [88%N] [] [] false)) (Some (mkX 1 [])) ].
Definition ex_msg (site : N) : margs := mkA [] [] [104%N] VNil [] site [109%N].

Example C06_example_pool :
  Forall root_cell ex_pool /\
  match derive ext_wiring ex_pool (VG 0) [(MMsg, ex_msg 0); (MStack, ex_msg 1)] with
  | Some (st1, e1) =>
      match derive ext_wiring st1 (VX 2) [(MDTag, ex_msg 2)] with
      | Some (st2, e2) =>
          errors_is st2 e1 (VG 0) = Ok true /\ errors_is st2 e1 (VG 1) = Ok false
          /\ errors_is st2 e1 (VX 2) = Ok false /\ errors_is st2 e2 (VX 2) = Ok true
          /\ errors_is st2 (VX 2) e2 = Ok true /\ errors_is st2 e2 e1 = Ok false
          /\ extract_fref st2 e2 = VG 2 /\ extract_fref st2 (VG 1) = VNil
      | None => False
      end
  | None => False
  end.
Proof.
  split.
  - repeat constructor; simpl; try reflexivity; intros x Hx; try discriminate; reflexivity.
  - vm_compute. repeat split; reflexivity.
Qed.

Print Assumptions C06_reachable_wf.
Print Assumptions C06_wirings_guarded.
Print Assumptions C06_chain_keeps_factory.
Print Assumptions C06_is_origin.
Print Assumptions C06_wrapped_source.
Print Assumptions C06_is_own.
Print Assumptions C06_not_other.
Print Assumptions C06_siblings.
Print Assumptions C06_extract.
Print Assumptions C06_convert_fwd.
Print Assumptions C06_is_foreign_target.
Print Assumptions C06_second_convert_example.
Print Assumptions C06_convert_fwd_orig_refuted.
Print Assumptions C06_convert_methods.
Print Assumptions C06_convert_fwd_general.
Print Assumptions C06_convert_fwd_noncomparable.
Print Assumptions C06_convert_bwd.
Print Assumptions C06_convert_idem.
Print Assumptions C06_no_panic.
Print Assumptions C06_no_panic_orig_refuted.
Print Assumptions C06_bare_extension_observation.
Print Assumptions C06_derived_errors_identify_their_factory.
