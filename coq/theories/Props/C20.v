(* C20 — placeholder while the proofs are being written. *)
From GT Require Import ProtoModel.
