(* C20 — gogenproto: protoc gets exactly the in-scope protos, includes, mappings.
   Property theorems only; every proof is `exact <lemma of ProtoProofs>`.
   The model (ProtoModel.v) mirrors gogenproto/gen/generate.go of the current tree; it is tied
   to the code by the correspondence run of ./check C20 (real CLI + recording protoc stub).

   All statements hold for every tree [c_root] of any depth and size, every working directory,
   every relative or absolute input directory, every include list (with or without prefix),
   every setting of recurse / vt / grpc and every package oracle [pkg_of].
   Hypotheses (all on the INPUT): [wf_node] — the tree is a file system (sibling names distinct,
   no "", ".", ".."); [dirs_ok] — the input directory and the include directories exist and are
   directories.  The mapping clause holds without a condition on the files since fix b058b67
   ([C20_full]; the former line scan and its counterexamples: [C20_scan_orig_refuted]);
   [run … = Ok argv] — the tool reached exec.Command (it does, by C20_one_invocation, whenever
   PackageNameFromPath succeeds).                                                             *)
From Coq Require Import String List Bool Ascii.
From GT Require Import ProtoModel ProtoProofs ProtoJudge ProtoParse ProtoScan ProtoExtra ProtoStrModel ProtoStrProofs ProtoRefine.
Import ListNotations.
Local Open Scope string_scope.

(* the file arguments, resolved against the working directory, are the .proto files directly
   inside the input directory, or all of those below it with -recurse … *)
Theorem C20_files : forall pkg_of cfg argv,
  wf_node (c_root cfg) -> run pkg_of cfg = Ok argv ->
  map (to_abs (c_cwd cfg)) (files_of argv) = spec_files cfg.
Proof. exact run_files. Qed.

(* … where [spec_files] lists, without repetition, exactly the paths q = input ++ r (r one
   segment, or any non-empty r with -recurse) at which the tree holds a regular *.proto file *)
Theorem C20_files_scope : forall cfg, wf_node (c_root cfg) ->
  NoDup (spec_files cfg) /\ (forall q, In q (spec_files cfg) <-> in_scope cfg q).
Proof. exact spec_files_char. Qed.

(* so: each in-scope file is named exactly once, and no other file is named *)
Theorem C20_files_exactly_once : forall pkg_of cfg argv,
  wf_node (c_root cfg) -> run pkg_of cfg = Ok argv ->
  forall q,
    (in_scope cfg q -> count_occ path_eq_dec (map (to_abs (c_cwd cfg)) (files_of argv)) q = 1)
    /\ (~ in_scope cfg q -> count_occ path_eq_dec (map (to_abs (c_cwd cfg)) (files_of argv)) q = 0).
Proof. exact run_files_count. Qed.

(* one -I per include path: the input directory, then each -include directory; plugin output
   flags are present exactly when requested; every requested plugin — and no other — receives
   the mappings the specification lists *)
Theorem C20_includes : forall pkg_of cfg argv,
  wf_node (c_root cfg) -> dirs_ok cfg -> run pkg_of cfg = Ok argv ->
  includes_of argv = spec_includes cfg.
Proof. exact run_includes. Qed.

Theorem C20_plugins : forall pkg_of cfg argv,
  wf_node (c_root cfg) -> dirs_ok cfg -> run pkg_of cfg = Ok argv ->
  requests PGo argv = true /\ requests PVt argv = c_vt cfg /\ requests PGrpc argv = c_grpc cfg.
Proof. exact run_plugins. Qed.

(* the mapping clause as the property states it: for every proto under the include paths that
   does not DECLARE `option go_package` ([spec_mappings]: by the lexical structure of the file's
   content), every requested plugin — and no other — receives exactly the mapping the property
   lists.  True of the code since fix C20-go-package-scan (b058b67): declaresGoPackage decides
   "declares" correctly for every content ([C20_scan_correct]). *)
Definition C20_full_statement : Prop := forall pkg_of cfg argv,
  wf_node (c_root cfg) -> dirs_ok cfg -> run pkg_of cfg = Ok argv ->
  forall pl, mappings_of pl argv = spec_mappings pkg_of cfg pl.

Theorem C20_full : C20_full_statement.
Proof. exact run_mappings_full. Qed.

Theorem C20_mappings : forall pkg_of cfg argv,
  wf_node (c_root cfg) -> dirs_ok cfg -> run pkg_of cfg = Ok argv ->
  forall pl, mappings_of pl argv = spec_mappings pkg_of cfg pl.
Proof. exact run_mappings_full. Qed.

(* … where, per include path (directory a, optional prefix), [spec_mappings_of] lists, each
   relative path once, exactly the pairs (r, k): a ++ r is a regular *.proto file below a that
   does not declare go_package, and k is filepath.Join of the prefix as typed with the directory
   of r when a prefix was given, the Go package of the directory of a ++ r otherwise *)
Theorem C20_mappings_scope : forall pkg_of cfg inc, wf_node (c_root cfg) ->
  NoDup (map fst (spec_mappings_of pkg_of cfg inc))
  /\ (forall r k, In (r, k) (spec_mappings_of pkg_of cfg inc) <-> mapping_wanted pkg_of cfg inc r k).
Proof. exact spec_mappings_of_char_full. Qed.

(* the decider of the code: the byte scanner + token matcher of declaresGoPackage (ProtoLex.v
   scan_go_package, tied to the code by the exhaustive scan stream of the check) is the
   specification's "declares option go_package" — for EVERY file content *)
Theorem C20_scan_correct : forall c, scan_go_package c = declares_go_package c.
Proof. exact scan_correct. Qed.

(* record of the defect repaired by b058b67: the former line scan was exactly the substring test
   "the content contains `option go_package =`" … *)
Theorem C20_scan_orig_is_substring_test : forall c,
  scan_go_package_orig c = true <-> exists a b, c = (a ++ go_package_marker ++ b)%string.
Proof.
  intros c. split; [apply scan_orig_sound|]. intros (a & b & ->). apply scan_orig_complete.
Qed.

(* … which is not "declares": a commented-out option counted, a space-less one did not (further
   spellings: ProtoScan.v scan_refuted_…, each with the repaired scan's correct answer) *)
Theorem C20_scan_orig_refuted :
  (exists c, scan_go_package_orig c = true /\ declares_go_package c = false)
  /\ (exists c, scan_go_package_orig c = false /\ declares_go_package c = true).
Proof.
  split.
  - eexists. pose proof scan_refuted_line_comment as H. cbv zeta in H. destruct H as (H1 & H2 & _).
    split; [exact H1|exact H2].
  - eexists. pose proof scan_refuted_no_space as H. cbv zeta in H. destruct H as (H1 & H2 & _).
    split; [exact H1|exact H2].
Qed.

(* on every tree: the mappings are those of the protos the line scan takes for undeclared *)
Theorem C20_mappings_as_scanned : forall pkg_of cfg argv,
  wf_node (c_root cfg) -> dirs_ok cfg -> run pkg_of cfg = Ok argv ->
  forall pl, mappings_of pl argv =
             if requested cfg pl then flat_map (scan_mappings_of pkg_of cfg) (include_paths cfg) else [].
Proof. exact run_mappings. Qed.

(* exactly one invocation: Run hands one argument vector to exec.Command, and it gets there
   whenever the directories exist and PackageNameFromPath does not fail *)
Theorem C20_at_most_one_invocation : forall pkg_of cfg, length (invocations pkg_of cfg) <= 1.
Proof. exact invocations_le_one. Qed.

Theorem C20_one_invocation : forall pkg_of cfg,
  wf_node (c_root cfg) -> dirs_ok cfg -> (forall d, pkg_of d <> Err) ->
  exists argv, invocations pkg_of cfg = [argv] /\ run pkg_of cfg = Ok argv.
Proof. exact invocations_exactly_one. Qed.

(* the same, from the executable hypotheses the correspondence run evaluates on every case *)
Theorem C20_checked : forall pkg_of cfg argv,
  wf_nodeb (c_root cfg) = true -> dirs_okb cfg = true ->
  run pkg_of cfg = Ok argv ->
  map (to_abs (c_cwd cfg)) (files_of argv) = spec_files cfg
  /\ includes_of argv = spec_includes cfg
  /\ (forall pl, requests pl argv = requested cfg pl)
  /\ (forall pl, mappings_of pl argv = spec_mappings pkg_of cfg pl).
Proof.
  intros pkg_of cfg argv H1 H2 H4.
  destruct (run_checked pkg_of cfg argv H1 H2 H4) as (A & B & C & D). repeat split; auto.
  intros pl. rewrite spec_scan_mappings by (auto using wf_nodeb_sound, tree_agrees_all). apply D.
Qed.

(* the judge of the correspondence run parses the recorded strings; on rendered argument vectors
   (segments without '/', mapping keys without '=', files not starting with '-') that parser
   gives back exactly the compared observables *)
Theorem C20_judge_parser_faithful : forall cwd argv,
  Forall arg_ok argv ->
  obs_of_args cwd (map (parse_arg cwd) (map render_arg argv)) = obs_of_args cwd argv.
Proof. exact parse_render_obs. Qed.

(* and on the model's own output: if the recorded strings are literally the model's rendering
   (coverage key exact_argv…: true of every case so far), the observables the judge reads from
   them are the specification's — names without '/' or '=', no file argument starting with '-' *)
Theorem C20_judge_reads_model : forall pkg_of cfg argv,
  wf_node (c_root cfg) -> dirs_ok cfg ->
  all_names str_ok (c_root cfg) -> Forall seg_ok (c_cwd cfg) ->
  (forall i, In i (include_paths cfg) -> pspec_segs_ok (fst i)) ->
  run pkg_of cfg = Ok argv ->
  (forall q, In q (files_of argv) -> starts_dash (render_pspec q) = false) ->
  let o := obs_of_args (c_cwd cfg) (map (parse_arg (c_cwd cfg)) (map render_arg argv)) in
  o_files o = spec_files cfg /\ o_incs o = spec_includes cfg
  /\ o_go o = scan_mappings pkg_of cfg PGo /\ o_vt o = scan_mappings pkg_of cfg PVt
  /\ o_grpc o = scan_mappings pkg_of cfg PGrpc /\ o_req o = (true, c_vt cfg, c_grpc cfg).
Proof. exact judge_reads_model. Qed.

(* the argument vector holds nothing else: plugin flags, then -I / M options, then the files;
   each plugin's output flag occurs exactly once when requested, never otherwise *)
Theorem C20_argv_shape : forall pkg_of cfg argv, run pkg_of cfg = Ok argv ->
  exists incs paths,
    argv = (plugin_flags cfg ++ incs ++ map AFile paths)%list /\ Forall is_inc_or_map incs.
Proof. exact run_shape. Qed.

Theorem C20_plugins_exactly_once : forall pkg_of cfg argv pl, run pkg_of cfg = Ok argv ->
  out_flag_count pl argv = if requested cfg pl then 1 else 0.
Proof. exact flag_count. Qed.

(* -I options: a directory occurs as often as the include paths (input directory, then the
   -include entries) name it; so none is repeated iff those are pairwise different directories *)
Theorem C20_includes_exactly_once : forall pkg_of cfg argv,
  wf_node (c_root cfg) -> dirs_ok cfg -> run pkg_of cfg = Ok argv ->
  (NoDup (includes_of argv)
   <-> NoDup (map (fun i => to_abs (c_cwd cfg) (fst i)) (include_paths cfg))).
Proof. exact includes_nodup. Qed.

(* since fix C20-input-dir-equals (507c907) the input directory is taken as typed: a directory
   named k=v gets its own -I and mappings, and protoc runs once (string-level model, the one
   tied to the source by the translator) … *)
Theorem C20_input_equals_fixed :
  snd (s_run eq_world eq_gen)
  = [("protoc", ["--go_out=."; "--go_opt=paths=source_relative"; "--fatal_warnings"; "-I=/m/k=v";
                 "--go_opt=Ma.proto=example.com/m/kv"; "k=v/a.proto"])].
Proof. exact s_input_equals_fixed. Qed.

(* … record of the defect: with strings.Cut applied to the input directory as well ([s_argv_orig])
   the same command line made Run fail before protoc *)
Theorem C20_input_equals_refuted_orig :
  fs_resolve eq_world (g_InputDir eq_gen) <> None
  /\ fst (s_find_protos eq_world eq_gen (g_InputDir eq_gen) false) = ["k=v/a.proto"]
  /\ s_argv_orig eq_world eq_gen = inr EFail.
Proof. exact s_input_equals_refuted_orig. Qed.

(* the model that the translator tie equates with the current source (ProtoStrModel.s_argv,
   strings as typed on the command line) computes the rendering of the model the theorems above
   are about — for every world and command line that [represents] a configuration: same tree,
   names without '/', input directory spelled Clean and without '=', every -include entry
   `dir[=prefix]` with filepath.Abs dir = the structured include directory *)
Theorem C20_source_model_refines : forall pkg_of W g cfg,
  represents pkg_of W g cfg -> wf_node (c_root cfg) -> dirs_ok cfg ->
  s_argv W g = render_result (run pkg_of cfg).
Proof. exact s_argv_refines_rep. Qed.

(* … so every argument vector it hands to exec.Command is the rendering of one the theorems
   speak about, and it runs protoc exactly when the structured model does *)
Theorem C20_source_model_invocations : forall pkg_of W g cfg,
  represents pkg_of W g cfg -> wf_node (c_root cfg) -> dirs_ok cfg ->
  snd (s_run W g) = map (fun argv => (s_protoc g, map render_arg argv)) (invocations pkg_of cfg).
Proof. exact s_run_refines_rep. Qed.

(* ------------------------------------------------------------------ non-vacuity *)
Definition nogp : string := "syntax = ""proto3"";
message M {}
".
Definition gp : string := "syntax = ""proto3"";
option go_package = ""example.com/gen/x"";
message M {}
".
Definition ex_root : node :=
  Dir "" [Dir "w" [Dir "m" [File "go.mod" nogp true;
    Dir "inc" [File "j.proto" nogp true; Dir "x" [File "i.proto" nogp true; File "k.proto" gp true]];
    Dir "protos" [File "a.proto" nogp true; File "b.proto" gp true;
                  Dir "d.proto" [File "e.proto" nogp true];
                  File "l.proto" nogp false;
                  Dir "protos" [File "a.proto" nogp true];
                  File "readme.txt" nogp true]]]].
Definition ex_pkg (d : path) : result string := Ok (String.concat "/" ("example.com" :: skipn 1 d)).
Definition ex_cfg (recurse : bool) : config :=
  {| c_root := ex_root; c_cwd := ["w"; "m"]; c_input := PAbs ["w"; "m"; "protos"];
     c_recurse := recurse; c_vt := true; c_grpc := false;
     c_includes := [(PRel [".."; "m"], None); (PRel ["inc"], Some "github.com//foo/")] |}.

(* hypotheses hold of a tree with a sub directory named like the input directory, a directory
   named *.proto, a symlink named *.proto, an absolute input directory met again inside the
   walk of an include path (its parent), and a prefixed include *)
Example C20_example_hyps :
  wf_node ex_root /\ dirs_ok (ex_cfg true) /\ (forall d, ex_pkg d <> Err).
Proof.
  split; [apply wf_nodeb_sound; vm_compute; reflexivity|].
  split; [apply dirs_okb_sound; vm_compute; reflexivity|]. intros d; discriminate.
Qed.

Definition ex_world : world :=
  {| w_root := ex_root; w_cwd := "/w/m"; w_pkg := fun s => ex_pkg (abs_segs s); w_exec := fun _ _ => ENil |}.
Definition ex_gen (recurse : bool) : Generate :=
  {| g_InputDir := "/w/m/protos"; g_ProtocPath := ""; g_Recurse := recurse; g_VTProto := true;
     g_GRPC := false; g_Include := ["../m"; "inc=github.com//foo/"] |}.

Ltac okp_tac :=
  repeat (constructor; [unfold seg_ok, name_ok; repeat split; (discriminate || reflexivity)|]); try constructor.

(* the command line `-input-dir /w/m/protos -vt-proto -include ../m,inc=github.com//foo/` run in
   /w/m represents ex_cfg: the refinement theorem is not vacuous *)
Example C20_example_represents : forall r, represents ex_pkg ex_world (ex_gen r) (ex_cfg r).
Proof.
  intros r. constructor; try reflexivity.
  - apply all_namesb_sound. vm_compute. reflexivity.
  - split; okp_tac.
  - repeat split; try reflexivity. vm_compute. okp_tac.
  - repeat constructor.
    + exists "../m", "", false. repeat split; try reflexivity. vm_compute. okp_tac.
    + exists "inc", "github.com//foo/", true. repeat split; try reflexivity. vm_compute. okp_tac.
Qed.

Example C20_example_refines :
  s_argv ex_world (ex_gen false) = render_result (run ex_pkg (ex_cfg false)).
Proof. vm_compute. reflexivity. Qed.

Example C20_example_run :
  (match run ex_pkg (ex_cfg false) with Ok a => map render_arg a | Err => [] end) =
  ["--go_out=."; "--go_opt=paths=source_relative"; "--fatal_warnings"; "--go-vtproto_out=.";
   "--go-vtproto_opt=paths=source_relative,features=marshal+unmarshal+size+equal+clone+pool";
   "-I=/w/m/protos";
   "--go_opt=Ma.proto=example.com/m/protos"; "--go-vtproto_opt=Ma.proto=example.com/m/protos";
   "--go_opt=Md.proto/e.proto=example.com/m/protos/d.proto";
   "--go-vtproto_opt=Md.proto/e.proto=example.com/m/protos/d.proto";
   "--go_opt=Mprotos/a.proto=example.com/m/protos/protos";
   "--go-vtproto_opt=Mprotos/a.proto=example.com/m/protos/protos";
   "-I=/w/m";
   "--go_opt=Minc/j.proto=example.com/m/inc"; "--go-vtproto_opt=Minc/j.proto=example.com/m/inc";
   "--go_opt=Minc/x/i.proto=example.com/m/inc/x"; "--go-vtproto_opt=Minc/x/i.proto=example.com/m/inc/x";
   "--go_opt=Mprotos/a.proto=example.com/m/protos"; "--go-vtproto_opt=Mprotos/a.proto=example.com/m/protos";
   "--go_opt=Mprotos/d.proto/e.proto=example.com/m/protos/d.proto";
   "--go-vtproto_opt=Mprotos/d.proto/e.proto=example.com/m/protos/d.proto";
   "--go_opt=Mprotos/protos/a.proto=example.com/m/protos/protos";
   "--go-vtproto_opt=Mprotos/protos/a.proto=example.com/m/protos/protos";
   "-I=/w/m/inc";
   "--go_opt=Mj.proto=github.com/foo"; "--go-vtproto_opt=Mj.proto=github.com/foo";
   "--go_opt=Mx/i.proto=github.com/foo/x"; "--go-vtproto_opt=Mx/i.proto=github.com/foo/x";
   "/w/m/protos/a.proto"; "/w/m/protos/b.proto"].
Proof. vm_compute. reflexivity. Qed.

Example C20_example_scope :
  spec_files (ex_cfg false) = [["w"; "m"; "protos"; "a.proto"]; ["w"; "m"; "protos"; "b.proto"]]
  /\ spec_files (ex_cfg true) =
     [["w"; "m"; "protos"; "a.proto"]; ["w"; "m"; "protos"; "b.proto"];
      ["w"; "m"; "protos"; "d.proto"; "e.proto"]; ["w"; "m"; "protos"; "protos"; "a.proto"]]
  /\ spec_mappings ex_pkg (ex_cfg true) PGrpc = []
  /\ length (spec_mappings ex_pkg (ex_cfg true) PVt) = 10.
Proof. vm_compute. repeat split. Qed.

Example C20_example_judge_hyps :
  all_names str_ok ex_root /\ Forall seg_ok (c_cwd (ex_cfg true))
  /\ (forall i, In i (include_paths (ex_cfg true)) -> pspec_segs_ok (fst i))
  /\ (forall q, In q (files_of (match run ex_pkg (ex_cfg true) with Ok a => a | Err => [] end)) ->
        starts_dash (render_pspec q) = false).
Proof.
  split; [|split; [|split]].
  - unfold ex_root, str_ok, seg_ok. simpl. repeat (split || constructor); try discriminate; reflexivity.
  - unfold seg_ok. simpl. repeat (split || constructor); try discriminate; reflexivity.
  - intros i Hi. simpl in Hi. unfold pspec_segs_ok, seg_ok.
    repeat (destruct Hi as [<-|Hi]; [simpl; repeat (split || constructor); try discriminate; reflexivity|]).
    contradiction.
  - vm_compute. intros q Hq. repeat (destruct Hq as [<-|Hq]; [reflexivity|]). contradiction.
Qed.

Print Assumptions C20_files.
Print Assumptions C20_files_scope.
Print Assumptions C20_files_exactly_once.
Print Assumptions C20_includes.
Print Assumptions C20_plugins.
Print Assumptions C20_full.
Print Assumptions C20_mappings.
Print Assumptions C20_mappings_scope.
Print Assumptions C20_scan_correct.
Print Assumptions C20_scan_orig_is_substring_test.
Print Assumptions C20_scan_orig_refuted.
Print Assumptions C20_mappings_as_scanned.
Print Assumptions C20_argv_shape.
Print Assumptions C20_plugins_exactly_once.
Print Assumptions C20_includes_exactly_once.
Print Assumptions C20_input_equals_fixed.
Print Assumptions C20_input_equals_refuted_orig.
Print Assumptions C20_source_model_refines.
Print Assumptions C20_source_model_invocations.
Print Assumptions C20_at_most_one_invocation.
Print Assumptions C20_one_invocation.
Print Assumptions C20_checked.
Print Assumptions C20_judge_parser_faithful.
Print Assumptions C20_judge_reads_model.
