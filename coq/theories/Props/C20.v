(* C20 — gogenproto: protoc gets exactly the in-scope protos, includes, mappings.
   Property theorems only; every proof is `exact <lemma of ProtoProofs>`.
   The model (ProtoModel.v) mirrors gogenproto/gen/generate.go of the current tree; it is tied
   to the code by the correspondence run of ./check C20 (real CLI + recording protoc stub).

   All statements hold for every tree [c_root] of any depth and size, every working directory,
   every relative or absolute input directory, every include list (with or without prefix),
   every setting of recurse / vt / grpc and every package oracle [pkg_of].
   Hypotheses: [wf_node] — the tree is a file system (sibling names distinct, no "", ".", "..");
   [dirs_ok] — the input directory and the include directories exist and are directories;
   [run … = Ok argv] — the tool reached exec.Command (it does, by C20_one_invocation, whenever
   PackageNameFromPath succeeds).                                                             *)
From Coq Require Import String List Bool.
From GT Require Import ProtoModel ProtoProofs ProtoJudge ProtoParse.
Import ListNotations.
Local Open Scope string_scope.

(* the file arguments, resolved against the working directory, are the .proto files directly
   inside the input directory, or all of those below it with -recurse … *)
Theorem C20_files : forall pkg_of cfg argv,
  wf_node (c_root cfg) -> run pkg_of cfg = Ok argv ->
  map (to_abs (c_cwd cfg)) (files_of argv) = spec_files cfg.
Proof. exact run_files. Qed.

(* … where [spec_files] lists, without repetition, exactly the paths q = input ++ r (r one
   segment, or any non-empty r with -recurse) at which the tree holds a regular *.proto file *)
Theorem C20_files_scope : forall cfg, wf_node (c_root cfg) ->
  NoDup (spec_files cfg) /\ (forall q, In q (spec_files cfg) <-> in_scope cfg q).
Proof. exact spec_files_char. Qed.

(* so: each in-scope file is named exactly once, and no other file is named *)
Theorem C20_files_exactly_once : forall pkg_of cfg argv,
  wf_node (c_root cfg) -> run pkg_of cfg = Ok argv ->
  forall q,
    (in_scope cfg q -> count_occ path_eq_dec (map (to_abs (c_cwd cfg)) (files_of argv)) q = 1)
    /\ (~ in_scope cfg q -> count_occ path_eq_dec (map (to_abs (c_cwd cfg)) (files_of argv)) q = 0).
Proof. exact run_files_count. Qed.

(* one -I per include path: the input directory, then each -include directory; plugin output
   flags are present exactly when requested; every requested plugin — and no other — receives
   the mappings the specification lists *)
Theorem C20_includes : forall pkg_of cfg argv,
  wf_node (c_root cfg) -> dirs_ok cfg -> run pkg_of cfg = Ok argv ->
  includes_of argv = spec_includes cfg.
Proof. exact run_includes. Qed.

Theorem C20_plugins : forall pkg_of cfg argv,
  wf_node (c_root cfg) -> dirs_ok cfg -> run pkg_of cfg = Ok argv ->
  requests PGo argv = true /\ requests PVt argv = c_vt cfg /\ requests PGrpc argv = c_grpc cfg.
Proof. exact run_plugins. Qed.

Theorem C20_mappings : forall pkg_of cfg argv,
  wf_node (c_root cfg) -> dirs_ok cfg -> run pkg_of cfg = Ok argv ->
  forall pl, mappings_of pl argv =
             if requested cfg pl then flat_map (spec_mappings_of pkg_of cfg) (include_paths cfg) else [].
Proof. exact run_mappings. Qed.

(* … where, per include path (directory a, optional prefix), [spec_mappings_of] lists, each
   relative path once, exactly the pairs (r, k): a ++ r is a regular *.proto file below a that
   does not declare go_package, and k is the prefix joined with the directory of r when a prefix
   was given, the Go package of the directory of a ++ r otherwise *)
Theorem C20_mappings_scope : forall pkg_of cfg inc, wf_node (c_root cfg) ->
  NoDup (map fst (spec_mappings_of pkg_of cfg inc))
  /\ (forall r k, In (r, k) (spec_mappings_of pkg_of cfg inc) <-> mapping_wanted pkg_of cfg inc r k).
Proof. exact spec_mappings_of_char. Qed.

(* exactly one invocation: Run hands one argument vector to exec.Command, and it gets there
   whenever the directories exist and PackageNameFromPath does not fail *)
Theorem C20_at_most_one_invocation : forall pkg_of cfg, length (invocations pkg_of cfg) <= 1.
Proof. exact invocations_le_one. Qed.

Theorem C20_one_invocation : forall pkg_of cfg,
  wf_node (c_root cfg) -> dirs_ok cfg -> (forall d, pkg_of d <> Err) ->
  exists argv, invocations pkg_of cfg = [argv] /\ run pkg_of cfg = Ok argv.
Proof. exact invocations_exactly_one. Qed.

(* the same, from the executable hypotheses the correspondence run evaluates on every case *)
Theorem C20_checked : forall pkg_of cfg argv,
  wf_nodeb (c_root cfg) = true -> dirs_okb cfg = true -> run pkg_of cfg = Ok argv ->
  map (to_abs (c_cwd cfg)) (files_of argv) = spec_files cfg
  /\ includes_of argv = spec_includes cfg
  /\ (forall pl, requests pl argv = requested cfg pl)
  /\ (forall pl, mappings_of pl argv = spec_mappings pkg_of cfg pl).
Proof. exact run_checked. Qed.

(* the judge of the correspondence run parses the recorded strings; on rendered argument vectors
   (segments without '/', mapping keys without '=', files not starting with '-') that parser
   gives back exactly the compared observables *)
Theorem C20_judge_parser_faithful : forall cwd argv,
  Forall arg_ok argv ->
  obs_of_args cwd (map (parse_arg cwd) (map render_arg argv)) = obs_of_args cwd argv.
Proof. exact parse_render_obs. Qed.

(* and on the model's own output: if the recorded strings are literally the model's rendering
   (coverage key exact_argv…: true of every case so far), the observables the judge reads from
   them are the specification's — names without '/' or '=', no file argument starting with '-' *)
Theorem C20_judge_reads_model : forall pkg_of cfg argv,
  wf_node (c_root cfg) -> dirs_ok cfg ->
  all_names str_ok (c_root cfg) -> Forall seg_ok (c_cwd cfg) ->
  (forall i, In i (include_paths cfg) -> pspec_segs_ok (fst i)) ->
  run pkg_of cfg = Ok argv ->
  (forall q, In q (files_of argv) -> starts_dash (render_pspec q) = false) ->
  let o := obs_of_args (c_cwd cfg) (map (parse_arg (c_cwd cfg)) (map render_arg argv)) in
  o_files o = spec_files cfg /\ o_incs o = spec_includes cfg
  /\ o_go o = spec_mappings pkg_of cfg PGo /\ o_vt o = spec_mappings pkg_of cfg PVt
  /\ o_grpc o = spec_mappings pkg_of cfg PGrpc /\ o_req o = (true, c_vt cfg, c_grpc cfg).
Proof. exact judge_reads_model. Qed.

(* ------------------------------------------------------------------ non-vacuity *)
Definition ex_root : node :=
  Dir "" [Dir "w" [Dir "m" [File "go.mod" false true;
    Dir "inc" [File "j.proto" false true; Dir "x" [File "i.proto" false true; File "k.proto" true true]];
    Dir "protos" [File "a.proto" false true; File "b.proto" true true;
                  Dir "d.proto" [File "e.proto" false true];
                  File "l.proto" false false;
                  Dir "protos" [File "a.proto" false true];
                  File "readme.txt" false true]]]].
Definition ex_pkg (d : path) : result string := Ok (String.concat "/" ("example.com" :: skipn 1 d)).
Definition ex_cfg (recurse : bool) : config :=
  {| c_root := ex_root; c_cwd := ["w"; "m"]; c_input := PAbs ["w"; "m"; "protos"];
     c_recurse := recurse; c_vt := true; c_grpc := false;
     c_includes := [(PRel [".."; "m"], None); (PRel ["inc"], Some ["github.com"; "foo"])] |}.

(* hypotheses hold of a tree with a sub directory named like the input directory, a directory
   named *.proto, a symlink named *.proto, an absolute input directory met again inside the
   walk of an include path (its parent), and a prefixed include *)
Example C20_example_hyps :
  wf_node ex_root /\ dirs_ok (ex_cfg true) /\ (forall d, ex_pkg d <> Err).
Proof.
  split; [apply wf_nodeb_sound; vm_compute; reflexivity|].
  split; [apply dirs_okb_sound; vm_compute; reflexivity|]. intros d; discriminate.
Qed.

Example C20_example_run :
  (match run ex_pkg (ex_cfg false) with Ok a => map render_arg a | Err => [] end) =
  ["--go_out=."; "--go_opt=paths=source_relative"; "--fatal_warnings"; "--go-vtproto_out=.";
   "--go-vtproto_opt=paths=source_relative,features=marshal+unmarshal+size+equal+clone+pool";
   "-I=/w/m/protos";
   "--go_opt=Ma.proto=example.com/m/protos"; "--go-vtproto_opt=Ma.proto=example.com/m/protos";
   "--go_opt=Md.proto/e.proto=example.com/m/protos/d.proto";
   "--go-vtproto_opt=Md.proto/e.proto=example.com/m/protos/d.proto";
   "--go_opt=Mprotos/a.proto=example.com/m/protos/protos";
   "--go-vtproto_opt=Mprotos/a.proto=example.com/m/protos/protos";
   "-I=/w/m";
   "--go_opt=Minc/j.proto=example.com/m/inc"; "--go-vtproto_opt=Minc/j.proto=example.com/m/inc";
   "--go_opt=Minc/x/i.proto=example.com/m/inc/x"; "--go-vtproto_opt=Minc/x/i.proto=example.com/m/inc/x";
   "--go_opt=Mprotos/a.proto=example.com/m/protos"; "--go-vtproto_opt=Mprotos/a.proto=example.com/m/protos";
   "--go_opt=Mprotos/d.proto/e.proto=example.com/m/protos/d.proto";
   "--go-vtproto_opt=Mprotos/d.proto/e.proto=example.com/m/protos/d.proto";
   "--go_opt=Mprotos/protos/a.proto=example.com/m/protos/protos";
   "--go-vtproto_opt=Mprotos/protos/a.proto=example.com/m/protos/protos";
   "-I=/w/m/inc";
   "--go_opt=Mj.proto=github.com/foo"; "--go-vtproto_opt=Mj.proto=github.com/foo";
   "--go_opt=Mx/i.proto=github.com/foo/x"; "--go-vtproto_opt=Mx/i.proto=github.com/foo/x";
   "/w/m/protos/a.proto"; "/w/m/protos/b.proto"].
Proof. vm_compute. reflexivity. Qed.

Example C20_example_scope :
  spec_files (ex_cfg false) = [["w"; "m"; "protos"; "a.proto"]; ["w"; "m"; "protos"; "b.proto"]]
  /\ spec_files (ex_cfg true) =
     [["w"; "m"; "protos"; "a.proto"]; ["w"; "m"; "protos"; "b.proto"];
      ["w"; "m"; "protos"; "d.proto"; "e.proto"]; ["w"; "m"; "protos"; "protos"; "a.proto"]]
  /\ spec_mappings ex_pkg (ex_cfg true) PGrpc = []
  /\ length (spec_mappings ex_pkg (ex_cfg true) PVt) = 10.
Proof. vm_compute. repeat split. Qed.

Example C20_example_judge_hyps :
  all_names str_ok ex_root /\ Forall seg_ok (c_cwd (ex_cfg true))
  /\ (forall i, In i (include_paths (ex_cfg true)) -> pspec_segs_ok (fst i))
  /\ (forall q, In q (files_of (match run ex_pkg (ex_cfg true) with Ok a => a | Err => [] end)) ->
        starts_dash (render_pspec q) = false).
Proof.
  split; [|split; [|split]].
  - unfold ex_root, str_ok, seg_ok. simpl. repeat (split || constructor); try discriminate; reflexivity.
  - unfold seg_ok. simpl. repeat (split || constructor); try discriminate; reflexivity.
  - intros i Hi. simpl in Hi. unfold pspec_segs_ok, seg_ok.
    repeat (destruct Hi as [<-|Hi]; [simpl; repeat (split || constructor); try discriminate; reflexivity|]).
    contradiction.
  - vm_compute. intros q Hq. repeat (destruct Hq as [<-|Hq]; [reflexivity|]). contradiction.
Qed.

Print Assumptions C20_files.
Print Assumptions C20_files_scope.
Print Assumptions C20_files_exactly_once.
Print Assumptions C20_includes.
Print Assumptions C20_plugins.
Print Assumptions C20_mappings.
Print Assumptions C20_mappings_scope.
Print Assumptions C20_at_most_one_invocation.
Print Assumptions C20_one_invocation.
Print Assumptions C20_checked.
Print Assumptions C20_judge_parser_faithful.
Print Assumptions C20_judge_reads_model.
