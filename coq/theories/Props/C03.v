(* C03 — gconfig: dimension resolution selects exactly the active branch.
   Property theorems only; every proof is `exact <lemma of GConfProofs>`.
   GConfModel.reduce / load_model / get_model mirror gconfig/builder.go (reduceAny,
   switchDimension, keySet, initFlag, lookupEnv) and gconfig/config.go (extract) of the
   current tree; they are tied to the code by the correspondence run of ./check C03.
   resolve_spec / subtree_at are the specification: a map whose keys other than `default` are
   a non-empty set of values of one registered dimension is replaced by the resolution of its
   active entry (selected value, else default, else failure); other maps and lists keep
   their shape with children resolved.  WF is the quantifier of the property.              *)
From Coq Require Import List String Bool Arith.
From GT Require Import GConfModel GConfProofs GConfPermProofs.
Import ListNotations.
Local Open Scope string_scope.

(* the code's resolution is the specification's, on every well-formed document, for every
   list of dimensions (any number, any selection), at any nesting depth *)
Theorem C03_resolve : forall dims t p, WF dims p t -> reduce dims t = resolve_spec dims t.
Proof. exact reduce_resolves. Qed.

Theorem C03_load : forall dims t p, WF dims p t -> load_model dims t = load_spec dims t.
Proof. exact load_resolves. Qed.

(* what the specification's resolution is, entry by entry: a switch resolves to the
   resolution of its active entry and fails without one ... *)
Theorem C03_switch : forall dims kv d,
  spec_switch dims kv = Some d ->
  resolve_spec dims (Mp kv) =
  match active_entry d kv with Some c => resolve_spec dims c | None => Err end.
Proof. exact resolve_switch. Qed.

(* ... the active entry being THE entry whose key parses to the selected value (unique in a
   well-formed switch, so the order in which Go ranges over the map cannot matter) ... *)
Theorem C03_active_selected : forall d (kv : list (string * tree)) k c,
  NoDup (map fst kv) -> NoDup (parsed_values d (nondefault_keys kv)) ->
  In (k, c) kv -> k <> default_key -> d_parse d k = Some (d_sel d) ->
  active_entry d kv = Some c.
Proof. exact active_selected. Qed.

(* ... and the `default` entry when no key parses to the selected value *)
Theorem C03_active_default : forall d (kv : list (string * tree)),
  (forall k c, In (k, c) kv -> k <> default_key -> d_parse d k <> Some (d_sel d)) ->
  active_entry d kv = assoc default_key kv.
Proof. exact active_default. Qed.

(* Go ranges over a map in an arbitrary order.  teq identifies documents up to the order of
   the entries of every map (distinct keys); on well-formed documents the resolution — of the
   specification and of the code — respects it: same configuration (as maps), same failures *)
Theorem C03_spec_order_irrelevant : forall dims t p t',
  WF dims p t -> teq t t' -> req (resolve_spec dims t) (resolve_spec dims t').
Proof. exact resolve_teq. Qed.

Theorem C03_order_irrelevant : forall dims t p t' p',
  WF dims p t -> WF dims p' t' -> teq t t' -> req (reduce dims t) (reduce dims t').
Proof. exact reduce_teq. Qed.

Theorem C03_get_order_irrelevant : forall path t t',
  teq t t' -> oeq (subtree_at t path) (subtree_at t' path).
Proof. exact subtree_teq. Qed.

(* maps that are not switches keep their keys, children resolved; lists likewise *)
Theorem C03_plain : forall dims kv,
  spec_switch dims kv = None ->
  resolve_spec dims (Mp kv) = lift Mp (seq_kv (rmap (resolve_spec dims) kv)).
Proof. exact resolve_plain. Qed.

Theorem C03_list : forall dims l,
  resolve_spec dims (Lst l) = lift Lst (seq_list (map (resolve_spec dims) l)).
Proof. exact resolve_Lst. Qed.

(* Get reads the subtree at the key's dotted path of the resolved document *)
Theorem C03_get : forall cfg key, get_model cfg key = get_spec cfg key.
Proof. exact get_model_spec. Qed.

Theorem C03_get_path : forall cfg path,
  path <> [] -> forallb no_dot path = true ->
  get_model cfg (join_dots path) = subtree_at (Mp cfg) path.
Proof. exact get_at_path. Qed.

(* what must not matter: entries of switches other than the active one *)
Theorem C03_only_selected : forall dims t t',
  Agree dims t t' -> resolve_spec dims t = resolve_spec dims t'.
Proof. exact agree_resolve. Qed.

(* loading fails exactly when a switch on the selected path has neither the selected value
   nor a default *)
Theorem C03_error_iff : forall dims t, resolve_spec dims t = Err <-> Stuck dims t.
Proof. exact error_iff_stuck. Qed.

(* the value of a dimension: builder default unless the environment names one *)
Theorem C03_dimension_default : forall parse dflt env name,
  lookup_env env name = None -> select_dim parse dflt env name = Ok dflt.
Proof. exact select_dim_default. Qed.

Theorem C03_dimension_env : forall parse dflt env name s v,
  lookup_env env name = Some s -> parse s = Some v -> select_dim parse dflt env name = Ok v.
Proof. exact select_dim_env. Qed.

(* ... and a value given through the dimension's flag overrides both *)
Theorem C03_dimension_flag : forall parse s v v',
  parse s = Some v' -> apply_flag parse (Some s) v = v'.
Proof. exact apply_flag_some. Qed.

(* the decidable check used to classify generated documents implies WF *)
Theorem C03_wfb_sound : forall dims t p, wfb dims p t = true -> WF dims p t.
Proof. exact wfb_sound. Qed.

(* non-vacuity: a well-formed document with three dimensions nested D2 > list > D1 > D3, an
   empty map, a switch without default in an unselected branch; and a failing one *)
Definition T3 : list (string * nat) := [("D3a", 0); ("D3b", 1); ("D3c", 2)].
Definition dims123 : list dim := [mk_dim T1 1; mk_dim T2 2; mk_dim T3 0].
Definition example_doc : tree :=
  Mp [("a", Mp [("D2c", Lst [Mp [("D1b", Mp [("D3a", Str "hit"); ("default", Null)]);
                                 ("default", Atom "i:0")];
                             Mp []]);
                ("D2a", Mp [("D1a", Str "never")])]);
      ("b", Mp [("x", Mp [("D3b", Atom "b:true")])])].
Example C03_example_wf :
  WF dims123 None example_doc /\
  reduce dims123 example_doc = Err /\
  reduce dims123 (Mp [("a", Mp [("D2c", Lst [Mp [("D1b", Mp [("D3a", Str "hit")])]; Mp []]);
                                ("D2a", Mp [("D1a", Str "never")])])])
  = Ok (Mp [("a", Lst [Str "hit"; Mp []])]).
Proof. split; [apply wfb_sound; vm_compute; reflexivity| split; vm_compute; reflexivity]. Qed.

Example C03_example_agree :
  Agree dims123 (Mp [("D1b", Str "v"); ("D1a", Mp [("D2a", Null)])])
                (Mp [("D1b", Str "v"); ("default", Lst [])]).
Proof. eapply Ag_switch; try (vm_compute; reflexivity). apply Ag_refl. Qed.

Example C03_example_teq :
  teq (Mp [("D1b", Str "v"); ("default", Lst [Mp [("x", Null); ("y", Str "s")]])])
      (Mp [("default", Lst [Mp [("y", Str "s"); ("x", Null)]]); ("D1b", Str "v")]).
Proof.
  assert (Hin : teq (Mp [("x", Null); ("y", Str "s")]) (Mp [("y", Str "s"); ("x", Null)])).
  { constructor.
    - repeat constructor; cbn; intuition discriminate.
    - repeat constructor; cbn; intuition discriminate.
    - intros k c [H|[H|[]]]; inversion H; subst; eexists; (split; [|constructor]); cbn; tauto.
    - intros k c [H|[H|[]]]; inversion H; subst; eexists; (split; [|constructor]); cbn; tauto. }
  constructor.
  - repeat constructor; cbn; intuition discriminate.
  - repeat constructor; cbn; intuition discriminate.
  - intros k c [H|[H|[]]]; inversion H; subst; eexists; (split; [cbn; tauto|]).
    + constructor.
    + constructor. constructor; [exact Hin| constructor].
  - intros k c [H|[H|[]]]; inversion H; subst; eexists; (split; [cbn; tauto|]).
    + constructor. constructor; [exact Hin| constructor].
    + constructor.
Qed.

Example C03_example_stuck : Stuck dims123 (Mp [("k", Lst [Mp [("D1a", Null)]])]).
Proof.
  eapply St_plain; [vm_compute; reflexivity| left; reflexivity|].
  eapply St_lst; [left; reflexivity|]. eapply St_here; vm_compute; reflexivity.
Qed.

(* the pinned code (before fix C03-structural-reduce) violated C03_load on well-formed
   documents — kept as a record: (a) an empty map failed loading, (b) a D1 switch under a D2
   switch under a D1 switch came back as the raw map, (c) a switch without default in an
   unselected branch of a switch of a later-registered dimension aborted loading *)
Theorem C03_orig_refuted_empty_map :
  exists dims t, WF dims None t /\ load_orig dims t <> Some (load_spec dims t).
Proof. exact orig_refuted_empty_map. Qed.

Theorem C03_orig_refuted_nested_raw_map :
  exists dims t, WF dims None t /\ load_orig dims t <> Some (load_spec dims t).
Proof. exact orig_refuted_nested_raw_map. Qed.

Theorem C03_orig_refuted_unselected_branch :
  exists dims t, WF dims None t /\ load_orig dims t <> Some (load_spec dims t).
Proof. exact orig_refuted_unselected_branch. Qed.

Print Assumptions C03_resolve.
Print Assumptions C03_load.
Print Assumptions C03_switch.
Print Assumptions C03_active_selected.
Print Assumptions C03_active_default.
Print Assumptions C03_spec_order_irrelevant.
Print Assumptions C03_order_irrelevant.
Print Assumptions C03_get_order_irrelevant.
Print Assumptions C03_plain.
Print Assumptions C03_list.
Print Assumptions C03_get.
Print Assumptions C03_get_path.
Print Assumptions C03_only_selected.
Print Assumptions C03_error_iff.
Print Assumptions C03_dimension_default.
Print Assumptions C03_dimension_env.
Print Assumptions C03_dimension_flag.
Print Assumptions C03_wfb_sound.
Print Assumptions C03_orig_refuted_empty_map.
Print Assumptions C03_orig_refuted_nested_raw_map.
Print Assumptions C03_orig_refuted_unselected_branch.

(* ======================================================================================
   The relational specification (design_notes/AUDIT-C01-C10.md, finding 6).

   GConfRelSpec.Resolves / Fails are written from the property text with In, exists, forall,
   d_parse and d_sel only — none of the helpers shared by the model and resolve_spec
   (classify, nondefault_keys, spec_switch, active_entry, is_sel, parses, find, forallb).
   On every well-formed document the code's reduceAny computes exactly that relation; here WF
   is indispensable (distinct keys, distinct parsed values, plain/switch dichotomy): outside WF
   the relation is not a function, or is empty, while the code still answers.             *)
From GT Require Import GConfRelSpec GConfRelProofs.

Theorem C03_resolves_iff : forall dims t p r, WF dims p t ->
  (reduce dims t = Ok r <-> Resolves dims t r).
Proof. exact rel_reduce_ok. Qed.

Theorem C03_fails_iff : forall dims t p, WF dims p t ->
  (reduce dims t = Err <-> Fails dims t).
Proof. exact rel_reduce_err. Qed.

(* the executable specification against the same relation *)
Theorem C03_spec_resolves_iff : forall dims t p r, WF dims p t ->
  (resolve_spec dims t = Ok r <-> Resolves dims t r).
Proof. exact rel_spec_ok. Qed.

Theorem C03_spec_fails_iff : forall dims t p, WF dims p t ->
  (resolve_spec dims t = Err <-> Fails dims t).
Proof. exact rel_spec_err. Qed.

(* on well-formed documents the relation is a total function with an exclusive failure case *)
Theorem C03_resolves_deterministic : forall dims t p r1 r2, WF dims p t ->
  Resolves dims t r1 -> Resolves dims t r2 -> r1 = r2.
Proof. exact rel_deterministic. Qed.

Theorem C03_resolves_exclusive : forall dims t p r, WF dims p t ->
  Resolves dims t r -> Fails dims t -> False.
Proof. exact rel_exclusive. Qed.

Theorem C03_resolves_total : forall dims t p, WF dims p t ->
  (exists r, Resolves dims t r) \/ Fails dims t.
Proof. exact rel_total. Qed.

(* ... and only there: two keys parsing to the selected value give two values; a map mixing
   dimension values with other keys neither resolves nor fails although reduce answers *)
Theorem C03_relation_not_function_outside_WF :
  exists dims t r1 r2, Resolves dims t r1 /\ Resolves dims t r2 /\ r1 <> r2.
Proof. exact rel_not_function_outside_WF. Qed.

Theorem C03_relation_empty_on_mixed_map :
  exists dims t, (forall r, ~ Resolves dims t r) /\ ~ Fails dims t /\ reduce dims t <> Err.
Proof. exact rel_empty_on_mixed. Qed.

(* "a switch of dimension d": switch_of says d is the FIRST registered dimension of which all
   keys are values.  With pairwise disjoint value names (disjoint_dims) the clause is void —
   the relation without it (LooseResolves) is the same relation; with a shared value name the
   loose relation gives two values on a well-formed document, of which the code returns the one
   of the first-registered dimension *)
Theorem C03_first_registered_void_when_disjoint : forall dims, disjoint_dims dims ->
  forall t r, LooseResolves dims t r <-> Resolves dims t r.
Proof. exact loose_iff_disjoint. Qed.

Theorem C03_loose_reading_ambiguous :
  exists dims t r1 r2, WF dims None t /\ LooseResolves dims t r1 /\ LooseResolves dims t r2 /\
                       r1 <> r2 /\ reduce dims t = Ok r1.
Proof. exact loose_ambiguous. Qed.

(* loading composed with Get: the configuration is THE document t resolves to, and Get at a
   dotted path returns exactly the value at that path of it (ValueAt: follow the keys through
   maps; subtree_at: the same as a function) *)
Theorem C03_load_get : forall dims p t cfg,
  WF dims p t -> load_model dims t = Ok cfg ->
  Resolves dims t (Mp cfg) /\
  forall r, Resolves dims t r ->
    r = Mp cfg /\
    forall path, path <> [] -> Forall (fun s => no_dot s = true) path ->
      get_model cfg (join_dots path) = subtree_at r path /\
      forall v, get_model cfg (join_dots path) = Some v <-> ValueAt r path v.
Proof. exact load_get_rel. Qed.

(* the error clause for LOADING: a stuck switch on the selected path, or a root that is not a
   map before or after resolution (C03_error_iff alone misses the last two) *)
Theorem C03_load_error_iff : forall dims p t, WF dims p t ->
  (load_model dims t = Err <->
   Fails dims t \/ (exists r, Resolves dims t r /\ ~ is_map r) \/ ~ is_map t).
Proof. exact load_error_rel. Qed.

Theorem C03_load_spec_error_iff : forall dims p t, WF dims p t ->
  (load_spec dims t = Err <->
   Fails dims t \/ (exists r, Resolves dims t r /\ ~ is_map r) \/ ~ is_map t).
Proof. exact load_spec_error_rel. Qed.

(* the decidable domain check is complete: with C03_wfb_sound, wfb decides WF, so the judge's
   in_domain is not narrower than the quantifier *)
Theorem C03_wf_wfb_complete : forall dims t p, WF dims p t -> wfb dims p t = true.
Proof. exact wfb_complete. Qed.

(* non-vacuity.  A two-dimensional document (D1b and D2a selected) and its derivation: plain
   root; "a" is a D1 switch whose selected entry is a list holding a D2 switch that has no
   entry for D2a and falls back to default *)
Definition dimsAB : list dim := [mk_dim T1 1; mk_dim T2 0].
Definition rel_doc : tree :=
  Mp [("a", Mp [("D1a", Str "no");
                ("D1b", Lst [Mp [("D2b", Null); ("default", Str "yes")]])]);
      ("b", Atom "i:1")].

Example C03_example_resolves :
  WF dimsAB None rel_doc /\
  Resolves dimsAB rel_doc (Mp [("a", Lst [Str "yes"]); ("b", Atom "i:1")]).
Proof.
  split; [apply wfb_sound; vm_compute; reflexivity|].
  apply R_plain.
  - intros k c [H|[H|[]]]; inversion H; subst;
      (split; [discriminate| intros d [<-|[<-|[]]]; reflexivity]).
  - constructor; [split; [reflexivity|]| constructor; [split; [reflexivity| constructor]| constructor]].
    cbn [snd]. apply (R_selected dimsAB _ (mk_dim T1 1) "D1b"
                        (Lst [Mp [("D2b", Null); ("default", Str "yes")]])).
    + split; [exists [], [mk_dim T2 0]; split; [reflexivity| intros d' []]|]. split.
      * exists "D1a", (Str "no"). split; [left; reflexivity| discriminate].
      * intros k c [H|[H|[]]] _; inversion H; subst; discriminate.
    + split; [right; left; reflexivity| split; [discriminate| reflexivity]].
    + constructor. constructor; [|constructor].
      apply (R_default dimsAB _ (mk_dim T2 0) (Str "yes")).
      * split; [exists [mk_dim T1 1], []; split; [reflexivity|]|split].
        -- intros d' [<-|[]]. exists "D2b", Null.
           split; [left; reflexivity| split; [discriminate| reflexivity]].
        -- exists "D2b", Null. split; [left; reflexivity| discriminate].
        -- intros k c [H|[H|[]]] Hk; inversion H; subst; [discriminate| congruence].
      * intros k c [H|[H|[]]] Hk; inversion H; subst; [discriminate| congruence].
      * right. left. reflexivity.
      * constructor.
Qed.

(* a failing document: below a plain key, in a list, a D1 switch with neither D1b nor default *)
Example C03_example_fails :
  WF dimsAB None (Mp [("k", Lst [Mp [("D1a", Null)]])]) /\
  Fails dimsAB (Mp [("k", Lst [Mp [("D1a", Null)]])]).
Proof.
  split; [apply wfb_sound; vm_compute; reflexivity|].
  apply (F_plain dimsAB _ "k" (Lst [Mp [("D1a", Null)]])).
  - intros k c [H|[]]; inversion H; subst.
    split; [discriminate| intros d [<-|[<-|[]]]; reflexivity].
  - left. reflexivity.
  - apply (F_lst dimsAB _ (Mp [("D1a", Null)])); [left; reflexivity|].
    apply (F_none dimsAB _ (mk_dim T1 1)).
    + split; [exists [], [mk_dim T2 0]; split; [reflexivity| intros d' []]|]. split.
      * exists "D1a", Null. split; [left; reflexivity| discriminate].
      * intros k c [H|[]] _; inversion H; subst; discriminate.
    + intros k c [H|[]] _; inversion H; subst; discriminate.
    + intros c [H|[]]; discriminate.
Qed.

(* the root-non-map document: well-formed, resolves (to a scalar), not Fails, not Stuck, and
   loading fails *)
Example C03_example_root_non_map :
  WF dims12 None (Mp [("D1a", Str "x")]) /\
  Resolves dims12 (Mp [("D1a", Str "x")]) (Str "x") /\ ~ is_map (Str "x") /\
  load_model dims12 (Mp [("D1a", Str "x")]) = Err /\
  ~ Fails dims12 (Mp [("D1a", Str "x")]) /\ ~ Stuck dims12 (Mp [("D1a", Str "x")]).
Proof. exact root_non_map_witness. Qed.

(* the registered enums of the generator have pairwise disjoint value names *)
Example C03_example_disjoint : disjoint_dims dimsAB.
Proof.
  intros i j di dj k Hi Hj Pi Pj.
  destruct i as [|[|i]]; destruct j as [|[|j]]; cbn in Hi, Hj;
    try reflexivity; try (destruct i; discriminate); try (destruct j; discriminate);
    inversion Hi; inversion Hj; subst; cbn in Pi, Pj; exfalso.
  - repeat match type of Pi with context [String.eqb k ?s] =>
             destruct (String.eqb_spec k s); [subst; apply Pj; reflexivity|] end.
    apply Pi. reflexivity.
  - repeat match type of Pj with context [String.eqb k ?s] =>
             destruct (String.eqb_spec k s); [subst; apply Pi; reflexivity|] end.
    apply Pj. reflexivity.
Qed.

(* Get through the composed theorem: the value at a.0 does not exist (lists are not walked),
   the value at "a" is the resolved list *)
Example C03_example_load_get :
  exists cfg, load_model dimsAB rel_doc = Ok cfg /\
              get_model cfg "a" = Some (Lst [Str "yes"]) /\
              ValueAt (Mp cfg) ["a"] (Lst [Str "yes"]).
Proof.
  eexists. split; [vm_compute; reflexivity|]. split; [vm_compute; reflexivity|].
  eapply VA_step; [left; reflexivity| constructor].
Qed.

Print Assumptions C03_resolves_iff.
Print Assumptions C03_fails_iff.
Print Assumptions C03_spec_resolves_iff.
Print Assumptions C03_spec_fails_iff.
Print Assumptions C03_resolves_deterministic.
Print Assumptions C03_resolves_exclusive.
Print Assumptions C03_resolves_total.
Print Assumptions C03_relation_not_function_outside_WF.
Print Assumptions C03_relation_empty_on_mixed_map.
Print Assumptions C03_first_registered_void_when_disjoint.
Print Assumptions C03_loose_reading_ambiguous.
Print Assumptions C03_load_get.
Print Assumptions C03_load_error_iff.
Print Assumptions C03_load_spec_error_iff.
Print Assumptions C03_wf_wfb_complete.

(* ------------------------------------------------------------------ Builder.FromBytes as a whole
   (GConfLoadModel.from_bytes_model is what coq/ties/Tie_C03.v proves the regenerated FromBytes to
   be): the root map is classified like any other map, the result must be a map, the Config records
   the value of every registered dimension.                                                      *)
From GT Require Import GConfGenPrims GConfLoadModel GConfLoadProofs.

Theorem C03_root_switch : forall dims kv d,
  classify dims kv = Some d ->
  load_model dims (Mp kv) =
  match active_entry d kv with
  | Some c => match reduce dims c with Ok (Mp r) => Ok r | _ => Err end
  | None => Err
  end.
Proof. exact load_root_switch. Qed.

Theorem C03_root_plain : forall dims kv,
  classify dims kv = None -> load_model dims (Mp kv) = seq_kv (rmap (reduce dims) kv).
Proof. exact load_root_plain. Qed.

Theorem C03_from_bytes_ok_iff : forall (ybytes : Type) (yum : ybytes -> gomap -> gomap * bool)
    (pte : tree -> tree * bool) dims b cfg,
  from_bytes_model yum pte dims b = (cfg, false) <->
  exists data kv r, yum b map_empty = (data, false) /\ load_model dims (Mp data) = Ok kv /\
                    pte (Mp kv) = (r, false) /\ cfg = mk_config (dimension_values dims) (fst (as_map r)).
Proof. exact from_bytes_ok_iff. Qed.

(* GetDimension returns the value the resolution compared the switch keys with *)
Theorem C03_get_dimension : forall dims d v, In (Some d, v) (dimension_values dims) -> v = d_sel d.
Proof. exact dimension_values_sel. Qed.

Theorem C03_get_dimension_total : forall dims d, In d dims -> In (Some d, d_sel d) (dimension_values dims).
Proof. exact dimension_values_all. Qed.

(* a root switch: `D1a: {k: v}` / `default: {k: w}` under D1 = D1a loads as {k: v} *)
Example C03_example_root_switch :
  load_model dims12 (Mp [("D1a", Mp [("k", Str "v")]); ("default", Mp [("k", Str "w")])]) = Ok [("k", Str "v")]
  /\ classify dims12 [("D1a", Mp [("k", Str "v")]); ("default", Mp [("k", Str "w")])] = Some (mk_dim T1 0).
Proof. split; vm_compute; reflexivity. Qed.

Print Assumptions C03_root_switch.
Print Assumptions C03_root_plain.
Print Assumptions C03_from_bytes_ok_iff.
Print Assumptions C03_get_dimension.
Print Assumptions C03_get_dimension_total.
