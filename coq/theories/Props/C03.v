(* C03 — gconfig: dimension resolution selects exactly the active branch.
   Property theorems only; every proof is `exact <lemma of GConfProofs>`.
   GConfModel.reduce / load_model / get_model mirror gconfig/builder.go (reduceAny,
   switchDimension, keySet, initFlag, lookupEnv) and gconfig/config.go (extract) of the
   current tree; they are tied to the code by the correspondence run of ./check C03.
   resolve_spec / subtree_at are the specification: a map whose keys other than `default` are
   a non-empty set of values of one registered dimension is replaced by the resolution of its
   active entry (selected value, else default, else failure); other maps and lists keep
   their shape with children resolved.  WF is the quantifier of the property.              *)
From Coq Require Import List String Bool Arith.
From GT Require Import GConfModel GConfProofs GConfPermProofs.
Import ListNotations.
Local Open Scope string_scope.

(* the code's resolution is the specification's, on every well-formed document, for every
   list of dimensions (any number, any selection), at any nesting depth *)
Theorem C03_resolve : forall dims t p, WF dims p t -> reduce dims t = resolve_spec dims t.
Proof. exact reduce_resolves. Qed.

Theorem C03_load : forall dims t p, WF dims p t -> load_model dims t = load_spec dims t.
Proof. exact load_resolves. Qed.

(* what the specification's resolution is, entry by entry: a switch resolves to the
   resolution of its active entry and fails without one ... *)
Theorem C03_switch : forall dims kv d,
  spec_switch dims kv = Some d ->
  resolve_spec dims (Mp kv) =
  match active_entry d kv with Some c => resolve_spec dims c | None => Err end.
Proof. exact resolve_switch. Qed.

(* ... the active entry being THE entry whose key parses to the selected value (unique in a
   well-formed switch, so the order in which Go ranges over the map cannot matter) ... *)
Theorem C03_active_selected : forall d (kv : list (string * tree)) k c,
  NoDup (map fst kv) -> NoDup (parsed_values d (nondefault_keys kv)) ->
  In (k, c) kv -> k <> default_key -> d_parse d k = Some (d_sel d) ->
  active_entry d kv = Some c.
Proof. exact active_selected. Qed.

(* ... and the `default` entry when no key parses to the selected value *)
Theorem C03_active_default : forall d (kv : list (string * tree)),
  (forall k c, In (k, c) kv -> k <> default_key -> d_parse d k <> Some (d_sel d)) ->
  active_entry d kv = assoc default_key kv.
Proof. exact active_default. Qed.

(* Go ranges over a map in an arbitrary order.  teq identifies documents up to the order of
   the entries of every map (distinct keys); on well-formed documents the resolution — of the
   specification and of the code — respects it: same configuration (as maps), same failures *)
Theorem C03_spec_order_irrelevant : forall dims t p t',
  WF dims p t -> teq t t' -> req (resolve_spec dims t) (resolve_spec dims t').
Proof. exact resolve_teq. Qed.

Theorem C03_order_irrelevant : forall dims t p t' p',
  WF dims p t -> WF dims p' t' -> teq t t' -> req (reduce dims t) (reduce dims t').
Proof. exact reduce_teq. Qed.

Theorem C03_get_order_irrelevant : forall path t t',
  teq t t' -> oeq (subtree_at t path) (subtree_at t' path).
Proof. exact subtree_teq. Qed.

(* maps that are not switches keep their keys, children resolved; lists likewise *)
Theorem C03_plain : forall dims kv,
  spec_switch dims kv = None ->
  resolve_spec dims (Mp kv) = lift Mp (seq_kv (rmap (resolve_spec dims) kv)).
Proof. exact resolve_plain. Qed.

Theorem C03_list : forall dims l,
  resolve_spec dims (Lst l) = lift Lst (seq_list (map (resolve_spec dims) l)).
Proof. exact resolve_Lst. Qed.

(* Get reads the subtree at the key's dotted path of the resolved document *)
Theorem C03_get : forall cfg key, get_model cfg key = get_spec cfg key.
Proof. exact get_model_spec. Qed.

Theorem C03_get_path : forall cfg path,
  path <> [] -> forallb no_dot path = true ->
  get_model cfg (join_dots path) = subtree_at (Mp cfg) path.
Proof. exact get_at_path. Qed.

(* what must not matter: entries of switches other than the active one *)
Theorem C03_only_selected : forall dims t t',
  Agree dims t t' -> resolve_spec dims t = resolve_spec dims t'.
Proof. exact agree_resolve. Qed.

(* loading fails exactly when a switch on the selected path has neither the selected value
   nor a default *)
Theorem C03_error_iff : forall dims t, resolve_spec dims t = Err <-> Stuck dims t.
Proof. exact error_iff_stuck. Qed.

(* the value of a dimension: builder default unless the environment names one *)
Theorem C03_dimension_default : forall parse dflt env name,
  lookup_env env name = None -> select_dim parse dflt env name = Ok dflt.
Proof. exact select_dim_default. Qed.

Theorem C03_dimension_env : forall parse dflt env name s v,
  lookup_env env name = Some s -> parse s = Some v -> select_dim parse dflt env name = Ok v.
Proof. exact select_dim_env. Qed.

(* ... and a value given through the dimension's flag overrides both *)
Theorem C03_dimension_flag : forall parse s v v',
  parse s = Some v' -> apply_flag parse (Some s) v = v'.
Proof. exact apply_flag_some. Qed.

(* the decidable check used to classify generated documents implies WF *)
Theorem C03_wfb_sound : forall dims t p, wfb dims p t = true -> WF dims p t.
Proof. exact wfb_sound. Qed.

(* non-vacuity: a well-formed document with three dimensions nested D2 > list > D1 > D3, an
   empty map, a switch without default in an unselected branch; and a failing one *)
Definition T3 : list (string * nat) := [("D3a", 0); ("D3b", 1); ("D3c", 2)].
Definition dims123 : list dim := [mk_dim T1 1; mk_dim T2 2; mk_dim T3 0].
Definition example_doc : tree :=
  Mp [("a", Mp [("D2c", Lst [Mp [("D1b", Mp [("D3a", Str "hit"); ("default", Null)]);
                                 ("default", Atom "i:0")];
                             Mp []]);
                ("D2a", Mp [("D1a", Str "never")])]);
      ("b", Mp [("x", Mp [("D3b", Atom "b:true")])])].
Example C03_example_wf :
  WF dims123 None example_doc /\
  reduce dims123 example_doc = Err /\
  reduce dims123 (Mp [("a", Mp [("D2c", Lst [Mp [("D1b", Mp [("D3a", Str "hit")])]; Mp []]);
                                ("D2a", Mp [("D1a", Str "never")])])])
  = Ok (Mp [("a", Lst [Str "hit"; Mp []])]).
Proof. split; [apply wfb_sound; vm_compute; reflexivity| split; vm_compute; reflexivity]. Qed.

Example C03_example_agree :
  Agree dims123 (Mp [("D1b", Str "v"); ("D1a", Mp [("D2a", Null)])])
                (Mp [("D1b", Str "v"); ("default", Lst [])]).
Proof. eapply Ag_switch; try (vm_compute; reflexivity). apply Ag_refl. Qed.

Example C03_example_teq :
  teq (Mp [("D1b", Str "v"); ("default", Lst [Mp [("x", Null); ("y", Str "s")]])])
      (Mp [("default", Lst [Mp [("y", Str "s"); ("x", Null)]]); ("D1b", Str "v")]).
Proof.
  assert (Hin : teq (Mp [("x", Null); ("y", Str "s")]) (Mp [("y", Str "s"); ("x", Null)])).
  { constructor.
    - repeat constructor; cbn; intuition discriminate.
    - repeat constructor; cbn; intuition discriminate.
    - intros k c [H|[H|[]]]; inversion H; subst; eexists; (split; [|constructor]); cbn; tauto.
    - intros k c [H|[H|[]]]; inversion H; subst; eexists; (split; [|constructor]); cbn; tauto. }
  constructor.
  - repeat constructor; cbn; intuition discriminate.
  - repeat constructor; cbn; intuition discriminate.
  - intros k c [H|[H|[]]]; inversion H; subst; eexists; (split; [cbn; tauto|]).
    + constructor.
    + constructor. constructor; [exact Hin| constructor].
  - intros k c [H|[H|[]]]; inversion H; subst; eexists; (split; [cbn; tauto|]).
    + constructor. constructor; [exact Hin| constructor].
    + constructor.
Qed.

Example C03_example_stuck : Stuck dims123 (Mp [("k", Lst [Mp [("D1a", Null)]])]).
Proof.
  eapply St_plain; [vm_compute; reflexivity| left; reflexivity|].
  eapply St_lst; [left; reflexivity|]. eapply St_here; vm_compute; reflexivity.
Qed.

(* the pinned code (before fix C03-structural-reduce) violated C03_load on well-formed
   documents — kept as a record: (a) an empty map failed loading, (b) a D1 switch under a D2
   switch under a D1 switch came back as the raw map, (c) a switch without default in an
   unselected branch of a switch of a later-registered dimension aborted loading *)
Theorem C03_orig_refuted_empty_map :
  exists dims t, WF dims None t /\ load_orig dims t <> Some (load_spec dims t).
Proof.
  exists dims12, witness_a. destruct orig_refuted_a as [W [S O]]. split; [exact W|].
  rewrite S, O. discriminate.
Qed.

Theorem C03_orig_refuted_nested_raw_map :
  exists dims t, WF dims None t /\ load_orig dims t <> Some (load_spec dims t).
Proof.
  exists dims12, witness_b. destruct orig_refuted_b as [W [S O]]. split; [exact W|].
  rewrite S, O. discriminate.
Qed.

Theorem C03_orig_refuted_unselected_branch :
  exists dims t, WF dims None t /\ load_orig dims t <> Some (load_spec dims t).
Proof.
  exists dims12, witness_c. destruct orig_refuted_c as [W [S O]]. split; [exact W|].
  rewrite S, O. discriminate.
Qed.

Print Assumptions C03_resolve.
Print Assumptions C03_load.
Print Assumptions C03_switch.
Print Assumptions C03_active_selected.
Print Assumptions C03_active_default.
Print Assumptions C03_spec_order_irrelevant.
Print Assumptions C03_order_irrelevant.
Print Assumptions C03_get_order_irrelevant.
Print Assumptions C03_plain.
Print Assumptions C03_list.
Print Assumptions C03_get.
Print Assumptions C03_get_path.
Print Assumptions C03_only_selected.
Print Assumptions C03_error_iff.
Print Assumptions C03_dimension_default.
Print Assumptions C03_dimension_env.
Print Assumptions C03_dimension_flag.
Print Assumptions C03_wfb_sound.
Print Assumptions C03_orig_refuted_empty_map.
Print Assumptions C03_orig_refuted_nested_raw_map.
Print Assumptions C03_orig_refuted_unselected_branch.
