(* C10 — gconfig: Get is a pure function of (config, key, type).
   Property theorems only; every proof is `exact <lemma of GConfCacheProofs>`.
   GConfCacheModel mirrors getFromCache/Get/MustGet/GetOrDefault of gconfig/config.go of the
   current tree (memo keyed by (key, reflect.Type); one atomic Compute per request); the
   conversion extractAndConvert is a Section function.  Tied to the code by ./check C10.   *)
From Coq Require Import List String Bool Arith.
From GT Require Import GConfModel GConfCacheModel GConfCacheProofs.
Import ListNotations.
Local Open Scope string_scope.

Section C10.
  Variable ty : Type.
  Variable ty_eqb : ty -> ty -> bool.
  Hypothesis ty_eqb_eq : forall a b, ty_eqb a b = true <-> a = b.
  Variable conv : string -> ty -> res val.

  (* after ANY history, a request gives the result the first such request on a freshly
     loaded Config gives *)
  Theorem C10_pure : forall h o,
    last (run ty ty_eqb conv [] (h ++ [o])%list) OPanic = fresh ty ty_eqb conv o.
  Proof. exact (last_is_fresh ty ty_eqb ty_eqb_eq conv). Qed.

  (* indeed every request of every history does *)
  Theorem C10_every_request_fresh : forall h,
    run ty ty_eqb conv [] h = map (fresh ty ty_eqb conv) h.
  Proof. exact (run_all_fresh_nil ty ty_eqb ty_eqb_eq conv). Qed.

  (* and the fresh result is the conversion's: value, or its error (MustGet: the panic carrying
     it, GetOrDefault: the default) *)
  Theorem C10_fresh_is_conversion : forall o, fresh ty ty_eqb conv o = spec ty conv o.
  Proof. exact (fresh_is_spec ty ty_eqb ty_eqb_eq conv). Qed.

  (* no request panics, other than MustGet reporting an error *)
  Theorem C10_no_panic : forall h, ~ In OPanic (run ty ty_eqb conv [] h).
  Proof. exact (run_no_panic ty ty_eqb ty_eqb_eq conv). Qed.

  Theorem C10_must_panic_only_on_error : forall o,
    spec ty conv o = OMustPanic -> exists k T, o = MustGet k T /\ conv k T = Err.
  Proof. exact (must_panic_only_on_error ty conv). Qed.

  (* no request changes the outcome of another: dropping a request from a history leaves all
     other outcomes unchanged *)
  Theorem C10_independent : forall h1 o h2,
    run ty ty_eqb conv [] (h1 ++ o :: h2)%list
    = (run ty ty_eqb conv [] h1 ++ fresh ty ty_eqb conv o
         :: skipn (List.length h1) (run ty ty_eqb conv [] (h1 ++ h2)))%list.
  Proof. exact (run_remove ty ty_eqb ty_eqb_eq conv). Qed.

  (* concurrent mixes: ts = the request lists of the goroutines, h = any interleaving of them
     (each request one atomic step — the assumption about xsync Compute that makes this clause
     partial); every goroutine observes, for its own list, the outcomes of a fresh Config *)
  Theorem C10_concurrent_partial : forall ts h,
    Merge ty ts h -> forall i,
    observed_by ty i h (run ty ty_eqb conv [] (map fst h))
    = map (fresh ty ty_eqb conv) (nth i ts []).
  Proof. exact (concurrent_fresh ty ty_eqb ty_eqb_eq conv). Qed.
End C10.

(* non-vacuity: the section's hypothesis holds of the instance used below, and a history with
   a repeated request, a failing one and the colliding pair of the pinned code *)
Example C10_example :
  (forall a b, gty_eqb a b = true <-> a = b) /\
  run gty gty_eqb wconv []
      [Get "a" Tuint8; Get "au" Tint8; Get "a" Tuint8; MustGet "zz" Tstring;
       GetOrDefault "zz" Tstring (V "d"); Get "n" Tany]
  = [OVal (V "1"); OVal (V "2"); OVal (V "1"); OMustPanic; OVal (V "d"); OVal VNil].
Proof. split; [exact gty_eqb_eq| vm_compute; reflexivity]. Qed.

(* two goroutines, one schedule *)
Example C10_example_merge :
  Merge gty [[Get "a" Tuint8; Get "n" Tany]; [Get "au" Tint8]]
            [(Get "a" Tuint8, 0); (Get "au" Tint8, 1); (Get "n" Tany, 0)].
Proof.
  eapply Merge_step with (i := 0); [reflexivity|]. cbn.
  eapply Merge_step with (i := 1); [reflexivity|]. cbn.
  eapply Merge_step with (i := 0); [reflexivity|]. cbn.
  apply Merge_done. repeat constructor.
Qed.

(* the pinned code (before fixes C10-typed-cache-key, C10-nil-interface) — kept as a record *)
Theorem C10_orig_refuted_collision :
  exists h o, last (run_orig gty gty_eqb gty_iface gty_name wconv [] (h ++ [o])%list) OErr
              <> fresh gty gty_eqb wconv o.
Proof. exact orig_refuted_collision. Qed.

Theorem C10_orig_refuted_nil_interface :
  exists h, In OPanic (run_orig gty gty_eqb gty_iface gty_name wconv [] h).
Proof. exact orig_refuted_nil_interface. Qed.

(* ------------------------------------------------------------------ the conversion step
   extractAndConvert = path walk over the dotted key, yaml re-encoding, decoding into T, where the
   decoder is an oracle that may return a value, an error or PANIC (reflection over an arbitrary
   Go type).  GConfConvModel.conv_model is what coq/ties/Tie_C10.v proves the regenerated
   extractAndConvert to be.                                                                     *)
From GT Require Import GConfConvModel GConfConvProofs.

Section C10_conversion.
  Variable ybytes : Type.
  Variable ty : Type.
  Variable ty_eqb : ty -> ty -> bool.
  Hypothesis ty_eqb_eq : forall a b, ty_eqb a b = true <-> a = b.
  Variable marshal : tree -> ybytes * bool.
  Variable unmarshal : ty -> ybytes -> val -> option (val * bool).
  Variable data : list (string * tree).
  Variable zero_of : ty -> val.

  (* whatever encoder and decoder do — value, error, panic — no request of any history panics *)
  Theorem C10_no_panic_any_decoder : forall h,
    ~ In OPanic (run ty ty_eqb (conv_of_decoder ybytes ty marshal unmarshal data zero_of) [] h).
  Proof. exact (no_panic_any_decoder ybytes ty ty_eqb ty_eqb_eq marshal unmarshal data zero_of). Qed.

  (* a value the decoder cannot decode into T without panicking is an ERROR of the request *)
  Theorem C10_decoder_panic_is_error : forall key T,
    conv3_of_decoder ybytes ty marshal unmarshal data zero_of key T = CPanic ->
    fresh ty ty_eqb (conv_of_decoder ybytes ty marshal unmarshal data zero_of) (Get key T) = OErr /\
    fresh ty ty_eqb (conv_of_decoder ybytes ty marshal unmarshal data zero_of) (MustGet key T) = OMustPanic /\
    forall d, fresh ty ty_eqb (conv_of_decoder ybytes ty marshal unmarshal data zero_of) (GetOrDefault key T d) = OVal d.
  Proof. exact (decoder_panic_is_error ybytes ty ty_eqb marshal unmarshal data zero_of). Qed.

  (* HEAD before fix C10-conversion-panic: the same request panicked (inside xsync's Compute) *)
  Theorem C10_head_panicked : forall key T,
    conv3_of_decoder ybytes ty marshal unmarshal data zero_of key T = CPanic ->
    fresh_head ty ty_eqb (conv3_of_decoder ybytes ty marshal unmarshal data zero_of) (Get key T) = OPanic.
  Proof. exact (head_panics ybytes ty ty_eqb marshal unmarshal data zero_of). Qed.
End C10_conversion.

(* the hypothesis of the two theorems above is satisfiable: a decoder that panics on one type *)
Theorem C10_head_refuted_conversion_panic :
  fresh_head nat Nat.eqb (conv3_of_decoder tree nat (fun t => (t, false)) demo_unmarshal demo_data (fun _ => VNil)) (Get "st" 0) = OPanic
  /\ fresh nat Nat.eqb (conv_of_decoder tree nat (fun t => (t, false)) demo_unmarshal demo_data (fun _ => VNil)) (Get "st" 0) = OErr.
Proof. exact head_refuted_conversion_panic. Qed.

(* dotted keys descend through maps only: a list (or a scalar) on the way is "not found" *)
Theorem C10_path_through_list_not_found : forall m k rest l,
  assoc k m = Some (Lst l) -> rest <> [] -> extract m (k :: rest) = None.
Proof. exact extract_through_list. Qed.

Theorem C10_path_through_non_map_not_found : forall m k rest v,
  assoc k m = Some v -> rest <> [] -> (forall m', v <> Mp m') -> extract m (k :: rest) = None.
Proof. exact extract_through_non_map. Qed.

Print Assumptions C10_pure.
Print Assumptions C10_every_request_fresh.
Print Assumptions C10_fresh_is_conversion.
Print Assumptions C10_no_panic.
Print Assumptions C10_must_panic_only_on_error.
Print Assumptions C10_independent.
Print Assumptions C10_concurrent_partial.
Print Assumptions C10_orig_refuted_collision.
Print Assumptions C10_orig_refuted_nil_interface.
Print Assumptions C10_no_panic_any_decoder.
Print Assumptions C10_decoder_panic_is_error.
Print Assumptions C10_head_panicked.
Print Assumptions C10_head_refuted_conversion_panic.
Print Assumptions C10_path_through_list_not_found.
Print Assumptions C10_path_through_non_map_not_found.
