(* C02 — gsync: waiters released at zero, consistent at rest, Wait never blocks.
   Property theorems only (see C01.v for the files involved).                               *)
From Coq Require Import List Arith ZArith Bool.
From GT Require Import Base.Conc.
From GT Require Import WGModel WGSpec WGRefute.
Import ListNotations.
Local Open Scope Z_scope.

(* the pinned code violates the statement: after a schedule of 2 goroutines every Add has
   returned, Count() = sum of deltas = 1, yet the closed sentinel is installed and a fresh Wait
   run solo is still inside Wait after any number of steps *)
Theorem C02_orig_refuted : exists progs sched,
  let cf := wgo_exec progs sched in
  well_behaved (tr cf) = true /\ adds_in_flight (tr cf) = [] /\ sum_deltas (tr cf) = 1 /\
  exists tid, forall k, exists l todo,
    nth_error (thr (wgo_solo cf tid (S (S k)))) tid = Some (Run CWait l todo).
Proof.
  exists c02_witness_progs, c02_witness_sched.
  destruct c02_orig_witness_state as (H1 & H2 & H3 & _).
  repeat split; auto. exists 2%nat. exact c02_orig_wait_spins.
Qed.

Theorem C02_orig_refuted_monitor : exists progs sched,
  well_behaved (tr (wgo_exec progs sched)) = true /\ c02_ok (tr (wgo_exec progs sched)) = false.
Proof. eexists _, _. exact c02_orig_refuted_trace. Qed.

Print Assumptions C02_orig_refuted.
Print Assumptions C02_orig_refuted_monitor.
