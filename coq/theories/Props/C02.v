(* C02 — gsync: waiters released at zero, consistent at rest, Wait never blocks.
   Property theorems only (see C01.v for the files involved).  "At rest" = no Add/Inc/Dec call
   in flight: [adds_in_flight (tr cf) = []]; [sum_deltas] = sum of the deltas of all Add calls
   made so far; [handed_out] = the channels Wait has returned so far.                        *)
From Coq Require Import List Arith ZArith Bool.
From GT Require Import Base.Conc.
From GT Require Import Base.ConcIR.
From GT Require Import WGModel WGSpec WGSpecProofs WGInv WGProofs WGInv2 WGRefute WGProg WGDenote.
Import ListNotations.
Local Open Scope Z_scope.

(* whenever all Add/Inc/Dec calls have returned: Count = sum of deltas; at zero every channel
   ever handed out is closed; above zero a fresh Wait (run solo: call + one load) returns a
   channel that is still open.  Any number of goroutines, any programs, any schedule; the
   side condition "count never driven negative" is not even needed. *)
Theorem C02_rest : forall progs sched,
  let cf := wg_exec progs sched in
  adds_in_flight (tr cf) = [] ->
  cnt (sh cf) = sum_deltas (tr cf) /\
  (sum_deltas (tr cf) = 0 -> forall x, In x (handed_out (tr cf)) -> In x (closed (sh cf))) /\
  (0 < sum_deltas (tr cf) -> forall tid todo,
     nth_error (thr cf) tid = Some (Idle (CWait :: todo)) ->
     exists x, solo_wait_result cf tid = Some x /\ ~ In x (closed (sh (wg_solo cf tid 2)))).
Proof.
  intros progs sched cf Hrest. pose proof (Inv_exec progs sched) as HI. fold cf in HI.
  split; [apply rest_count; auto|]. split.
  - apply rest_zero_closed; auto.
  - apply rest_positive_open; auto.
Qed.

(* the same statement as the executable monitor that also judges the traces recorded from the
   real code: at every position at rest Count = sum of deltas, sum = 0 -> all handed-out channels
   closed, a Wait returning at rest with sum > 0 returns an open channel, a goroutine inside Wait
   scheduled K_WAIT times in a row at rest has returned, and no call panics *)
Theorem C02_monitor : forall progs sched, c02_ok (tr (wg_exec progs sched)) = true.
Proof. exact c02_all. Qed.

(* what the monitor means, for EVERY trace: acceptance implies the declarative statement c02_spec
   (WGSpec.v): at every position no call has panicked; with no Add in flight the observed Count()
   is the sum of the deltas, at sum 0 every channel handed out so far is observed closed, a Wait
   returning there with sum > 0 returns a channel observed open; and no thread inside Wait has
   just made K_WAIT consecutive steps, each with no Add in flight, without returning *)
Theorem C02_monitor_sound : forall t, c02_ok t = true -> c02_spec t.
Proof. exact c02_ok_spec. Qed.

Theorem C02_declarative : forall progs sched, c02_spec (tr (wg_exec progs sched)).
Proof. intros. apply c02_ok_spec. apply c02_all. Qed.

(* and of the denotation of the IR of the current source (see C01_machine_is_denotation) *)
Theorem C02_denoted : forall progs sched,
  c02_ok (tr (dwg_exec hand_prog progs sched)) = true /\
  (adds_in_flight (tr (dwg_exec hand_prog progs sched)) = [] ->
   cnt (sh (dwg_exec hand_prog progs sched)) = sum_deltas (tr (dwg_exec hand_prog progs sched))).
Proof.
  intros progs sched. destruct (denote_current progs sched) as [-> ->]. split.
  - apply c02_all.
  - intro H. apply rest_count; [apply Inv_exec|exact H].
Qed.

(* Count() is a single load returning that count *)
Theorem C02_count_call : forall cf tid todo,
  nth_error (thr cf) tid = Some (Idle (CCount :: todo)) ->
  exists o st rest, tr (wg_solo cf tid 2)
    = Item tid (ERet CCount (RInt (cnt (sh cf)))) o st :: rest.
Proof. exact solo_count. Qed.

(* Wait returns as soon as it is scheduled: K = 1 micro-step for a goroutine inside Wait,
   whatever the other goroutines are doing (in particular with no Add in flight) *)
Theorem C02_wait_bounded : forall cf, wg_reachable cf ->
  forall tid l todo, nth_error (thr cf) tid = Some (Run CWait l todo) ->
  exists x o st, tr (wg_solo cf tid 1) = Item tid (ERet CWait (RChan x)) o st :: tr cf.
Proof. exact wait_bounded. Qed.

(* and two micro-steps (call, load) from before the call; it returns the installed channel *)
Theorem C02_wait_from_call : forall cf tid todo,
  nth_error (thr cf) tid = Some (Idle (CWait :: todo)) ->
  solo_wait_result cf tid = Some (chn (sh cf)) /\ sh (wg_solo cf tid 2) = sh cf /\
  nth_error (thr (wg_solo cf tid 2)) tid = Some (Idle todo).
Proof. exact solo_wait_fresh. Qed.

(* non-vacuity: a reachable state at rest after a decrement overlapping an increment (T0's
   first CAS fails and is retried): count 1 = sum of deltas, a fresh Wait gets the open
   channel 1 *)
Example C02_example :
  let cf := wg_exec c02_witness_progs [0; 0; 0; 0; 0; 1; 1; 1; 0; 0; 0]%nat in
  adds_in_flight (tr cf) = [] /\ sum_deltas (tr cf) = 1 /\ cnt (sh cf) = 1 /\
  solo_wait_result cf 2 = Some 1%nat /\ closed (sh cf) = [0%nat].
Proof. vm_compute. repeat split; reflexivity. Qed.

(* Add(0) is an Add call like any other (delta 0 leaves lb and the sum unchanged): on an idle
   group it leaves the closed sentinel installed, so a Wait at rest gets a closed channel *)
Example C02_example_add0 :
  let cf := wg_exec [[CAdd 0]; [CWait]] [0; 0; 0; 1; 1]%nat in
  adds_in_flight (tr cf) = [] /\ sum_deltas (tr cf) = 0 /\ cnt (sh cf) = 0 /\
  handed_out (tr cf) = [0%nat] /\ closed (sh cf) = [0%nat] /\
  well_behaved (tr cf) = true /\ c02_ok (tr cf) = true.
Proof. vm_compute. repeat split; reflexivity. Qed.

(* the pinned code violates the statement: after a schedule of 2 goroutines every Add has
   returned, Count() = sum of deltas = 1, yet the closed sentinel is installed and a fresh Wait
   run solo is still inside Wait after any number of steps *)
Theorem C02_orig_refuted : exists progs sched,
  let cf := wgo_exec progs sched in
  well_behaved (tr cf) = true /\ adds_in_flight (tr cf) = [] /\ sum_deltas (tr cf) = 1 /\
  exists tid, forall k, exists l todo,
    nth_error (thr (wgo_solo cf tid (S (S k)))) tid = Some (Run CWait l todo).
Proof.
  exists c02_witness_progs, c02_witness_sched.
  destruct c02_orig_witness_state as (H1 & H2 & H3 & _).
  repeat split; auto. exists 2%nat. exact c02_orig_wait_spins.
Qed.

Theorem C02_orig_refuted_monitor : exists progs sched,
  well_behaved (tr (wgo_exec progs sched)) = true /\ c02_ok (tr (wgo_exec progs sched)) = false.
Proof. eexists _, _. exact c02_orig_refuted_trace. Qed.

Print Assumptions C02_rest.
Print Assumptions C02_monitor.
Print Assumptions C02_monitor_sound.
Print Assumptions C02_declarative.
Print Assumptions C02_denoted.
Print Assumptions C02_count_call.
Print Assumptions C02_wait_bounded.
Print Assumptions C02_wait_from_call.
Print Assumptions C02_orig_refuted.
Print Assumptions C02_orig_refuted_monitor.
