(* C02 — gsync: waiters released at zero, consistent at rest, Wait never blocks.
   Property theorems only (see C01.v for the files involved).  "At rest" = no Add/Inc/Dec call
   in flight: [adds_in_flight (tr cf) = []]; [sum_deltas] = sum of the deltas of all Add calls
   made so far; [handed_out] = the channels Wait has returned so far.                        *)
From Coq Require Import List Arith ZArith Bool.
From GT Require Import Base.Conc.
From GT Require Import Base.ConcIR.
From GT Require Import WGModel WGSpec WGSpecProofs WGInv WGProofs WGInv2 WGRefute WGProg WGDenote.
From GT Require Import WGTimed WGTimedProofs WGFair.
From GT Require Import Base.ConcIR2.
From GT Require Import WGSim WGSimProps.
From GT Require Import WGPropLemmas.
Import ListNotations.
Local Open Scope Z_scope.

(* whenever all Add/Inc/Dec calls have returned: Count = sum of deltas; at zero every channel
   ever handed out is closed; above zero a fresh Wait (run solo: call + one load) returns a
   channel that is still open.  Any number of goroutines, any programs, any schedule; the
   side condition "count never driven negative" is not even needed. *)
Theorem C02_rest : forall progs sched,
  let cf := wg_exec progs sched in
  adds_in_flight (tr cf) = [] ->
  cnt (sh cf) = sum_deltas (tr cf) /\
  (sum_deltas (tr cf) = 0 -> forall x, In x (handed_out (tr cf)) -> In x (closed (sh cf))) /\
  (0 < sum_deltas (tr cf) -> forall tid todo,
     nth_error (thr cf) tid = Some (Idle (CWait :: todo)) ->
     exists x, solo_wait_result cf tid = Some x /\ ~ In x (closed (sh (wg_solo cf tid 2)))).
Proof. exact p_C02_rest. Qed.

(* the same statement as the executable monitor that also judges the traces recorded from the
   real code: at every position at rest Count = sum of deltas, sum = 0 -> all handed-out channels
   closed, a Wait returning at rest with sum > 0 returns an open channel, a goroutine inside Wait
   scheduled K_WAIT times in a row at rest has returned, and no call panics *)
Theorem C02_monitor : forall progs sched, c02_ok (tr (wg_exec progs sched)) = true.
Proof. exact c02_all. Qed.

(* what the monitor means, for EVERY trace: acceptance implies the declarative statement c02_spec
   (WGSpec.v): at every position no call has panicked; with no Add in flight the observed Count()
   is the sum of the deltas, at sum 0 every channel handed out so far is observed closed, a Wait
   returning there with sum > 0 returns a channel observed open; and no thread inside Wait has
   just made K_WAIT consecutive steps, each with no Add in flight, without returning *)
Theorem C02_monitor_sound : forall t, c02_ok t = true -> c02_spec t.
Proof. exact c02_ok_spec. Qed.

(* and for well-formed traces (checked by the executable trace_wf on every recorded trace) the
   monitor is EXACTLY that sentence: a rejected recording violates it *)
Theorem C02_monitor_exact : forall t, trace_wf t = true -> (c02_ok t = true <-> c02_spec t).
Proof. exact c02_ok_iff_spec. Qed.

Theorem C02_declarative : forall progs sched, c02_spec (tr (wg_exec progs sched)).
Proof. exact p_C02_declarative. Qed.

(* and of the denotation of the IR of the current source (see C01_machine_is_denotation) *)
Theorem C02_denoted : forall progs sched,
  c02_ok (tr (dwg_exec hand_prog progs sched)) = true /\
  (adds_in_flight (tr (dwg_exec hand_prog progs sched)) = [] ->
   cnt (sh (dwg_exec hand_prog progs sched)) = sum_deltas (tr (dwg_exec hand_prog progs sched))).
Proof. exact p_C02_denoted. Qed.

(* and of the denotation of ANY IR term that passes the simulation check-list of WGSim.v - which
   the check proves for the term regenerated from the source on every run (see C01.v) *)
Theorem C02_any_source : forall p sm, wg_sim_ok p sm -> forall progs sched,
  c02_ok (tr (dwg2_exec p sm progs sched)) = true.
Proof. exact C02_of_source. Qed.

Theorem C02_rest_any_source : forall p sm, wg_sim_ok p sm -> forall progs sched,
  adds_in_flight (tr (dwg2_exec p sm progs sched)) = [] ->
  cnt (sh (dwg2_exec p sm progs sched)) = sum_deltas (tr (dwg2_exec p sm progs sched)) /\
  (sum_deltas (tr (dwg2_exec p sm progs sched)) = 0 ->
   forall x, In x (handed_out (tr (dwg2_exec p sm progs sched))) ->
             In x (closed (sh (dwg2_exec p sm progs sched)))).
Proof. exact C02_rest_of_source. Qed.

(* Count() is a single load returning that count *)
Theorem C02_count_call : forall cf tid todo,
  nth_error (thr cf) tid = Some (Idle (CCount :: todo)) ->
  exists o st rest, tr (wg_solo cf tid 2)
    = Item tid (ERet CCount (RInt (cnt (sh cf)))) o st :: rest.
Proof. exact solo_count. Qed.

(* Wait returns as soon as it is scheduled: K = 1 micro-step for a goroutine inside Wait,
   whatever the other goroutines are doing (in particular with no Add in flight) *)
Theorem C02_wait_bounded : forall cf, wg_reachable cf ->
  forall tid l todo, nth_error (thr cf) tid = Some (Run CWait l todo) ->
  exists x o st, tr (wg_solo cf tid 1) = Item tid (ERet CWait (RChan x)) o st :: tr cf.
Proof. exact wait_bounded. Qed.

(* the same over FAIR schedules: from any reachable configuration with a thread inside Wait, under
   ANY continuation of the schedule that schedules this thread at all, the thread's first
   scheduling is the return of its Wait - whatever the other goroutines do before it (Adds in
   flight or not, started or not): Wait never waits for anybody *)
Theorem C02_wait_fair : forall cf, wg_reachable cf ->
  forall tid l todo, nth_error (thr cf) tid = Some (Run CWait l todo) ->
  forall sched, In tid sched ->
  exists pre rest x o st,
    sched = pre ++ tid :: rest /\ ~ In tid pre /\
    tr (wg_run cf (pre ++ [tid])) = Item tid (ERet CWait (RChan x)) o st :: tr (wg_run cf pre) /\
    nth_error (thr (wg_run cf (pre ++ [tid]))) tid = Some (Idle todo).
Proof. exact wait_returns_when_scheduled. Qed.

(* and two micro-steps (call, load) from before the call; it returns the installed channel *)
Theorem C02_wait_from_call : forall cf tid todo,
  nth_error (thr cf) tid = Some (Idle (CWait :: todo)) ->
  solo_wait_result cf tid = Some (chn (sh cf)) /\ sh (wg_solo cf tid 2) = sh cf /\
  nth_error (thr (wg_solo cf tid 2)) tid = Some (Idle todo).
Proof. exact solo_wait_fresh. Qed.

(* ---- WaitTimeout / WaitCTX (model: WGTimed.v; [TW0 k] = the call with its deadline k of its own
   scheduling attempts away; each attempt sees an ARBITRARY memory and an oracle bit) ----
   they honour their deadline whatever the count is and whatever the other goroutines do: k + 2
   schedulings (one load of wg.Wait(), k + 1 attempts of the select) always produce a result *)
Theorem C02_deadline_honoured : forall k env, (k + 2 <= length env)%nat ->
  exists r n, tw_run (TW0 k) env = Some (r, n) /\ (n <= k + 2)%nat.
Proof. exact tw_bounded. Qed.

(* nil is answered only when the channel loaded at entry is closed at that attempt (so, by C01,
   the count was zero at some instant since the call) *)
Theorem C02_deadline_nil_sound : forall k s0 b0 env n,
  tw_run (TW0 k) ((s0, b0) :: env) = Some (TNil, n) ->
  exists s b, nth_error env (n - 2) = Some (s, b) /\ memb (chn s0) (closed s) = true.
Proof. exact tw_nil_sound. Qed.

(* the deadline's error is answered at the deadline, never before *)
Theorem C02_deadline_error_sound : forall k env n,
  tw_run (TW0 k) env = Some (TDeadline, n) -> n = (k + 2)%nat.
Proof. exact tw_deadline_sound. Qed.

(* the deadline is absolute (the k of [TW0 k] only counts down).  Contrast: an implementation that
   restarts its timer whenever it wakes on a re-armed group ([twr_step]) has NO bound - for every
   n there are n memories (release + re-arm cycles) under which it gives no answer *)
Theorem C02_deadline_restart_unbounded : forall k0 n, exists env,
  List.length env = n /\ twr_run (S k0) (TW1 1 (S k0)) env = None.
Proof. exact twr_unbounded. Qed.

(* on the reachable memories of the wait group: with a non-zero count (others standing still)
   the answer is the deadline's error at the deadline; with count zero it is nil at once *)
Theorem C02_deadline_positive_count : forall progs sched k bits,
  let cf := wg_exec progs sched in
  cnt (sh cf) <> 0 -> length bits = (k + 2)%nat ->
  tw_run (TW0 k) (map (fun b => (sh cf, b)) bits) = Some (TDeadline, (k + 2)%nat).
Proof. exact timed_positive_count. Qed.

Theorem C02_deadline_zero_count : forall progs sched k b0 b1 rest,
  let cf := wg_exec progs sched in
  cnt (sh cf) = 0 ->
  tw_run (TW0 (S k)) ((sh cf, b0) :: (sh cf, b1) :: rest) = Some (TNil, 2%nat).
Proof. exact timed_zero_count. Qed.

(* non-vacuity: a reachable state at rest after a decrement overlapping an increment (T0's
   first CAS fails and is retried): count 1 = sum of deltas, a fresh Wait gets the open
   channel 1 *)
Example C02_example :
  let cf := wg_exec c02_witness_progs [0; 0; 0; 0; 0; 1; 1; 1; 0; 0; 0]%nat in
  adds_in_flight (tr cf) = [] /\ sum_deltas (tr cf) = 1 /\ cnt (sh cf) = 1 /\
  solo_wait_result cf 2 = Some 1%nat /\ closed (sh cf) = [0%nat].
Proof. vm_compute. repeat split; reflexivity. Qed.

(* Add(0) is an Add call like any other (delta 0 leaves lb and the sum unchanged): on an idle
   group it leaves the closed sentinel installed, so a Wait at rest gets a closed channel *)
Example C02_example_add0 :
  let cf := wg_exec [[CAdd 0]; [CWait]] [0; 0; 0; 1; 1]%nat in
  adds_in_flight (tr cf) = [] /\ sum_deltas (tr cf) = 0 /\ cnt (sh cf) = 0 /\
  handed_out (tr cf) = [0%nat] /\ closed (sh cf) = [0%nat] /\
  well_behaved (tr cf) = true /\ c02_ok (tr cf) = true.
Proof. vm_compute. repeat split; reflexivity. Qed.

(* C02_rest carries no side condition on the sign of the count.  A history OUTSIDE the client
   programs of C01 (well_behaved = false: the decrement overtakes the increment that covers it):
   after Add(-1) the count is -1 and a Wait gets the open channel 1; the Add(+1) that brings the sum
   back to zero FROM BELOW closes it.  The harness runs such histories on the real code with -neg
   and judges them with WGJudge.c02_judge_unc. *)
Example C02_example_negative_excursion :
  let progs := [[CAdd (-1)]; [CWait]; [CAdd 1]] in
  let mid := wg_exec progs [0; 0; 0; 1; 1]%nat in
  let cf := wg_exec progs [0; 0; 0; 1; 1; 2; 2; 2; 2]%nat in
  well_behaved (tr cf) = false /\
  adds_in_flight (tr mid) = [] /\ sum_deltas (tr mid) = (-1)%Z /\ cnt (sh mid) = (-1)%Z /\
  handed_out (tr mid) = [1%nat] /\ closed (sh mid) = [0%nat] /\
  adds_in_flight (tr cf) = [] /\ sum_deltas (tr cf) = 0%Z /\ cnt (sh cf) = 0%Z /\
  closed (sh cf) = [1%nat; 0%nat] /\ c02_ok (tr cf) = true.
Proof. vm_compute. repeat split; reflexivity. Qed.

(* What a verdict of the judges that run on the recorded traces MEANS for c02_spec (a rejected
   well-formed recording violates the sentence; verdict 0 satisfies it, with the probes and the
   machine's trace; the unconditional judge extends the gated one) is proved in WGJudgeProofs.v:
   monitor_reject_violates, c02_judge_unc_one / _zero, c02_judge_one / _zero,
   c02_judge_unc_extends.  They are kept out of this file because WGJudge.v decodes packed cases
   with primitive 63-bit integers, whose standard-library axioms coqchk would then list for the
   property theorems above, which do not depend on them. *)

(* the pinned code violates the statement: after a schedule of 2 goroutines every Add has
   returned, Count() = sum of deltas = 1, yet the closed sentinel is installed and a fresh Wait
   run solo is still inside Wait after any number of steps *)
Theorem C02_orig_refuted : exists progs sched,
  let cf := wgo_exec progs sched in
  well_behaved (tr cf) = true /\ adds_in_flight (tr cf) = [] /\ sum_deltas (tr cf) = 1 /\
  exists tid, forall k, exists l todo,
    nth_error (thr (wgo_solo cf tid (S (S k)))) tid = Some (Run CWait l todo).
Proof. exact p_C02_orig_refuted. Qed.

Theorem C02_orig_refuted_monitor : exists progs sched,
  well_behaved (tr (wgo_exec progs sched)) = true /\ c02_ok (tr (wgo_exec progs sched)) = false.
Proof. exact p_C02_orig_refuted_monitor. Qed.

(* the steps inside Wait are counted per goroutine: the spinning Wait of the pinned code is
   rejected also when stutters / another waiter's steps are interleaved with its own *)
Theorem C02_orig_refuted_interleaved :
  c02_ok (tr (wgo_exec c02_witness_progs
                (c02_witness_sched ++ [2; 7; 2; 7; 2; 7; 2; 7; 2; 7; 2; 7]%nat))) = false /\
  c02_ok (tr (wgo_exec (c02_witness_progs ++ [[CWait]])
                (c02_witness_sched ++ [2; 3; 2; 3; 2; 3; 2; 3; 2; 3; 2; 3]%nat))) = false.
Proof. exact c02_orig_refuted_interleaved. Qed.

(* non-vacuity of the step count: an accepted trace with a thread inside Wait after one internal
   step made at rest *)
Example C02_example_wait_steps :
  let t := tr (wgo_exec [[CWait]] [0; 0]%nat) in
  c02_ok t = true /\ in_call t 0%nat = Some CWait /\ rest_steps t 0%nat = 1%nat /\
  c02_ok (tr (wgo_exec [[CWait]] [0; 0; 0]%nat)) = true.
Proof. exact c02_wait_steps_example. Qed.

Print Assumptions C02_rest.
Print Assumptions C02_monitor.
Print Assumptions C02_monitor_sound.
Print Assumptions C02_monitor_exact.
Print Assumptions C02_orig_refuted_interleaved.
Print Assumptions C02_declarative.
Print Assumptions C02_denoted.
Print Assumptions C02_deadline_honoured.
Print Assumptions C02_deadline_nil_sound.
Print Assumptions C02_deadline_error_sound.
Print Assumptions C02_deadline_restart_unbounded.
Print Assumptions C02_deadline_positive_count.
Print Assumptions C02_deadline_zero_count.
Print Assumptions C02_any_source.
Print Assumptions C02_rest_any_source.
Print Assumptions C02_count_call.
Print Assumptions C02_wait_bounded.
Print Assumptions C02_wait_fair.
Print Assumptions C02_wait_from_call.
Print Assumptions C02_orig_refuted.
Print Assumptions C02_orig_refuted_monitor.
