(* C11 — set: BitSet is exact bit-set algebra and reports changes truthfully.
   Property theorems only; every proof is `exact <lemma of BitSetProofs>`.
   The model (BitSetModel.v) mirrors set/bit_set.go of the current tree; it is tied to the
   code by the correspondence run of ./check C11.                                             *)
From Coq Require Import NArith List Bool.
From GT Require Import BitSetModel BitSetProofs.
Import ListNotations.
Local Open Scope N_scope.

(* MakeBitSet and Add union the bits of their arguments *)
Theorem C11_make_bits : forall items i,
  N.testbit (bs_make items) i = existsb (fun f => N.testbit f i) items.
Proof. exact make_bits. Qed.

Theorem C11_add_bits : forall s items i,
  N.testbit (fst (bs_add s items)) i = N.testbit s i || existsb (fun f => N.testbit f i) items.
Proof. exact add_bits. Qed.

(* Remove clears them *)
Theorem C11_remove_bits : forall s items i,
  N.testbit (fst (bs_remove s items)) i
  = N.testbit s i && negb (existsb (fun f => N.testbit f i) items).
Proof. exact remove_bits. Qed.

(* MaskOf intersects *)
Theorem C11_maskof_bits : forall s f i,
  N.testbit (bs_maskof s f) i = N.testbit s i && N.testbit f i.
Proof. exact maskof_bits. Qed.

(* Has(f) is true exactly when every bit of f is present *)
Theorem C11_has : forall s f,
  bs_has s f = true <-> (forall i, N.testbit f i = true -> N.testbit s i = true).
Proof. exact has_iff. Qed.

(* HasAny when some argument is fully present *)
Theorem C11_hasany : forall s fs,
  bs_hasany s fs = true <->
  exists f, In f fs /\ (forall i, N.testbit f i = true -> N.testbit s i = true).
Proof. exact hasany_iff. Qed.

(* Add and Remove return true exactly when the stored bits changed *)
Theorem C11_add_changed : forall s items,
  snd (bs_add s items) = true <-> fst (bs_add s items) <> s.
Proof. exact add_changed. Qed.

Theorem C11_remove_changed : forall s items,
  snd (bs_remove s items) = true <-> fst (bs_remove s items) <> s.
Proof. exact remove_changed. Qed.

(* a multi-argument call is equivalent to the same call made one argument at a time *)
Theorem C11_add_multi : forall s xs ys,
  bs_add s (xs ++ ys) =
  let r1 := bs_add s xs in let r2 := bs_add (fst r1) ys in (fst r2, snd r1 || snd r2).
Proof. exact add_app. Qed.

Theorem C11_remove_multi : forall s xs ys,
  bs_remove s (xs ++ ys) =
  let r1 := bs_remove s xs in let r2 := bs_remove (fst r1) ys in (fst r2, snd r1 || snd r2).
Proof. exact remove_app. Qed.

(* every operation sequence, from every initial state: the code's model and the abstract
   bit-set algebra produce the same outputs at every step *)
Theorem C11_refines : forall ops s, bs_run s ops = spec_run s ops.
Proof. exact bs_run_spec. Qed.

(* non-vacuity: a composite, partly present flag and the zero flag *)
Example C11_example_partial : bs_remove 3 [6] = (1, true) /\ bs_remove 3 [0] = (3, false)
  /\ bs_add 3 [0] = (3, false) /\ bs_has 3 0 = true.
Proof. vm_compute. repeat split. Qed.

(* the pinned code (before fix a37dd1b) violated C11_remove_changed — kept as a record *)
Theorem C11_remove_changed_orig_refuted :
  exists s items, ~ (snd (bs_remove_orig s items) = true <-> fst (bs_remove_orig s items) <> s).
Proof.
  exists 3, [6]. destruct remove_orig_partial_flag as [E Hne]. rewrite E. simpl.
  intros [_ H]. specialize (H Hne). discriminate.
Qed.

Print Assumptions C11_make_bits.
Print Assumptions C11_add_bits.
Print Assumptions C11_remove_bits.
Print Assumptions C11_maskof_bits.
Print Assumptions C11_has.
Print Assumptions C11_hasany.
Print Assumptions C11_add_changed.
Print Assumptions C11_remove_changed.
Print Assumptions C11_add_multi.
Print Assumptions C11_remove_multi.
Print Assumptions C11_refines.
