(* C11 — set: BitSet is exact bit-set algebra and reports changes truthfully.
   Property theorems only; every proof is `exact <lemma of BitSetProofs>`.
   The model (BitSetModel.v) mirrors set/bit_set.go of the current tree; it is tied to the
   code by the correspondence run of ./check C11.                                             *)
From Coq Require Import NArith List Bool.
From GT Require Import BitSetModel BitSetProofs.
Import ListNotations.
Local Open Scope N_scope.

(* MakeBitSet and Add union the bits of their arguments *)
Theorem C11_make_bits : forall items i,
  N.testbit (bs_make items) i = existsb (fun f => N.testbit f i) items.
Proof. exact make_bits. Qed.

Theorem C11_add_bits : forall s items i,
  N.testbit (fst (bs_add s items)) i = N.testbit s i || existsb (fun f => N.testbit f i) items.
Proof. exact add_bits. Qed.

(* Remove clears them *)
Theorem C11_remove_bits : forall s items i,
  N.testbit (fst (bs_remove s items)) i
  = N.testbit s i && negb (existsb (fun f => N.testbit f i) items).
Proof. exact remove_bits. Qed.

(* MaskOf intersects *)
Theorem C11_maskof_bits : forall s f i,
  N.testbit (bs_maskof s f) i = N.testbit s i && N.testbit f i.
Proof. exact maskof_bits. Qed.

(* Has(f) is true exactly when every bit of f is present *)
Theorem C11_has : forall s f,
  bs_has s f = true <-> (forall i, N.testbit f i = true -> N.testbit s i = true).
Proof. exact has_iff. Qed.

(* HasAny when some argument is fully present *)
Theorem C11_hasany : forall s fs,
  bs_hasany s fs = true <->
  exists f, In f fs /\ (forall i, N.testbit f i = true -> N.testbit s i = true).
Proof. exact hasany_iff. Qed.

(* Add and Remove return true exactly when the stored bits changed *)
Theorem C11_add_changed : forall s items,
  snd (bs_add s items) = true <-> fst (bs_add s items) <> s.
Proof. exact add_changed. Qed.

Theorem C11_remove_changed : forall s items,
  snd (bs_remove s items) = true <-> fst (bs_remove s items) <> s.
Proof. exact remove_changed. Qed.

(* a multi-argument call is equivalent to the same call made one argument at a time *)
Theorem C11_add_multi : forall s xs ys,
  bs_add s (xs ++ ys) =
  let r1 := bs_add s xs in let r2 := bs_add (fst r1) ys in (fst r2, snd r1 || snd r2).
Proof. exact add_app. Qed.

Theorem C11_remove_multi : forall s xs ys,
  bs_remove s (xs ++ ys) =
  let r1 := bs_remove s xs in let r2 := bs_remove (fst r1) ys in (fst r2, snd r1 || snd r2).
Proof. exact remove_app. Qed.

(* ... in particular one argument at a time *)
Theorem C11_add_one_at_a_time : forall s f fs,
  bs_add s (f :: fs) =
  let r1 := bs_add s [f] in let r2 := bs_add (fst r1) fs in (fst r2, snd r1 || snd r2).
Proof. exact add_multi. Qed.

Theorem C11_remove_one_at_a_time : forall s f fs,
  bs_remove s (f :: fs) =
  let r1 := bs_remove s [f] in let r2 := bs_remove (fst r1) fs in (fst r2, snd r1 || snd r2).
Proof. exact remove_multi. Qed.

(* width: the model is on unbounded N, the code on uint64.  [fits w x]: no bit at or above
   position w (equivalently x < 2^w, C11_fits_lt).  Every operation keeps a w-bit state w-bit when
   its arguments are w-bit — for every w, so for the 8/16/32/64-bit flag types, bit 63 included,
   nothing can wrap — and on a w-bit state Go's `s &= ^f` (AND with the w-bit complement) is the
   model's and-not. *)
Theorem C11_fits_lt : forall w x, fits w x <-> x < 2 ^ w.
Proof. exact fits_iff_lt. Qed.

Theorem C11_width_closed : forall w s items f,
  fits w s -> Forall (fits w) items ->
  fits w (bs_make items) /\ fits w (fst (bs_add s items)) /\ fits w (fst (bs_remove s items))
  /\ fits w (bs_maskof s f).
Proof. exact width_closed. Qed.

Theorem C11_and_not_is_complement : forall w s f,
  fits w s -> N.ldiff s f = N.land s (N.lxor (f mod 2 ^ w) (N.ones w)).
Proof. exact ldiff_is_land_complement. Qed.

(* every operation sequence, from every initial state: the code's model and the abstract
   bit-set algebra produce the same outputs at every step *)
Theorem C11_refines : forall ops s, bs_run s ops = spec_run s ops.
Proof. exact bs_run_spec. Qed.

(* non-vacuity: a composite, partly present flag and the zero flag *)
Example C11_example_partial : bs_remove 3 [6] = (1, true) /\ bs_remove 3 [0] = (3, false)
  /\ bs_add 3 [0] = (3, false) /\ bs_has 3 0 = true.
Proof. vm_compute. repeat split. Qed.

(* the pinned code (before fix a37dd1b) violated C11_remove_changed — kept as a record *)
Theorem C11_remove_changed_orig_refuted :
  exists s items, ~ (snd (bs_remove_orig s items) = true <-> fst (bs_remove_orig s items) <> s).
Proof. exact remove_orig_refuted_ex. Qed.

Print Assumptions C11_make_bits.
Print Assumptions C11_add_bits.
Print Assumptions C11_remove_bits.
Print Assumptions C11_maskof_bits.
Print Assumptions C11_has.
Print Assumptions C11_hasany.
Print Assumptions C11_add_changed.
Print Assumptions C11_remove_changed.
Print Assumptions C11_add_multi.
Print Assumptions C11_remove_multi.
Print Assumptions C11_refines.
Print Assumptions C11_add_one_at_a_time.
Print Assumptions C11_remove_one_at_a_time.
Print Assumptions C11_fits_lt.
Print Assumptions C11_width_closed.
Print Assumptions C11_and_not_is_complement.
Print Assumptions C11_remove_changed_orig_refuted.
