(* C13 — generators: every option combination yields code that builds.
   Property theorems only; every proof is `exact <lemma of GenBuildProofs>`.

   What is proved here is the part of the property a Coq model can carry (DESIGN §4 C13):
   which methods the three templates emit under every option setting, and how the basic kind of
   a constant is rendered as a type name.  Tables: the hand copies in GenBuildModel.v are those
   of the repaired tree; on every run ./check C13 regenerates the tables from the current tree
   (xlate_tmpl_methods, xlate_basic_kinds) and instantiates the *_any_table theorems with them
   (closed by vm_compute), so an edit of a template or of ExtractTypeRef that breaks a statement
   is seen even when no sampled definition exercises it.  Whether the Go compiler accepts a
   whole generated file and whether gofmt leaves it unchanged is runtime behaviour — the
   **partial** part, carried by the build farm (harness/cmd/c13) and judged by GenBuildJudge.  *)
From Coq Require Import String List Bool.
From GT Require Import GenBuildModel GenBuildJudge GenBuildProofs.
Import ListNotations.
Local Open Scope string_scope.

(* the full statement of the property, over the real pipeline `run` (generator CLI as a
   go:generate subprocess, gofmt -l, go build with interface assertions), which no Gallina term
   defines: on every documented-valid input the outcome is an error report or a built package *)
Definition C13_full_statement (input : Type) (documented_valid : input -> Prop)
           (run : input -> obs) : Prop :=
  forall i, documented_valid i -> run i <> ObsBad.

(* genum: under each of the 2^5 switch settings x parsable some/none, every method of genum.Enum
   and genum.TypedEnum (value receivers) and of the requested json/text/yaml marshalers is
   emitted for every generated type, and no method is emitted twice *)
Theorem C13_methods_genum_partial : forall o r,
  In r (genum_required iface_genum_Enum iface_genum_TypedEnum o) ->
  provides (emitted genum_funcs (genum_env o)) r.
Proof. exact hand_genum_methods. Qed.

Theorem C13_methods_genum_nodup : forall o, NoDup (method_names genum_funcs (genum_env o)).
Proof. exact hand_genum_nodup. Qed.

(* ... and each with exactly the signature the interface demands: parameter and result types of
   the emitted header (template text) equal those of genum.Enum, genum.TypedEnum[T] (T := the
   generated type) and json/encoding/yaml marshaler interfaces *)
Theorem C13_signatures_genum : forall o s, In s (genum_sigs hand_tables o) ->
  emits_sig genum_funcs (genum_env o) s.
Proof. exact hand_genum_sigs. Qed.

(* gerror: with and without skipConvertGen — every Factory method GError declares (but Is) and
   Error() is overridden with a pointer receiver; every method of gerror.Error and
   gerror.Factory is generated or promoted from the embedded GError; no duplicates; with
   skipConvertGen neither Convert nor ConvertS can be emitted; every override has the signature
   gerror.Factory / gerror.Error demands *)
Theorem C13_methods_gerror_partial : forall skip, gerror_statement hand_tables skip.
Proof. exact hand_gerror. Qed.

(* gsort: value and pointer sorters get Len, Swap, Less on the slice type, with sort.Interface's
   signatures *)
Theorem C13_methods_gsort_partial : forall p, gsort_statement hand_tables p.
Proof. exact hand_gsort. Qed.

(* the same statements for ANY tables that pass the boolean sweeps (used by the per-run tie with
   the tables regenerated from the templates, and the interface signatures read off the compiled
   packages) *)
Theorem C13_methods_any_table : forall T,
  genum_sweep T = true -> gerror_sweep T = true -> gsort_sweep T = true ->
  (forall o, genum_statement T o) /\ (forall skip, gerror_statement T skip)
  /\ (forall p, gsort_statement T p).
Proof. exact any_tables. Qed.

(* every basic kind a Go constant can have (typed or untyped) is rendered by ExtractTypeRef as a
   predeclared Go type name *)
Theorem C13_basic_kinds : forall k, In k hand_kinds -> bk_const k = true ->
  In (render hand_render k) predeclared_go_types.
Proof. exact hand_kinds_ok. Qed.

Theorem C13_basic_kinds_any_table : forall e ks, kinds_sweep e ks = true ->
  forall k, In k ks -> bk_const k = true -> In (render e k) predeclared_go_types.
Proof. exact kinds_any_table. Qed.

(* import activation (gencommon/imports.go: ExtractTypeRef, addNamed, GetActive): after a type
   reference has been rendered — through pointers, slices, arrays, maps and type arguments to any
   depth — the import of every foreign package the type mentions is active, whatever the
   import table was; and rendering all references of a file never deactivates one *)
Theorem C13_imports_active : forall own r t l p,
  In p (mentions own t) -> In p (active_paths (snd (extract_ref own r t l))).
Proof. exact extract_ref_covers. Qed.

Theorem C13_imports_active_all : forall own r ts l p,
  In p (flat_map (mentions own) ts) ->
  In p (active_paths (snd (thread (extract_ref own r) ts l))).
Proof. exact extract_all_covers. Qed.

(* non-vacuity: time.Duration through a renamed import, and a package the file did not import *)
Example C13_example_imports :
  extract_ref "farm/p" hand_render
    (TyMap (TyNamed (Some ("time", "time")) "Duration" [])
           (TySlice (TyNamed (Some ("reflect", "reflect")) "Kind" [])))
    [mk_idesc "time" "xtime" false]
  = ("map[xtime.Duration][]reflect.Kind",
     [mk_idesc "time" "xtime" true; mk_idesc "reflect" "reflect" true]).
Proof. vm_compute. reflexivity. Qed.

(* gencommon.Write's formatting fallback (oracle bit per case): such a run is never judged clean,
   and it is a failing input exactly when no error was reported and no gofmt-clean package built *)
Theorem C13_fallback_flagged : forall T ks r c, gc_fallback c = true -> gb_judge T ks r c <> 0.
Proof. exact fallback_flagged. Qed.

Theorem C13_fallback_violation : forall T ks r c, gc_fallback c = true ->
  (gb_judge T ks r c = 1 <-> gc_obs c = ObsBad).
Proof. exact fallback_violation. Qed.

(* scope check of the func bodies (a necessary condition for the generated file to compile): for
   ANY tables passing the boolean sweep, under every option setting, whenever a call of a method
   on the enclosing func's receiver or of a template-named function (Parse<T>) can be emitted,
   the callee is emitted too (or promoted from the embedded GError).  Instantiated on every run
   with the uses and tables regenerated from the current templates. *)
Theorem C13_uses_declared_any_table : forall T ug ue us,
  uses_sweep T ug ue us = true ->
  (forall o u, In u ug -> use_possible (genum_env o) u = true ->
               use_declared (tt_genum T) [] (genum_env o) u = true)
  /\ (forall skip u, In u ue -> use_possible (gerror_env skip) u = true ->
                     use_declared (tt_gerror T) (tt_promoted T) (gerror_env skip) u = true)
  /\ (forall u, In u us -> use_possible (fun _ => false) u = true ->
                use_declared (tt_gsort T) [] (fun _ => false) u = true).
Proof. exact uses_declared_any_table. Qed.
(* non-vacuity: a use under a flag whose callee sits under another flag is caught *)
Example C13_example_scope :
  uses_ok [mk_tfunc "UnmarshalText" RPointer [GFlag "GenText" true] ["[]byte"] ["error"]] []
          [mk_tuse "UnmarshalJSON" "UnmarshalText" true [GFlag "GenJSON" true]]
          (genum_env {| go_json := true; go_yaml := true; go_text := false; go_ci := false;
                        go_disable_traits := false; go_parsable_some := false |}) = false
  /\ uses_ok [mk_tfunc "UnmarshalText" RPointer [GFlag "GenText" true] ["[]byte"] ["error"]] []
             [mk_tuse "UnmarshalJSON" "UnmarshalText" true [GFlag "GenJSON" true; GFlag "GenText" true]]
             (genum_env {| go_json := true; go_yaml := true; go_text := false; go_ci := false;
                           go_disable_traits := false; go_parsable_some := false |}) = true.
Proof. vm_compute. split; reflexivity. Qed.

(* when the model predicts that a genum package builds, nothing required is missing and every
   basic trait kind renders as a predeclared type *)
Theorem C13_predict_built : forall T ks r c,
  gc_tool c = TGenum -> predict T ks r c = PBuilt ->
  genum_ok T (genum_opts_of c) = true
  /\ (go_disable_traits (genum_opts_of c) = false ->
      forall n, In n (gc_kinds c) -> exists k, find_kind ks n = Some k /\ kind_ok r k = true).
Proof. exact predict_built_genum. Qed.

(* non-vacuity: with everything switched off the seven Enum/TypedEnum methods are still required
   and present; with skipConvertGen nothing but the 18 overrides is required *)
Example C13_example_all_off :
  let o := {| go_json := false; go_yaml := false; go_text := false; go_ci := false;
              go_disable_traits := true; go_parsable_some := false |} in
  map rq_name (genum_required iface_genum_Enum iface_genum_TypedEnum o)
  = ["IsValid"; "StringValues"; "String"; "IsEnum"; "ParseGeneric"; "Values"; "ParseString"]
  /\ length (emitted genum_funcs (genum_env o)) = 8
  /\ length (gerror_required hand_tables true) = 18
  /\ length (gerror_required hand_tables false) = 20
  /\ render hand_render (mk_bkind "UntypedRune" "untyped rune" "rune" true true) = "rune".
Proof. vm_compute. repeat split. Qed.

(* non-vacuity of the signature statements; a dot-import needs no qualifier *)
Example C13_example_signatures :
  let o := {| go_json := false; go_yaml := true; go_text := false; go_ci := false;
              go_disable_traits := false; go_parsable_some := true |} in
  length (genum_sigs hand_tables o) = 14
  /\ In (mk_sig "ParseString" ["string"] ["<RECV>"; "error"]) (genum_sigs hand_tables o)
  /\ In (mk_sig "UnmarshalYAML" ["*yaml.Node"] ["error"]) (genum_sigs hand_tables o)
  /\ length (gerror_sigs hand_tables true) = 19 /\ length (gsort_sigs hand_tables) = 3
  /\ fst (extract_ref "farm/p" hand_render (TyNamed (Some ("time", "time")) "Duration" [])
                      [mk_idesc "time" "." false]) = "Duration".
Proof. vm_compute. repeat split; tauto. Qed.

(* the pinned code (before the C13 fixes) violated both statements — kept as a record *)
Theorem C13_methods_genum_orig_refuted :
  exists o, ~ (forall r, In r (genum_required iface_genum_Enum iface_genum_TypedEnum o) ->
                         provides (emitted genum_funcs_orig (genum_env o)) r).
Proof. exact orig_genum_refuted. Qed.

Theorem C13_basic_kinds_orig_refuted :
  exists k, In k hand_kinds /\ bk_const k = true
            /\ ~ In (render orig_render k) predeclared_go_types.
Proof. exact orig_kinds_refuted. Qed.

(* ... and held only where the repository's own tests look: with -yaml on *)
Theorem C13_methods_genum_orig_yaml_on : forall o, go_yaml o = true -> genum_ok orig_tables o = true.
Proof. exact orig_genum_yaml_on. Qed.

Print Assumptions C13_methods_genum_partial.
Print Assumptions C13_methods_genum_nodup.
Print Assumptions C13_signatures_genum.
Print Assumptions C13_methods_gerror_partial.
Print Assumptions C13_methods_gsort_partial.
Print Assumptions C13_methods_any_table.
Print Assumptions C13_basic_kinds.
Print Assumptions C13_basic_kinds_any_table.
Print Assumptions C13_imports_active.
Print Assumptions C13_imports_active_all.
Print Assumptions C13_fallback_flagged.
Print Assumptions C13_fallback_violation.
Print Assumptions C13_predict_built.
Print Assumptions C13_uses_declared_any_table.
Print Assumptions C13_methods_genum_orig_refuted.
Print Assumptions C13_basic_kinds_orig_refuted.
Print Assumptions C13_methods_genum_orig_yaml_on.
