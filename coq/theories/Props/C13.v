(* C13 — generators: every option combination yields code that builds.
   Property theorems only; every proof is `exact <lemma of GenBuildProofs>`.

   What is proved here is the part of the property a Coq model can carry (DESIGN §4 C13):
   which methods the three templates emit under every option setting, and how the basic kind of
   a constant is rendered as a type name.  Tables: the hand copies in GenBuildModel.v are those
   of the repaired tree; on every run ./check C13 regenerates the tables from the current tree
   (xlate_tmpl_methods, xlate_basic_kinds) and instantiates the *_any_table theorems with them
   (closed by vm_compute), so an edit of a template or of ExtractTypeRef that breaks a statement
   is seen even when no sampled definition exercises it.  Whether the Go compiler accepts a
   whole generated file and whether gofmt leaves it unchanged is runtime behaviour — the
   **partial** part, carried by the build farm (harness/cmd/c13) and judged by GenBuildJudge.  *)
From Coq Require Import String List Bool.
From GT Require Import GenBuildModel GenBuildProofs.
Import ListNotations.
Local Open Scope string_scope.

(* the full statement of the property, over the real pipeline `run` (generator CLI as a
   go:generate subprocess, gofmt -l, go build with interface assertions), which no Gallina term
   defines: on every documented-valid input the outcome is an error report or a built package *)
Definition C13_full_statement (input : Type) (documented_valid : input -> Prop)
           (run : input -> obs) : Prop :=
  forall i, documented_valid i -> run i <> ObsBad.

(* genum: under each of the 2^5 switch settings x parsable some/none, every method of genum.Enum
   and genum.TypedEnum (value receivers) and of the requested json/text/yaml marshalers is
   emitted for every generated type, and no method is emitted twice *)
Theorem C13_methods_genum_partial : forall o r,
  In r (genum_required iface_genum_Enum iface_genum_TypedEnum o) ->
  provides (emitted genum_funcs (genum_env o)) r.
Proof. exact hand_genum_methods. Qed.

Theorem C13_methods_genum_nodup : forall o, NoDup (method_names genum_funcs (genum_env o)).
Proof. exact hand_genum_nodup. Qed.

(* gerror: with and without skipConvertGen — every Factory method GError declares (but Is) and
   Error() is overridden with a pointer receiver; every method of gerror.Error and
   gerror.Factory is generated or promoted from the embedded GError; no duplicates; with
   skipConvertGen neither Convert nor ConvertS can be emitted *)
Theorem C13_methods_gerror_partial : forall skip, gerror_statement hand_tables skip.
Proof. exact hand_gerror. Qed.

(* gsort: value and pointer sorters get Len, Swap, Less on the slice type *)
Theorem C13_methods_gsort_partial : forall p,
  (forall r, In r sort_methods -> provides (emitted gsort_funcs (gsort_env p)) r)
  /\ NoDup (method_names gsort_funcs (gsort_env p)).
Proof. exact hand_gsort. Qed.

(* the same three statements for ANY tables that pass the boolean sweeps (used by the per-run
   tie with the regenerated tables) *)
Theorem C13_methods_any_table : forall T,
  genum_sweep T = true -> gerror_sweep T = true -> gsort_sweep T = true ->
  (forall o, (forall r, In r (genum_required (tt_enum T) (tt_typed T) o) ->
                        provides (emitted (tt_genum T) (genum_env o)) r)
             /\ NoDup (method_names (tt_genum T) (genum_env o)))
  /\ (forall skip, gerror_statement T skip)
  /\ (forall p, (forall r, In r sort_methods -> provides (emitted (tt_gsort T) (gsort_env p)) r)
                /\ NoDup (method_names (tt_gsort T) (gsort_env p))).
Proof. exact any_tables. Qed.

(* every basic kind a Go constant can have (typed or untyped) is rendered by ExtractTypeRef as a
   predeclared Go type name *)
Theorem C13_basic_kinds : forall k, In k hand_kinds -> bk_const k = true ->
  In (render hand_render k) predeclared_go_types.
Proof. exact hand_kinds_ok. Qed.

Theorem C13_basic_kinds_any_table : forall e ks, kinds_sweep e ks = true ->
  forall k, In k ks -> bk_const k = true -> In (render e k) predeclared_go_types.
Proof. exact kinds_any_table. Qed.

(* import activation (gencommon/imports.go: ExtractTypeRef, addNamed, GetActive): after a type
   reference has been rendered — through pointers, slices, arrays, maps and type arguments to any
   depth — the import of every foreign package the type mentions is active, whatever the
   import table was; and rendering all references of a file never deactivates one *)
Theorem C13_imports_active : forall own r t l p,
  In p (mentions own t) -> In p (active_paths (snd (extract_ref own r t l))).
Proof. exact extract_ref_covers. Qed.

Theorem C13_imports_active_all : forall own r ts l p,
  In p (flat_map (mentions own) ts) ->
  In p (active_paths (snd (thread (extract_ref own r) ts l))).
Proof. exact extract_all_covers. Qed.

(* non-vacuity: time.Duration through a renamed import, and a package the file did not import *)
Example C13_example_imports :
  extract_ref "farm/p" hand_render
    (TyMap (TyNamed (Some ("time", "time")) "Duration" [])
           (TySlice (TyNamed (Some ("reflect", "reflect")) "Kind" [])))
    [mk_idesc "time" "xtime" false]
  = ("map[xtime.Duration][]reflect.Kind",
     [mk_idesc "time" "xtime" true; mk_idesc "reflect" "reflect" true]).
Proof. vm_compute. reflexivity. Qed.

(* when the model predicts that a genum package builds, nothing required is missing and every
   basic trait kind renders as a predeclared type *)
Theorem C13_predict_built : forall T ks r c,
  gc_tool c = TGenum -> predict T ks r c = PBuilt ->
  genum_ok T (genum_opts_of c) = true
  /\ (go_disable_traits (genum_opts_of c) = false ->
      forall n, In n (gc_kinds c) -> exists k, find_kind ks n = Some k /\ kind_ok r k = true).
Proof. exact predict_built_genum. Qed.

(* non-vacuity: with everything switched off the seven Enum/TypedEnum methods are still required
   and present; with skipConvertGen nothing but the 18 overrides is required *)
Example C13_example_all_off :
  let o := {| go_json := false; go_yaml := false; go_text := false; go_ci := false;
              go_disable_traits := true; go_parsable_some := false |} in
  map rq_name (genum_required iface_genum_Enum iface_genum_TypedEnum o)
  = ["IsValid"; "StringValues"; "String"; "IsEnum"; "ParseGeneric"; "Values"; "ParseString"]
  /\ length (emitted genum_funcs (genum_env o)) = 8
  /\ length (gerror_required hand_tables true) = 18
  /\ length (gerror_required hand_tables false) = 20
  /\ render hand_render (mk_bkind "UntypedRune" "untyped rune" "rune" true true) = "rune".
Proof. vm_compute. repeat split. Qed.

(* the pinned code (before the C13 fixes) violated both statements — kept as a record *)
Theorem C13_methods_genum_orig_refuted :
  exists o, ~ (forall r, In r (genum_required iface_genum_Enum iface_genum_TypedEnum o) ->
                         provides (emitted genum_funcs_orig (genum_env o)) r).
Proof. exact orig_genum_refuted. Qed.

Theorem C13_basic_kinds_orig_refuted :
  exists k, In k hand_kinds /\ bk_const k = true
            /\ ~ In (render orig_render k) predeclared_go_types.
Proof. exact orig_kinds_refuted. Qed.

(* ... and held only where the repository's own tests look: with -yaml on *)
Theorem C13_methods_genum_orig_yaml_on : forall o, go_yaml o = true -> genum_ok orig_tables o = true.
Proof. exact orig_genum_yaml_on. Qed.

Print Assumptions C13_methods_genum_partial.
Print Assumptions C13_methods_genum_nodup.
Print Assumptions C13_methods_gerror_partial.
Print Assumptions C13_methods_gsort_partial.
Print Assumptions C13_methods_any_table.
Print Assumptions C13_basic_kinds.
Print Assumptions C13_basic_kinds_any_table.
Print Assumptions C13_imports_active.
Print Assumptions C13_imports_active_all.
Print Assumptions C13_predict_built.
Print Assumptions C13_methods_genum_orig_refuted.
Print Assumptions C13_basic_kinds_orig_refuted.
Print Assumptions C13_methods_genum_orig_yaml_on.
