(* C04 — genum: generated Values/IsValid/String/Parse agree with the definition.
   Property theorems only; every proof is `exact <lemma of GEnumProofs>`.

   gen d o = Built t   "the genum CLI accepts definition d under options o and the emitted
                        code compiles; t are the tables the template is instantiated with"
   wf_defn d           the quantified space: underlying type of 1..64 bits, every constant
                       representable in it, pairwise distinct names — any number of constants,
                       blocks and duplicates.
   The model (GEnumModel.v) mirrors genum/gen of the current tree; it is tied to the code by
   the generator-farm correspondence of ./check C04.                                          *)
From Coq Require Import String ZArith List Bool Permutation Sorted.
From GT Require Import Base.GEnumStr.
From GT Require Import Base.GEnumStrFacts.
From GT Require Import GEnumModel GEnumProofs GEnumTraitProofs GEnumOrig.
Import ListNotations.
Local Open Scope string_scope.
Local Open Scope list_scope.
Local Open Scope Z_scope.

(* Go's sort.Sort is unstable and only promises a sorted permutation: whatever it returns on the
   collected constants is the list the model computes *)
Theorem C04_sort_any : forall d s, wf_defn d ->
  Permutation s (map to_gvalue (d_consts d)) ->
  StronglySorted (fun a b => g_less b a = false) s -> s = sort_values (d_consts d).
Proof. exact sort_any. Qed.

(* the specification objects mean what the property says *)
Theorem C04_values_spec_meaning : forall cs,
  StronglySorted Z.lt (values_spec cs) /\ forall v, In v (values_spec cs) <-> In v (map c_val cs).
Proof. exact values_spec_meaning. Qed.

Theorem C04_primary_meaning : forall cs v n, primary cs v = Some n ->
  exists c, In c cs /\ c_val c = v /\ c_name c = n /\
    ((c_dep c = false /\
      forall c', In c' cs -> c_val c' = v -> c_dep c' = false -> str_leb n (c_name c') = true)
     \/ ((forall c', In c' cs -> c_val c' = v -> c_dep c' = true) /\
         forall c', In c' cs -> c_val c' = v -> str_leb n (c_name c') = true)).
Proof. exact primary_meaning. Qed.

(* Values() is the ascending list of the distinct defined values *)
Theorem C04_values : forall d o t, wf_defn d -> gen d o = Built t ->
  sem_values t = values_spec (d_consts d).
Proof. exact sem_values_spec. Qed.

(* IsValid is true exactly for them — for the linear scan and for slices.BinarySearch *)
Theorem C04_isvalid : forall d o t, wf_defn d -> gen d o = Built t ->
  forall e, sem_isvalid t e = true <-> In e (values_spec (d_consts d)).
Proof. exact sem_isvalid_spec. Qed.

(* String() is the primary name of a defined value and Undefined<Type>:<n> for anything else *)
Theorem C04_string : forall d o t, wf_defn d -> gen d o = Built t ->
  forall e, sem_string t e = string_spec d e.
Proof. exact sem_string_spec. Qed.

Theorem C04_string_defined : forall d v, In v (map c_val (d_consts d)) ->
  exists n, primary (d_consts d) v = Some n /\ string_spec d v = n.
Proof. exact string_spec_defined. Qed.

Theorem C04_string_undefined : forall d v, ~ In v (map c_val (d_consts d)) ->
  string_spec d v = ("Undefined" ++ ty_name (d_ty d) ++ ":" ++ dec v)%string.
Proof. exact string_spec_undefined. Qed.

(* StringValues() equals String() over Values() *)
Theorem C04_stringvalues : forall d o t, wf_defn d -> gen d o = Built t ->
  sem_stringvalues t = map (sem_string t) (sem_values t).
Proof. exact sem_stringvalues_string. Qed.

(* Parse<Type>, ParseString and ParseGeneric are one function in the emitted code (the latter two
   return Parse<Type>(input)); sem_parse_string is that function on string inputs *)
Theorem C04_parse_name : forall d o t, wf_defn d -> gen d o = Built t ->
  forall c, In c (d_consts d) -> sem_parse_string t (c_name c) = Some (c_val c).
Proof. exact parse_name. Qed.

Theorem C04_parse_name_ci : forall d o t, gen d o = Built t ->
  forall c s, o_ci o = true -> In c (d_consts d) -> to_lower s = to_lower (c_name c) ->
  ~ is_trait_const d t (DStr s) -> sem_parse_string t s = Some (c_val c).
Proof. exact parse_name_ci. Qed.

(* the generator (validateCaseInsensitiveNames) rejects, under -caseInsensitive, names that differ only
   by case; so whenever generation is defined the lower-cased names are pairwise distinct — the
   reason a case variant identifies ONE constant in C04_parse_name_ci *)
Theorem C04_ci_names_distinct : forall d o t, wf_defn d -> gen d o = Built t -> o_ci o = true ->
  NoDup (map (fun c => to_lower (c_name c)) (d_consts d)).
Proof. exact built_ci_names_distinct. Qed.
Theorem C04_ci_collision_rejected : forall d o, o_ci o = true -> sort_values (d_consts d) <> [] ->
  str_nodupb (map (fun v => to_lower (g_name v)) (sort_values (d_consts d))) = false -> gen d o = GenErr.
Proof. exact ci_collision_rejected. Qed.

Theorem C04_parse_reject : forall d o t, gen d o = Built t ->
  forall s,
  (forall c, In c (d_consts d) -> c_name c <> s) ->
  (o_ci o = true -> forall c, In c (d_consts d) -> to_lower (c_name c) <> to_lower s) ->
  ~ is_trait_const d t (DStr s) -> sem_parse_string t s = None.
Proof. exact parse_reject. Qed.

(* … with the exception read off the DEFINITION: is_parsable_trait_value d o x = some constant's line carries,
   in a column declared parsable, a cell whose constant is x.  (Soundness of the generator's table of trait
   constants: what the Parse switch lists beyond the names are such cells only.) *)
Theorem C04_trait_const_sound : forall d o t x, wf_defn d -> gen d o = Built t ->
  is_trait_const d t x -> is_parsable_trait_value d o x = true.
Proof. exact trait_const_sound. Qed.
Theorem C04_parse_reject_def : forall d o t, wf_defn d -> gen d o = Built t -> forall s,
  (forall c, In c (d_consts d) -> c_name c <> s) ->
  (o_ci o = true -> forall c, In c (d_consts d) -> to_lower (c_name c) <> to_lower s) ->
  is_parsable_trait_value d o (DStr s) = false -> sem_parse_string t s = None.
Proof. exact parse_reject_def. Qed.
(* "every enum definition genum accepts": the generator does accept every well-formed definition without
   traits (for definitions with traits acceptance is observed by the farm, see the notes) *)
(* … and, under every option set, every well-formed definition without trait cells, without reserved names and
   (with -caseInsensitive) without names differing only by case *)
Theorem C04_accepts_nocells : forall d o, wf_defn d -> d_consts d <> [] ->
  existsb (fun c => reserved_name o (c_name c)) (d_consts d) = false ->
  (o_ci o = true -> NoDup (map (fun c => to_lower (c_name c)) (d_consts d))) ->
  forallb (fun c => Nat.eqb (length (c_cells c)) 0) (d_consts d) = true ->
  exists t, gen d o = Built t.
Proof. exact gen_total_nocells. Qed.
Theorem C04_accepts_notraits : forall d o, wf_defn d -> d_consts d <> [] -> o_notraits o = true -> o_ci o = false ->
  existsb (fun c => reserved_name o (c_name c)) (d_consts d) = false ->
  exists t, gen d o = Built t.
Proof. exact gen_total_notraits. Qed.

(* a constant named like an identifier the template binds where it refers to the constants (`e`, `input`; `text`,
   `ok` with -caseInsensitive) is refused with an error (fix C04-reserved-identifiers, 9cb41dd).  Before the fix
   `e E = iota; f` generated `switch e { case e: return "e" …` (receiver shadows the constant: f.String() = "e") *)
Theorem C04_reserved_name_rejected : forall d o,
  existsb (fun c => reserved_name o (c_name c)) (d_consts d) = true -> gen d o = GenErr.
Proof. exact reserved_rejected. Qed.
Theorem C04_reserved_name_orig_refuted :
  is_built (gen_orig w_reserved (opts_ci false)) = true /\ is_generr (gen w_reserved (opts_ci false)) = true
  /\ is_built (gen w_reserved_ci (opts_ci false)) = true /\ is_generr (gen w_reserved_ci (opts_ci true)) = true.
Proof. exact reserved_orig. Qed.

(* ---- non-vacuity: a definition with duplicates, a deprecated first name, a negative value and
   17 constants (binary-search IsValid) satisfies the hypotheses and is generated *)
Definition c04_mk n v dp := {| c_name := n; c_val := v; c_dep := dp; c_cells := [] |}.
Definition c04_ex : defn :=
  {| d_ty := {| ty_name := "E"; ty_signed := true; ty_bits := 8 |};
     d_consts := [c04_mk "A" 1 true; c04_mk "B" 1 false; c04_mk "C" 1 false; c04_mk "D" (-3) false;
                  c04_mk "V4" 4 false; c04_mk "V5" 5 false; c04_mk "V6" 6 false; c04_mk "V7" 7 false;
                  c04_mk "V8" 8 false; c04_mk "V9" 9 false; c04_mk "V10" 10 false; c04_mk "V11" 11 false;
                  c04_mk "V12" 12 false; c04_mk "V13" 13 false; c04_mk "V14" 14 false; c04_mk "Max" 127 false;
                  c04_mk "Min" (-128) true];
     d_types := [] |}.
Definition c04_opts : opts :=
  {| o_json := true; o_yaml := true; o_text := true; o_ci := true; o_notraits := false; o_parsable := [] |}.

(* The theorems above are about sem_values / sem_isvalid / sem_string / sem_stringvalues / sem_parse.
   These are the interpreters of the control skeletons of the emitted functions (value table and
   Values(), StringValues(), String(), IsValid() with its threshold and both branches, the Parse<T>
   switches with the -caseInsensitive fallback, ParseString/ParseGeneric delegation) at ANY skeleton
   record accepted by the executable predicate skels_ok; the record regenerated from
   genum/gen/enumTemplate.gotmpl of the current tree is shown to satisfy it on every check
   (coq/ties/Tie_GEnumSkel.v), so every theorem above is about the functions the current template emits *)
Theorem C04_skeleton_functions : forall k, skels_ok k = true -> forall d o t, gen d o = Built t ->
  sem_values_sk k t = sem_values t /\ sem_stringvalues_sk k t = sem_stringvalues t
  /\ (forall e, sem_isvalid_sk k t e = sem_isvalid t e) /\ (forall e, sem_string_sk k t e = sem_string t e)
  /\ (forall x, sem_parse_sk (sk_parse k) t x = sem_parse t x)
  /\ sk_parsestring k = true /\ sk_parsegeneric k = true.
Proof. exact skel_functions. Qed.
(* history independence: Values() and StringValues() hand out fresh slices, so whatever callers WROTE into earlier
   results (h), later Values() calls return — and IsValid decides — the same as on first use; a Values() returning
   the table itself (ValAliasOfTable, the seeded change C04-32) is not well-formed and loses this *)
Theorem C04_history_independent : forall k, skels_ok k = true -> forall t h,
  sem_values_hist k t h = sem_values_sk k t /\ forall e, sem_isvalid_hist k t h e = sem_isvalid_sk k t e.
Proof. exact history_independent. Qed.
Theorem C04_alias_refuted :
  skels_ok alias_skels = false
  /\ exists t, gen yw_defn yw_opts = Built t
       /\ sem_values_hist alias_skels t [HWriteValues 0 2; HWriteValues 2 0] = [2; 1; 0]
       /\ sem_values_hist cur_skels t [HWriteValues 0 2; HWriteValues 2 0] = [0; 1; 2].
Proof. exact alias_not_history_independent. Qed.
Theorem C04_skels_current_ok : skels_ok cur_skels = true.
Proof. exact cur_skels_ok. Qed.

Example C04_example_wf : wf_defn c04_ex.
Proof.
  split; [unfold ty_ok; simpl; split; discriminate|]. split.
  - repeat constructor.
  - apply str_nodupb_NoDup. vm_compute. reflexivity.
Qed.

Example C04_example_built :
  exists t, gen c04_ex c04_opts = Built t /\ t_binsearch t = true
            /\ sem_string t 1 = "B" /\ sem_string t (-128) = "Min" /\ sem_string t 2 = "UndefinedE:2"
            /\ sem_isvalid t 127 = true /\ sem_isvalid t 126 = false
            /\ sem_parse_string t "max" = Some 127 /\ sem_parse_string t "Maxx" = None.
Proof. eexists. split; [vm_compute; reflexivity|]. vm_compute. repeat split. Qed.

(* ---- the pinned code (before fix C04-dedup-primary-name): ValueDeduplicatedSet never reset
   addedDeprecated, so for names A (deprecated), B, C of one value the table carried C — kept
   as a record *)
Theorem C04_string_orig_refuted :
  exists cs v, map g_name (dedup_orig (sort_values cs)) = ["C"] /\ primary cs v = Some "B"
               /\ map g_name (dedup (sort_values cs)) = ["B"].
Proof. exact dedup_orig_refuted. Qed.

Print Assumptions C04_skeleton_functions.
Print Assumptions C04_skels_current_ok.
Print Assumptions C04_history_independent.
Print Assumptions C04_alias_refuted.
Print Assumptions C04_trait_const_sound.
Print Assumptions C04_parse_reject_def.
Print Assumptions C04_accepts_notraits.
Print Assumptions C04_accepts_nocells.
Print Assumptions C04_reserved_name_rejected.
Print Assumptions C04_reserved_name_orig_refuted.
Print Assumptions C04_sort_any.
Print Assumptions C04_values_spec_meaning.
Print Assumptions C04_primary_meaning.
Print Assumptions C04_values.
Print Assumptions C04_isvalid.
Print Assumptions C04_string.
Print Assumptions C04_string_defined.
Print Assumptions C04_string_undefined.
Print Assumptions C04_stringvalues.
Print Assumptions C04_parse_name.
Print Assumptions C04_parse_name_ci.
Print Assumptions C04_ci_names_distinct.
Print Assumptions C04_ci_collision_rejected.
Print Assumptions C04_parse_reject.
Print Assumptions C04_string_orig_refuted.
