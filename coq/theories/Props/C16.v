(* C16 — gconfig: env templates resolve exactly and only on selected branches.
   Property theorems only; every proof is `exact <lemma of TmplProofs>`.
   TmplModel.match_env is the hand-written recogniser mirroring the anchored pattern of
   gconfig/yaml_templates.go, resolve_str mirrors MatchAndResolve, subst mirrors
   parseTemplatedElements, load_full mirrors Builder.FromBytes; tied to the code (and to Go's
   regexp engine) by the correspondence run of ./check C16.
   shaped l  :=  l = ${{ w1 env: w2 NAME w3 [|] w4 DEFAULT w5 }}  — the pattern's language
   written as a decomposition; doc_ok = the documented grammar (DEFAULT only after `|`).   *)
From Coq Require Import List String Ascii Bool Arith.
From GT Require Import GConfModel GConfProofs TmplModel TmplProofs TmplReModel TmplReProofs.
Import ListNotations.

(* every string of the documented grammar — any name in [A-Za-z0-9_]+, optional default,
   any inner spacing — is recognised with exactly that name and that default *)
Theorem C16_grammar : forall sh, doc_ok sh ->
  match_env (string_of_list_ascii (render sh))
  = Some (string_of_list_ascii (nm sh), string_of_list_ascii (df sh)).
Proof. exact grammar_string. Qed.

(* the matcher accepts exactly the template-shaped strings ... *)
Theorem C16_accepts_iff : forall s, match_env s <> None <-> shaped (list_ascii_of_string s).
Proof. exact accepted_iff_shaped. Qed.

(* ... and what it returns are components of the string: the maximal name and the default *)
Theorem C16_captures : forall s n d,
  match_env s = Some (n, d) ->
  exists sh, shape_ok sh /\ list_ascii_of_string s = render sh /\
             n = string_of_list_ascii (nm sh) /\ d = string_of_list_ascii (df sh) /\
             starts_nonword (w3 sh ++ pipe_s (has_pipe sh) ++ w4 sh ++ df sh ++ w5 sh ++ close_s).
Proof. exact captures_string. Qed.

(* "shaped" is not an ad-hoc notion: it is exactly the language of the source's regular
   expression (hand_pattern is tied to the pattern text of yaml_templates.go by the translator
   xlate_tmplre, `gen_pattern = hand_pattern` by reflexivity at every check) ... *)
Theorem C16_pattern_language : forall l, matches hand_pattern l <-> shaped l.
Proof. exact pattern_language. Qed.

(* ... so the hand-written matcher accepts exactly what the regular expression matches *)
Theorem C16_matcher_is_pattern : forall l, match_env_l l <> None <-> matches hand_pattern l.
Proof. exact matcher_is_pattern. Qed.

(* every other string is left untouched, whatever the environment *)
Theorem C16_untouched : forall env s,
  ~ shaped (list_ascii_of_string s) -> resolve_str env s = Ok s.
Proof. exact untouched_unless_shaped. Qed.

(* the near-misses the property names: leading text, trailing text, single braces, no `env:` *)
Theorem C16_reject_leading : forall l, (forall r, l <> open_s ++ r) -> match_env_l l = None.
Proof. exact reject_no_open. Qed.

Theorem C16_reject_trailing : forall l, (forall b, l <> b ++ close_s) -> match_env_l l = None.
Proof. exact reject_no_close. Qed.

Theorem C16_reject_first_char : forall c l, c <> "$"%char -> match_env_l (c :: l) = None.
Proof. exact reject_first_char. Qed.

Theorem C16_reject_last_char : forall l c, c <> "}"%char -> match_env_l (l ++ [c]) = None.
Proof. exact reject_last_char. Qed.

Theorem C16_reject_single_open : forall c l,
  c <> "{"%char -> match_env_l ("$" :: "{" :: c :: l)%char = None.
Proof. exact reject_single_open. Qed.

Theorem C16_reject_single_close : forall l c,
  c <> "}"%char -> match_env_l (l ++ [c; "}"%char]) = None.
Proof. exact reject_single_close. Qed.

Theorem C16_reject_missing_env : forall w r,
  Forall sp w -> starts_nonspace r -> (forall r', r <> env_s ++ r') ->
  match_env_l (open_s ++ w ++ r) = None.
Proof. exact reject_no_env. Qed.

(* the three-way outcome: value if set (even empty), else the default with surrounding double
   quotes stripped, else an error *)
Theorem C16_resolve : forall env s n d,
  match_env s = Some (n, d) ->
  resolve_str env s =
  match assoc n env with
  | Some v => Ok v
  | None => match d with EmptyString => Err | _ => Ok (trim_quotes d) end
  end.
Proof. exact resolve_three_way. Qed.

Theorem C16_trim_quotes : forall q1 m q2,
  Forall isq q1 -> Forall isq q2 -> starts_nonquote m -> starts_nonquote (rev m) ->
  trim_quotes_l (q1 ++ m ++ q2) = m.
Proof. exact trim_quotes_spec. Qed.

(* the template pass fails exactly when some string of the tree it runs over fails *)
Theorem C16_subst_error_iff : forall env t,
  subst env t = Err <-> exists s, In s (strings_of t) /\ resolve_str env s = Err.
Proof. exact subst_err_iff. Qed.

(* composition with C03: loading is the template pass over the resolved document ... *)
Theorem C16_load_is_spec : forall dims env t p,
  WF dims p t -> load_full dims env t = load_full_spec dims env t.
Proof. exact load_full_is_spec. Qed.

(* ... so it succeeds iff resolution succeeds and every template of the RESOLVED document
   resolves ... *)
Theorem C16_selected_only : forall dims env t,
  load_full_spec dims env t <> Err <->
  exists kv, load_spec dims t = Ok kv /\
             forall s, In s (strings_of (Mp kv)) -> resolve_str env s <> Err.
Proof. exact load_full_ok_iff. Qed.

(* ... and nothing in an entry that is not active — an unset variable included — can change
   the outcome *)
Theorem C16_unselected_irrelevant : forall dims env t t',
  Agree dims t t' -> load_full_spec dims env t = load_full_spec dims env t'.
Proof. exact agree_load_full. Qed.

(* non-vacuity *)
Local Open Scope string_scope.
Example C16_example_grammar :
  doc_ok {| w1 := b "  "; w2 := b ""; nm := b "MY_ENV_VAR"; w3 := b "  "; has_pipe := true;
            w4 := b "  "; df := b "some-default"; w5 := b "  " |} /\
  match_env "${{  env:MY_ENV_VAR  |  some-default  }}" = Some ("MY_ENV_VAR", "some-default") /\
  match_env "${{env:A}}" = Some ("A", "") /\
  match_env "x${{env:A}}" = None /\ match_env "${{env:A}} y" = None /\
  match_env "${env:A}" = None /\ match_env "${{A}}" = None.
Proof.
  split; [|repeat split; vm_compute; reflexivity].
  unfold doc_ok, shape_ok. cbn.
  repeat split; try (repeat constructor; fail); try discriminate.
  right. split; [reflexivity|]. exists (b "some-defaul"), "t"%char. split; reflexivity.
Qed.

Example C16_example_resolve :
  resolve_str [("A", "")] "${{env:A|d}}" = Ok "" /\
  resolve_str [] "${{env:A|""quoted""}}" = Ok "quoted" /\
  resolve_str [] "${{env:A|""""}}" = Ok "" /\
  resolve_str [] "${{ env: A }}" = Err /\
  resolve_str [] "${{env:A}}}}" = Ok "}}".   (* accepted by the pattern: default without `|` *)
Proof. repeat split; vm_compute; reflexivity. Qed.

Example C16_example_unselected :
  load_full [mk_dim T1 0] []
    (Mp [("k", Mp [("D1b", Str "${{env:UNSET}}"); ("default", Str "fine")])])
  = Ok [("k", Str "fine")] /\
  load_full [mk_dim T1 1] []
    (Mp [("k", Mp [("D1b", Str "${{env:UNSET}}"); ("default", Str "fine")])])
  = Err.
Proof. split; vm_compute; reflexivity. Qed.

Print Assumptions C16_grammar.
Print Assumptions C16_accepts_iff.
Print Assumptions C16_captures.
Print Assumptions C16_pattern_language.
Print Assumptions C16_matcher_is_pattern.
Print Assumptions C16_untouched.
Print Assumptions C16_reject_leading.
Print Assumptions C16_reject_trailing.
Print Assumptions C16_reject_first_char.
Print Assumptions C16_reject_last_char.
Print Assumptions C16_reject_single_open.
Print Assumptions C16_reject_single_close.
Print Assumptions C16_reject_missing_env.
Print Assumptions C16_resolve.
Print Assumptions C16_trim_quotes.
Print Assumptions C16_subst_error_iff.
Print Assumptions C16_load_is_spec.
Print Assumptions C16_selected_only.
Print Assumptions C16_unselected_irrelevant.

(* ======================================================================================
   Model-level composition (design_notes/AUDIT-C11-C20.md, C16: the unselected-branch clause
   was stated for load_full_spec only; C16_resolve unfolds resolve_str).

   load_full is the MODEL of Builder.FromBytes (reduceAny, non-map check, template pass).
   Resolves / Fails are the relational specification of C03 (GConfRelSpec, written from the
   property text).  Outcome is the three-way outcome of one string written over the documented
   grammar alone (TmplProofs.shape / render / doc_ok), without match_env or trim_quotes.   *)
From GT Require Import GConfRelSpec GConfRelProofs TmplCompProofs.

(* nothing in an entry that is not active — an unset variable included — changes what the
   CODE's loading returns: two well-formed documents that agree on the selected part load to
   the same configuration or both fail *)
Theorem C16_model_unselected_irrelevant : forall dims env t t' p p',
  WF dims p t -> WF dims p' t' -> Agree dims t t' ->
  load_full dims env t = load_full dims env t'.
Proof. exact model_unselected_irrelevant. Qed.

(* loading is the template pass over THE document t resolves to (and to nothing else) ... *)
Theorem C16_model_load_resolved : forall dims env t p r,
  WF dims p t -> is_map t -> Resolves dims t r ->
  load_full dims env t = templates_over env r.
Proof. exact model_load_resolved. Qed.

(* ... so it fails exactly when resolution fails, the root is not a map before or after
   resolution, or a string of the RESOLVED document fails under the environment *)
Theorem C16_model_error_iff : forall dims env t p, WF dims p t ->
  (load_full dims env t = Err <->
   Fails dims t \/ ~ is_map t \/
   exists r, Resolves dims t r /\
             (~ is_map r \/ exists s, In s (strings_of r) /\ resolve_str env s = Err)).
Proof. exact model_error_iff. Qed.

(* the outcome of one string, mentioning only the rendered string, the environment and the
   result: value of NAME if set (even empty), else DEFAULT without its surrounding double
   quotes, else an error; any string that is not template-shaped is returned unchanged *)
Theorem C16_template_outcome : forall env s o, Outcome env s o -> resolve_str env s = o.
Proof. exact template_outcome. Qed.

Theorem C16_template_outcome_total : forall env s,
  (exists name dflt, TemplateOf s name dflt) \/ ~ shaped (list_ascii_of_string s) ->
  exists o, Outcome env s o.
Proof. exact template_outcome_total. Qed.

(* non-vacuity: two well-formed documents that agree on the selected part (D1a selected) and
   differ in the unselected D1b entry, which holds an unset variable in one of them and a
   stuck switch of another dimension in the other; both load to the same configuration *)
Definition unsel_doc1 : tree :=
  Mp [("k", Mp [("D1a", Str "${{env:SET}}"); ("D1b", Str "${{env:UNSET}}")])].
Definition unsel_doc2 : tree :=
  Mp [("k", Mp [("D1a", Str "${{env:SET}}"); ("D1b", Mp [("D2b", Null)])])].

Example C16_example_model_unselected :
  WF dims12 None unsel_doc1 /\ WF dims12 None unsel_doc2 /\ Agree dims12 unsel_doc1 unsel_doc2 /\
  unsel_doc1 <> unsel_doc2 /\
  load_full dims12 [("SET", "v")] unsel_doc1 = Ok [("k", Str "v")] /\
  load_full dims12 [("SET", "v")] unsel_doc2 = Ok [("k", Str "v")] /\
  resolve_str [("SET", "v")] "${{env:UNSET}}" = Err.
Proof.
  split; [apply wfb_sound; vm_compute; reflexivity|].
  split; [apply wfb_sound; vm_compute; reflexivity|].
  split.
  - apply Ag_plain; try (vm_compute; reflexivity).
    constructor; [|constructor]. split; [reflexivity|]. cbn [snd].
    eapply Ag_switch; try (vm_compute; reflexivity). apply Ag_refl.
  - split; [discriminate|]. repeat split; vm_compute; reflexivity.
Qed.

(* the error clause: a string of the resolved document failing under the environment *)
Example C16_example_model_error :
  WF dims12 None unsel_doc1 /\
  load_full dims12 [] unsel_doc1 = Err /\
  Resolves dims12 unsel_doc1 (Mp [("k", Str "${{env:SET}}")]) /\
  In "${{env:SET}}" (strings_of (Mp [("k", Str "${{env:SET}}")])) /\
  resolve_str [] "${{env:SET}}" = Err.
Proof.
  assert (HW : WF dims12 None unsel_doc1) by (apply wfb_sound; vm_compute; reflexivity).
  split; [exact HW|]. split; [vm_compute; reflexivity|]. split.
  - apply (rel_reduce_ok dims12 _ None _ HW). vm_compute. reflexivity.
  - split; [left; reflexivity| vm_compute; reflexivity].
Qed.

(* outcomes: default with quotes stripped, value set to the empty string, error, non-template *)
Definition outcome_shape : shape :=
  {| w1 := b "  "; w2 := b ""; nm := b "MY_ENV_VAR"; w3 := b "  "; has_pipe := true;
     w4 := b "  "; df := b """some-default"""; w5 := b "  " |}.

Example C16_example_outcome :
  TemplateOf "${{  env:MY_ENV_VAR  |  ""some-default""  }}" (b "MY_ENV_VAR") (b """some-default""") /\
  Outcome [] "${{  env:MY_ENV_VAR  |  ""some-default""  }}" (Ok "some-default") /\
  Outcome [("MY_ENV_VAR", "")] "${{  env:MY_ENV_VAR  |  ""some-default""  }}" (Ok "") /\
  Outcome [] "${{env:A}}" Err /\
  Outcome [] "x${{env:A}}" (Ok "x${{env:A}}").
Proof.
  assert (HT : TemplateOf "${{  env:MY_ENV_VAR  |  ""some-default""  }}"
                          (b "MY_ENV_VAR") (b """some-default""")).
  { exists outcome_shape. split; [|repeat split; reflexivity].
    unfold doc_ok, shape_ok. cbn.
    repeat split; try (repeat constructor; fail); try discriminate.
    right. split; [reflexivity|]. exists (b """some-default"), """"%char. split; reflexivity. }
  split; [exact HT|]. split; [|split; [|split]].
  - apply (O_default [] _ (b "MY_ENV_VAR") (b """some-default""") (b "some-default") HT);
      [reflexivity| discriminate|].
    exists [quote_c], [quote_c]. split; [reflexivity|].
    split; [repeat constructor|]. split; [repeat constructor|]. split; cbn; discriminate.
  - exact (O_set [("MY_ENV_VAR", "")] _ (b "MY_ENV_VAR") (b """some-default""") "" HT eq_refl).
  - apply (O_error [] "${{env:A}}" (b "A")); [|reflexivity].
    exists {| w1 := []; w2 := []; nm := b "A"; w3 := []; has_pipe := false; w4 := []; df := []; w5 := [] |}.
    split; [|repeat split; reflexivity]. unfold doc_ok, shape_ok. cbn.
    repeat split; try (repeat constructor; fail); try discriminate. congruence.
  - apply O_other. intros H. apply C16_accepts_iff in H. apply H. vm_compute. reflexivity.
Qed.

Print Assumptions C16_model_unselected_irrelevant.
Print Assumptions C16_model_load_resolved.
Print Assumptions C16_model_error_iff.
Print Assumptions C16_template_outcome.
Print Assumptions C16_template_outcome_total.
