(* C16 — gconfig: env templates resolve exactly and only on selected branches.
   Property theorems only; every proof is `exact <lemma of TmplProofs>`.
   TmplModel.match_env is the hand-written recogniser mirroring the anchored pattern of
   gconfig/yaml_templates.go, resolve_str mirrors MatchAndResolve, subst mirrors
   parseTemplatedElements, load_full mirrors Builder.FromBytes; tied to the code (and to Go's
   regexp engine) by the correspondence run of ./check C16.
   shaped l  :=  l = ${{ w1 env: w2 NAME w3 [|] w4 DEFAULT w5 }}  — the pattern's language
   written as a decomposition; doc_ok = the documented grammar (DEFAULT only after `|`).   *)
From Coq Require Import List String Ascii Bool Arith.
From GT Require Import GConfModel GConfProofs TmplModel TmplProofs TmplReModel TmplReProofs.
Import ListNotations.

(* every string of the documented grammar — any name in [A-Za-z0-9_]+, optional default,
   any inner spacing — is recognised with exactly that name and that default *)
Theorem C16_grammar : forall sh, doc_ok sh ->
  match_env (string_of_list_ascii (render sh))
  = Some (string_of_list_ascii (nm sh), string_of_list_ascii (df sh)).
Proof. exact grammar_string. Qed.

(* the matcher accepts exactly the template-shaped strings ... *)
Theorem C16_accepts_iff : forall s, match_env s <> None <-> shaped (list_ascii_of_string s).
Proof. exact accepted_iff_shaped. Qed.

(* ... and what it returns are components of the string: the maximal name and the default *)
Theorem C16_captures : forall s n d,
  match_env s = Some (n, d) ->
  exists sh, shape_ok sh /\ list_ascii_of_string s = render sh /\
             n = string_of_list_ascii (nm sh) /\ d = string_of_list_ascii (df sh) /\
             starts_nonword (w3 sh ++ pipe_s (has_pipe sh) ++ w4 sh ++ df sh ++ w5 sh ++ close_s).
Proof. exact captures_string. Qed.

(* "shaped" is not an ad-hoc notion: it is exactly the language of the source's regular
   expression (hand_pattern is tied to the pattern text of yaml_templates.go by the translator
   xlate_tmplre, `gen_pattern = hand_pattern` by reflexivity at every check) ... *)
Theorem C16_pattern_language : forall l, matches hand_pattern l <-> shaped l.
Proof. exact pattern_language. Qed.

(* ... so the hand-written matcher accepts exactly what the regular expression matches *)
Theorem C16_matcher_is_pattern : forall l, match_env_l l <> None <-> matches hand_pattern l.
Proof. exact matcher_is_pattern. Qed.

(* every other string is left untouched, whatever the environment *)
Theorem C16_untouched : forall env s,
  ~ shaped (list_ascii_of_string s) -> resolve_str env s = Ok s.
Proof. exact untouched_unless_shaped. Qed.

(* the near-misses the property names: leading text, trailing text, single braces, no `env:` *)
Theorem C16_reject_leading : forall l, (forall r, l <> open_s ++ r) -> match_env_l l = None.
Proof. exact reject_no_open. Qed.

Theorem C16_reject_trailing : forall l, (forall b, l <> b ++ close_s) -> match_env_l l = None.
Proof. exact reject_no_close. Qed.

Theorem C16_reject_first_char : forall c l, c <> "$"%char -> match_env_l (c :: l) = None.
Proof. exact reject_first_char. Qed.

Theorem C16_reject_last_char : forall l c, c <> "}"%char -> match_env_l (l ++ [c]) = None.
Proof. exact reject_last_char. Qed.

Theorem C16_reject_single_open : forall c l,
  c <> "{"%char -> match_env_l ("$" :: "{" :: c :: l)%char = None.
Proof. exact reject_single_open. Qed.

Theorem C16_reject_single_close : forall l c,
  c <> "}"%char -> match_env_l (l ++ [c; "}"%char]) = None.
Proof. exact reject_single_close. Qed.

Theorem C16_reject_missing_env : forall w r,
  Forall sp w -> starts_nonspace r -> (forall r', r <> env_s ++ r') ->
  match_env_l (open_s ++ w ++ r) = None.
Proof. exact reject_no_env. Qed.

(* the three-way outcome: value if set (even empty), else the default with surrounding double
   quotes stripped, else an error *)
Theorem C16_resolve : forall env s n d,
  match_env s = Some (n, d) ->
  resolve_str env s =
  match assoc n env with
  | Some v => Ok v
  | None => match d with EmptyString => Err | _ => Ok (trim_quotes d) end
  end.
Proof. exact resolve_three_way. Qed.

Theorem C16_trim_quotes : forall q1 m q2,
  Forall isq q1 -> Forall isq q2 -> starts_nonquote m -> starts_nonquote (rev m) ->
  trim_quotes_l (q1 ++ m ++ q2) = m.
Proof. exact trim_quotes_spec. Qed.

(* the template pass fails exactly when some string of the tree it runs over fails *)
Theorem C16_subst_error_iff : forall env t,
  subst env t = Err <-> exists s, In s (strings_of t) /\ resolve_str env s = Err.
Proof. exact subst_err_iff. Qed.

(* composition with C03: loading is the template pass over the resolved document ... *)
Theorem C16_load_is_spec : forall dims env t p,
  WF dims p t -> load_full dims env t = load_full_spec dims env t.
Proof. exact load_full_is_spec. Qed.

(* ... so it succeeds iff resolution succeeds and every template of the RESOLVED document
   resolves ... *)
Theorem C16_selected_only : forall dims env t,
  load_full_spec dims env t <> Err <->
  exists kv, load_spec dims t = Ok kv /\
             forall s, In s (strings_of (Mp kv)) -> resolve_str env s <> Err.
Proof. exact load_full_ok_iff. Qed.

(* ... and nothing in an entry that is not active — an unset variable included — can change
   the outcome *)
Theorem C16_unselected_irrelevant : forall dims env t t',
  Agree dims t t' -> load_full_spec dims env t = load_full_spec dims env t'.
Proof. exact agree_load_full. Qed.

(* non-vacuity *)
Local Open Scope string_scope.
Example C16_example_grammar :
  doc_ok {| w1 := b "  "; w2 := b ""; nm := b "MY_ENV_VAR"; w3 := b "  "; has_pipe := true;
            w4 := b "  "; df := b "some-default"; w5 := b "  " |} /\
  match_env "${{  env:MY_ENV_VAR  |  some-default  }}" = Some ("MY_ENV_VAR", "some-default") /\
  match_env "${{env:A}}" = Some ("A", "") /\
  match_env "x${{env:A}}" = None /\ match_env "${{env:A}} y" = None /\
  match_env "${env:A}" = None /\ match_env "${{A}}" = None.
Proof.
  split; [|repeat split; vm_compute; reflexivity].
  unfold doc_ok, shape_ok. cbn.
  repeat split; try (repeat constructor; fail); try discriminate.
  right. split; [reflexivity|]. exists (b "some-defaul"), "t"%char. split; reflexivity.
Qed.

Example C16_example_resolve :
  resolve_str [("A", "")] "${{env:A|d}}" = Ok "" /\
  resolve_str [] "${{env:A|""quoted""}}" = Ok "quoted" /\
  resolve_str [] "${{env:A|""""}}" = Ok "" /\
  resolve_str [] "${{ env: A }}" = Err /\
  resolve_str [] "${{env:A}}}}" = Ok "}}".   (* accepted by the pattern: default without `|` *)
Proof. repeat split; vm_compute; reflexivity. Qed.

Example C16_example_unselected :
  load_full [mk_dim T1 0] []
    (Mp [("k", Mp [("D1b", Str "${{env:UNSET}}"); ("default", Str "fine")])])
  = Ok [("k", Str "fine")] /\
  load_full [mk_dim T1 1] []
    (Mp [("k", Mp [("D1b", Str "${{env:UNSET}}"); ("default", Str "fine")])])
  = Err.
Proof. split; vm_compute; reflexivity. Qed.

Print Assumptions C16_grammar.
Print Assumptions C16_accepts_iff.
Print Assumptions C16_captures.
Print Assumptions C16_pattern_language.
Print Assumptions C16_matcher_is_pattern.
Print Assumptions C16_untouched.
Print Assumptions C16_reject_leading.
Print Assumptions C16_reject_trailing.
Print Assumptions C16_reject_first_char.
Print Assumptions C16_reject_last_char.
Print Assumptions C16_reject_single_open.
Print Assumptions C16_reject_single_close.
Print Assumptions C16_reject_missing_env.
Print Assumptions C16_resolve.
Print Assumptions C16_trim_quotes.
Print Assumptions C16_subst_error_iff.
Print Assumptions C16_load_is_spec.
Print Assumptions C16_selected_only.
Print Assumptions C16_unselected_irrelevant.
