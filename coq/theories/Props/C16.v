(* C16 — placeholder while the proofs are being written: see TmplProofs.v *)
From GT Require Import TmplModel.
