(* C01 — gsync: a Wait channel is never released while the count stayed above zero.
   Property theorems only.  Machines: WGModel.v (current pair-CAS code and, as [_orig], the
   pinned two-word code); monitors: WGSpec.v; proofs: WGProofs.v / WGRefute.v.            *)
From Coq Require Import List Arith ZArith Bool.
From GT Require Import Base.Conc.
From GT Require Import WGModel WGSpec WGRefute.
Import ListNotations.
Local Open Scope Z_scope.

(* the pinned code (before fix C01-paircas) violates the statement: 3 goroutines *)
Theorem C01_orig_refuted : exists progs sched,
  well_behaved (tr (wgo_exec progs sched)) = true /\ c01_ok (tr (wgo_exec progs sched)) = false.
Proof. exact c01_orig_refuted. Qed.

Print Assumptions C01_orig_refuted.
