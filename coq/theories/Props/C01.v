(* C01 — gsync: a Wait channel is never released while the count stayed above zero.
   Property theorems only.  Machines: WGModel.v (current pair-CAS code and, as [_orig], the
   pinned two-word code); monitors: WGSpec.v; invariant: WGInv.v; proofs: WGProofs.v,
   WGRefute.v.  [wg_exec progs sched] runs ANY list of client programs (any number of
   goroutines, any lengths) under ANY schedule; [tr] is its ghost trace.                     *)
From Coq Require Import List Arith ZArith Bool.
From GT Require Import Base.Conc.
From GT Require Import Base.ConcIR.
From GT Require Import WGModel WGSpec WGSpecProofs WGInv WGProofs WGWf WGRefute WGProg WGDenote.
From GT Require Import WGCountZero.
From GT Require Import Base.ConcIR2.
From GT Require Import WGSim WGProg2 WGSimHand WGSimProps.
From GT Require Import WGPropLemmas.
Import ListNotations.
Local Open Scope Z_scope.

(* the property: for every Wait that returned channel x and every later position where x is
   observed closed, the conservative lower bound of the count (returned increments + called
   decrements) was <= 0 at some position since the start of that Wait *)
Theorem C01 : forall progs sched,
  well_behaved (tr (wg_exec progs sched)) = true ->
  c01_ok (tr (wg_exec progs sched)) = true.
Proof. exact c01_wb. Qed.

(* the statement's first sentence with the REAL count (not the conservative lower bound): for
   every Wait call (called at position s by thread tid, returning channel x at position r) and
   every position u >= r at which x is observed closed, there is a position tau in [s, u] whose
   observation shows Count() = 0.  (C01 above is the form the quantifier prescribes for judging
   recorded traces: lb <= 0; it would also accept a release at the CALL of Dec.  This one does
   not.)  Any number of goroutines, programs, schedules; no side condition. *)
Theorem C01_count_zero : forall progs sched, c01z_spec (tr (wg_exec progs sched)).
Proof. exact c01_count_zero. Qed.

(* the same as an executable monitor (marks set only where Count() = 0 is observed), accepted on
   every trace of the machine and sound for the sentence on EVERY trace; the judge evaluates it
   on the recorded traces as well *)
Theorem C01_count_zero_monitor : forall progs sched, c01z_ok (tr (wg_exec progs sched)) = true.
Proof. exact c01z_all. Qed.

Theorem C01_count_zero_monitor_sound : forall t, c01z_ok t = true -> c01z_spec t.
Proof. exact c01z_ok_spec. Qed.

(* the machine [wg_exec] is the denotation (Base/ConcIR.v) of the IR term [hand_prog], which the
   check ties to the current source by `gen_prog = hand_prog := eq_refl`: same memory and same
   trace for every client program and schedule *)
Theorem C01_machine_is_denotation : forall progs sched,
  sh (dwg_exec hand_prog progs sched) = sh (wg_exec progs sched) /\
  tr (dwg_exec hand_prog progs sched) = tr (wg_exec progs sched).
Proof. exact denote_current. Qed.

(* the SEMANTIC tie.  [wg_sim_ok p sm] (WGSim.v) is a finite check-list about single micro-steps
   of the denotation (Base/ConcIR2.v: helpers, every loop form, break/continue, several results)
   of an IR term p with canonical site table sm.  Whatever term passes it denotes the machine of
   the theorems: same memory, same trace, every program, every schedule.  The check proves the
   check-list for the term regenerated from the source on every run (not a comparison with a
   stored term), so the property is a theorem about what the source says now, and harmless
   rewrites of the source do not break the tie. *)
Theorem C01_sim_is_denotation : forall p sm, wg_sim_ok p sm -> forall progs sched,
  sh (dwg2_exec p sm progs sched) = sh (wg_exec progs sched) /\
  tr (dwg2_exec p sm progs sched) = tr (wg_exec progs sched).
Proof. exact wg_sim. Qed.

Theorem C01_any_source : forall p sm, wg_sim_ok p sm -> forall progs sched,
  c01_ok (tr (dwg2_exec p sm progs sched)) = true.
Proof. exact C01_of_source. Qed.

(* the check-list holds for the IR of the current source (hand copy of what the translator
   prints; proved by the same tactic the check runs) *)
Theorem C01_current_source_sim : wg_sim_ok hand_prog2 hand_sitemap.
Proof. exact hand_sim_ok. Qed.

(* so the property holds of the denotation of what the source says *)
Theorem C01_denoted : forall progs sched,
  well_behaved (tr (dwg_exec hand_prog progs sched)) = true ->
  c01_ok (tr (dwg_exec hand_prog progs sched)) = true.
Proof. exact p_C01_denoted. Qed.

(* it holds even without the side condition *)
Theorem C01_unconditional : forall progs sched, c01_ok (tr (wg_exec progs sched)) = true.
Proof. exact c01_all. Qed.

(* what the monitor means, for EVERY trace (also the ones recorded from the real code): if
   c01_ok accepts a trace then the property's sentence over positions holds of it - for every
   Wait call (call at position s by thread tid, returning channel x at position r, tid doing
   only internal steps in between) and every position u >= r whose observation shows x closed
   there is a position tau, s <= tau <= u, at which the lower bound is <= 0 *)
Theorem C01_monitor_sound : forall t, c01_ok t = true -> c01_spec t.
Proof. exact c01_ok_spec. Qed.

(* and for well-formed traces (every thread: call when idle, internal steps inside a call, return
   of the call in progress; checked by the executable trace_wf on every recorded trace) the
   monitor is EXACTLY that sentence: a rejected trace violates it *)
Theorem C01_monitor_exact : forall t, trace_wf t = true -> (c01_ok t = true <-> c01_spec t).
Proof. exact c01_ok_iff_spec. Qed.

(* traces of the machine are well formed *)
Theorem C01_machine_trace_wf : forall progs sched, trace_wf (tr (wg_exec progs sched)) = true.
Proof. exact wg_trace_wf. Qed.

(* hence the property in its declarative form for the machine *)
Theorem C01_declarative : forall progs sched,
  well_behaved (tr (wg_exec progs sched)) = true -> c01_spec (tr (wg_exec progs sched)).
Proof. exact p_C01_declarative. Qed.

(* the same in state form: a closed channel that some Wait returned has its zero_seen mark *)
Theorem C01_state_form : forall progs sched w x,
  let cf := wg_exec progs sched in
  In w (m_ws (mon_of (tr cf))) -> w_ch w = Some x -> In x (closed (sh cf)) -> w_zero w = true.
Proof. exact c01_state_form. Qed.

(* the lower bound is a lower bound of the real count; the sentinel is installed exactly at
   count zero and an installed channel is open otherwise *)
Theorem C01_lb_le_count : forall progs sched,
  lb_of (tr (wg_exec progs sched)) <= cnt (sh (wg_exec progs sched)).
Proof. exact p_C01_lb_le_count. Qed.

Theorem C01_sentinel_iff_zero : forall progs sched,
  let cf := wg_exec progs sched in
  (chn (sh cf) = 0%nat <-> cnt (sh cf) = 0) /\
  (cnt (sh cf) <> 0 -> ~ In (chn (sh cf)) (closed (sh cf))).
Proof. exact p_C01_sentinel_iff_zero. Qed.

(* no call panics (close is never applied to a closed channel) *)
Theorem C01_no_panic : forall progs sched it,
  In it (tr (wg_exec progs sched)) -> ev_no_panic (it_ev it).
Proof. exact no_panic. Qed.

(* non-vacuity: a well-behaved execution in which a Wait overlaps a decrement to zero: the
   waiter obtains channel 1 while T0 is between its load and its CAS, and channel 1 is
   released by T0's close *)
Example C01_example :
  let cf := wg_exec [[CAdd 1; CAdd (-1)]; [CWait]] [0; 0; 0; 1; 0; 0; 1; 0; 0]%nat in
  well_behaved (tr cf) = true /\ c01_ok (tr cf) = true /\
  handed_out (tr cf) = [1%nat] /\ closed (sh cf) = [1%nat; 0%nat].
Proof. vm_compute. repeat split; reflexivity. Qed.

(* the pinned code (before fix C01-paircas) violates the statement: 3 goroutines *)
Theorem C01_orig_refuted : exists progs sched,
  well_behaved (tr (wgo_exec progs sched)) = true /\ c01_ok (tr (wgo_exec progs sched)) = false.
Proof. exact c01_orig_refuted. Qed.

(* [wgo_exec] is the denotation of the IR of the pinned source, so the refutation is about it *)
Theorem C01_orig_machine_is_denotation : forall progs sched,
  sh (dwgo_exec hand_prog_orig progs sched) = sh (wgo_exec progs sched) /\
  tr (dwgo_exec hand_prog_orig progs sched) = tr (wgo_exec progs sched).
Proof. exact denote_pinned. Qed.

Print Assumptions C01.
Print Assumptions C01_count_zero.
Print Assumptions C01_count_zero_monitor.
Print Assumptions C01_count_zero_monitor_sound.
Print Assumptions C01_machine_is_denotation.
Print Assumptions C01_sim_is_denotation.
Print Assumptions C01_any_source.
Print Assumptions C01_current_source_sim.
Print Assumptions C01_denoted.
Print Assumptions C01_orig_machine_is_denotation.
Print Assumptions C01_unconditional.
Print Assumptions C01_monitor_sound.
Print Assumptions C01_monitor_exact.
Print Assumptions C01_machine_trace_wf.
Print Assumptions C01_declarative.
Print Assumptions C01_state_form.
Print Assumptions C01_lb_le_count.
Print Assumptions C01_sentinel_iff_zero.
Print Assumptions C01_no_panic.
Print Assumptions C01_orig_refuted.
