(* C05 — genum: JSON/text/YAML codecs round-trip values and reject all else.
   Property theorems only; every proof is `exact <lemma of GEnumProofs>`.

   The three decoders of the emitted code are modelled on per-document views: what
   encoding/json, yaml.v3 and strconv report about the document (its string content, its
   uint64/int64 reading, the result of a trait type's own unmarshaler).  The decoder's own logic —
   which readings it tries, in which order, under which guards — is the model.
   `reading … x` = x is a faithful reading of the document; `rejectable d o t x` = x neither names
   a constant (case-insensitively under -caseInsensitive) nor is a parsable trait constant.      *)
From Coq Require Import String ZArith List Bool.
From GT Require Import Base.GEnumStr.
From GT Require Import GEnumModel GEnumProofs GEnumTraitProofs.
Import ListNotations.
Local Open Scope string_scope.
Local Open Scope list_scope.
Local Open Scope Z_scope.

(* Every theorem is stated for an ARBITRARY skeleton record k accepted by the executable predicate
   skels_ok; the record regenerated from the template of the current tree is shown to satisfy it on
   every check (coq/ties/Tie_GEnumSkel.v), the hand-written record of the current template does
   (C05_skels_current_ok). *)
Theorem C05_skels_current_ok : skels_ok cur_skels = true.
Proof. exact cur_skels_ok. Qed.

(* the JSON, text and YAML encodings of v are the primary name of v *)
Theorem C05_encode_json : forall k, skels_ok k = true -> forall d o t, wf_defn d -> gen d o = Built t ->
  forall v, encode_json_sk k t v = quote (string_spec d v).
Proof. exact encode_json_sk_spec. Qed.
Theorem C05_encode_text : forall k, skels_ok k = true -> forall d o t, wf_defn d -> gen d o = Built t ->
  forall v, encode_text_sk k t v = string_spec d v.
Proof. exact encode_text_sk_spec. Qed.
Theorem C05_encode_yaml : forall k, skels_ok k = true -> forall d o t, wf_defn d -> gen d o = Built t ->
  forall v, encode_yaml_sk k t v = string_spec d v.
Proof. exact encode_yaml_sk_spec. Qed.

(* decoding each of them yields v again (view soundness: the library's string reading of the
   encoded document is the emitted name — measured for every round trip by the farm) *)
Theorem C05_roundtrip_json : forall k, skels_ok k = true -> forall d o t, wf_defn d -> gen d o = Built t ->
  forall v jv, In v (values_spec (d_consts d)) -> jv_null jv = false ->
  jv_string jv = Some (sem_string t v) -> decode_json_sk k t jv = Some v.
Proof. exact roundtrip_json_sk. Qed.
Theorem C05_roundtrip_text : forall k, skels_ok k = true -> forall d o t, wf_defn d -> gen d o = Built t ->
  forall v tv, In v (values_spec (d_consts d)) ->
  tv_text tv = sem_string t v -> decode_text_sk k t tv = Some v.
Proof. exact roundtrip_text_sk. Qed.
Theorem C05_roundtrip_yaml : forall k, skels_ok k = true -> forall d o t, wf_defn d -> gen d o = Built t ->
  forall v yv, In v (values_spec (d_consts d)) -> yv_scalar yv = true ->
  yv_value yv = sem_string t v -> decode_yaml_sk k t yv = Some v.
Proof. exact roundtrip_yaml_sk. Qed.

(* input none of whose faithful readings is a defined name or a parsable trait value is rejected
   by all three decoders — never silently mapped to some enum value *)
Theorem C05_reject_json : forall k, skels_ok k = true -> forall d o t jv, gen d o = Built t ->
  (forall x, reading (jv_string jv) (jv_u64 jv) (jv_i64 jv) (jv_native jv) t x -> rejectable d o t x) ->
  decode_json_sk k t jv = None.
Proof. exact reject_json_sk. Qed.
Theorem C05_reject_text : forall k, skels_ok k = true -> forall d o t tv, gen d o = Built t ->
  (forall x, reading (Some (tv_text tv)) None None (tv_native tv) t x -> rejectable d o t x) ->
  decode_text_sk k t tv = None.
Proof. exact reject_text_sk. Qed.
Theorem C05_reject_yaml : forall k, skels_ok k = true -> forall d o t yv, gen d o = Built t ->
  (forall x, reading (Some (yv_value yv)) (yv_u64 yv) (yv_i64 yv) (yv_native yv) t x -> rejectable d o t x) ->
  decode_yaml_sk k t yv = None.
Proof. exact reject_yaml_sk. Qed.

(* the hypothesis of the rejection theorems follows from the DEFINITION: a reading that names no constant and
   is not the constant of a cell in a column declared parsable is rejectable *)
Theorem C05_rejectable_def : forall d o t x, wf_defn d -> gen d o = Built t ->
  ~ names_constant d o x -> is_parsable_trait_value d o x = false -> rejectable d o t x.
Proof. exact rejectable_def. Qed.

(* non-vacuity: the hypothesis of C05_reject_yaml holds for the scalar `garbage` on P0/P1/P2 with the parsable
   trait Code = 0/7/9 — every well-formed decoder rejects it (the pinned one decoded it to P0, see below) *)
Theorem C05_example_reject : forall k, skels_ok k = true -> forall t, gen yw_defn yw_opts = Built t ->
  decode_yaml_sk k t yw_garbage = None.
Proof. exact garbage_rejected. Qed.

(* the literal null holds neither a name nor a trait value: rejected outright.  Before fix
   C05-json-null-rejected json.Unmarshal's no-op readings "" / 0 of null were tried: for P0/P1/P2 with the
   parsable trait Code = 0/7/9, null decoded to P0 *)
Theorem C05_reject_json_null : forall k, skels_ok k = true -> forall t jv, jv_null jv = true -> decode_json_sk k t jv = None.
Proof. exact decode_json_null_sk. Qed.
Theorem C05_reject_json_null_orig_refuted :
  exists t, gen yw_defn yw_opts = Built t
            /\ decode_json_nullok t null_view = Some 0 /\ decode_json t null_view = None.
Proof. exact decode_null_refuted. Qed.

(* a YAML sequence or mapping node holds no scalar (yaml.v3 hands it to UnmarshalYAML with Value ""):
   a well-formed decoder checks the node kind first (fix C05-yaml-nonscalar-rejected, 7d1071e) and refuses it.
   Before the fix the document `[1, 2]` decoded to the value whose parsable string trait is "" *)
Theorem C05_reject_yaml_nonscalar : forall k, skels_ok k = true ->
  forall t yv, yv_scalar yv = false -> decode_yaml_sk k t yv = None.
Proof. exact decode_yaml_nonscalar_sk. Qed.
Theorem C05_reject_yaml_nonscalar_orig_refuted :
  exists t, gen es_defn es_opts = Built t
            /\ decode_yaml_anykind t es_seq = Some 0 /\ decode_yaml t es_seq = None.
Proof. exact decode_yaml_anykind_refuted. Qed.

(* integer readings always fit the 64-bit trait kinds; for narrower trait types the decoders check
   that the conversion is lossless before calling Parse<T> (reading: conv_int … z = z) *)
Theorem C05_no_narrowing_64 : forall b x,
  (In b [BUntypedInt; BInt; BInt64] -> - 2 ^ 63 <= x < 2 ^ 63 -> conv_int b x = x) /\
  (In b [BUint; BUint64] -> 0 <= x < 2 ^ 64 -> conv_int b x = x).
Proof. exact conv_int_id_64. Qed.

(* before fix C05-numeric-trait-range-check the integer fallbacks converted with Go's wrapping
   conversion: for a parsable uint8 trait Code = 1/2 the number 257 (not a trait value) decoded to
   the value whose Code is 1 — silently mapped.  The current decoders reject 257 and accept 1, 2;
   and in C05_reject_* an integer reading now counts only when it fits the trait's type. *)
Theorem C05_reject_narrow_norc_refuted :
  exists t, gen nw_defn nw_opts = Built t
            /\ decode_json_norc t (nw_json 257) = Some 0 /\ decode_yaml_norc t (nw_yaml 257) = Some 0
            /\ decode_json t (nw_json 257) = None /\ decode_yaml t (nw_yaml 257) = None
            /\ decode_json t (nw_json 1) = Some 0 /\ decode_yaml t (nw_yaml 2) = Some 1.
Proof. exact decode_norc_refuted. Qed.

(* non-vacuity of the hypotheses + the pinned code (before fix C05-yaml-numeric-fallback-guards,
   strconv guards `err != nil`): for P0/P1/P2 with parsable integer trait Code = 0/7/9 the YAML scalar
   `garbage` decoded to P0 and `7` was rejected; the repaired decoder rejects / accepts them *)
Theorem C05_reject_yaml_orig_refuted :
  exists t, gen yw_defn yw_opts = Built t
            /\ decode_yaml_orig t yw_garbage = Some 0 /\ decode_yaml_orig t yw_seven = None
            /\ decode_yaml t yw_garbage = None /\ decode_yaml t yw_seven = Some 1.
Proof. exact decode_yaml_orig_refuted. Qed.
(* the skeletons of those earlier decoders are not sound / not null-checked: the well-formedness
   predicate is what separates them from the current ones *)
Theorem C05_earlier_skeletons_rejected :
  steps_sound CoYAML (yaml_steps_gen2 false false CvTyped) = false
  /\ steps_sound CoYAML (yaml_steps_gen true CvTyped) = false
  /\ steps_sound CoJSON (json_steps_gen true CvTyped) = false
  /\ null_checked (json_steps_gen false CvChecked) = false.
Proof. exact yaml_orig_unsound. Qed.

Example C05_example_wf : wf_defn yw_defn.
Proof.
  split; [unfold ty_ok; simpl; split; discriminate|]. split.
  - repeat constructor.
  - repeat constructor; simpl; intuition discriminate.
Qed.

Print Assumptions C05_skels_current_ok.
Print Assumptions C05_rejectable_def.
Print Assumptions C05_example_reject.
Print Assumptions C05_reject_yaml_nonscalar.
Print Assumptions C05_reject_yaml_nonscalar_orig_refuted.
Print Assumptions C05_earlier_skeletons_rejected.
Print Assumptions C05_encode_json.
Print Assumptions C05_encode_text.
Print Assumptions C05_encode_yaml.
Print Assumptions C05_roundtrip_json.
Print Assumptions C05_roundtrip_text.
Print Assumptions C05_roundtrip_yaml.
Print Assumptions C05_reject_json.
Print Assumptions C05_reject_text.
Print Assumptions C05_reject_yaml.
Print Assumptions C05_reject_json_null.
Print Assumptions C05_reject_json_null_orig_refuted.
Print Assumptions C05_no_narrowing_64.
Print Assumptions C05_reject_narrow_norc_refuted.
Print Assumptions C05_reject_yaml_orig_refuted.
