(* C05 — placeholder while the proofs are being written. *)
From GT Require Import GEnumModel GEnumProofs.
Theorem C05_placeholder : True. Proof. exact I. Qed.
