(* C18 — log: context loggers keep fields and levels across any call sequence; concurrent
   WithFields/SetLevel lose nothing.
   Property theorems only; every proof is `exact <lemma of LogCtxProofs>`.
   The model (LogCtxModel.v) mirrors log/context_utils.go and log/custom_level.go of the
   repaired tree (fixes C18-level-kept-by-with, C18-cas-retry-lost-update) and zap as far as
   the property sees it; it is tied to the code by ./check C18 (sequences through a zaptest
   observer core, schedule replay on the instrumented source, translator tie of the atomic
   operation lists).  The pinned behaviour is kept as `…_orig` with its refutations.          *)
From Coq Require Import ZArith List Bool Permutation.
From GT Require Import Base.LogConc.
From GT Require Import Base.LogConcProofs.
From GT Require Import LogCtxModel LogCtxProofs LogCtxJudge LogCtxJudgeProofs.
Import ListNotations.
Local Open Scope Z_scope.

(* ------------------------------------------------------------------ sequential part *)
(* for every global logger, every sequence of InitLogger / ChildLogger / WithFields / SetLevel /
   EnableDebug / context derivations of any length over the growing tree of contexts, every
   context c and every level l:  Log(c) at level l captures exactly what the specification
   says — one entry with exactly the fields accumulated on c's holder (inherited at creation
   plus every WithFields through any context sharing it, nothing from forks) iff l is at or
   above the level most recently set on that holder (or inherited), and nothing otherwise.   *)
Theorem C18_seq : forall (g : core) (ops : list op) (c : nat) (l : level),
  emit (log_of (run core_with g ops) c) l = semit (slogger_of (srun (abs g) ops) c) l.
Proof. exact seq_refines. Qed.

(* the same for the complete table observed by the correspondence run (every context at every
   level before the first and after every operation) *)
Theorem C18_seq_table : forall (g : core) (ops : list op),
  run_obs core_with (init g) ops = srun_obs (sinit (abs g)) ops.
Proof. exact run_obs_refines. Qed.

(* what the specification says, operation by operation: holders are untouched by operations
   aimed at other holders and by every fork (InitLogger / ChildLogger / derivation) … *)
Theorem C18_spec_frame : forall ss o h, (h < length (sstore ss))%nat -> targets ss o <> Some h ->
  nth h (sstore (sstep ss o)) (sglob ss) = nth h (sstore ss) (sglob ss).
Proof. exact spec_frame. Qed.

(* … WithFields through any context sharing holder h appends its fields and keeps the level … *)
Theorem C18_spec_with : forall ss c fs h, sholder_of ss c = Some h -> (h < length (sstore ss))%nat ->
  nth h (sstore (sstep ss (OWith c fs))) (sglob ss)
  = (fst (nth h (sstore ss) (sglob ss)) ++ fs, snd (nth h (sstore ss) (sglob ss))).
Proof. exact spec_with. Qed.

(* … SetLevel replaces the level and keeps the fields … *)
Theorem C18_spec_setlevel : forall ss c l h, sholder_of ss c = Some h -> (h < length (sstore ss))%nat ->
  nth h (sstore (sstep ss (OSetLevel c l))) (sglob ss) = (fst (nth h (sstore ss) (sglob ss)), l).
Proof. exact spec_setlevel. Qed.

(* … and ChildLogger starts from the parent's fields and level. *)
Theorem C18_spec_child : forall ss c fs,
  slogger_of (sstep ss (OChild c fs)) (length (sctxs ss))
  = (fst (slogger_of ss c) ++ fs, snd (slogger_of ss c)).
Proof. exact spec_child. Qed.

(* non-vacuity: level set, then fields added through a sharing context, then a fork *)
Example C18_example_seq :
  let ops := [OInit 0 [1%N]; OEnableDebug 1; ODerive 2; OWith 3 [2%N]; OChild 4 [3%N]; OSetLevel 5 2] in
  emit (log_of (run core_with (Base 0 []) ops) 1) (-1) = [[1%N; 2%N]]
  /\ emit (log_of (run core_with (Base 0 []) ops) 5) (-1) = []
  /\ emit (log_of (run core_with (Base 0 []) ops) 5) 2 = [[1%N; 2%N; 3%N]]
  /\ emit (log_of (run core_with (Base 0 []) ops) 0) (-1) = [].
Proof. vm_compute. repeat split. Qed.

(* beyond the property's operation list: the global logger replaced between operations
   (OSetGlobal, zap.ReplaceGlobals).  C18_seq covers such sequences too: holder-less contexts
   follow the new global, holders created earlier keep what they inherited, InitLogger after
   the replacement inherits from the new global. *)
Example C18_example_global :
  let ops := [OInit 0 [1%N]; OSetGlobal (Base (-1) [7%N]); OWith 1 [2%N]; OInit 0 [3%N]] in
  emit (log_of (run core_with (Base 1 []) ops) 0) (-1) = [[7%N]]
  /\ emit (log_of (run core_with (Base 1 []) ops) 1) 0 = []
  /\ emit (log_of (run core_with (Base 1 []) ops) 1) 1 = [[1%N; 2%N]]
  /\ emit (log_of (run core_with (Base 1 []) ops) 4) (-1) = [[7%N; 3%N]].
Proof. vm_compute. repeat split. Qed.

(* the pinned code (wrapper core without its own With) violates C18_seq — kept as a record *)
Theorem C18_seq_orig_refuted : exists g ops c l,
  emit (log_of (run core_with_orig g ops) c) l <> semit (slogger_of (srun (abs g) ops) c) l.
Proof.
  exists (Base 0 []), seq_witness, 1%nat, (-1). destruct seq_orig_witness as [E1 E2].
  rewrite E1, E2. discriminate.
Qed.

(* ------------------------------------------------------------------ concurrent part *)
(* WithFields / SetLevel as micro-steps  Load; CompareAndSwap (retry from the Load on failure)
   on the holder shared by the contexts — the programs [prog_withfields], [prog_setlevel] that
   the translator regenerates from log/context_utils.go on every check.
   For ANY initial logger, ANY number of goroutines with ANY operation lists and ANY schedule
   (list of thread ids, one atomic operation per step): once all goroutines have returned,
   - the operations linearised at their successful CompareAndSwap are a permutation of all
     requested operations (none lost, none applied twice),
   - the logger's fields are the initial ones followed by a permutation of all added fields,
   - its level is the one of the last linearised SetLevel (the initial one if there is none),
   - and a log call captures exactly that, at every level.                                    *)
Theorem C18_conc : forall (c0 : core) (progs : list (list cop)) (sched : list nat) st tr,
  crun (cinit c0 progs) sched = (st, tr) -> all_returned cop core st = true ->
  (exists added, Permutation added (flat_map cop_fields (concat progs))
                 /\ cfields (snd (m_cell st)) = cfields c0 ++ added)
  /\ Permutation (untag cop tr) (concat progs)
  /\ clevel (snd (m_cell st)) = lin_level (untag cop tr) (clevel c0)
  /\ forall l, emit (snd (m_cell st)) l
               = semit (cfields c0 ++ flat_map cop_fields (untag cop tr),
                        lin_level (untag cop tr) (clevel c0)) l.
Proof. exact conc_nothing_lost. Qed.

(* linearisability proper: the final logger is the sequential specification applied to all
   operations in linearisation order, and that order keeps every goroutine's own order *)
Theorem C18_conc_linearisable : forall c0 progs sched st tr,
  crun (cinit c0 progs) sched = (st, tr) -> all_returned cop core st = true ->
  Permutation (untag cop tr) (concat progs)
  /\ (forall t, ops_of cop t tr = nth t progs [])
  /\ abs (snd (m_cell st)) = fold_left sapply (untag cop tr) (abs c0).
Proof. exact conc_linearisable. Qed.

(* and at every intermediate moment of every schedule the logger is the specification applied
   to the operations linearised so far, each of them requested and none twice *)
Theorem C18_conc_prefix : forall c0 progs sched st tr,
  crun (cinit c0 progs) sched = (st, tr) ->
  abs (snd (m_cell st)) = fold_left sapply (untag cop tr) (abs c0)
  /\ exists rest, Permutation (untag cop tr ++ rest) (concat progs).
Proof. exact conc_prefix. Qed.

(* ------------------------------------------------------------------ progress *)
(* reachable state = state after any schedule from the initial one.  [cops_of t st] are the
   operations thread t has not completed yet, [occ t sched] how often sched schedules t.
   Lock-freedom: in any stretch of any schedule that gives a goroutine with a pending
   WithFields/SetLevel three micro-steps, that call takes effect — or another goroutine's
   call does: the system as a whole always makes progress.                                  *)
Theorem C18_conc_progress_lockfree : forall c0 progs sched0 st tr0 t o rest sched st' tr',
  crun (cinit c0 progs) sched0 = (st, tr0) ->
  cops_of t st = o :: rest -> (3 <= occ t sched)%nat ->
  crun st sched = (st', tr') ->
  In (t, o) tr' \/ exists t' o', t' <> t /\ In (t', o') tr'.
Proof. exact conc_lockfree. Qed.

(* Obstruction-freedom of the retry loop: if no OTHER goroutine's call takes effect in a
   stretch that gives t three micro-steps (others may load, fail, or do nothing), t's call
   completes within it — at most: failed CompareAndSwap, Load, CompareAndSwap.               *)
Theorem C18_conc_progress_obstruction_free : forall c0 progs sched0 st tr0 t o rest sched st' tr',
  crun (cinit c0 progs) sched0 = (st, tr0) ->
  cops_of t st = o :: rest -> (3 <= occ t sched)%nat ->
  crun st sched = (st', tr') ->
  (forall e, In e tr' -> fst e = t) ->
  In (t, o) tr'.
Proof. exact conc_obstruction_free. Qed.

(* running alone, a call completes within three of its own micro-steps *)
Theorem C18_conc_progress_solo : forall c0 progs sched0 st tr0 t o rest st' tr',
  crun (cinit c0 progs) sched0 = (st, tr0) ->
  cops_of t st = o :: rest ->
  crun st (repeat t 3) = (st', tr') -> In (t, o) tr'.
Proof. exact conc_solo. Qed.

(* a failed CompareAndSwap is somebody else's success: from the Load of a call to its next
   CompareAndSwap, whatever is scheduled in between, either the CompareAndSwap succeeds or a
   call of another goroutine was linearised since the Load *)
Theorem C18_conc_progress_failed_cas : forall c0 progs sched0 st tr0 t th o rest mid st' tr',
  crun (cinit c0 progs) sched0 = (st, tr0) ->
  nth_error (m_threads st) t = Some th -> t_ops th = o :: rest -> t_pc th = 0%nat ->
  crun st (t :: mid ++ [t]) = (st', tr') ->
  In (t, o) tr' \/ exists t' o', t' <> t /\ In (t', o') tr'.
Proof. exact conc_failed_cas. Qed.

(* non-vacuity of the progress hypotheses: a reachable state in which thread 0 holds a stale
   pointer (thread 1 updated after its Load) and still has its call pending *)
Example C18_example_progress :
  let st := fst (crun (cinit (Base 0 []) [[CWith [1%N]]; [CWith [2%N]]]) [0; 1; 1]%nat) in
  cops_of 0 st = [CWith [1%N]]
  /\ snd (crun st [0; 0; 0]%nat) = [(0%nat, CWith [1%N])]
  /\ snd (crun st [0; 0]%nat) = [].
Proof. vm_compute. repeat split. Qed.

(* ------------------------------------------------------------------ the judge's predicate *)
(* [final_ok] is what ./check C18 applies to the final probe of the REAL code after a replayed
   or free-running concurrent run (LogCtxJudge.v).  It is a consequence of the theorems above:
   for every initial logger, program set and schedule (levels Debug..Error, the property's
   quantifier) with all goroutines returned, every probe showing the model's final logger
   passes it.  So a verdict 1 means the real code left the set of behaviours the proved model
   can show — never a demand beyond the property.                                            *)
Theorem C18_judge_final_ok_sound : forall c0 progs sched st tr final,
  crun (cinit c0 progs) sched = (st, tr) -> all_returned cop core st = true ->
  clevel c0 <= 2 -> (forall p l, In p progs -> In (CSetLevel l) p -> l <= 2) ->
  expand final = probe (snd (m_cell st)) ->
  final_ok c0 progs final = true.
Proof. exact final_ok_sound. Qed.

(* the sequential judge compares with [srun_obs] itself, which C18_seq_table proves equal to
   the model's table; nothing further is needed there *)

(* non-vacuity: three goroutines, a schedule with failing CompareAndSwaps, all return *)
Example C18_example_conc :
  let r := crun (cinit (Wrap (Base 0 [9%N]) 1) [[CWith [1%N]; CSetLevel (-1)]; [CWith [2%N]]; [CWith []; CWith [3%N]]])
                [0; 1; 2; 1; 0; 2; 0; 0; 2; 2; 0; 0; 2; 2]%nat in
  all_returned cop core (fst r) = true
  /\ snd r = [(1%nat, CWith [2%N]); (0%nat, CWith [1%N]); (2%nat, CWith []); (0%nat, CSetLevel (-1));
              (2%nat, CWith [3%N])]
  /\ abs (snd (m_cell (fst r))) = ([9%N; 2%N; 1%N; 3%N], -1).
Proof. vm_compute. repeat split. Qed.

(* the pinned code (Load; Store) loses a field under the schedule T0 T1 T0 T1 … *)
Theorem C18_conc_orig_refuted : exists c0 progs sched,
  let r := crun_orig (cinit c0 progs) sched in
  all_returned cop core (fst r) = true
  /\ ~ (exists added, Permutation added (flat_map cop_fields (concat progs))
                      /\ cfields (snd (m_cell (fst r))) = cfields c0 ++ added).
Proof.
  exists (Base 0 []), conc_witness_progs, conc_witness_sched.
  destruct conc_orig_witness as [Hret Hf]. split; [exact Hret|].
  intros (added & Hp & He). rewrite Hf in He. cbn in He. subst added.
  apply Permutation_length in Hp. discriminate.
Qed.

(* … and a level change under T0 T1 T1 T0 *)
Theorem C18_conc_orig_level_refuted : exists c0 progs sched,
  let r := crun_orig (cinit c0 progs) sched in
  all_returned cop core (fst r) = true
  /\ clevel (snd (m_cell (fst r))) <> lin_level (untag cop (snd r)) (clevel c0).
Proof.
  exists (Base 0 []), conc_witness2_progs, conc_witness2_sched.
  destruct conc_orig_witness2 as (Hret & Hl & Htr). split; [exact Hret|].
  rewrite Hl, Htr. discriminate.
Qed.

Print Assumptions C18_seq.
Print Assumptions C18_seq_table.
Print Assumptions C18_spec_frame.
Print Assumptions C18_spec_with.
Print Assumptions C18_spec_setlevel.
Print Assumptions C18_spec_child.
Print Assumptions C18_seq_orig_refuted.
Print Assumptions C18_conc.
Print Assumptions C18_conc_linearisable.
Print Assumptions C18_conc_prefix.
Print Assumptions C18_conc_orig_refuted.
Print Assumptions C18_conc_orig_level_refuted.
Print Assumptions C18_conc_progress_lockfree.
Print Assumptions C18_conc_progress_obstruction_free.
Print Assumptions C18_conc_progress_solo.
Print Assumptions C18_conc_progress_failed_cas.
Print Assumptions C18_judge_final_ok_sound.
