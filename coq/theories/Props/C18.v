(* C18 — log: context loggers keep fields and levels across any call sequence; concurrent
   WithFields/SetLevel lose nothing.
   Property theorems only; every proof is `exact <lemma of LogCtxProofs>`.
   The model (LogCtxModel.v) mirrors log/context_utils.go and log/custom_level.go of the
   repaired tree (fixes C18-level-kept-by-with, C18-cas-retry-lost-update) and zap as far as
   the property sees it; it is tied to the code by ./check C18 (sequences through a zaptest
   observer core, schedule replay on the instrumented source, translator tie of the atomic
   operation lists).  The pinned behaviour is kept as `…_orig` with its refutations.          *)
From Coq Require Import ZArith List Bool Permutation.
From GT Require Import Base.LogConc.
From GT Require Import Base.LogConcProofs.
From GT Require Import Base.LogConcCfg.
From GT Require Import Base.LogConcCfgProofs.
From GT Require Import LogCtxModel LogCtxProofs LogCtxJudge LogCtxJudgeProofs.
Import ListNotations.
Local Open Scope Z_scope.

(* ------------------------------------------------------------------ sequential part *)
(* for every global logger, every sequence of InitLogger / ChildLogger / WithFields / SetLevel /
   EnableDebug / context derivations of any length over the growing tree of contexts, every
   context c and every level l:  Log(c) at level l captures exactly what the specification
   says — one entry with exactly the fields accumulated on c's holder (inherited at creation
   plus every WithFields through any context sharing it, nothing from forks) iff l is at or
   above the level most recently set on that holder (or inherited), and nothing otherwise.   *)
Theorem C18_seq : forall (g : core) (ops : list op) (c : nat) (l : level),
  emit (log_of (run core_with g ops) c) l = semit (slogger_of (srun (abs g) ops) c) l.
Proof. exact seq_refines. Qed.

(* the same for the complete table observed by the correspondence run (every context at every
   level before the first and after every operation) *)
Theorem C18_seq_table : forall (g : core) (ops : list op),
  run_obs core_with (init g) ops = srun_obs (sinit (abs g)) ops.
Proof. exact run_obs_refines. Qed.

(* what the specification says, operation by operation: holders are untouched by operations
   aimed at other holders and by every fork (InitLogger / ChildLogger / derivation) … *)
Theorem C18_spec_frame : forall ss o h, (h < length (sstore ss))%nat -> targets ss o <> Some h ->
  nth h (sstore (sstep ss o)) (sglob ss) = nth h (sstore ss) (sglob ss).
Proof. exact spec_frame. Qed.

(* … WithFields through any context sharing holder h appends its fields and keeps the level … *)
Theorem C18_spec_with : forall ss c fs h, sholder_of ss c = Some h -> (h < length (sstore ss))%nat ->
  nth h (sstore (sstep ss (OWith c fs))) (sglob ss)
  = (fst (nth h (sstore ss) (sglob ss)) ++ fs, snd (nth h (sstore ss) (sglob ss))).
Proof. exact spec_with. Qed.

(* … SetLevel replaces the level and keeps the fields … *)
Theorem C18_spec_setlevel : forall ss c l h, sholder_of ss c = Some h -> (h < length (sstore ss))%nat ->
  nth h (sstore (sstep ss (OSetLevel c l))) (sglob ss) = (fst (nth h (sstore ss) (sglob ss)), l).
Proof. exact spec_setlevel. Qed.

(* … and ChildLogger starts from the parent's fields and level. *)
Theorem C18_spec_child : forall ss c fs,
  slogger_of (sstep ss (OChild c fs)) (length (sctxs ss))
  = (fst (slogger_of ss c) ++ fs, snd (slogger_of ss c)).
Proof. exact spec_child. Qed.

(* non-vacuity: level set, then fields added through a sharing context, then a fork *)
Example C18_example_seq :
  let ops := [OInit 0 [1%N]; OEnableDebug 1; ODerive 2; OWith 3 [2%N]; OChild 4 [3%N]; OSetLevel 5 2] in
  emit (log_of (run core_with (Base 0 []) ops) 1) (-1) = [[1%N; 2%N]]
  /\ emit (log_of (run core_with (Base 0 []) ops) 5) (-1) = []
  /\ emit (log_of (run core_with (Base 0 []) ops) 5) 2 = [[1%N; 2%N; 3%N]]
  /\ emit (log_of (run core_with (Base 0 []) ops) 0) (-1) = [].
Proof. vm_compute. repeat split. Qed.

(* beyond the property's operation list: the global logger replaced between operations
   (OSetGlobal, zap.ReplaceGlobals).  C18_seq covers such sequences too: holder-less contexts
   follow the new global, holders created earlier keep what they inherited, InitLogger after
   the replacement inherits from the new global. *)
Example C18_example_global :
  let ops := [OInit 0 [1%N]; OSetGlobal (Base (-1) [7%N]); OWith 1 [2%N]; OInit 0 [3%N]] in
  emit (log_of (run core_with (Base 1 []) ops) 0) (-1) = [[7%N]]
  /\ emit (log_of (run core_with (Base 1 []) ops) 1) 0 = []
  /\ emit (log_of (run core_with (Base 1 []) ops) 1) 1 = [[1%N; 2%N]]
  /\ emit (log_of (run core_with (Base 1 []) ops) 4) (-1) = [[7%N; 3%N]].
Proof. vm_compute. repeat split. Qed.

(* ------------------------------------------------------------------ the wrapper core, method by method *)
(* customLevelCoreWrapper (log/custom_level.go) over any core, nested to any depth.
   Enabled consults only the receiver's own threshold ... *)
Theorem C18_wrapper_enabled : forall c l, enabled c l = (core_level c <=? l).
Proof. exact enabled_level. Qed.

(* ... Check adds the wrapper ITSELF to the checked entry iff that threshold admits the level ... *)
Theorem C18_wrapper_check : forall c m l, check (Wrap c m) l = if m <=? l then [Wrap c m] else [].
Proof. exact check_wrap. Qed.

(* ... Write and Sync are the embedded core's (promoted): they reach the innermost core, no
   threshold in between is consulted ... *)
Theorem C18_wrapper_write_sync : forall c extra, write c extra = write (sink c) extra.
Proof. exact write_sink. Qed.

(* ... and With keeps every wrapper, in order, and appends to the innermost core. *)
Theorem C18_wrapper_with : forall ms c fs,
  core_with (wrap_all c ms) fs = wrap_all (core_with c fs) ms
  /\ sink (core_with (wrap_all c ms) fs) = core_with (sink (wrap_all c ms)) fs.
Proof. intros ms c fs. split; [apply core_with_wrap_all | apply sink_core_with]. Qed.

(* Level filtering composes through ANY nest of wrappers (SetLevel after SetLevel after ...):
   a log call emits exactly one entry with the fields of the innermost core iff its level is at
   or above the MOST RECENT threshold; the thresholds underneath, and the base core's own,
   neither block nor admit anything. *)
Theorem C18_nested_levels : forall c ms l,
  emit (wrap_all c ms) l = semit (cfields c, last ms (clevel c)) l.
Proof. exact emit_wrap_all. Qed.

(* raise after lower: Debug..hi-1 are silent again although a lower threshold lies underneath *)
Theorem C18_raise_after_lower : forall c lo hi l, l < hi -> emit (Wrap (Wrap c lo) hi) l = [].
Proof. exact raise_after_lower. Qed.

(* lower after raise: the higher threshold underneath does not block *)
Theorem C18_lower_after_raise : forall c lo hi l, lo <= l -> emit (Wrap (Wrap c hi) lo) l = [cfields c].
Proof. exact lower_after_raise. Qed.

Example C18_example_nested :
  emit (wrap_all (Base 1 [7%N]) [-1; 2; 0]) (-1) = []
  /\ emit (wrap_all (Base 1 [7%N]) [-1; 2; 0]) 0 = [[7%N]]
  /\ emit (core_with (wrap_all (Base 1 [7%N]) [2; -1]) [8%N]) (-1) = [[7%N; 8%N]]
  /\ emit (Wrap (Wrap (Base 0 []) (-1)) 2) 1 = [].
Proof. vm_compute. repeat split. Qed.

(* fields accumulate in call order, and a field added twice is emitted twice (zap does not
   deduplicate keys: "exactly the fields accumulated") *)
Theorem C18_with_order : forall c fs1 fs2,
  cfields (core_with (core_with c fs1) fs2) = cfields c ++ fs1 ++ fs2.
Proof. exact with_order. Qed.

Theorem C18_duplicates_kept : forall c fs k,
  count_occ N.eq_dec (cfields (core_with c fs)) k
  = (count_occ N.eq_dec (cfields c) k + count_occ N.eq_dec fs k)%nat.
Proof. exact with_count. Qed.

(* ------------------------------------------------------------------ holder-less contexts, InitLogger *)
(* Log(ctx) on a context that carries no holder is the global logger of the moment *)
Theorem C18_log_fallback : forall st c, holder_of st c = None -> log_of st c = glob st.
Proof. exact log_fallback. Qed.

(* WithFields / SetLevel / EnableDebug through a holder-less context, in any reachable state:
   the global logger is untouched, no existing context changes, only the RETURNED context
   carries the derived logger *)
Theorem C18_default_holder_isolated : forall g ops c f,
  let st := run core_with g ops in
  holder_of st c = None ->
  glob (update st c f) = glob st
  /\ (forall c', (c' < length (ctxs st))%nat -> logger_of (update st c f) c' = logger_of st c')
  /\ logger_of (update st c f) (length (ctxs st)) = f (glob st).
Proof. exact default_holder_isolated. Qed.

(* InitLogger ignores whatever logger the given context carries *)
Theorem C18_init_ignores_context : forall st c fs,
  log_of (step core_with st (OInit c fs)) (length (ctxs st)) = logger_with core_with (glob st) fs.
Proof. exact init_ignores_context. Qed.

(* the pinned code (wrapper core without its own With) violates C18_seq — kept as a record *)
Theorem C18_seq_orig_refuted : exists g ops c l,
  emit (log_of (run core_with_orig g ops) c) l <> semit (slogger_of (srun (abs g) ops) c) l.
Proof. exact seq_orig_refuted. Qed.

(* ------------------------------------------------------------------ concurrent part *)
(* WithFields / SetLevel as micro-steps  Load; CompareAndSwap (retry from the Load on failure)
   on the holder shared by the contexts — the programs [prog_withfields], [prog_setlevel] that
   the translator regenerates from log/context_utils.go on every check.
   For ANY initial logger, ANY number of goroutines with ANY operation lists and ANY schedule
   (list of thread ids, one atomic operation per step): once all goroutines have returned,
   - the operations linearised at their successful CompareAndSwap are a permutation of all
     requested operations (none lost, none applied twice),
   - the logger's fields are the initial ones followed by a permutation of all added fields,
   - its level is the one of the last linearised SetLevel (the initial one if there is none),
   - and a log call captures exactly that, at every level.                                    *)
Theorem C18_conc : forall (c0 : core) (progs : list (list cop)) (sched : list nat) st tr,
  crun (cinit c0 progs) sched = (st, tr) -> all_returned cop core st = true ->
  (exists added, Permutation added (flat_map cop_fields (concat progs))
                 /\ cfields (snd (m_cell st)) = cfields c0 ++ added)
  /\ Permutation (untag cop tr) (concat progs)
  /\ clevel (snd (m_cell st)) = lin_level (untag cop tr) (clevel c0)
  /\ forall l, emit (snd (m_cell st)) l
               = semit (cfields c0 ++ flat_map cop_fields (untag cop tr),
                        lin_level (untag cop tr) (clevel c0)) l.
Proof. exact conc_nothing_lost. Qed.

(* linearisability proper: the final logger is the sequential specification applied to all
   operations in linearisation order, and that order keeps every goroutine's own order *)
Theorem C18_conc_linearisable : forall c0 progs sched st tr,
  crun (cinit c0 progs) sched = (st, tr) -> all_returned cop core st = true ->
  Permutation (untag cop tr) (concat progs)
  /\ (forall t, ops_of cop t tr = nth t progs [])
  /\ abs (snd (m_cell st)) = fold_left sapply (untag cop tr) (abs c0).
Proof. exact conc_linearisable. Qed.

(* and at every intermediate moment of every schedule the logger is the specification applied
   to the operations linearised so far, each of them requested and none twice *)
Theorem C18_conc_prefix : forall c0 progs sched st tr,
  crun (cinit c0 progs) sched = (st, tr) ->
  abs (snd (m_cell st)) = fold_left sapply (untag cop tr) (abs c0)
  /\ exists rest, Permutation (untag cop tr ++ rest) (concat progs).
Proof. exact conc_prefix. Qed.

(* ------------------------------------------------------------------ ChildLogger among the updates *)
(* goroutines may mix WithFields / SetLevel / ChildLogger on contexts sharing one holder
   (CChild: one Load; the child gets a fresh holder).  A ChildLogger call starts from EXACTLY
   the sequential state after a prefix of the linearisation ([crun_vals]: the shared logger at
   each linearisation point): its logger emits the initial fields, the fields of the updates
   linearised before its Load, then its own, at the level of the last SetLevel among them ... *)
Theorem C18_conc_child : forall c0 progs sched st tr i t fs,
  crun (cinit c0 progs) sched = (st, tr) -> nth_error tr i = Some (t, CChild fs) ->
  exists seen, nth_error (crun_vals (cinit c0 progs) sched) i = Some seen
    /\ abs seen = fold_left sapply (untag cop (firstn i tr)) (abs c0)
    /\ forall l, emit (logger_with core_with seen fs) l
                 = semit (add_fields fs (fold_left sapply (untag cop (firstn i tr)) (abs c0))) l.
Proof. exact conc_child_sees_prefix. Qed.

(* ... and that prefix holds every earlier operation of its own goroutine and none of the later *)
Theorem C18_conc_child_program_order : forall c0 progs sched st tr i t fs,
  crun (cinit c0 progs) sched = (st, tr) -> all_returned cop core st = true ->
  nth_error tr i = Some (t, CChild fs) ->
  nth t progs [] = ops_of cop t (firstn i tr) ++ CChild fs :: ops_of cop t (skipn (S i) tr).
Proof. exact conc_child_program_order. Qed.

(* non-vacuity: the child of goroutine 1 is created between goroutine 0's Load and its
   CompareAndSwap: it has goroutine 1's earlier field, not goroutine 0's *)
Example C18_example_child :
  let progs := [[CWith [1%N]; CChild [5%N]]; [CWith [2%N]; CChild [6%N]]] in
  let sched := [0; 1; 1; 1; 0; 0; 0; 0]%nat in
  all_returned cop core (fst (crun (cinit (Base 0 [9%N]) progs) sched)) = true
  /\ map (fun x => (fst x, cfields (snd x))) (crun_children (cinit (Base 0 [9%N]) progs) sched)
     = [((1, 1)%nat, [9%N; 2%N; 6%N]); ((0, 1)%nat, [9%N; 2%N; 1%N; 5%N])].
Proof. vm_compute. repeat split. Qed.

(* ------------------------------------------------------------------ a sequential tail *)
(* calls made after all the concurrent ones have returned (the tail: one more goroutine that is
   scheduled only then) take effect after everything else, in their order: the final logger is
   the tail applied to the outcome of the parallel part, whose trace is a complete linearisation
   of the parallel programs.  In particular a SetLevel issued afterwards always wins. *)
Theorem C18_conc_tail : forall c0 progs tail s1 s2 st1 tr1 st2 tr2,
  crun (cinit c0 (progs ++ [tail])) s1 = (st1, tr1) -> crun st1 s2 = (st2, tr2) ->
  (forall t, In t s1 -> (t < length progs)%nat) ->
  (forall t, (t < length progs)%nat -> cops_of t st1 = []) ->
  all_returned cop core st2 = true ->
  untag cop tr2 = tail
  /\ Permutation (untag cop tr1) (concat progs)
  /\ (forall t, ops_of cop t tr1 = nth t progs [])
  /\ abs (snd (m_cell st2)) = fold_left sapply tail (fold_left sapply (untag cop tr1) (abs c0)).
Proof. exact conc_tail. Qed.

(* non-vacuity: two overlapping SetLevel calls (the first to load loses its CompareAndSwap and
   retries, so its level ends up on top), then SetLevel to the loser's level once more *)
Example C18_example_tail :
  let r := crun (cinit (Base 0 []) ([[CSetLevel 1]; [CSetLevel 2]] ++ [[CSetLevel 2]]))
                ([0; 1; 1; 0; 0; 0] ++ [2; 2])%nat in
  all_returned cop core (fst r) = true /\ clevel (snd (m_cell (fst r))) = 2
  /\ clevel (snd (m_cell (fst (crun (cinit (Base 0 []) [[CSetLevel 1]; [CSetLevel 2]; []]) [0; 1; 1; 0; 0; 0]%nat)))) = 1.
Proof. vm_compute. repeat split. Qed.

(* ------------------------------------------------------------------ the tie to the source *)
(* ./check C18 regenerates from log/context_utils.go the control-flow graphs of the atomic
   operations of WithFields / SetLevel / ChildLogger (Base/LogConcCfg.v) and evaluates
   [prog_equiv] - a bisimulation check - against the programs of the theorems above.  For ANY
   graphs that pass it, the machine running them and the machine of the theorems are
   indistinguishable under EVERY schedule: same linearisation trace, same shared logger after
   every step, same goroutines returned.  Loop shape, helper extraction, unrolling do not matter. *)
Theorem C18_tie_sound : forall gp : cop -> list (ginstr fn),
  (forall o, prog_equiv fn fn_eqb (gp o) (hand_graph o) = true) ->
  forall c0 progs sched st tr, gcrun gp (cinit c0 progs) sched = (st, tr) ->
  exists st', crun (cinit c0 progs) sched = (st', tr)
              /\ m_cell st = m_cell st'
              /\ all_returned cop core st = all_returned cop core st'
              /\ gcrun_obs gp (cinit c0 progs) sched = crun_obs (cinit c0 progs) sched.
Proof. exact tie_sound. Qed.

(* hence: nothing is lost by the machine that runs the regenerated graphs *)
Theorem C18_conc_of_source : forall gp : cop -> list (ginstr fn),
  (forall o, prog_equiv fn fn_eqb (gp o) (hand_graph o) = true) ->
  forall c0 progs sched st tr,
  gcrun gp (cinit c0 progs) sched = (st, tr) -> all_returned cop core st = true ->
  (exists added, Permutation added (flat_map cop_fields (concat progs))
                 /\ cfields (snd (m_cell st)) = cfields c0 ++ added)
  /\ Permutation (untag cop tr) (concat progs)
  /\ (forall t, ops_of cop t tr = nth t progs [])
  /\ abs (snd (m_cell st)) = fold_left sapply (untag cop tr) (abs c0)
  /\ forall l, emit (snd (m_cell st)) l
               = semit (cfields c0 ++ flat_map cop_fields (untag cop tr),
                        lin_level (untag cop tr) (clevel c0)) l.
Proof. exact conc_nothing_lost_src. Qed.

(* the check accepts other spellings of the same machine and rejects different machines:
   `x := Load(); for !CAS(x, f x) { x = Load() }`, a retry loop unrolled once - accepted;
   Load; Store, a single attempt without retry, the wrong derivation - rejected *)
Example C18_example_tie :
  prog_equiv fn fn_eqb [GLoad 1; GCas FWith 3 2; GLoad 1] (hand_graph (CWith [])) = true
  /\ prog_equiv fn fn_eqb [GLoad 1; GCas FLevel 4 2; GLoad 3; GCas FLevel 4 0] (hand_graph (CSetLevel 0)) = true
  /\ prog_equiv fn fn_eqb [GLoad 1; GStore FWith 2] (hand_graph (CWith [])) = false
  /\ prog_equiv fn fn_eqb [GLoad 1; GCas FWith 2 2] (hand_graph (CWith [])) = false
  /\ prog_equiv fn fn_eqb [GLoad 1; GCas FLevel 2 0] (hand_graph (CWith [])) = false
  /\ prog_equiv fn fn_eqb [GLoad 1; GRead 2] (hand_graph (CChild [])) = false.
Proof. vm_compute. repeat split. Qed.

(* ------------------------------------------------------------------ progress *)
(* reachable state = state after any schedule from the initial one.  [cops_of t st] are the
   operations thread t has not completed yet, [occ t sched] how often sched schedules t.
   Lock-freedom: in any stretch of any schedule that gives a goroutine with a pending
   WithFields/SetLevel three micro-steps, that call takes effect — or another goroutine's
   call does: the system as a whole always makes progress.                                  *)
Theorem C18_conc_progress_lockfree : forall c0 progs sched0 st tr0 t o rest sched st' tr',
  crun (cinit c0 progs) sched0 = (st, tr0) ->
  cops_of t st = o :: rest -> (3 <= occ t sched)%nat ->
  crun st sched = (st', tr') ->
  In (t, o) tr' \/ exists t' o', t' <> t /\ In (t', o') tr'.
Proof. exact conc_lockfree. Qed.

(* Obstruction-freedom of the retry loop: if no OTHER goroutine's call takes effect in a
   stretch that gives t three micro-steps (others may load, fail, or do nothing), t's call
   completes within it — at most: failed CompareAndSwap, Load, CompareAndSwap.               *)
Theorem C18_conc_progress_obstruction_free : forall c0 progs sched0 st tr0 t o rest sched st' tr',
  crun (cinit c0 progs) sched0 = (st, tr0) ->
  cops_of t st = o :: rest -> (3 <= occ t sched)%nat ->
  crun st sched = (st', tr') ->
  (forall e, In e tr' -> fst e = t) ->
  In (t, o) tr'.
Proof. exact conc_obstruction_free. Qed.

(* running alone, a call completes within three of its own micro-steps *)
Theorem C18_conc_progress_solo : forall c0 progs sched0 st tr0 t o rest st' tr',
  crun (cinit c0 progs) sched0 = (st, tr0) ->
  cops_of t st = o :: rest ->
  crun st (repeat t 3) = (st', tr') -> In (t, o) tr'.
Proof. exact conc_solo. Qed.

(* a failed CompareAndSwap is somebody else's success: from the Load of a call to its next
   CompareAndSwap, whatever is scheduled in between, either the CompareAndSwap succeeds or a
   call of another goroutine was linearised since the Load *)
Theorem C18_conc_progress_failed_cas : forall c0 progs sched0 st tr0 t th o rest mid st' tr',
  crun (cinit c0 progs) sched0 = (st, tr0) ->
  nth_error (m_threads st) t = Some th -> t_ops th = o :: rest -> t_pc th = 0%nat ->
  crun st (t :: mid ++ [t]) = (st', tr') ->
  In (t, o) tr' \/ exists t' o', t' <> t /\ In (t', o') tr'.
Proof. exact conc_failed_cas. Qed.

(* non-vacuity of the progress hypotheses: a reachable state in which thread 0 holds a stale
   pointer (thread 1 updated after its Load) and still has its call pending *)
Example C18_example_progress :
  let st := fst (crun (cinit (Base 0 []) [[CWith [1%N]]; [CWith [2%N]]]) [0; 1; 1]%nat) in
  cops_of 0 st = [CWith [1%N]]
  /\ snd (crun st [0; 0; 0]%nat) = [(0%nat, CWith [1%N])]
  /\ snd (crun st [0; 0]%nat) = [].
Proof. vm_compute. repeat split. Qed.

(* ------------------------------------------------------------------ the judge's predicate *)
(* [final_ok] is what ./check C18 applies to the final probe of the REAL code after a replayed
   or free-running concurrent run (LogCtxJudge.v).  It is a consequence of the theorems above:
   for every initial logger, program set and schedule (levels Debug..Error, the property's
   quantifier) with all goroutines returned, every probe showing the model's final logger
   passes it.  So a verdict 1 means the real code left the set of behaviours the proved model
   can show — never a demand beyond the property.                                            *)
Theorem C18_judge_final_ok_sound : forall c0 progs sched st tr final,
  crun (cinit c0 progs) sched = (st, tr) -> all_returned cop core st = true ->
  clevel c0 <= 2 -> (forall p l, In p progs -> In (CSetLevel l) p -> l <= 2) ->
  expand final = probe (snd (m_cell st)) ->
  final_ok c0 progs final = true.
Proof. exact final_ok_sound. Qed.

(* with a sequential tail the judge applies [final_ok_tail]: initial fields, a permutation of
   the parallel part's fields (each goroutine's in its order), then the tail's fields in order;
   the level of the tail's last SetLevel if it has one - also a consequence of the theorems *)
Theorem C18_judge_final_ok_tail_sound : forall c0 progs tail s1 s2 st1 tr1 st2 tr2 final,
  crun (cinit c0 (progs ++ [tail])) s1 = (st1, tr1) -> crun st1 s2 = (st2, tr2) ->
  (forall t, In t s1 -> (t < length progs)%nat) ->
  (forall t, (t < length progs)%nat -> cops_of t st1 = []) ->
  all_returned cop core st2 = true ->
  clevel c0 <= 2 -> (forall p l, In p (progs ++ [tail]) -> In (CSetLevel l) p -> l <= 2) ->
  expand final = probe (snd (m_cell st2)) ->
  final_ok_tail c0 progs tail final = true.
Proof. exact final_ok_tail_sound. Qed.

(* the same for the children: every child the model creates, under any schedule, passes
   [children_ok] (initial fields, a sub-multiset of the added fields that contains everything
   its own goroutine added before, then its own fields; an admissible level) *)
Theorem C18_judge_children_ok_sound : forall c0 progs sched st tr (ch : list ((nat * nat) * cobs)),
  crun (cinit c0 progs) sched = (st, tr) -> all_returned cop core st = true ->
  clevel c0 <= 2 -> (forall p l, In p progs -> In (CSetLevel l) p -> l <= 2) ->
  Forall2 (fun a b => fst a = fst b /\ expand (snd a) = probe (snd b)) ch
          (crun_children (cinit c0 progs) sched) ->
  children_ok c0 progs ch = true.
Proof. exact children_ok_sound. Qed.

(* the sequential judge compares with [srun_obs] itself, which C18_seq_table proves equal to
   the model's table; nothing further is needed there *)

(* non-vacuity: three goroutines, a schedule with failing CompareAndSwaps, all return *)
Example C18_example_conc :
  let r := crun (cinit (Wrap (Base 0 [9%N]) 1) [[CWith [1%N]; CSetLevel (-1)]; [CWith [2%N]]; [CWith []; CWith [3%N]]])
                [0; 1; 2; 1; 0; 2; 0; 0; 2; 2; 0; 0; 2; 2]%nat in
  all_returned cop core (fst r) = true
  /\ snd r = [(1%nat, CWith [2%N]); (0%nat, CWith [1%N]); (2%nat, CWith []); (0%nat, CSetLevel (-1));
              (2%nat, CWith [3%N])]
  /\ abs (snd (m_cell (fst r))) = ([9%N; 2%N; 1%N; 3%N], -1).
Proof. vm_compute. repeat split. Qed.

(* the pinned code (Load; Store) loses a field under the schedule T0 T1 T0 T1 … *)
Theorem C18_conc_orig_refuted : exists c0 progs sched,
  let r := crun_orig (cinit c0 progs) sched in
  all_returned cop core (fst r) = true
  /\ ~ (exists added, Permutation added (flat_map cop_fields (concat progs))
                      /\ cfields (snd (m_cell (fst r))) = cfields c0 ++ added).
Proof. exact conc_orig_refuted. Qed.

(* … and a level change under T0 T1 T1 T0 *)
Theorem C18_conc_orig_level_refuted : exists c0 progs sched,
  let r := crun_orig (cinit c0 progs) sched in
  all_returned cop core (fst r) = true
  /\ clevel (snd (m_cell (fst r))) <> lin_level (untag cop (snd r)) (clevel c0).
Proof. exact conc_orig_level_refuted. Qed.

Print Assumptions C18_seq.
Print Assumptions C18_seq_table.
Print Assumptions C18_spec_frame.
Print Assumptions C18_spec_with.
Print Assumptions C18_spec_setlevel.
Print Assumptions C18_spec_child.
Print Assumptions C18_seq_orig_refuted.
Print Assumptions C18_conc.
Print Assumptions C18_conc_linearisable.
Print Assumptions C18_conc_prefix.
Print Assumptions C18_conc_orig_refuted.
Print Assumptions C18_conc_orig_level_refuted.
Print Assumptions C18_conc_progress_lockfree.
Print Assumptions C18_conc_progress_obstruction_free.
Print Assumptions C18_conc_progress_solo.
Print Assumptions C18_conc_progress_failed_cas.
Print Assumptions C18_judge_final_ok_sound.
Print Assumptions C18_judge_children_ok_sound.
Print Assumptions C18_judge_final_ok_tail_sound.
Print Assumptions C18_conc_tail.
Print Assumptions C18_wrapper_enabled.
Print Assumptions C18_wrapper_check.
Print Assumptions C18_wrapper_write_sync.
Print Assumptions C18_wrapper_with.
Print Assumptions C18_nested_levels.
Print Assumptions C18_raise_after_lower.
Print Assumptions C18_lower_after_raise.
Print Assumptions C18_with_order.
Print Assumptions C18_duplicates_kept.
Print Assumptions C18_log_fallback.
Print Assumptions C18_default_holder_isolated.
Print Assumptions C18_init_ignores_context.
Print Assumptions C18_conc_child.
Print Assumptions C18_conc_child_program_order.
Print Assumptions C18_tie_sound.
Print Assumptions C18_conc_of_source.
